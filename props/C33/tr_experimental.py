"""Translator for C33 (fail-closed).

translate(path)      experimental.py  ->  coq/C33/GenExperimental.v
    * initial value of the process-global flag,
    * the bodies of __init__/__enter__/__exit__ of the two context-manager classes as
      state transformers on (global flag g, attribute self.original),
    * every `check_*_enabled` function as one row of `gate_run`.
sites(repo_src_dirs) every call of a gate function anywhere in the package sources
                     ->  coq/C33/GenSites.v  (`gate_sites`, `foreign_flag_uses`).

Reading conventions (trusted): a method body is straight-line code; `global F` makes
assignments to F write the module global, without it they bind a local; `self.original`
is the only attribute; a `with` statement calls type(m).__enter__/__exit__ on the object the
expression returned and swallows the exception iff __exit__ returns a true value."""
import ast
import re
from pathlib import Path

from tr_common import ExprTr, HEADER, TranslatorError, find_class, parse_file, strip_doc

FLAG = "EXPERIMENTAL_FEATURES_ENABLED"
CLASSES = {"enable_experimental_features": "enable", "disable_experimental_features": "disable"}
FEATURE_GATES = {"Lists": "check_lists_enabled", "FunctionTensors": "check_function_tensors_enabled",
                 "CapturingClosures": "check_capturing_closures_enabled", "Modifiers": "check_modifiers_enabled"}
GATE_RE = re.compile(r"^check_(\w+)_enabled$")


def _coq_str(s: str) -> str:
    if '"' in s or "\\" in s or any(ord(c) > 126 or ord(c) < 32 for c in s):
        raise TranslatorError(f"string with special characters: {s!r}")
    return f'"{s}"%string'


def _method(cls: ast.ClassDef, name: str) -> ast.FunctionDef:
    found = [n for n in cls.body if isinstance(n, ast.FunctionDef) and n.name == name]
    if len(found) != 1:
        raise TranslatorError(f"{cls.name}.{name}: expected exactly one definition, found {len(found)}")
    f = found[0]
    if f.decorator_list:
        raise TranslatorError(f"{cls.name}.{name} is decorated")
    if not f.args.args or f.args.args[0].arg != "self":
        raise TranslatorError(f"{cls.name}.{name}: first parameter is not self")
    return f


def self_attr(cls: ast.ClassDef) -> str:
    """The one instance attribute (called `original` upstream; a rename is harmless)."""
    names = {t.attr for s in ast.walk(_method(cls, "__init__")) if isinstance(s, ast.Assign) for t in s.targets
             if isinstance(t, ast.Attribute) and isinstance(t.value, ast.Name) and t.value.id == "self"}
    if len(names) != 1:
        raise TranslatorError(f"{cls.name}.__init__ sets instance attributes {sorted(names)} (expected exactly one)")
    return "self." + names.pop()


def tr_method(cls: ast.ClassDef, name: str, kind: str) -> str:
    """kind: init | enter | exit.  Returns the Coq body (a let-chain)."""
    f = _method(cls, name)
    ATTR = self_attr(cls)
    stmts = strip_doc(f.body)
    declared = {n for s in ast.walk(f) if isinstance(s, ast.Global) for n in s.names}
    if declared - {FLAG}:
        raise TranslatorError(f"{cls.name}.{name}: unexpected global declaration {sorted(declared - {FLAG})}")
    is_global = FLAG in declared
    assigned = {t.id for s in ast.walk(f) if isinstance(s, ast.Assign) for t in s.targets if isinstance(t, ast.Name)}
    flag_is_local = FLAG in assigned and not is_global
    env = {}
    if not flag_is_local:
        env[FLAG] = ("g", "bool")
    lines = []
    if kind != "init":
        lines.append("let orig := original self in")
        env[ATTR] = ("orig", "bool")
    ret = "false"
    for i, s in enumerate(stmts):
        tr = ExprTr(env=dict(env))
        if isinstance(s, (ast.Global, ast.Pass)):
            continue
        if isinstance(s, ast.Assign) and len(s.targets) == 1:
            t = s.targets[0]
            term, ty = tr.expr(s.value)
            if ty != "bool":
                raise TranslatorError(f"{cls.name}.{name}: `{ast.unparse(s)}` assigns a {ty}")
            if isinstance(t, ast.Name) and t.id == FLAG:
                if flag_is_local:
                    lines.append(f"let lflag := {term} in")   # a local: the module global is untouched
                    env[FLAG] = ("lflag", "bool")
                else:
                    lines.append(f"let g := {term} in")
                continue
            if isinstance(t, ast.Attribute) and ast.unparse(t) == ATTR:
                lines.append(f"let orig := {term} in")
                env[ATTR] = ("orig", "bool")
                continue
        if isinstance(s, ast.Return) and i == len(stmts) - 1:
            if s.value is None or (isinstance(s.value, ast.Constant) and s.value.value is None):
                continue
            if kind == "init":
                raise TranslatorError(f"{cls.name}.__init__ returns a value")
            if isinstance(s.value, ast.Constant) and isinstance(s.value.value, bool):
                if kind == "exit":
                    ret = "true" if s.value.value else "false"
                continue
        raise TranslatorError(f"{cls.name}.{name}: statement not supported: `{ast.unparse(s)[:70]}`")
    if ATTR not in env:
        raise TranslatorError(f"{cls.name}.__init__ never sets self.original")
    res = "(g, mkObj orig" + (f", {ret})" if kind == "exit" else ")")
    return " ".join(lines + [res])


def translate(path: Path) -> str:
    mod = parse_file(path)
    out = [HEADER.format(src="guppylang_internals/experimental.py", tool="props/C33/tr_experimental.py"),
           "From Coq Require Import ZArith String Bool List.\nFrom V.C33 Require Import ModelBase.\nImport ListNotations.\n"]
    # ---- the flag: exactly one module-level definition, a bool constant
    inits = [s for s in mod.body if isinstance(s, (ast.Assign, ast.AnnAssign))
             and FLAG in ast.unparse(s.targets[0] if isinstance(s, ast.Assign) else s.target)]
    if len(inits) != 1 or not isinstance(inits[0].value, ast.Constant) or not isinstance(inits[0].value.value, bool):
        raise TranslatorError(f"module-level definition of {FLAG} is not a single bool constant")
    out.append(f"Definition initial_flag : bool := {'true' if inits[0].value.value else 'false'}.\n")
    # ---- nobody but the two classes may write the flag
    allowed = set()
    for cname in CLASSES:
        allowed |= {id(n) for n in ast.walk(find_class(mod, cname))}
    for n in ast.walk(mod):
        if isinstance(n, ast.Global) and FLAG in n.names and id(n) not in allowed:
            raise TranslatorError(f"line {n.lineno}: {FLAG} is written outside the two context-manager classes")
        if isinstance(n, (ast.Delete, ast.AugAssign)) and FLAG in ast.unparse(n):
            raise TranslatorError(f"line {n.lineno}: unsupported statement on {FLAG}")
    # ---- the two classes
    for cname, short in CLASSES.items():
        cls = find_class(mod, cname)
        if cls not in mod.body:
            raise TranslatorError(f"{cname} is not a module-level class")
        if cls.bases or cls.keywords or cls.decorator_list:
            raise TranslatorError(f"{cname} has bases/decorators")
        members = [n for n in strip_doc(cls.body)]
        names = sorted(getattr(n, "name", type(n).__name__) for n in members)
        if names != ["__enter__", "__exit__", "__init__"]:
            raise TranslatorError(f"{cname}: members {names} (expected __init__, __enter__, __exit__ only)")
        if len(_method(cls, "__init__").args.args) != 1 or len(_method(cls, "__enter__").args.args) != 1:
            raise TranslatorError(f"{cname}: constructor/__enter__ take parameters")
        if len(_method(cls, "__exit__").args.args) != 4:
            raise TranslatorError(f"{cname}.__exit__ signature")
        out.append(f"Definition {short}_init (g : bool) : bool * obj := {tr_method(cls, '__init__', 'init')}.")
        out.append(f"Definition {short}_enter (g : bool) (self : obj) : bool * obj := {tr_method(cls, '__enter__', 'enter')}.")
        out.append(f"Definition {short}_exit (g : bool) (self : obj) : bool * obj * bool := {tr_method(cls, '__exit__', 'exit')}.\n")
    # ---- the gates
    gates = []
    for s in mod.body:
        if isinstance(s, ast.FunctionDef):
            m = GATE_RE.match(s.name)
            if not m:
                raise TranslatorError(f"unknown module-level function {s.name} in experimental.py")
            if s.decorator_list:
                raise TranslatorError(f"{s.name} is decorated")
            tr = ExprTr(env={FLAG: ("g", "bool")})

            def raise_(node):
                e = node.exc if isinstance(node, ast.Raise) else None
                if (isinstance(e, ast.Call) and ast.unparse(e.func) == "GuppyError" and len(e.args) == 1
                        and isinstance(e.args[0], ast.Call) and isinstance(e.args[0].func, ast.Name)
                        and len(e.args[0].args) == 2 and isinstance(e.args[0].args[1], ast.Constant)
                        and isinstance(e.args[0].args[1].value, str)):
                    return f"(Raise {_coq_str(e.args[0].func.id + ':' + e.args[0].args[1].value)})"
                raise TranslatorError(f"{s.name}: raise shape `{ast.unparse(node)}`")

            body = tr.body(strip_doc(s.body) + [ast.Return(value=None)], lambda t, ty: "(Ok tt)", raise_)
            gates.append((s.name, "G_" + m.group(1), body))
    if not gates:
        raise TranslatorError("no check_*_enabled function found")
    out.append("Inductive gate := " + " | ".join(g for _, g, _ in gates) + ".")
    out.append("Definition all_gates : list gate := [" + "; ".join(g for _, g, _ in gates) + "].")
    out.append("Definition gate_name (gt : gate) : string := match gt with " +
               " ".join(f"| {g} => {_coq_str(n)}" for n, g, _ in gates) + " end.")
    out.append("Definition gate_index (gt : gate) : Z := match gt with " +
               " ".join(f"| {g} => {i}%Z" for i, (_, g, _) in enumerate(gates)) + " end.")
    out.append("Definition gate_run (gt : gate) (g : bool) : res unit :=\n  match gt with\n" +
               "\n".join(f"  | {g} => {b}" for _, g, b in gates) + "\n  end.")
    by_name = {n: g for n, g, _ in gates}
    rows = []
    for feat, fn in FEATURE_GATES.items():
        if fn not in by_name:
            raise TranslatorError(f"gate function {fn} for feature {feat} is missing")
        rows.append(f"| {feat} => {by_name[fn]}")
    out.append("Definition feature_gate (f : feature) : gate := match f with " + " ".join(rows) + " end.\n")
    return "\n".join(out)


# ---------------------------------------------------------------------------------------
# call-site inventory


def _is_capture_set(fn: ast.FunctionDef, v: str) -> bool:
    """`v` is the set of captured variables of the nested function: assigned once, to
    {x: ... for x, _ in cfg.live_before[cfg.entry_bb].items() if x not in <params> and x in ctx.locals}
    (the variables live at the entry of the nested function's CFG that are not its own
    parameters and are locals of the enclosing scope), never modified afterwards, and it is the
    object handed to CheckedNestedFunctionDef as the closure's captured variables."""
    stores = [n for n in ast.walk(fn) if isinstance(n, ast.Name) and n.id == v and not isinstance(n.ctx, ast.Load)]
    assigns = [n for n in ast.walk(fn) if isinstance(n, ast.Assign) and any(isinstance(t, ast.Name) and t.id == v for t in n.targets)]
    if len(stores) != 1 or len(assigns) != 1 or len(assigns[0].targets) != 1:
        return False
    d = assigns[0].value
    if not (isinstance(d, ast.DictComp) and len(d.generators) == 1):
        return False
    g = d.generators[0]
    if not (isinstance(g.target, ast.Tuple) and len(g.target.elts) == 2 and isinstance(g.target.elts[0], ast.Name)):
        return False
    k = g.target.elts[0].id
    if not (isinstance(d.key, ast.Name) and d.key.id == k):
        return False
    if ast.unparse(g.iter) != "cfg.live_before[cfg.entry_bb].items()":
        return False
    conj = []
    for c in g.ifs:
        conj += c.values if isinstance(c, ast.BoolOp) and isinstance(c.op, ast.And) else [c]
    if sorted(ast.unparse(c) for c in conj) != sorted([f"{k} not in func_ty.input_names", f"{k} in ctx.locals"]):
        return False
    # never mutated: only read, or .values()/.keys()/.items() called on it, or indexed for reading
    for n in ast.walk(fn):
        if isinstance(n, ast.Attribute) and isinstance(n.value, ast.Name) and n.value.id == v and n.attr not in ("values", "keys", "items"):
            return False
        if isinstance(n, ast.Subscript) and isinstance(n.value, ast.Name) and n.value.id == v and not isinstance(n.ctx, ast.Load):
            return False
    # it is what the checked definition records as captured
    for n in ast.walk(fn):
        if isinstance(n, ast.Call) and ast.unparse(n.func) == "CheckedNestedFunctionDef":
            if any(isinstance(a, ast.Name) and a.id == v for a in n.args) or any(kw.arg == "captured" and isinstance(kw.value, ast.Name) and kw.value.id == v for kw in n.keywords):
                return True
    return False


def guard_kind(gnodes, fn) -> str:
    """Normalised reading of the innermost condition under which a gate is called:
    ""                    unconditional in its function
    "function_tensor"     isinstance(X, TupleType) and (N := parse_function_tensor(X))
    "captures_nonempty"   truth value of the nested function's capture set (see _is_capture_set)
    "other: <text>"       anything else (never meets a requirement)"""
    if not gnodes:
        return ""
    test, positive = gnodes[-1]
    if test is None or not positive:
        return "other: " + ("<non-if block>" if test is None else "else-branch of " + ast.unparse(test))
    if (isinstance(test, ast.BoolOp) and isinstance(test.op, ast.And) and len(test.values) == 2):
        a, b = test.values
        if (isinstance(a, ast.Call) and ast.unparse(a.func) == "isinstance" and len(a.args) == 2 and isinstance(a.args[0], ast.Name)
                and ast.unparse(a.args[1]) == "TupleType" and isinstance(b, ast.NamedExpr) and isinstance(b.value, ast.Call)
                and ast.unparse(b.value.func) == "parse_function_tensor" and len(b.value.args) == 1
                and isinstance(b.value.args[0], ast.Name) and b.value.args[0].id == a.args[0].id):
            return "function_tensor"
    if isinstance(test, ast.Name) and fn is not None and _is_capture_set(fn, test.id):
        return "captures_nonempty"
    return "other: " + ast.unparse(test)


def gate_names(path: Path) -> list[str]:
    return [s.name for s in parse_file(path).body if isinstance(s, ast.FunctionDef) and GATE_RE.match(s.name)]


def scan_sites(src_roots: list[Path], exp_path: Path):
    """Every call of a gate function in the package sources:
    (file, qualname, gate function, guard chain outermost-first, kinds of the statements that
    precede the call in its innermost block).  Also every mention of the flag variable
    outside experimental.py (a stale copy would make a gate useless)."""
    names = set(gate_names(exp_path))
    sites, foreign, aliases = [], [], []
    for root in src_roots:
        for p in sorted(root.rglob("*.py")):
            rel = p.relative_to(root).as_posix()
            if p.resolve() == exp_path.resolve():
                continue
            try:
                mod = ast.parse(p.read_text())
            except SyntaxError as e:
                raise TranslatorError(f"cannot parse {rel}: {e}")
            for n in ast.walk(mod):
                if isinstance(n, ast.Name) and n.id == FLAG or isinstance(n, ast.Attribute) and n.attr == FLAG \
                        or isinstance(n, ast.alias) and n.name == FLAG:
                    foreign.append(f"{rel}:{getattr(n, 'lineno', 0)}")
                if isinstance(n, ast.alias) and n.name in names and n.asname not in (None, n.name):
                    aliases.append(f"{rel}:{n.name} as {n.asname}")

            def walk(stmts, qual, guards, in_func, gnodes=(), fnode=None):
                for i, s in enumerate(strip_doc(stmts)):
                    pre = [type(x).__name__ for x in strip_doc(stmts)[:i]]
                    if isinstance(s, (ast.FunctionDef, ast.AsyncFunctionDef)):
                        walk(s.body, qual + [s.name], [], True, (), s)
                        continue
                    if isinstance(s, ast.ClassDef):
                        walk(s.body, qual + [s.name], [], False, (), None)
                        continue
                    # calls in the statement's own expressions (not in nested blocks)
                    own = [v for f, v in ast.iter_fields(s) if f not in ("body", "orelse", "finalbody", "handlers", "cases")]
                    for v in own:
                        for sub in (v if isinstance(v, list) else [v]):
                            if isinstance(sub, ast.AST):
                                for c in ast.walk(sub):
                                    if isinstance(c, ast.Call):
                                        fn = c.func.id if isinstance(c.func, ast.Name) else c.func.attr if isinstance(c.func, ast.Attribute) else None
                                        if fn in names:
                                            direct = isinstance(s, ast.Expr) and s.value is c
                                            sites.append({"file": rel, "qual": ".".join(qual) or "<module>", "gate": fn,
                                                          "guards": list(guards), "pre": pre if direct else pre + ["Nested"],
                                                          "line": c.lineno, "kind": guard_kind(gnodes, fnode)})
                    if isinstance(s, ast.If):
                        t = ast.unparse(s.test)
                        walk(s.body, qual, guards + [t], in_func, gnodes + ((s.test, True),), fnode)
                        walk(s.orelse, qual, guards + [f"not ({t})"], in_func, gnodes + ((s.test, False),), fnode)
                    elif isinstance(s, (ast.For, ast.While)):
                        walk(s.body, qual, guards + ["<loop>"], in_func, gnodes + ((None, True),), fnode)
                        walk(s.orelse, qual, guards + ["<loop-else>"], in_func, gnodes + ((None, True),), fnode)
                    elif isinstance(s, ast.With):
                        walk(s.body, qual, guards, in_func, gnodes, fnode)
                    elif isinstance(s, ast.Try):
                        walk(s.body, qual, guards, in_func, gnodes, fnode)
                        for h in s.handlers:
                            walk(h.body, qual, guards + ["<except>"], in_func, gnodes + ((None, True),), fnode)
                        walk(s.orelse, qual, guards + ["<try-else>"], in_func, gnodes + ((None, True),), fnode)
                        walk(s.finalbody, qual, guards, in_func, gnodes, fnode)
                    elif isinstance(s, ast.Match):
                        for c in s.cases:
                            walk(c.body, qual, guards + [f"<case {ast.unparse(c.pattern)}>"], in_func, gnodes + ((None, True),), fnode)

            walk(mod.body, [], [], False)
    return sites, foreign, aliases


def sites_text(sites, foreign, aliases, exp_path: Path) -> str:
    names = gate_names(exp_path)
    g = {n: "G_" + GATE_RE.match(n).group(1) for n in names}
    rows = []
    for s in sites:
        guards = "[" + "; ".join(_coq_str(x) for x in s["guards"]) + "]"
        pre = "[" + "; ".join(_coq_str(x) for x in s["pre"]) + "]"
        rows.append(f"  mkSite {_coq_str(s['file'])} {_coq_str(s['qual'])} {g[s['gate']]} {guards} {pre} {_coq_str(s['kind'])}")
    return (HEADER.format(src="guppylang_internals/**/*.py, guppylang/**/*.py", tool="props/C33/tr_experimental.py (scan_sites)")
            + "From Coq Require Import ZArith String Bool List.\nFrom V.C33 Require Import ModelBase GenExperimental.\nImport ListNotations.\n\n"
            + "Record site := mkSite { s_file : string; s_qual : string; s_gate : gate; s_guards : list string; s_pre : list string; s_kind : string }.\n\n"
            + "Definition gate_sites : list site := [\n" + ";\n".join(rows) + "].\n\n"
            + "(* mentions of the flag variable outside experimental.py, and renamed imports of gates *)\n"
            + "Definition foreign_flag_uses : list string := [" + "; ".join(_coq_str(x) for x in foreign + aliases) + "].\n")
