"""Implementation side of C21.  stdin: {"mode": "probe"|"compare"|"builtins", ...}.
probe:   {"types": [...], "methods": [...]}  -> [[T, method, U], ...] for which
         `def f(a: T, b: U) -> None: a.<method>(b)` type-checks in a regular @guppy function.
compare: {"cases": [{"id", "comptime_src", "regular_src"}]} -> per case, for both functions:
         ok/error class, the canonical operation terms of the compiled HUGR function, and the
         sequence of Globals.get_instance_func(ty, dunder) lookups made.
Programs are written to a real file (inspect.getsource)."""
import importlib.util
import json
import sys
from pathlib import Path

import repo_shim  # noqa: F401
import guppylang  # noqa: F401
from guppylang_internals.checker.core import Globals
from guppylang_internals.error import GuppyError

sys.path.insert(0, str(Path(__file__).parent))
from hterm import func_terms  # noqa: E402

payload = json.load(sys.stdin)
HEAD = "from guppylang import guppy\nfrom guppylang.std.builtins import nat, array\n"

log = []
_orig = Globals.get_instance_func


def rec(self, ty, name):
    r = _orig(self, ty, name)
    if isinstance(name, str) and name.startswith("__") and name.endswith("__"):
        log.append([str(ty), name])
    return r


Globals.get_instance_func = rec


def load(name, src):
    path = Path(f"{name}.py").resolve()
    path.write_text(src)
    spec = importlib.util.spec_from_file_location(name, path)
    mod = importlib.util.module_from_spec(spec)
    sys.modules[name] = mod
    spec.loader.exec_module(mod)
    return mod


def err_name(e):
    err = getattr(e, "error", None)
    return type(err).__name__ if err is not None else type(e).__name__


if payload["mode"] == "probe":
    fs, src = [], [HEAD]
    for i, (t, m, u) in enumerate((t, m, u) for t in payload["types"] for m in payload["methods"] for u in payload["types"]):
        src.append(f"@guppy\ndef p{i}(a: {t}, b: {u}) -> None:\n    a.{m}(b)\n")
        fs.append((f"p{i}", t, m, u))
    mod = load("c21_probe", "\n".join(src))
    out = []
    for name, t, m, u in fs:
        try:
            getattr(mod, name).check()
            out.append([t, m, u])
        except GuppyError:
            pass
    json.dump(out, sys.stdout)
else:
    src = [HEAD, payload.get("prelude", "")]
    for c in payload["cases"]:
        src += [c["comptime_src"], c["regular_src"]]
    mod = load("c21_cases", "\n".join(src))
    out = {}
    for c in payload["cases"]:
        r = {}
        for which in ("comptime", "regular"):
            fname = f"{which[0]}_{c['id']}"
            log.clear()
            try:
                pkg = getattr(mod, fname).compile_function()
                terms, outs = func_terms(pkg.modules[0], fname, want_outputs=True)
                r[which] = {"ok": True, "terms": terms, "outputs": outs, "lookups": [list(x) for x in log]}
            except GuppyError as e:
                r[which] = {"ok": False, "error": err_name(e), "lookups": [list(x) for x in log]}
            except Exception as e:  # noqa: BLE001
                r[which] = {"ok": False, "error": "py:" + type(e).__name__, "detail": str(e)[:200], "lookups": [list(x) for x in log]}
        out[c["id"]] = r
    json.dump(out, sys.stdout)
