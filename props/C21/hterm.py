import hugr.ops as ops
from hugr.hugr.node_port import InPort
from hugr.tys import ValueKind, ConstKind, FunctionKind

def const_payload(val):
    """type + value of a constant, bit-exact for floats (0.0 / -0.0 and NaN payloads differ)"""
    import struct
    name = type(val).__name__
    v = getattr(val, "v", None)
    if isinstance(v, float):
        return f"{name}:f64:0x{struct.pack('>d', v).hex()}"
    if isinstance(v, bool):
        return f"{name}:{v}"
    if isinstance(v, int):
        return f"{name}:w{getattr(val, 'width', '?')}:{v}"
    return f"{name}:" + repr(val).replace(" ", "").replace("(", "<").replace(")", ">").replace(",", ";")


def func_terms(h, fname, want_outputs=False):
    fn = None
    for n, d in h.nodes():
        if isinstance(d.op, ops.FuncDefn) and d.op.f_name == fname:
            fn = n
    assert fn is not None
    # all descendants
    desc, todo = [], [fn]
    while todo:
        p = todo.pop()
        for c in h.children(p):
            desc.append(c); todo.append(c)
    inputs = {n for n in desc if isinstance(h[n].op, ops.Input)}
    def opname(node):
        op = h[node].op
        if isinstance(op, ops.Call):
            for o in h.linked_ports(InPort(node, h.num_in_ports(node) - 1)):
                t = h[o.node].op
                return "call:" + getattr(t, "f_name", type(t).__name__)
            return "call:?"
        try:
            e = op.ext_op if hasattr(op, "ext_op") else op
            return e.op_def().qualified_name() if hasattr(e, "op_def") else (op.op_name if hasattr(op, "op_name") else type(op).__name__)
        except Exception:
            return getattr(op, "op_name", type(op).__name__)
    used = set()
    def src(node, i):
        links = list(h.linked_ports(InPort(node, i)))
        if not links:
            return "?"
        o = links[0]
        return term(o.node, o.offset)
    def term(node, off):
        op = h[node].op
        if node in inputs:
            return f"in{off}"
        if isinstance(op, ops.LoadConst):
            return src(node, 0)
        if isinstance(op, ops.Const):
            return "const(" + const_payload(op.val) + ")"
        used.add(node)
        args = []
        for i in range(h.num_in_ports(node)):
            try:
                k = h.port_kind(InPort(node, i))
            except Exception:
                continue
            if isinstance(k, (ValueKind, ConstKind)):
                args.append(src(node, i))
        return f"{opname(node)}({','.join(args)})" + (f".{off}" if off else "")
    roots = []
    interesting = [n for n in desc if isinstance(h[n].op, (ops.Custom, ops.ExtOp, ops.Call)) or type(h[n].op).__name__ in ("AsExtOp",) or hasattr(h[n].op, "op_def")]
    terms = {}
    for n in interesting:
        used_before = set(used)
        terms[n] = term(n, 0)
    # maximal = not used as an argument of another interesting node
    argnodes = set()
    for n in interesting:
        for i in range(h.num_in_ports(n)):
            for o in h.linked_ports(InPort(n, i)):
                x = o.node
                while isinstance(h[x].op, ops.LoadConst):
                    x = list(h.linked_ports(InPort(x, 0)))[0].node
                argnodes.add(x)
    outs = []
    for n in desc:
        if not isinstance(h[n].op, ops.Output):
            continue
        parent = h[n].parent
        pop = h[parent].op
        if parent == fn:
            skip = 0
        elif isinstance(pop, ops.DataflowBlock):
            skip = 1          # first block output is the branch tag
        else:
            continue
        for i in range(skip, h.num_in_ports(n)):
            try:
                k = h.port_kind(InPort(n, i))
            except Exception:
                continue
            if isinstance(k, ValueKind):
                outs.append(src(n, i))
    if want_outputs:
        return sorted(terms[n] for n in interesting if n not in argnodes), outs
    return sorted(terms[n] for n in interesting if n not in argnodes)
