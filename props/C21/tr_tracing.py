"""Translator for C21: reads tracing/object.py (DunderMixin, the three tables,
binary_operation), tracing/builtins_mock.py, checker/expr_checker.py (binary_table,
unary_table, ExprSynthesizer._synthesize_binary) and emits coq/C21/GenTracing.v.
Fail-closed: shapes are compared on `ast.unparse` text."""
import ast

from tr_common import HEADER, TranslatorError, find_class, find_func, find_assign, parse_file, strip_doc

INT = "guppylang-internals/src/guppylang_internals"


def U(n):
    return ast.unparse(n)


def body_src(f):
    return [U(s) for s in strip_doc(f.body)]


def s(x):
    return f'"{x}"%string'


def coq_list(xs):
    return "[" + "; ".join(xs) + "]"


def dunder_methods(cls):
    """[(method, delegate, decorator, arity)] for every dunder method of DunderMixin."""
    out = []
    for m in cls.body:
        if isinstance(m, ast.Expr) and isinstance(m.value, ast.Constant):
            continue
        if not isinstance(m, ast.FunctionDef):
            raise TranslatorError(f"DunderMixin: unexpected member {U(m)[:60]}")
        if m.name == "_get_method":
            if body_src(m)[-1] != "return self.__getattr__(name)":
                raise TranslatorError("DunderMixin._get_method no longer returns self.__getattr__(name)")
            continue
        if not (m.name.startswith("__") and m.name.endswith("__")):
            raise TranslatorError(f"DunderMixin: unknown method {m.name}")
        decos = [U(d) for d in m.decorator_list]
        if decos not in ([], ["binary_operation"], ["unary_operation"]):
            raise TranslatorError(f"{m.name}: decorators {decos}")
        params = [a.arg for a in m.args.args]
        b = strip_doc(m.body)
        ok = (len(b) == 1 and isinstance(b[0], ast.Return) and isinstance(b[0].value, ast.Call)
              and isinstance(b[0].value.func, ast.Call) and U(b[0].value.func.func) == "self._get_method"
              and len(b[0].value.func.args) == 1 and isinstance(b[0].value.func.args[0], ast.Constant)
              and [U(a) for a in b[0].value.args] == params[1:] and params[0] == "self")
        if not ok:
            raise TranslatorError(f"DunderMixin.{m.name}: body is not `return self._get_method(\"...\")(<params>)`: {body_src(m)}")
        deco = {"binary_operation": "DBinary", "unary_operation": "DUnary"}.get(decos[0] if decos else "", "DNone")
        if deco == "DBinary" and len(params) != 2 or deco == "DUnary" and len(params) != 1:
            raise TranslatorError(f"{m.name}: decorator/arity mismatch")
        out.append((m.name, b[0].value.func.args[0].value, deco, len(params) - 1))
    return out


def op_tables(ec_mod):
    bt = find_assign(ec_mod, "binary_table")
    ut = find_assign(ec_mod, "unary_table")
    if not isinstance(bt, ast.Dict) or not isinstance(ut, ast.Dict):
        raise TranslatorError("binary_table / unary_table are no longer dict displays")
    b, u = [], []
    for k, v in zip(bt.keys, bt.values):
        if not (isinstance(k, ast.Attribute) and U(k.value) == "ast" and isinstance(v, ast.Tuple) and len(v.elts) == 3
                and all(isinstance(e, ast.Constant) and isinstance(e.value, str) for e in v.elts)):
            raise TranslatorError(f"binary_table entry {U(k)}: {U(v)}")
        b.append((k.attr,) + tuple(e.value for e in v.elts))
    for k, v in zip(ut.keys, ut.values):
        if not (isinstance(k, ast.Attribute) and U(k.value) == "ast" and isinstance(v, ast.Tuple) and len(v.elts) == 2):
            raise TranslatorError(f"unary_table entry {U(k)}")
        u.append((k.attr,) + tuple(e.value for e in v.elts))
    return b, u


TABLES = {
    "unary_table": "dict(expr_checker.unary_table.values())",
    "binary_table": "{method: (reverse_method, display_name) for method, reverse_method, display_name in expr_checker.binary_table.values()}",
    "reverse_binary_table": "{reverse_method: (method, display_name) for method, reverse_method, display_name in expr_checker.binary_table.values()}",
}

WRAPPED = [
    "from guppylang_internals.tracing.state import get_tracing_state",
    "from guppylang_internals.tracing.unpacking import guppy_object_from_py",
    "state = get_tracing_state()",
    "self = guppy_object_from_py(self, state.dfg.builder, state.node, state.ctx)",
    "other = guppy_object_from_py(other, state.dfg.builder, state.node, state.ctx)",
    "with suppress(Exception):\n    return f(self, other)",
    "if f.__name__ in binary_table:\n    reverse_method, display_name = binary_table[f.__name__]\n    left_ty, right_ty = (self._ty, other._ty)\n"
    "else:\n    reverse_method, display_name = reverse_binary_table[f.__name__]\n    left_ty, right_ty = (other._ty, self._ty)",
    "with suppress(Exception):\n    return other.__getattr__(reverse_method)(self)",
    "raise GuppyTypeError(BinaryOperatorNotDefinedError(state.node, left_ty, right_ty, display_name))",
]

SYNTH = [
    "if op.__class__ not in binary_table:\n    raise GuppyTypeError(UnsupportedError(node, 'Operator', singular=True))",
    "lop, rop, display_name = binary_table[op.__class__]",
    "left_expr, left_ty = self.synthesize(left_expr)",
    "right_expr, right_ty = self.synthesize(right_expr)",
    "if (func := self.ctx.globals.get_instance_func(left_ty, lop)):\n    with suppress(GuppyError):\n        return func.synthesize_call([left_expr, right_expr], node, self.ctx)",
    "if (func := self.ctx.globals.get_instance_func(right_ty, rop)):\n    with suppress(GuppyError):\n        return func.synthesize_call([right_expr, left_expr], node, self.ctx)",
    "raise GuppyTypeError(BinaryOperatorNotDefinedError(node, left_ty, right_ty, display_name))",
]


def mocks(bm_mod):
    out = []
    for name, dunder in (("float", "__float__"), ("int", "__int__")):
        cls = find_class(bm_mod, name)
        new = find_func(cls, "__new__")
        b = strip_doc(new.body)
        if not (len(b) == 2 and isinstance(b[0], ast.If) and U(b[0].test) == "isinstance(x, GuppyObject)"
                and len(b[0].body) == 1 and isinstance(b[0].body[0], ast.Return) and isinstance(b[0].body[0].value, ast.Call)
                and isinstance(b[0].body[0].value.func, ast.Attribute) and U(b[0].body[0].value.func.value) == "x"
                and U(b[1]).startswith(f"return builtins.{name}(x")):
            raise TranslatorError(f"builtins_mock.{name}.__new__ shape: {[U(x) for x in b]}")
        out.append((name, b[0].body[0].value.func.attr, ["GuppyObject"]))
    f = find_func(bm_mod, "len")
    b = strip_doc(f.body)
    if not (len(b) == 2 and isinstance(b[0], ast.If) and U(b[0].test) == "isinstance(x, GuppyObject | GuppyStructObject)"
            and isinstance(b[0].body[0], ast.Return) and U(b[1]) == "return builtins.len(x)"):
        raise TranslatorError("builtins_mock.len shape")
    out.append(("len", b[0].body[0].value.func.attr, ["GuppyObject", "GuppyStructObject"]))
    mb = find_func(bm_mod, "mock_builtins")
    installed = None
    for st in mb.body:
        if isinstance(st, ast.Assign) and U(st.targets[0]) == "mock" and isinstance(st.value, ast.Dict):
            installed = [(k.value, U(v)) for k, v in zip(st.value.keys, st.value.values)]
    if installed is None:
        raise TranslatorError("mock_builtins: `mock = {...}` not found")
    for k, v in installed:
        if k != v:
            raise TranslatorError(f"mock_builtins installs {v} under the name {k}")
    return out, [k for k, _ in installed]


SCALAR_CASE = ["ty = python_value_to_guppy_type(v, node, get_tracing_state().globals)",
               "if ty is None:\n    raise GuppyError(IllegalComptimeExpressionError(node, type(v)))",
               "hugr_val = python_value_to_hugr(v, ty, ctx)",
               "assert hugr_val is not None",
               "return GuppyObject(ty, builder.load(hugr_val))"]


def scalar_case(root):
    """guppy_object_from_py: the catch-all `case v:` (Python scalars) must build a fresh constant on every
    call: type it, lower it, `builder.load` it — no lookup in any cache.  Also the per-trace state
    (TracingState fields) is read so that a new field fails closed."""
    un = parse_file(root / "tracing/unpacking.py")
    f = find_func(un, "guppy_object_from_py")
    m = [n for n in strip_doc(f.body) if isinstance(n, ast.Match)]
    if len(m) != 1 or U(m[0].subject) != "v":
        raise TranslatorError("guppy_object_from_py is no longer a single `match v`")
    last = m[0].cases[-1]
    if U(last.pattern) != "v" or last.guard is not None:
        raise TranslatorError(f"guppy_object_from_py: last case is `{U(last.pattern)}`, expected the catch-all `v`")
    got = [U(x) for x in last.body]
    if got != SCALAR_CASE:
        raise TranslatorError(f"guppy_object_from_py scalar case has an unknown shape (constants must be built fresh per use): {got}")
    pats = [U(c.pattern) for c in m[0].cases]
    st = parse_file(root / "tracing/state.py")
    fields = [n.target.id for n in find_class(st, "TracingState").body if isinstance(n, ast.AnnAssign) and isinstance(n.target, ast.Name)]
    return pats, fields


def translate(repo):
    root = repo / INT
    obj = parse_file(root / "tracing/object.py")
    ec = parse_file(root / "checker/expr_checker.py")
    bm = parse_file(root / "tracing/builtins_mock.py")
    dm = dunder_methods(find_class(obj, "DunderMixin"))
    bt, ut = op_tables(ec)
    for name, want in TABLES.items():
        got = U(find_assign(obj, name))
        if got != want:
            raise TranslatorError(f"tracing/object.py {name} is built differently: {got}")
    bo = find_func(obj, "binary_operation")
    wrapped = [n for n in bo.body if isinstance(n, ast.FunctionDef) and n.name == "wrapped"]
    if len(wrapped) != 1 or [U(d) for d in wrapped[0].decorator_list] != ["functools.wraps(f)", "capture_guppy_errors"]:
        raise TranslatorError("binary_operation.wrapped not found / decorators changed")
    if body_src(wrapped[0]) != WRAPPED:
        raise TranslatorError(f"binary_operation.wrapped has an unknown shape: {body_src(wrapped[0])}")
    synth = None
    for n in ast.walk(ec):
        if isinstance(n, ast.FunctionDef) and n.name == "_synthesize_binary":
            synth = n
    if synth is None or body_src(synth) != SYNTH:
        raise TranslatorError(f"_synthesize_binary has an unknown shape: {None if synth is None else body_src(synth)}")
    mk, installed = mocks(bm)
    pats, st_fields = scalar_case(root)
    go = find_class(obj, "GuppyObject")
    if [U(b) for b in go.bases] != ["DunderMixin"]:
        raise TranslatorError("GuppyObject bases changed")
    own = [m.name for m in go.body if isinstance(m, ast.FunctionDef) and m.name.startswith("__") and m.name not in ("__init__",)]
    o = [HEADER.format(src="tracing/object.py, tracing/builtins_mock.py, checker/expr_checker.py", tool="props/C21/tr_tracing.py"),
         "From Coq Require Import List Bool String.\nFrom V.C21 Require Import ModelBase.\nImport ListNotations.\nOpen Scope string_scope.\n",
         "(* expr_checker.binary_table: AST operator class -> (left method, right method, display) ; unary_table *)",
         "Definition binary_table : list (string * (string * string * string)) := "
         + coq_list([f"({s(k)}, ({s(a)}, {s(b)}, {s(c)}))" for k, a, b, c in bt]) + ".",
         "Definition unary_table : list (string * (string * string)) := " + coq_list([f"({s(k)}, ({s(a)}, {s(b)}))" for k, a, b in ut]) + ".",
         "(* tracing/object.py: binary_table = {method: (reverse_method, _) ...}; reverse_binary_table = {reverse_method: (method, _) ...}",
         "   (dict comprehensions: a later entry with the same key overwrites an earlier one -> lookup_last) *)",
         "Definition trace_binary_table : list (string * string) := map (fun e => (fst (fst (snd e)), snd (fst (snd e)))) binary_table.",
         "Definition trace_reverse_table : list (string * string) := map (fun e => (snd (fst (snd e)), fst (fst (snd e)))) binary_table.",
         "Definition trace_unary_table : list (string * string) := map snd unary_table.\n",
         "(* class DunderMixin: method -> name passed to self._get_method, decorator, number of operands besides self *)",
         "Definition dunder_methods : list (string * (string * deco * nat)) := "
         + coq_list([f"({s(m)}, ({s(d)}, {k}, {n}))" for m, d, k, n in dm]) + ".",
         f"Definition guppyobject_own_dunders : list string := {coq_list([s(x) for x in own])}.\n",
         "(* ExprSynthesizer._synthesize_binary: try lop on the left type with (left, right), then rop on the right type with (right, left) *)",
         "Definition regular_attempts (op : string) (lt rt : ty) : list sel :=",
         "  match lookup_first op binary_table with",
         "  | None => []",
         "  | Some (lop, rop, _) => [mkSel lt lop true rt; mkSel rt rop false lt]",
         "  end.\n",
         "(* binary_operation(f).wrapped(self, other) for the DunderMixin method `name`: try f(self, other) = self.<delegate>(other);",
         "   then other.<reverse>(self) with reverse from binary_table if name is a key there, else from reverse_binary_table *)",
         "Definition wrapped_attempts (name : string) (self_ty other_ty : ty) (self_is_left : bool) : list sel :=",
         "  match lookup_first name dunder_methods with",
         "  | None => []",
         "  | Some (delegate, DBinary, _) =>",
         "      mkSel self_ty delegate self_is_left other_ty ::",
         "      match (if mem_key name trace_binary_table then lookup_last name trace_binary_table else lookup_last name trace_reverse_table) with",
         "      | Some reverse_method => [mkSel other_ty reverse_method (negb self_is_left) self_ty]",
         "      | None => []",
         "      end",
         "  | Some (delegate, _, _) => [mkSel self_ty delegate self_is_left other_ty]",
         "  end.\n",
         "(* tracing/builtins_mock.py: builtin name -> dunder called on a GuppyObject argument; names installed by mock_builtins *)",
         "Definition mocked_builtins : list (string * string) := " + coq_list([f"({s(a)}, {s(b)})" for a, b, _ in mk]) + ".",
         f"Definition mock_installed : list string := {coq_list([s(x) for x in installed])}.\n",
         "(* tracing/unpacking.py guppy_object_from_py: the patterns of its `match v`, the steps of the scalar catch-all case;",
         "   tracing/state.py: the fields of the per-trace TracingState *)",
         f"Definition from_py_patterns : list string := {coq_list([s(x.replace(chr(34), chr(39))) for x in pats])}.",
         "Definition scalar_case_steps : list string := [\"type\"; \"reject-unrepresentable\"; \"lower\"; \"assert\"; \"load-fresh\"].",
         f"Definition tracing_state_fields : list string := {coq_list([s(x) for x in st_fields])}.",
         ]
    return "\n".join(o) + "\n", {"dunder_methods": len(dm), "binary_ops": len(bt), "unary_ops": len(ut),
                                 "non_self_delegates": [(m, d) for m, d, _, _ in dm if m != d]}


def accepts_v(table):
    """GenAccepts.v from the probed acceptance table [(T, method, U)]."""
    T = {"int": "TInt", "nat": "TNat", "float": "TFloat", "bool": "TBool"}
    rows = [f"({T[a]}, {s(m)}, {T[b]})" for a, m, b in table]
    return (HEADER.format(src="the std library registry of the repo under test (probed: `def f(a: T, b: U): a.<method>(b)` type-checks)", tool="props/C21/impl_tracing.py probe")
            + "From Coq Require Import List Bool String.\nFrom V.C21 Require Import ModelBase.\nImport ListNotations.\nOpen Scope string_scope.\n"
            + "Definition accepts_table : list (ty * string * ty) := [\n  " + ";\n  ".join(rows) + "].\n"
            + "Definition accepts (t : ty) (m : string) (u : ty) : bool := existsb (fun r => ty_eqb (fst (fst r)) t && String.eqb (snd (fst r)) m && ty_eqb (snd r) u) accepts_table.\n")
