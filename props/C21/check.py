"""C21 — comptime functions agree with regular Guppy functions (operators, reflected dispatch,
int/float/len builtins).

Tie: T + X.
1. T: tr_tracing.py regenerates coq/C21/GenTracing.v (DunderMixin's method -> delegate table,
   expr_checker's operator tables, the attempt order of `_synthesize_binary` and of
   `binary_operation.wrapped`, the mocked builtins) from the sources; GenAccepts.v is the
   acceptance table (type, method, argument type) probed from the std library of the repo under
   test (cached by a hash of the repo's Python sources).  Props.v is re-proved.
2. X: for operator x operand-kind pair x operand types, a `@guppy.comptime` function and the
   same body as `@guppy` are compiled under repo_shim; compared are (a) the canonical operation
   terms of the two HUGR functions (same op, same operand order) — the property itself — and
   (b) the dunder lookups each path made against the attempts the Coq model predicts.
3. Unary operators, abs and the int/float builtins: comptime vs regular HUGR terms (len is not
   compared: comptime arrays are unpacked to Python lists, so `len` never reaches a GuppyObject there)."""
import hashlib
import json

import vlib
from vlib import proof_coverage

LEVEL = "proof"
TYPES = ["int", "nat", "float", "bool"]
TY = {"int": "TInt", "nat": "TNat", "float": "TFloat", "bool": "TBool"}
OPS = {"Add": "+", "Sub": "-", "Mult": "*", "Div": "/", "FloorDiv": "//", "Mod": "%", "Pow": "**", "LShift": "<<",
       "RShift": ">>", "BitOr": "|", "BitXor": "^", "BitAnd": "&", "MatMult": "@", "Eq": "==", "NotEq": "!=",
       "Lt": "<", "LtE": "<=", "Gt": ">", "GtE": ">="}
CONST = {"int": "2", "float": "2.5", "bool": "True"}
METHODS = sorted({m for a in ["add", "sub", "mul", "truediv", "floordiv", "mod", "pow", "lshift", "rshift", "or", "xor", "and", "matmul"]
                  for m in (f"__{a}__", f"__r{a}__")} | {"__eq__", "__ne__", "__lt__", "__le__", "__gt__", "__ge__"})


def repo_hash(ctx):
    h = hashlib.sha256()
    for root in (ctx.repo / "guppylang/src", ctx.repo / "guppylang-internals/src"):
        for p in sorted(root.rglob("*.py")):
            h.update(str(p.relative_to(ctx.repo)).encode())
            h.update(p.read_bytes())
    return h.hexdigest()[:20]


def probe(ctx):
    """Acceptance table.  Cached per exact content of the repo's Python sources: any edit re-probes."""
    cache = ctx.dir / "cache"
    cache.mkdir(exist_ok=True)
    f = cache / f"accepts-{repo_hash(ctx)}.json"
    if f.exists():
        return json.loads(f.read_text()), True
    table = json.loads(ctx.impl("impl_tracing.py", {"mode": "probe", "types": TYPES, "methods": METHODS}))
    for old in cache.glob("accepts-*.json"):
        if len(list(cache.glob("accepts-*.json"))) > 6:
            old.unlink()
    f.write_text(json.dumps(table))
    return table, False


def generate(ctx):
    import tr_tracing
    text, info = tr_tracing.translate(ctx.repo)
    ctx.gen("GenTracing.v", text)
    table, cached = probe(ctx)
    ctx.gen("GenAccepts.v", tr_tracing.accepts_v([tuple(x) for x in table]))
    info["accepts_rows"] = len(table)
    info["accepts_cached"] = cached
    return info


def all_cases():
    out = []
    for op in OPS:
        for ka, kb in (("T", "T"), ("T", "C"), ("C", "T")):
            for a in (TYPES if ka == "T" else list(CONST)):
                for b in (TYPES if kb == "T" else list(CONST)):
                    out.append({"op": op, "ka": ka, "kb": kb, "a": a, "b": b})
    return out


def cid(c):
    return f"{c['op']}_{c['ka']}{c['kb']}_{c['a']}_{c['b']}"


def expr(c):
    l = "a" if c["ka"] == "T" else CONST[c["a"]]
    r = "b" if c["kb"] == "T" else CONST[c["b"]]
    return f"{l} {OPS[c['op']]} {r}"


def srcs(c):
    params = ", ".join(p for p in ([f"a: {c['a']}"] if c["ka"] == "T" else []) + ([f"b: {c['b']}"] if c["kb"] == "T" else []))
    body = f"    r = {expr(c)}\n"
    return {"id": cid(c), "comptime_src": f"@guppy.comptime\ndef c_{cid(c)}({params}) -> None:\n{body}",
            "regular_src": f"@guppy\ndef r_{cid(c)}({params}) -> None:\n{body}"}


EXTRA = [(f"un_{n}_{t}", f"{o}a", t) for n, o in (("neg", "-"), ("pos", "+"), ("inv", "~")) for t in TYPES] \
    + [(f"bi_{f}_{t}", f"{f}(a)", t) for f in ("int", "float") for t in TYPES] \
    + [("bi_abs_int", "abs(a)", "int"), ("bi_abs_float", "abs(a)", "float")]


def extra_srcs():
    return [{"id": i, "comptime_src": f"@guppy.comptime\ndef c_{i}(a: {t}) -> None:\n    r = {e}\n",
             "regular_src": f"@guppy\ndef r_{i}(a: {t}) -> None:\n    r = {e}\n"} for i, e, t in EXTRA]


# ---- bodies with several constants in one function (per-trace state must not leak between them):
# pairs that are ==-equal but distinct (0.0/-0.0, 1/1.0/True, 0/0.0/False), repeated equal constants;
# constants as right / left / both operands, call arguments, tuple elements, multi-statement bodies
CONST_PAIRS = [("0.0", "-0.0"), ("-0.0", "0.0"), ("0.0", "0.0"), ("-0.0", "-0.0"), ("1", "1.0"), ("1.0", "1"), ("True", "1"),
               ("1", "True"), ("1.0", "True"), ("0", "0.0"), ("0.0", "0"), ("-0.0", "0"), ("False", "0"), ("2.5", "2.5"), ("2", "2"),
               ("1e308", "1e-308")]
LIT_TY = lambda a: "bool" if a in ("True", "False") else ("float" if any(ch in a for ch in ".e") else "int")  # noqa: E731
MC_BODIES = {
    "right": (["r1 = x * {a}", "r2 = y * {b}"], "None"),
    "left": (["r1 = {a} * x", "r2 = {b} + y"], "None"),
    "nested": (["r = (x + {a}) / (y * {b})"], "None"),
    "multi": (["r1 = x + {a}", "r2 = y * {b}", "r3 = 1.0 / r2", "r4 = r1 - {a}", "r5 = r3 * {b}"], "None"),
    "callargs": (["r1 = gf({a}, x)", "r2 = gf(y, {b})"], "None"),
    "callboth": (["r = gf({a}, {b})", "s = gf({b}, {a})"], "None"),
    "tuple": (["return (x * {a}, y + {b}, {a})"], "tuple[float, float, {ta}]"),
    "intctx": (["k1 = n + {a}", "k2 = n * {b}", "k3 = {a} - n"], "None"),
}
MC_PRELUDE = "@guppy\ndef gf(a: float, b: float) -> float:\n    return a - b\n"


def multi_const_srcs():
    out = []
    for name, (lines, ret) in MC_BODIES.items():
        for i, (a, b) in enumerate(CONST_PAIRS):
            body = "".join("    " + l.format(a=a, b=b) + "\n" for l in lines)
            sig = f"(x: float, y: float, n: int) -> {ret.format(ta=LIT_TY(a))}:\n"
            cid_ = f"mc_{name}_{i}"
            out.append({"id": cid_, "body": body, "constants": [a, b],
                        "comptime_src": f"@guppy.comptime\ndef c_{cid_}{sig}{body}", "regular_src": f"@guppy\ndef r_{cid_}{sig}{body}"})
    return out


# ---- bodies that call Guppy functions BORROWING containers in non-leading positions; the callee mutates,
# the body uses the container afterwards.  Compared: the dataflow terms feeding the function outputs
# (return value and the borrowed containers handed back), i.e. which call output reaches the later use.
BR_PRELUDE = """
@guppy
def bump(k: int, xs: array[int, 2]) -> None:
    xs[0] = xs[0] + k

@guppy
def bump_first(xs: array[int, 2], k: int) -> None:
    xs[0] = xs[0] + k

@guppy
def bump3(a: float, k: int, xs: array[int, 2]) -> None:
    xs[1] = xs[1] * k

@guppy
def two(xs: array[int, 2], ys: array[int, 2]) -> None:
    xs[0] = ys[1]
    ys[0] = 7

@guppy
def two_mid(k: int, xs: array[int, 2], j: int, ys: array[int, 2]) -> int:
    xs[0] = ys[1] + k
    ys[1] = j
    return xs[1]

@guppy
def total(xs: array[int, 2]) -> int:
    return xs[0] + xs[1]

@guppy
def nested(k: int, m: array[array[int, 2], 2]) -> None:
    m[0][1] = k
"""
BR_SIG = "(xs: array[int, 2], ys: array[int, 2], k: int, x: float, m: array[array[int, 2], 2]) -> int:\n"
BR_BODIES = {
    "second_then_total": ["bump(k, xs)", "return total(xs)"],
    "second_then_back": ["bump(k, xs)", "return k"],
    "first_control": ["bump_first(xs, k)", "return total(xs)"],
    "third": ["bump3(x, k, xs)", "return total(xs)"],
    "third_other": ["bump3(x, k, ys)", "return total(xs) + total(ys)"],
    "two_same_type": ["two(xs, ys)", "return total(ys)"],
    "two_swapped": ["two(ys, xs)", "return total(xs)"],
    "two_mid": ["r = two_mid(k, xs, 3, ys)", "return r + total(ys)"],
    "two_mid_swapped": ["r = two_mid(k, ys, 3, xs)", "return r + total(xs)"],
    "pass_on": ["bump(k, xs)", "bump(2, xs)", "return total(xs)"],
    "pass_on_mixed": ["bump(k, xs)", "two(ys, xs)", "bump3(x, 2, ys)", "return total(ys) + total(xs)"],
    "both_second": ["bump(k, xs)", "bump(k + 1, ys)", "return total(ys)"],
    "result_feeds_next": ["r = two_mid(k, xs, 3, ys)", "bump(r, ys)", "return total(ys)"],
    "nested_second": ["nested(k, m)", "return k"],
}


def borrow_srcs():
    out = []
    for name, lines in BR_BODIES.items():
        body = "".join("    " + l + "\n" for l in lines)
        out.append({"id": f"br_{name}", "body": body, "comptime_src": f"@guppy.comptime\ndef c_br_{name}{BR_SIG}{body}",
                    "regular_src": f"@guppy\ndef r_br_{name}{BR_SIG}{body}"})
    return out


def canon_outputs(outs):
    return [show_term(norm_term(parse_term(t)[0])) for t in outs if not t.startswith("CFG(")]


COQ_HEAD = """From Coq Require Import List Bool String.
From V.C21 Require Import ModelBase GenTracing GenAccepts ModelDispatch.
Import ListNotations. Open Scope string_scope.
Definition tyn (t : ty) : nat := match t with TInt => 0 | TNat => 1 | TFloat => 2 | TBool => 3 end.
Definition encl (l : list sel) := map (fun s => (tyn (s_ty s), s_meth s)) l.
Definition b2n (b : bool) : nat := if b then 1 else 0.
Definition some {A} (o : option A) : bool := match o with Some _ => true | None => false end.
Definition row (op : string) (ka kb : kind) (a b : ty) : list (nat * string) :=
  [(b2n (agree op (regular_select op a b) (trace_select op ka kb a b)), ""); (b2n (some (regular_select op a b)), "");
   (b2n (some (trace_select op ka kb a b)), "")]
  ++ encl (attempts_made (regular_attempts op a b)) ++ [(9, "")] ++ encl (attempts_made (trace_attempts op ka kb a b)).
"""
TYN = {0: "int", 1: "nat", 2: "float", 3: "bool"}


def coq_rows(cases):
    K = {"T": "Traced", "C": "Const"}
    rows = [f'row "{c["op"]}" {K[c["ka"]]} {K[c["kb"]]} {TY[c["a"]]} {TY[c["b"]]}' for c in cases]
    return COQ_HEAD + "Definition rows := [\n" + ";\n".join(rows) + "].\nEval vm_compute in rows.\n"


MIRROR = {"arithmetic.int.igt_s": "arithmetic.int.ilt_s", "arithmetic.int.ige_s": "arithmetic.int.ile_s",
          "arithmetic.int.igt_u": "arithmetic.int.ilt_u", "arithmetic.int.ige_u": "arithmetic.int.ile_u",
          "arithmetic.float.fgt": "arithmetic.float.flt", "arithmetic.float.fge": "arithmetic.float.fle"}
SYMM = {"arithmetic.int.ieq", "arithmetic.int.ine", "arithmetic.float.feq", "arithmetic.float.fne", "call:__eq__", "call:__ne__",
        "tket.bool.eq", "tket.bool.and", "tket.bool.or", "tket.bool.xor"}


def parse_term(t, i=0):
    j = i
    while j < len(t) and t[j] not in "(),":
        j += 1
    name, args = t[i:j], []
    if j < len(t) and t[j] == "(":
        j += 1
        if name == "const":           # constants print arbitrary text: take it up to the matching paren
            depth, k = 1, j
            while depth:
                depth += {"(": 1, ")": -1}.get(t[k], 0)
                k += 1
            return ("const", t[j:k - 1]), k
        while t[j] != ")":
            a, j = parse_term(t, j)
            args.append(a)
            if t[j] == ",":
                j += 1
        j += 1
    suffix = ""
    while j < len(t) and t[j] not in "(),":   # ".1" output selector
        suffix += t[j]
        j += 1
    return (name + suffix, args), j


def show_term(n):
    if n[0] == "const":
        return f"const({n[1]})"
    return n[0] + ("(" + ",".join(show_term(a) for a in n[1]) + ")" if n[1] else "()" if n[0].count(".") and not n[0].startswith("in") else "")


def norm_term(n):
    """x > y is y < x, x >= y is y <= x, == / != are symmetric (HUGR op semantics): Python turns
    `const < traced` into `traced > const`, which is the same comparison."""
    if n[0] == "const":
        return n
    name, args = n[0], [norm_term(a) for a in n[1]]
    if name.endswith("borrow_arr.new_array") and args and all(a[0] != "const" for a in args):
        # comptime code turns an array into a Python list and back: new_array(unpack(X), unpack(X).1, ..) is X
        base = args[0][0]
        if base.endswith("borrow_arr.unpack") and all(
                a[0] == (base if i == 0 else f"{base}.{i}") and len(a[1]) == 1 and a[1] == args[0][1] for i, a in enumerate(args)):
            return args[0][1][0]
    if name in MIRROR and len(args) == 2:
        name, args = MIRROR[name], args[::-1]
    if name in SYMM and len(args) == 2:
        args = sorted(args, key=show_term)
    return (name, args)


def canon(terms):
    return sorted(show_term(norm_term(parse_term(t)[0])) for t in terms if t != "prelude.MakeTuple()")


def prefix_ok(pred, lookups):
    """the predicted attempts occur, in order, among the lookups made (an attempt may itself look
    up further methods, e.g. a reflected method implemented through the forward one)"""
    it = iter(lookups)
    return all(any(x == [TYN[t], m] for x in it) for t, m in pred)


def run(ctx):
    translator_error = None
    try:
        tinfo = generate(ctx)
        info = ctx.coq_props()
    except vlib.TranslatorError as e:       # broken tie; the differential search below still runs
        translator_error = str(e)
        tinfo = {"translator_error": translator_error}
        names = [f"{f.name}:{n}" for f in sorted(ctx.coqdir.glob("*.v")) for n in vlib.count_theorems(f)]
        info = {"ok": False, "obligations": len(names), "discharged": 0, "axioms": [], "log": translator_error,
                "failed": "translator: " + translator_error[:200], "theorems": names}
    if not info["ok"]:
        info["discharged"] = 0
    r = vlib.rng(ctx.seed, "C21")
    cases = all_cases()
    corpus = json.loads((ctx.dir / "corpus" / "cases.json").read_text())
    if ctx.quick:
        rest = [c for c in cases if c not in corpus]
        picked = []
        for op in OPS:     # stratified: every operator x kind pair
            for kk in (("T", "T"), ("T", "C"), ("C", "T")):
                pool = [c for c in rest if c["op"] == op and (c["ka"], c["kb"]) == kk]
                picked += r.sample(pool, min(len(pool), 2))
        run_cases = corpus + picked
    else:
        run_cases = corpus + [c for c in cases if c not in corpus]
    # ---- model side: predictions for every case of the domain (cheap)
    model = None
    if translator_error is None and ((vlib.COQ / "C21" / "ModelDispatch.vo").exists() or info["ok"]):
        try:
            out = ctx.coq_eval("rows", coq_rows(cases))
            vals = vlib.parse_coq_values(out)[0]
            model = {}
            for c, v in zip(cases, vals):
                v = [[x[0], x[1].lower()] for x in v]   # parse_coq_values capitalises "true" inside strings
                k = v.index([9, ""])
                model[cid(c)] = (bool(v[0][0]), (v[3:k], bool(v[1][0])), (v[k + 1:], bool(v[2][0])))
        except Exception as e:  # noqa: BLE001
            ctx.notes.append(f"model evaluation failed: {str(e)[:500]}")
    model_disagree = [c for c in cases if model and not model[cid(c)][0]]
    # make sure every case the model flags is executed on the real code
    for c in model_disagree:
        if c not in run_cases:
            run_cases.append(c)
    # ---- implementation side
    impl = {}
    chunk = 150
    payload_cases = [srcs(c) for c in run_cases]
    for i in range(0, len(payload_cases), chunk):
        impl.update(json.loads(ctx.impl("impl_tracing.py", {"mode": "compare", "cases": payload_cases[i:i + chunk]})))
    extra = json.loads(ctx.impl("impl_tracing.py", {"mode": "compare", "cases": extra_srcs()}))
    mc_cases = multi_const_srcs()
    mc = json.loads(ctx.impl("impl_tracing.py", {"mode": "compare", "prelude": MC_PRELUDE,
                                                  "cases": [{k: c[k] for k in ("id", "comptime_src", "regular_src")} for c in mc_cases]}))
    # ---- compare
    prop_fail, model_fail, both_ok, both_err = [], [], 0, 0
    for c in run_cases:
        res = impl[cid(c)]
        ct, rg = res["comptime"], res["regular"]
        for side in (ct, rg):   # the unit value of `return None` is not an operation of the body
            if side["ok"]:
                side["canonical"] = canon(side["terms"])
        same = (ct["ok"] and rg["ok"] and ct["canonical"] == rg["canonical"]) or (not ct["ok"] and not rg["ok"])
        if ct["ok"] and rg["ok"]:
            both_ok += 1
        if not ct["ok"] and not rg["ok"]:
            both_err += 1
        if not same:
            prop_fail.append((c, ct, rg))
        if model:
            agree, (rpred, rsel), (tpred, tsel) = model[cid(c)]
            why = []
            if not prefix_ok(rpred, rg["lookups"]):
                why.append("regular-path lookups")
            if not prefix_ok(tpred, ct["lookups"]):
                why.append("tracing-path lookups")
            if rsel != rg["ok"]:
                why.append("regular-path acceptance")
            if tsel != ct["ok"]:
                why.append("tracing-path acceptance")
            if agree != same:
                why.append("agreement verdict")
            if why:
                model_fail.append((c, why, model[cid(c)], ct, rg))
    for c, ct, rg in prop_fail[:40]:
        ctx.report(f"differs:{cid(c)}", "counterexample",
                   "comptime and regular versions of the same body compile to different operations"
                   + ("" if info["ok"] else f" (proofs broken at {info['failed']})"),
                   {"expression": expr(c), "operand_types": {"left": c["a"], "right": c["b"]},
                    "operand_kinds": {"left": "traced" if c["ka"] == "T" else "python constant", "right": "traced" if c["kb"] == "T" else "python constant"},
                    "programs": srcs(c), "comptime": ct, "regular": rg,
                    "replay": "write `from guppylang import guppy; from guppylang.std.builtins import nat` + the two programs to a file prog.py, then "
                              "PYTHONPATH=/verif/tools:$REPO/guppylang/src:$REPO/guppylang-internals/src /venv/bin/python -c "
                              "'import repo_shim, prog; print(prog.c_%s.compile_function().modules[0].render_dot())' and the same for r_%s; compare the arithmetic op" % (cid(c), cid(c))})
    for c, why, m, ct, rg in model_fail[:5]:
        if any(c is p[0] for p in prop_fail):
            continue   # already reported as a property failure with the same evidence
        ctx.report(f"model-mismatch:{cid(c)}", "correspondence", "Coq dispatch model vs real lookups: " + ", ".join(why),
                   {"expression": expr(c), "types": [c["a"], c["b"]], "model": m, "comptime": ct, "regular": rg})
    extra_fail = []
    for i, e, t in EXTRA:
        ct, rg = extra[i]["comptime"], extra[i]["regular"]
        for side in (ct, rg):
            if side["ok"]:
                side["canonical"] = canon(side["terms"])
        same = (ct["ok"] and rg["ok"] and ct["canonical"] == rg["canonical"]) or (not ct["ok"] and not rg["ok"])
        if not same:
            extra_fail.append(i)
            ctx.report(f"differs:{i}", "counterexample", "unary operator / builtin differs between comptime and regular",
                       {"expression": e, "argument_type": t, "comptime": ct, "regular": rg})
    br_cases = borrow_srcs()
    br = json.loads(ctx.impl("impl_tracing.py", {"mode": "compare", "prelude": BR_PRELUDE,
                                                  "cases": [{k: c[k] for k in ("id", "comptime_src", "regular_src")} for c in br_cases]}))
    br_fail, br_both_ok = [], 0
    for c in br_cases:
        ct, rg = br[c["id"]]["comptime"], br[c["id"]]["regular"]
        for side in (ct, rg):
            if side["ok"]:
                side["canonical_outputs"] = canon_outputs(side["outputs"])
                side.pop("terms", None)
        same = (ct["ok"] and rg["ok"] and ct["canonical_outputs"] == rg["canonical_outputs"]) or (not ct["ok"] and not rg["ok"])
        br_both_ok += bool(ct["ok"] and rg["ok"])
        if not same or not (ct["ok"] and rg["ok"]):   # these bodies are valid in both modes: a rejection is a disagreement with the corpus
            br_fail.append(c["id"])
            if len(br_fail) <= 4:
                ctx.report(f"differs:{c['id']}", "counterexample",
                           "after a call that borrows a container, the comptime body and the regular body use different values",
                           {"body": c["body"], "signature": BR_SIG.strip(), "callees": "props/C21/check.py:BR_PRELUDE",
                            "meaning": "outputs = [return value, xs, ys, m handed back]; each is the dataflow term feeding it (new_array(unpack(X)..) normalised to X)",
                            "comptime": ct, "regular": rg, "programs": {k: c[k] for k in ("comptime_src", "regular_src")}})
    mc_fail, mc_both_ok = [], 0
    for c in mc_cases:
        ct, rg = mc[c["id"]]["comptime"], mc[c["id"]]["regular"]
        for side in (ct, rg):
            if side["ok"]:
                side["canonical"] = canon(side["terms"])
        same = (ct["ok"] and rg["ok"] and ct["canonical"] == rg["canonical"]) or (not ct["ok"] and not rg["ok"])
        mc_both_ok += bool(ct["ok"] and rg["ok"])
        if not same:
            mc_fail.append(c["id"])
            if len(mc_fail) <= 6:
                ctx.report(f"differs:{c['id']}", "counterexample",
                           "a body with several constants compiles to different operations/constants as comptime and as regular function",
                           {"body": c["body"], "constants": c["constants"], "signature": "(x: float, y: float, n: int)",
                            "constant_encoding": "const(<hugr value class>:f64:0x<IEEE-754 bits> | w<log2 width>:<int> | <bool>)",
                            "comptime": ct, "regular": rg, "programs": {k: c[k] for k in ("comptime_src", "regular_src")},
                            "replay": "prepend `from guppylang import guppy` and gf from props/C21/check.py:MC_PRELUDE, compile both with compile_function() under repo_shim and compare the Const nodes"})
    if not info["ok"] and not ctx.violations:
        ctx.report(("translator:" + translator_error) if translator_error else "proof-broken:" + str(info["failed"]), "proof-broken", str(info["failed"]),
                   {"coq_error": vlib.CoqResult(False, info["log"]).error_excerpt(), "model_flagged_cases": [cid(c) for c in model_disagree][:20],
                    "executed_cases": len(run_cases), "translator": {k: str(v) for k, v in tinfo.items()}}, found_input=False)
    elif info["ok"] and model_disagree:
        ctx.notes.append("model flags disagreements although proofs pass: " + ", ".join(cid(c) for c in model_disagree[:5]))
    dist = {}
    for c in run_cases:
        k = f"{c['ka']}{c['kb']}"
        dist[k] = dist.get(k, 0) + 1
    cov = proof_coverage(
        info, "make C21/Props.vo && coqc C21/Props.v (Print Assumptions)",
        ["Coq 8.16.1 kernel; vm_compute over the finite generated domain",
         "props/C21/tr_tracing.py: shape-matching reading of DunderMixin, binary_operation.wrapped, _synthesize_binary, builtins_mock",
         "GenAccepts.v: acceptance table probed from the repo's std library by type-checking `a.<method>(b)` (regular checker); the tracing path's acceptance is validated against it by the correspondence run",
         "ModelDispatch.v: Python's binary-operator dispatch (left method first unless the left operand is a Python constant, then the reflected method of the right operand) and py_ops, written from the language reference",
         "props/C21/hterm.py canonicalisation of HUGR functions into operation terms; tools/repo_shim.py",
         "not modelled (partial): tuple/array/struct unpacking and calls to Guppy functions from comptime code, results on the emulator (no emulator can run /repo HUGR) — agreement is established at the level of the compiled operations"],
        evaluations=len(run_cases) * 2 + len(EXTRA) * 2 + len(mc_cases) * 2 + len(br_cases) * 2 + len(cases), distinct_nontrivial=both_ok,
        rule="cases = operator(19) x operand kinds {traced/traced, traced/const, const/traced} x operand types over {int,nat,float,bool} / constants {2, 2.5, True}; quick = corpus + 2 per operator x kind pair, thorough = all 760; non-trivial = both versions compiled (the operator is defined for the operand types)",
        exhaustive=not ctx.quick, programs=len(run_cases) * 2 + len(EXTRA) * 2 + len(mc_cases) * 2 + len(br_cases) * 2,
        traces_validated_against_impl=len(run_cases) if model else 0, model_impl_mismatches=len(model_fail),
        property_disagreements=len(prop_fail), both_compiled=both_ok, both_rejected=both_err, extra_cases=len(EXTRA), extra_disagreements=extra_fail,
        borrow_bodies=len(br_cases), borrow_both_compiled=br_both_ok, borrow_disagreements=br_fail,
        multi_constant_bodies=len(mc_cases), multi_constant_both_compiled=mc_both_ok, multi_constant_disagreements=mc_fail,
        model_flagged=[cid(c) for c in model_disagree], kind_pairs=dist, translator={k: str(v) for k, v in tinfo.items()},
        samples=[{"expression": expr(c), "types": [c["a"], c["b"]], "comptime": impl[cid(c)]["comptime"], "regular": impl[cid(c)]["regular"],
                  "model": model[cid(c)] if model else None} for c in (run_cases[0], run_cases[len(run_cases) // 2], run_cases[-1])],
        notes=ctx.notes)
    return ctx.finish(LEVEL, cov, ["Python's operator dispatch as written in ModelDispatch.v",
                                   "type-checking of `a.<method>(b)` is the acceptance both paths see (validated per executed case)",
                                   "equal canonical operation terms in the two HUGR functions mean equal results (no emulator available for /repo HUGR)"])
