"""Seeded program generators for C10.

front(r)  -- programs inside the domain of the Coq front-end model: every assignment stores an
             int / float / bool literal (so each block gives each variable a fixed type), uses
             are tuple constructions into never-read temporaries, conditions are bool parameters
             or the constants True / False (dummy edges), loops with break / continue, early
             returns (unreachable code).  Many variables may be undefined on some path and have
             branch-dependent types at the same time, so the FIRST diagnostic matters.
wide(r)   -- richer programs for the whole-compiler determinism search: arithmetic, several
             functions calling each other, structs, generics, tuples, nested functions, loops
             over ranges, several simultaneous errors.
Both return (source text, entry name, tags)."""

HEADER = "from guppylang import guppy\nfrom guppylang.std.builtins import comptime, array, owned, nat\n\n"
VARS = ["a", "b", "c", "d", "e", "f"]
LITS = {"int": ["1", "2", "7"], "float": ["1.5", "0.25"], "bool": ["True", "False"]}


class Front:
    def __init__(self, r):
        self.r = r
        self.tmp = 0
        self.tags = set()
        self.nvars = r.choice([2, 3, 4, 5, 6])
        self.vars = VARS[: self.nvars]
        self.tyw = r.choice([(8, 1, 0), (3, 2, 1), (1, 1, 1)])   # how often types differ

    def lit(self):
        k = self.r.choices(["int", "float", "bool"], weights=self.tyw)[0]
        return self.r.choice(LITS[k])

    def cond(self):
        c = self.r.random()
        if c < 0.12:
            self.tags.add("const-cond")
            return self.r.choice(["True", "False"])
        return self.r.choice(["p", "q", "s"])

    def simple(self):
        r = self.r
        if r.random() < 0.55:
            return f"{r.choice(self.vars)} = {self.lit()}"
        self.tmp += 1
        k = r.choice([1, 2, 2, 3])
        us = [r.choice(self.vars) for _ in range(k)]
        return f"t{self.tmp} = ({', '.join(us)},)"

    def block(self, depth, in_loop, ind):
        r = self.r
        out = []
        n = r.choice([1, 1, 2, 2, 3]) if depth else r.choice([2, 3, 4, 5])
        for _ in range(n):
            c = r.random()
            if depth < 3 and c < 0.30:
                self.tags.add("if")
                out.append(f"{ind}if {self.cond()}:")
                out += self.block(depth + 1, in_loop, ind + "    ")
                if r.random() < 0.6:
                    out.append(f"{ind}else:")
                    out += self.block(depth + 1, in_loop, ind + "    ")
            elif depth < 3 and c < 0.42:
                self.tags.add("while")
                out.append(f"{ind}while {self.cond()}:")
                out += self.block(depth + 1, True, ind + "    ")
            elif in_loop and c < 0.48:
                out.append(f"{ind}{r.choice(['break', 'continue'])}")
                self.tags.add("jump")
                break
            elif depth and c < 0.52:
                out.append(f"{ind}return 0")
                self.tags.add("early-return")
                break
            else:
                out.append(ind + self.simple())
        return out

    def program(self):
        r = self.r
        nparams = r.choice([0, 0, 1, 2])
        params = ["p: bool", "q: bool", "s: bool"]
        for v in self.vars[:nparams]:
            params.append(f"{v}: {r.choice(['int', 'int', 'float'])}")
        # profile: how many variables are initialised up front (all -> only branch-type
        # errors / accepted programs; few -> undefined / maybe-undefined errors dominate)
        prof = r.choice([1.0, 1.0, 0.8, 0.5, 0.2])
        self.tags.add(f"init{prof}")
        body = [f"    {v} = {self.lit()}" for v in self.vars[nparams:] if r.random() < prof]
        body += self.block(0, False, "    ")
        # final uses make many variables live at the joins
        k = r.choice([1, 2, 3, self.nvars])
        us = r.sample(self.vars, min(k, self.nvars))
        body.append(f"    tz = ({', '.join(us)},)")
        body.append("    return 0")
        pre = ""
        if r.random() < 0.35:
            # a module-level function with the name of a local variable, and one that is only global
            self.tags.add("global-names")
            g = r.choice(self.vars)
            pre = f"@guppy\ndef {g}() -> int:\n    return 0\n\n@guppy\ndef gg() -> int:\n    return 1\n\n"
            body.insert(r.choice([0, len(body) - 2]), f"    tg = (gg, {g},)")
        src = HEADER + pre + "@guppy\ndef main(" + ", ".join(params) + ") -> int:\n" + "\n".join(body) + "\n"
        return src, "main", sorted(self.tags)


def front(r):
    return Front(r).program()


# ------------------------------------------------------------------------------------------------
class Wide:
    def __init__(self, r):
        self.r = r
        self.tags = set()
        self.k = 0

    def expr(self, vs, depth=0):
        r = self.r
        c = r.random()
        if depth > 2 or c < 0.35:
            return r.choice(vs + ["1", "2", "3"])
        if c < 0.8:
            return f"({self.expr(vs, depth + 1)} {r.choice(['+', '-', '*'])} {self.expr(vs, depth + 1)})"
        if c < 0.9:
            self.tags.add("ifexp")
            return f"({self.expr(vs, depth + 1)} if {r.choice(vs)} > 0 else {self.expr(vs, depth + 1)})"
        self.tags.add("call")
        return f"h{r.randrange(3)}({self.expr(vs, depth + 1)}, {self.expr(vs, depth + 1)})"

    def body(self, vs, depth, ind, in_loop):
        r = self.r
        out = []
        for _ in range(r.choice([2, 3, 4])):
            c = r.random()
            if depth < 3 and c < 0.25:
                out.append(f"{ind}if {self.expr(vs)} > {self.expr(vs)}:")
                out += self.body(vs, depth + 1, ind + "    ", in_loop)
                if r.random() < 0.7:
                    out.append(f"{ind}else:")
                    out += self.body(vs, depth + 1, ind + "    ", in_loop)
            elif depth < 3 and c < 0.35:
                self.tags.add("while")
                out.append(f"{ind}while {r.choice(vs)} < {r.choice(['10', '100'])}:")
                out += self.body(vs, depth + 1, ind + "    ", True)
                out.append(f"{ind}    {vs[0]} = {vs[0]} + 1")
            elif depth < 3 and c < 0.43:
                self.tags.add("for")
                self.k += 1
                out.append(f"{ind}for i{self.k} in range({r.choice(['3', '5', vs[0]])}):")
                out += self.body(vs + [f"i{self.k}"], depth + 1, ind + "    ", True)
            elif in_loop and c < 0.47:
                out.append(f"{ind}{r.choice(['break', 'continue'])}")
                break
            elif c < 0.52 and depth:
                self.tags.add("bad-type")
                out.append(f"{ind}{r.choice(vs[:4])} = {r.choice(['1.5', 'True', '(1, 2)'])}")
            elif c < 0.56:
                self.tags.add("maybe-undef")
                out.append(f"{ind}{r.choice(['u', 'v', 'w'])} = {self.expr(vs)}")
            else:
                out.append(f"{ind}{r.choice(vs[:4])} = {self.expr(vs)}")
        return out

    def program(self):
        r = self.r
        parts = [HEADER]
        use_struct = r.random() < 0.4
        if use_struct:
            self.tags.add("struct")
            parts.append("@guppy.struct\nclass P:\n    x: int\n    y: int\n\n"
                         "    @guppy\n    def total(self: \"P\") -> int:\n        return self.x + self.y\n\n")
        if r.random() < 0.4:
            self.tags.add("generic")
            parts.append("T = guppy.type_var(\"T\")\n\n@guppy\ndef ident(x: T) -> T:\n    return x\n\n"
                         "@guppy\ndef pick(x: T, y: T, c: bool) -> T:\n    if c:\n        return x\n    return y\n\n")
            gen = True
        else:
            gen = False
        for i in range(3):
            vs = ["x", "y"]
            b = self.body(vs, 1, "    ", False)
            parts.append(f"@guppy\ndef h{i}(x: int, y: int) -> int:\n" + "\n".join(b) + "\n    return x + y\n\n")
        vs = ["a", "b", "c", "d"]
        b = self.body(vs, 0, "    ", False)
        tail = []
        if r.random() < 0.5:
            self.tags.add("use-maybe-undef")
            tail.append(f"    a = a + {r.choice(['u', 'v', 'w'])} + {r.choice(['u', 'v', 'w'])}")
        if use_struct:
            tail.append("    pt = P(a, b)\n    a = pt.total() + pt.x")
        if gen:
            tail.append("    b = ident(b) + pick(c, d, a > b)")
        if r.random() < 0.3:
            self.tags.add("nested")
            tail.append("    def inner(z: int) -> int:\n        return z + a + b\n    c = inner(c)")
        if r.random() < 0.3:
            self.tags.add("tuple")
            tail.append("    tp = (a, b, (c, d))\n    a, b, (c, d) = tp")
        parts.append("@guppy\ndef main(a: int, b: int, c: int, d: int) -> int:\n" + "\n".join(b + tail)
                     + "\n    return a + b + c + d\n")
        return "".join(parts), "main", sorted(self.tags)


def wide(r):
    return Wide(r).program()


# ------------------------------------------------------------------------------------------------
def comptime(r):
    """Programs whose compile-time VALUES reach the compiler's tables (monomorphization keys,
    result tags, panic messages, names): `str/int/float/bool/nat @comptime` arguments forwarded
    through user helpers (several distinct strings, some differing in one character), const
    generics, structs and functions with nearly identical names, many definitions.  Accepted
    programs, compared by bytes and FuncDefn names across hash seeds."""
    tags = set()
    words = ["alpha", "beta", "alphb", "a", "b", "", "tag", "tag_", "Tag", "x" * r.randrange(1, 40),
             "q0", "q1", "res.0", "res.1", "µ", "long tag with spaces"]
    parts = ["from guppylang import guppy\nfrom guppylang.std.builtins import comptime, result, nat, array, panic\n\n",
             "T = guppy.type_var(\"T\")\nn = guppy.nat_var(\"n\")\n\n"]
    calls = []
    nh = r.choice([2, 3, 5, 8])
    kinds = ["str", "int", "float", "bool", "nat", "str2", "fwd"]
    base = r.choice(["rep", "report", "f", "helper_"])
    names = []
    for i in range(nh):
        k = r.choice(kinds) if i else "str"
        name = base + r.choice(["", "_", "0", "1", "x"]) + str(i)
        names.append((name, k))
        tags.add(k)
        if k == "str":
            parts.append(f"@guppy\ndef {name}(x: int, label: str @comptime) -> None:\n    result(label, x)\n\n")
        elif k == "str2":
            parts.append(f"@guppy\ndef {name}(x: int, l1: str @comptime, l2: str @comptime) -> None:\n"
                         f"    result(l1, x)\n    result(l2, x + 1)\n\n")
        elif k == "fwd":
            tgt = names[0][0]
            parts.append(f"@guppy\ndef {name}(x: int, label: str @comptime, k: int @comptime) -> None:\n"
                         f"    {tgt}(x + k, label)\n    {tgt}(x, {r.choice(words)!r})\n\n")
        elif k == "int":
            parts.append(f"@guppy\ndef {name}(x: int, k: int @comptime) -> None:\n    result(\"i\", x + k)\n\n")
        elif k == "float":
            parts.append(f"@guppy\ndef {name}(x: int, k: float @comptime) -> None:\n    result(\"f\", k)\n\n")
        elif k == "bool":
            parts.append(f"@guppy\ndef {name}(x: int, k: bool @comptime) -> None:\n    if k:\n        result(\"t\", x)\n\n")
        else:
            parts.append(f"@guppy\ndef {name}(x: int, k: nat @comptime) -> None:\n    result(\"n\", x + int(k))\n\n")
    if r.random() < 0.5:
        tags.add("struct")
        parts.append("@guppy.struct\nclass Rec:\n    a: int\n    b: int\n\n@guppy.struct\nclass Rec_:\n    a: int\n    b: int\n\n"
                     "@guppy\ndef tot(p: Rec, q: Rec_) -> int:\n    return p.a + q.b\n\n")
        calls.append("    x = tot(Rec(x, 1), Rec_(2, x))")
    if r.random() < 0.5:
        tags.add("const-generic")
        parts.append("@guppy\ndef size(xs: array[int, n]) -> int:\n    return int(n)\n\n@guppy\ndef ident(y: T) -> T:\n    return y\n\n")
        calls.append("    x = x + size(array(1, 2, 3)) + size(array(1, 2)) + ident(x) + int(ident(1.5))")
    for _ in range(r.choice([3, 5, 8, 12])):
        name, k = r.choice(names)
        if k == "str":
            calls.append(f"    {name}(x, {r.choice(words)!r})")
        elif k == "str2":
            calls.append(f"    {name}(x, {r.choice(words)!r}, {r.choice(words)!r})")
        elif k == "fwd":
            calls.append(f"    {name}(x, {r.choice(words)!r}, {r.choice([0, 1, -3, 2 ** 40])})")
        elif k == "int":
            calls.append(f"    {name}(x, {r.choice([0, 1, -1, 7, 2 ** 62, -2 ** 61])})")
        elif k == "float":
            calls.append(f"    {name}(x, {r.choice(['0.5', '-0.0', '1e300', '3.25', '2.0'])})")
        elif k == "bool":
            calls.append(f"    {name}(x, {r.choice(['True', 'False'])})")
        else:
            calls.append(f"    {name}(x, {r.choice([0, 1, 5, 64])})")
    if r.random() < 0.4:
        tags.add("panic")
        calls.append(f"    if x > 99:\n        panic({r.choice(words) + ' failed'!r}, x)")
    parts.append("@guppy\ndef main(x: int) -> int:\n" + "\n".join(calls) + "\n    return x\n")
    return "".join(parts), "main", sorted(tags)
