"""C10 — compiler output and diagnostics are deterministic.  PARTIAL (see NOTES.md).

1. T  regenerate coq/C10/GenSites.v: fail-closed inventory of the order-observing uses of
      unordered collections in the anchored files (tr_itersites.py);
2.    re-check coq/C10/Props.v: diag_oracle_independent & co. (imports C09), sites_tie (generated
      inventory = reviewed inventory of Sites.v = the model's oracle list);
3. X1 model tie: seeded programs inside the model's domain -> the REAL check() (CFG dumped from
      inside the real check_cfg call) vs the Coq front end evaluated by vm_compute on the dumped
      CFG: verdict, error kind, variable, witness use, BadBranch note, type hints.  The real
      side is run under two different pop orders of the forward work list;
4. X2 determinism search (always run): corpus + seeded programs (model-domain and wide: several
      definitions, structs, generics, closures, several simultaneous errors) are checked /
      compiled in SEPARATE interpreter processes under different PYTHONHASHSEED values, heap
      perturbations and injected pop orders for every remaining `set` work list of analysis.py;
      rendered diagnostic text / sha256(to_bytes()) must agree.  Any difference is a
      counterexample: program + the two configurations.
If the proofs or the inventory tie break and X finds no nondeterministic program the verdict is
`VIOLATION … no-failing-input-found`."""
import hashlib
import json
import re
import subprocess
from collections import Counter
from concurrent.futures import ThreadPoolExecutor
from pathlib import Path

import vlib
from vlib import proof_coverage

LEVEL = "proof"
HERE = Path(__file__).resolve().parent


def generate(ctx):
    import tr_sites_gen
    root = ctx.repo / vlib.SRC_INT
    try:
        inv = tr_sites_gen.inventory(root)
    except (FileNotFoundError, ValueError) as e:
        raise vlib.TranslatorError(f"site inventory: {e}") from e
    try:
        inv_all = tr_sites_gen.inventory_all(root)
    except (FileNotFoundError, ValueError) as e:
        raise vlib.TranslatorError(f"whole-package site inventory: {e}") from e
    ctx.gen("GenSites.v", tr_sites_gen.render(inv, inv_all))
    inv.all_set_sites = inv_all.set_sites
    return inv


# ------------------------------------------------------------------------------------ X1
def L(xs):
    return "[" + "; ".join(str(x) for x in xs) + "]"


def rank_positions(rec):
    """source positions -> order preserving small ranks (0 stays 'no position')"""
    d = rec["dump"]
    ps = sorted(({p for b in d["blocks"] for _, _, p in b["defs"]} | {p for _, _, p in d["inputs"]}) - {0})
    rk = {p: i + 1 for i, p in enumerate(ps)}
    rk[0] = 0
    for b in d["blocks"]:
        b["defs"] = [[x, t, rk[p]] for x, t, p in b["defs"]]
    d["inputs"] = [[x, t, rk[p]] for x, t, p in d["inputs"]]
    o = rec["obs"]
    if o and o[0] == 3:
        rec["obs"] = o[:3] + [rk.get(o[3], -1), o[4], rk.get(o[5], -1), o[6]]


def coq_term(dump, lsched="[]", rm="union_keys", fs="[]"):
    bl = []
    for b in dump["blocks"]:
        defs = "[" + "; ".join(f"({x},({t},{p}))" for x, t, p in b["defs"]) + "]"
        bl.append(f"mkX (mkBlock {L(b['succ'])} {L(b['dsucc'])} {L(b['use'])} {L(b['def'])}) "
                  f"{L(b['pred'])} {L(b['dpred'])} {defs}")
    g = "[" + ";\n ".join(bl) + "]"
    inputs = "[" + "; ".join(f"({x},({t},{p}))" for x, t, p in dump["inputs"]) + "]"
    return (f"enc (front_end_run {lsched} {rm} {fs} {g} {inputs} {L(dump['inout'])} "
            f"(fun x => memb x {L(dump['glob'])}))")


def coq_file(terms):
    return ("From Coq Require Import List Bool Arith.\nFrom V.C09 Require Import Analysis.\n"
            "From V.C10 Require Import Model.\nImport ListNotations.\n"
            "Definition cases : list (list nat) := [\n" + ";\n".join(terms) + "].\nEval vm_compute in cases.\n")


def run_front(ctx, progs, fsched):
    out = ctx.impl("impl_front.py", {"programs": progs, "dir": str(ctx.scratch), "fsched": fsched}, timeout=1500)
    return json.loads(out)


def model_tie(ctx, n, have_model):
    import gen_progs
    progs, tags = [], Counter()
    for i in range(n):
        src, entry, tg = gen_progs.front(vlib.rng(ctx.seed, f"front{i}"))
        progs.append({"id": f"front{i}", "src": src, "entry": entry})
        tags.update(tg)
    half = (len(progs) + 1) // 2
    with ThreadPoolExecutor(max_workers=4) as ex:
        futs = [ex.submit(run_front, ctx, progs[:half], None), ex.submit(run_front, ctx, progs[half:], None),
                ex.submit(run_front, ctx, progs[:half], ["rand", ctx.seed]),
                ex.submit(run_front, ctx, progs[half:], "ridx")]
        res = [f.result() for f in futs]
    base, alt = res[0] + res[1], res[2] + res[3]
    stats = Counter()
    usable = []
    for p, r, r2 in zip(progs, base, alt):
        if r["dump"] is None or r["note"] or r["obs"][0] == "other":
            stats["outside-model"] += 1
            ctx.notes.append(f"{p['id']}: outside the model ({r['obs']}, {r['note'][:120]})") if stats["outside-model"] <= 5 else None
            continue
        rank_positions(r)
        if r2["dump"] is not None and not r2["note"] and r2["obs"][0] != "other":
            rank_positions(r2)
        if r2["obs"] != r["obs"]:
            ctx.report("fwd-sched:" + hashlib.sha1(p["src"].encode()).hexdigest()[:12], "counterexample",
                       "real check() differs between two interpreter runs (the second with an injected pop order of the forward work list, oracle F)",
                       {"program": p["src"], "default_order": r["obs"], "injected_order": r2["obs"],
                        "replay": "props/C10/impl_front.py with fsched null vs \"ridx\" / [\"rand\", seed]"})
        usable.append((p, r))
        stats["kind%s" % r["obs"][0]] += 1
    disagreements = 0
    model_vals = None
    if have_model and usable:
        chunks = [usable[i:i + 60] for i in range(0, len(usable), 60)]
        try:
            outs = ctx.coq_eval_many({f"front{i}": coq_file([coq_term(r["dump"]) for _, r in c])
                                      for i, c in enumerate(chunks)}, jobs=12)
            model_vals = []
            for i in range(len(chunks)):
                model_vals += vlib.parse_coq_values(outs[f"front{i}"])[0]
        except RuntimeError as e:
            ctx.notes.append(f"model evaluation failed: {str(e)[-400:]}")
            model_vals = None
        if model_vals is not None:
            for (p, r), m in zip(usable, model_vals):
                if m != r["obs"]:
                    disagreements += 1
                    if disagreements <= 3:
                        ctx.report("model-tie:" + hashlib.sha1(p["src"].encode()).hexdigest()[:12], "correspondence",
                                   "Coq front_end vs real check_cfg",
                                   {"program": p["src"], "implementation": r["obs"], "model": m,
                                    "names": r["dump"]["names"],
                                    "encoding": "[0] ok; [1,w,x] not defined at use of x in block w; [2,w,x,0|1,a,tv] maybe undefined (+BadBranch at block a); [3,w,x,p1,t1,p2,t2] different types",
                                    "meaning": "model and implementation disagree: either the front end changed or the model is wrong"})
    distinct = len({json.dumps(r["dump"]["blocks"]) for _, r in usable})
    nontrivial = len({json.dumps(r["dump"]["blocks"]) for _, r in usable if len(r["dump"]["blocks"]) > 2})
    return {"programs": len(progs), "usable": len(usable), "distinct_cfgs": distinct, "nontrivial": nontrivial,
            "stats": dict(stats), "tags": dict(tags), "disagreements": disagreements,
            "validated": len(model_vals) if model_vals is not None else 0,
            "sample": {"program": usable[0][0]["src"], "obs": usable[0][1]["obs"]} if usable else None}


# ------------------------------------------------------------------------------------ X2
def corpus_programs():
    out = []
    for f in sorted((HERE / "corpus").glob("*.py")):
        src = f.read_text()
        m = re.search(r"# MODE: (\w+) ENTRY: (\w+)", src)
        out.append({"id": f"corpus/{f.name}", "src": src, "entry": m.group(2), "mode": m.group(1)})
    return out


def run_config(ctx, progs, cfg):
    seed, junk, sched = cfg
    env = vlib.impl_env(ctx.repo, str(seed))
    req = {"programs": progs, "junk": junk, "sched": sched, "dir": str(ctx.scratch)}
    p = subprocess.run([vlib.PY, str(HERE / "impl_run.py")], input=json.dumps(req), text=True, env=env,
                       stdout=subprocess.PIPE, stderr=subprocess.PIPE, timeout=3000, cwd=str(ctx.scratch))
    if p.returncode != 0:
        raise RuntimeError(f"impl_run.py failed under {cfg}: {p.stderr[-2000:]}")
    return json.loads(p.stdout)


def determinism_search(ctx, n_wide, n_front, n_ct, configs):
    import gen_progs
    progs = corpus_programs()
    ncorpus = len(progs)
    tags = Counter()
    for i in range(n_wide):
        src, entry, tg = gen_progs.wide(vlib.rng(ctx.seed, f"wide{i}"))
        progs.append({"id": f"wide{i}", "src": src, "entry": entry, "mode": "compile"})
        tags.update(tg)
    for i in range(n_ct):
        src, entry, tg = gen_progs.comptime(vlib.rng(ctx.seed, f"ct{i}"))
        progs.append({"id": f"ct{i}", "src": src, "entry": entry, "mode": "compile"})
        tags.update("ct-" + t for t in tg)
    for i in range(n_front):
        src, entry, tg = gen_progs.front(vlib.rng(ctx.seed, f"dfront{i}"))
        progs.append({"id": f"dfront{i}", "src": src, "entry": entry, "mode": "compile"})
    with ThreadPoolExecutor(max_workers=min(12, len(configs))) as ex:
        results = list(ex.map(lambda c: run_config(ctx, progs, c), configs))
    nondet, outcomes = 0, Counter()
    texts = set()
    for k, p in enumerate(progs):
        ref = results[0][k]
        outcomes[ref["outcome"]] += 1
        texts.add(ref["text"])
        for c, res in zip(configs[1:], results[1:]):
            if res[k]["text"] != ref["text"] or res[k]["outcome"] != ref["outcome"]:
                nondet += 1
                key = "nondet:" + (p["id"] if p["id"].startswith("corpus/") else hashlib.sha1(p["src"].encode()).hexdigest()[:12])
                ctx.report(key, "counterexample", "same program, two interpreter processes, different observable result",
                           {"program": p["src"], "mode": p["mode"], "entry": p["entry"],
                            "config_a": dict(zip(("PYTHONHASHSEED", "junk", "sched"), configs[0])), "result_a": ref,
                            "config_b": dict(zip(("PYTHONHASHSEED", "junk", "sched"), c)), "result_b": res[k],
                            "replay": "save the program to p.py; echo '{\"programs\":[{\"id\":\"p\",\"src\":<p.py text>,\"entry\":\"%s\",\"mode\":\"%s\"}],\"junk\":J,\"sched\":S,\"dir\":\"/tmp\"}' | PYTHONHASHSEED=<seed> PYTHONPATH=/verif/tools:<tree>/guppylang/src:<tree>/guppylang-internals/src /venv/bin/python /verif/props/C10/impl_run.py   (once per configuration)" % (p["entry"], p["mode"])})
                break
    return {"programs": len(progs), "corpus": ncorpus, "configs": [list(c) for c in configs],
            "process_runs": len(configs), "executions": len(configs) * len(progs),
            "outcomes": dict(outcomes), "distinct_results": len(texts), "nondeterministic_programs": nondet,
            "tags": dict(tags),
            "sample": {"id": progs[ncorpus]["id"], "program": progs[ncorpus]["src"], "result": results[0][ncorpus]} if len(progs) > ncorpus else None}


# ------------------------------------------------------------------------------------ run
def run(ctx):
    inv = generate(ctx)
    info = ctx.coq_props()
    have_model = (vlib.COQ / "C10" / "Model.vo").exists()
    quick = ctx.quick
    tie = model_tie(ctx, 240 if quick else 1200, have_model)
    configs = [(0, 0, None), (1, 3000, None), (2, 0, "ridx"), (3, 20000, ["rand", ctx.seed]), (0, 0, None)]
    if not quick:
        configs += [(4, 500, "lifo"), (5, 77777, None), (6, 100, "fifo"), (7, 9000, ["rand", ctx.seed + 1]),
                    (8, 0, "idx"), (9, 40000, None), (10, 1234, ["rand", ctx.seed + 2])]
    search = determinism_search(ctx, 40 if quick else 200, 30 if quick else 150, 25 if quick else 150, configs)

    # whole-compiler inventory: reported, not part of the tie
    try:
        import tr_itersites
        root = ctx.repo / vlib.SRC_INT
        allf = sorted(str(p.relative_to(root)) for p in root.rglob("*.py"))
        whole = tr_itersites.scan(root, allf, allf)
        whole_sites = [list(s) for s in whole.set_sites]
    except Exception as e:  # noqa: BLE001
        whole_sites = [f"scan failed: {e}"]

    if not info["ok"]:
        found = any(v["kind"] == "counterexample" for v in ctx.violations) or ctx.known_hits
        if not found:
            ctx.report("proof-broken:" + str(info["failed"]), "proof-broken", str(info["failed"]),
                       {"coq_error": vlib.CoqResult(False, info["log"]).error_excerpt(),
                        "generated_set_sites": [list(s) for s in inv.set_sites],
                        "meaning": "the proofs or the tie between the generated site inventory (GenSites.v) and the reviewed one (Sites.v) no longer check: a new order-observing use of an unordered collection appeared in the anchored files, or a modelled site changed",
                        "searched": {"determinism_executions": search["executions"], "model_tie_programs": tie["programs"]}},
                       found_input=False)
    cov = proof_coverage(
        info, "make -f Makefile.C10 C10/Props.vo && coqc C10/Props.v (Print Assumptions)",
        ["Coq 8.16.1 kernel; vm_compute in the refutation witnesses, sites_tie and the model evaluation of the harness",
         "V.C09 (imported, proved there): order_independent, run_terminates for the forward work list",
         "props/C10/tr_itersites.py: syntactic notion of a set-typed expression / order-observing consumer (no interprocedural flow); Sites.v dispositions marked Reviewed are arguments in prose, not theorems",
         "props/C10/impl_front.py (CFG dump from inside the real check_cfg; literal-typed assignments), impl_run.py (heap perturbation, injected work-set class), tools/repo_shim.py",
         "NOT covered by any theorem: statement type checking, linearity, unitarity, HUGR lowering and serialisation, engine/compiler work lists (insertion-ordered dicts) -- sampled by the determinism search only"],
        evaluations=tie["programs"] * 2 + search["executions"],
        distinct_nontrivial=tie["nontrivial"] + search["distinct_results"],
        rule="model tie: seeded model-domain programs, distinct = distinct dumped CFGs, non-trivial = more than entry+exit block; determinism search: (program, process configuration) executions, distinct = distinct rendered diagnostics / HUGR hashes in the reference configuration",
        traces_validated_against_impl=tie["validated"],
        model_tie=tie, determinism_search=search,
        site_inventory={"anchored_set_sites": [list(s) for s in inv.set_sites], "anchored_unknown_sites": len(inv.unk_sites),
                        "iteration_expressions_scanned": inv.n_iter, "whole_compiler_set_sites(not tied)": whole_sites},
        samples=[tie["sample"], search["sample"]],
        notes=ctx.notes)
    return ctx.finish(LEVEL, cov, [
        "each block gives each assigned variable one fixed type (model domain: literal assignments)",
        "set iteration order is an arbitrary permutation / arbitrary member choice; CPython dict order is insertion order",
        "partial: whole-compiler determinism is sampled, not proved"])
