"""Part T of C10: fail-closed inventory of the places where the compiler OBSERVES THE ORDER of
an unordered collection (string-hashed or identity-hashed `set`/`frozenset`, set-algebra on dict
key views).  Pure `ast`; nothing is imported from the tree under test.

What is a site
  * `for … in E`, a comprehension generator `… for … in E`, a starred `*E`, or a call
    `c(E, …)` of an ORDER-OBSERVING consumer (`list tuple iter next enumerate zip reversed map
    filter dict str.join deque chain …` – everything that is not in ORDER_BLIND), where E has kind
    SET;
  * `E.pop()` without arguments where E has kind SET;
  * every call of the builtins `id(…)` / `hash(…)` / `repr(<non-literal>)`, `key=hash|id`, and
    `x.__hash__()` outside a `__hash__` method (address / seed dependent values);
  * the same consumers applied to an expression whose kind the scanner cannot decide (kind UNK):
    these are listed separately ("unknown" sites) and must be reviewed one by one as well.
Kinds are inferred from syntax and annotations only (set displays / comprehensions, `set(…)`,
`frozenset(…)`, set methods, `|&-^` with a SET or dict-view operand, annotated locals,
parameters, class attributes and return types of the scanned files, module level type aliases).
Order-BLIND consumers (`len sorted set frozenset min max any all sum bool in issubset …`) are not
sites.  Passing a set to an arbitrary function is not followed (documented gap: the differential
search of Part X is what samples the rest of the compiler).

A site is identified by (file, enclosing qualified name, what, normalised expression text) – no
line numbers, so moving code around or renaming an unrelated local does not change the
inventory; a new unordered iteration, or turning an ordered container into a set, does.
"""
from __future__ import annotations

import ast
from pathlib import Path

SET_HEADS = {"set", "frozenset", "Set", "FrozenSet", "AbstractSet", "MutableSet"}
ORD_HEADS = {"list", "tuple", "dict", "Sequence", "Mapping", "MutableMapping", "deque", "str",
             "List", "Tuple", "Dict", "defaultdict", "OrderedDict", "Iterator", "Generator",
             "range", "bytes", "Row", "Inst", "PartiallyMonomorphizedArgs", "FrozenList", "Counter",
             "ItemsView", "ValuesView"}
DICT_HEADS = {"dict", "Mapping", "MutableMapping", "Dict", "defaultdict", "OrderedDict", "Counter"}
SET_METHODS = {"union", "intersection", "difference", "symmetric_difference"}
# consumers that cannot observe the order of their (single) iterable argument
ORDER_BLIND = {"len", "sorted", "set", "frozenset", "min", "max", "any", "all", "sum", "bool",
               "isinstance", "issubset", "issuperset", "isdisjoint", "update", "union",
               "intersection", "difference", "symmetric_difference", "intersection_update",
               "difference_update", "discard", "remove", "add", "print", "repr", "type",
               "hasattr", "getattr", "copy", "deepcopy", "field", "cast", "TypeVar", "assert_never"}
# consumers whose result depends on the order of an iterable argument
ORDER_OBSERVERS = {"list", "tuple", "iter", "next", "enumerate", "zip", "reversed", "map", "filter",
                   "dict", "join", "deque", "chain", "extend", "fromkeys", "from_iterable", "zip_longest",
                   "islice", "product", "OrderedDict", "Counter", "str", "repr", "format"}
ORDERED_PRODUCERS = {"list", "tuple", "sorted", "range", "enumerate", "zip", "reversed", "map",
                     "filter", "dict", "iter", "chain", "deque", "str", "reverse_enumerate",
                     "product", "count", "islice", "zip_longest", "fromkeys"}
SET, ORD, DICT, UNK = "set", "ord", "dict", "unk"


class Scan:
    def __init__(self, files: dict[str, str]):
        """files: relative name -> source text"""
        self.trees = {}
        for name, text in files.items():
            try:
                self.trees[name] = ast.parse(text)
            except SyntaxError as e:  # fail closed
                raise ValueError(f"{name}: cannot parse: {e}") from e
        self.aliases: dict[str, ast.expr] = {}      # module level  Name = <annotation>
        self.attr_ann: dict[str, set[str]] = {}     # attribute name -> kinds
        self.attr_elem: dict[str, list[ast.expr]] = {}
        self.ret_ann: dict[str, set[str]] = {}      # function / method name -> kinds
        self.ret_expr: dict[str, list[ast.expr]] = {}
        self.set_sites: list[tuple[str, str, str, str]] = []
        self.unk_sites: list[tuple[str, str, str, str]] = []
        self.n_iter = 0
        self.n_ordered = 0
        for t in self.trees.values():
            self.collect(t)

    # ------------------------------------------------------------------ declarations
    def collect(self, tree):
        for node in tree.body:
            if isinstance(node, ast.Assign) and len(node.targets) == 1 and isinstance(node.targets[0], ast.Name):
                if self.looks_like_annotation(node.value):
                    self.aliases[node.targets[0].id] = node.value
        for node in ast.walk(tree):
            if isinstance(node, ast.ClassDef):
                for st in node.body:
                    if isinstance(st, ast.AnnAssign) and isinstance(st.target, ast.Name):
                        self.attr_ann.setdefault(st.target.id, set()).add(self.ann_kind(st.annotation))
                        self.attr_elem.setdefault(st.target.id, []).append(st.annotation)
            if isinstance(node, (ast.FunctionDef, ast.AsyncFunctionDef)):
                is_prop = any((isinstance(d, ast.Name) and d.id in ("property", "cached_property"))
                              or (isinstance(d, ast.Attribute) and d.attr in ("property", "cached_property"))
                              for d in node.decorator_list)
                if is_prop:
                    self.attr_ann.setdefault(node.name, set()).add(self.ann_kind(node.returns))
                    if node.returns is not None:
                        self.attr_elem.setdefault(node.name, []).append(node.returns)
                if node.returns is not None:
                    self.ret_ann.setdefault(node.name, set()).add(self.ann_kind(node.returns))
                    self.ret_expr.setdefault(node.name, []).append(node.returns)
                else:
                    self.ret_ann.setdefault(node.name, set()).add(UNK)
            if isinstance(node, ast.AnnAssign) and isinstance(node.target, ast.Attribute):
                self.attr_ann.setdefault(node.target.attr, set()).add(self.ann_kind(node.annotation))
                self.attr_elem.setdefault(node.target.attr, []).append(node.annotation)

    @staticmethod
    def looks_like_annotation(e):
        if isinstance(e, ast.Subscript) and isinstance(e.value, ast.Name):
            return e.value.id in SET_HEADS | ORD_HEADS | {"Iterable", "Collection", "Result", "Union", "Optional"} or e.value.id[:1].isupper()
        return False

    def resolve(self, ann, depth=0):
        """Unfold string annotations and module level aliases (one type variable)."""
        if depth > 8 or ann is None:
            return ann
        if isinstance(ann, ast.Constant) and isinstance(ann.value, str):
            try:
                return self.resolve(ast.parse(ann.value, mode="eval").body, depth + 1)
            except SyntaxError:
                return ann
        if isinstance(ann, ast.Name) and ann.id in self.aliases:
            return self.resolve(self.aliases[ann.id], depth + 1)
        if isinstance(ann, ast.Subscript) and isinstance(ann.value, ast.Name) and ann.value.id in self.aliases \
                and ann.value.id not in SET_HEADS | ORD_HEADS:
            body = self.aliases[ann.value.id]
            arg = ann.slice

            class Sub(ast.NodeTransformer):
                def visit_Name(s, n):  # noqa: N805
                    return arg if (len(n.id) <= 3 and n.id.isupper() or n.id in ("VId", "T")) else n
            import copy
            return self.resolve(Sub().visit(copy.deepcopy(body)), depth + 1)
        return ann

    def ann_kind(self, ann) -> str:
        ann = self.resolve(ann)
        if ann is None:
            return UNK
        if isinstance(ann, ast.BinOp) and isinstance(ann.op, ast.BitOr):  # X | None
            ks = {self.ann_kind(ann.left), self.ann_kind(ann.right)} - {"none"}
            return ks.pop() if len(ks) == 1 else UNK
        if isinstance(ann, ast.Constant) and ann.value is None:
            return "none"
        head = ann.value if isinstance(ann, ast.Subscript) else ann
        name = head.id if isinstance(head, ast.Name) else head.attr if isinstance(head, ast.Attribute) else None
        if name in SET_HEADS:
            return SET
        if name in DICT_HEADS:
            return DICT
        if name in ORD_HEADS:
            return ORD
        return UNK

    def ann_elem(self, ann):
        """Annotation of `x[k]` / of the elements yielded by `.values()` for x : ann."""
        ann = self.resolve(ann)
        if isinstance(ann, ast.Subscript):
            sl = ann.slice
            head = ann.value.id if isinstance(ann.value, ast.Name) else None
            if head in DICT_HEADS and isinstance(sl, ast.Tuple) and len(sl.elts) == 2:
                return sl.elts[1]
            if head in ("list", "Sequence", "List", "deque") and not isinstance(sl, ast.Tuple):
                return sl
        return None

    # ------------------------------------------------------------------ kinds of expressions
    def kind(self, e, env) -> str:
        if isinstance(e, (ast.Set, ast.SetComp)):
            return SET
        if isinstance(e, (ast.Dict, ast.DictComp)):
            return DICT
        if isinstance(e, (ast.List, ast.Tuple, ast.ListComp, ast.Constant, ast.JoinedStr)):
            return ORD
        if isinstance(e, ast.GeneratorExp):
            ks = {self.kind(g.iter, env) for g in e.generators}
            return SET if SET in ks else UNK if UNK in ks else ORD
        if isinstance(e, ast.IfExp):
            ks = {self.kind(e.body, env), self.kind(e.orelse, env)}
            return SET if SET in ks else ks.pop() if len(ks) == 1 else UNK
        if isinstance(e, ast.BinOp):
            l, r = self.kind(e.left, env), self.kind(e.right, env)
            if isinstance(e.op, (ast.BitOr, ast.BitAnd, ast.Sub, ast.BitXor)):
                if SET in (l, r) or self.is_view(e.left, env) or self.is_view(e.right, env):
                    return SET
                if l == r == DICT and isinstance(e.op, ast.BitOr):
                    return DICT
                return UNK if UNK in (l, r) else l
            if isinstance(e.op, (ast.Add, ast.Mult)):
                return SET if SET in (l, r) else ORD if ORD in (l, r) else UNK
            return UNK
        if isinstance(e, ast.Starred):
            return self.kind(e.value, env)
        if isinstance(e, ast.Name):
            return env.get(e.id, UNK)
        if isinstance(e, ast.Attribute):
            ks = self.attr_ann.get(e.attr, {UNK}) - {"none"}
            return SET if SET in ks else ks.copy().pop() if len(ks) == 1 else UNK
        if isinstance(e, ast.Subscript):
            if isinstance(e.slice, ast.Slice):
                return self.kind(e.value, env)
            anns = self.elem_anns(e.value, env)
            ks = {self.ann_kind(a) for a in anns if a is not None}
            return SET if SET in ks else ks.pop() if len(ks) == 1 else UNK
        if isinstance(e, ast.Call):
            f = e.func
            if isinstance(f, ast.Name):
                if f.id in ("set", "frozenset"):
                    return SET
                if f.id in ("list", "tuple", "iter", "reversed", "enumerate", "zip", "map", "filter", "chain", "deque"):
                    ks = {self.kind(a, env) for a in e.args if not (f.id in ("map", "filter") and a is e.args[0])}
                    return SET if SET in ks else UNK if UNK in ks else ORD
                if f.id in ORDERED_PRODUCERS:
                    return DICT if f.id == "dict" else ORD
                ks = self.ret_ann.get(f.id, {UNK}) - {"none"}
                return SET if SET in ks else ks.copy().pop() if len(ks) == 1 else UNK
            if isinstance(f, ast.Attribute):
                recv = self.kind(f.value, env)
                if isinstance(f.value, ast.Name) and f.value.id == "set" and f.attr in SET_METHODS:
                    return SET
                if f.attr in SET_METHODS and recv in (SET, UNK):
                    return SET if recv == SET else UNK
                if f.attr == "copy":
                    return recv
                if f.attr in ("keys", "values", "items"):
                    if recv == DICT:
                        return ORD
                    if recv == SET:
                        return SET
                    ks = self.ret_ann.get(f.attr, set()) - {"none"}
                    # a class of the scanned files defines keys()/values()/items() itself
                    return SET if SET in ks else UNK if ks else ORD if recv != UNK else UNK
                if f.attr in ("fromkeys",):
                    return DICT
                if f.attr in ("split", "splitlines", "format", "join", "strip", "get_children", "popleft"):
                    return ORD
                ks = self.ret_ann.get(f.attr, {UNK}) - {"none"}
                return SET if SET in ks else ks.copy().pop() if len(ks) == 1 else UNK
        return UNK

    def is_view(self, e, env):
        return isinstance(e, ast.Call) and isinstance(e.func, ast.Attribute) and e.func.attr in ("keys", "items") \
            and not e.args

    def elem_anns(self, e, env):
        if isinstance(e, ast.Name):
            a = env.get("@" + e.id)
            return [self.ann_elem(a)] if a is not None else [None]
        if isinstance(e, ast.Attribute):
            return [self.ann_elem(a) for a in self.attr_elem.get(e.attr, [])] or [None]
        return [None]

    # ------------------------------------------------------------------ walking
    def run(self):
        for name, tree in self.trees.items():
            self.visit_body(name, "<module>", tree.body, {})
        self.set_sites.sort()
        self.unk_sites.sort()
        return self

    def visit_body(self, file, qual, body, env):
        env = dict(env)
        # flow-insensitive local environment: annotations first, then assignments (join)
        for st in body:
            for node in self.walk_local(st):
                if isinstance(node, ast.AnnAssign) and isinstance(node.target, ast.Name):
                    env[node.target.id] = self.ann_kind(node.annotation)
                    env["@" + node.target.id] = node.annotation
        for _ in range(2):
            for st in body:
                for node in self.walk_local(st):
                    tgt = val = None
                    if isinstance(node, ast.Assign) and len(node.targets) == 1 and isinstance(node.targets[0], ast.Name):
                        tgt, val = node.targets[0].id, node.value
                    elif isinstance(node, ast.NamedExpr):
                        tgt, val = node.target.id, node.value
                    elif isinstance(node, ast.AugAssign) and isinstance(node.target, ast.Name):
                        tgt, val = node.target.id, ast.BinOp(ast.Name(node.target.id), node.op, node.value)
                    if tgt is not None and ("@" + tgt) not in env:
                        k = self.kind(val, env)
                        old = env.get(tgt)
                        env[tgt] = k if old in (None, k) or old == UNK and _ == 0 else (SET if SET in (k, old) else UNK)
        for st in body:
            self.visit_stmt(file, qual, st, env)

    def walk_local(self, st):
        """Nodes of a statement, not descending into nested function / class definitions."""
        todo = [st]
        while todo:
            n = todo.pop()
            yield n
            for c in ast.iter_child_nodes(n):
                if not isinstance(c, (ast.FunctionDef, ast.AsyncFunctionDef, ast.ClassDef, ast.Lambda)):
                    todo.append(c)

    def visit_stmt(self, file, qual, st, env):
        if isinstance(st, (ast.FunctionDef, ast.AsyncFunctionDef)):
            fenv = dict(env)
            a = st.args
            for arg in a.posonlyargs + a.args + a.kwonlyargs:
                fenv[arg.arg] = self.ann_kind(arg.annotation)
                if arg.annotation is not None:
                    fenv["@" + arg.arg] = arg.annotation
            if a.vararg:
                fenv[a.vararg.arg] = ORD
            q = st.name if qual == "<module>" else f"{qual}.{st.name}"
            self.visit_body(file, q, st.body, fenv)
            return
        if isinstance(st, ast.ClassDef):
            q = st.name if qual == "<module>" else f"{qual}.{st.name}"
            self.visit_body(file, q, st.body, env)
            return
        for node in self.walk_local(st):
            self.visit_node(file, qual, node, env)

    def note(self, file, qual, what, e, env):
        self.n_iter += 1
        k = self.kind(e, env)
        rec = (file, qual, what, ast.unparse(e))
        if k == SET:
            self.set_sites.append(rec)
        elif k == UNK:
            self.unk_sites.append(rec)
        else:
            self.n_ordered += 1

    def visit_node(self, file, qual, node, env):
        if isinstance(node, (ast.For, ast.AsyncFor)):
            self.bind_target(node.target, node.iter, env)
            self.note(file, qual, "for", node.iter, env)
        elif isinstance(node, (ast.ListComp, ast.SetComp, ast.DictComp, ast.GeneratorExp)):
            for g in node.generators:
                self.bind_target(g.target, g.iter, env)
                # a set / dict-key comprehension over a set does not expose the order by itself
                if isinstance(node, ast.SetComp):
                    continue
                self.note(file, qual, "comp", g.iter, env)
        elif isinstance(node, ast.Starred) and isinstance(getattr(node, "ctx", None), ast.Load):
            self.note(file, qual, "star", node.value, env)
        elif isinstance(node, ast.Call):
            f = node.func
            fname = f.id if isinstance(f, ast.Name) else f.attr if isinstance(f, ast.Attribute) else None
            if isinstance(f, ast.Name) and f.id in ("id", "hash") and len(node.args) == 1:
                self.set_sites.append((file, qual, f.id, ast.unparse(node)))
            # repr() of an object (default reprs contain the address); string literals are fine
            if isinstance(f, ast.Name) and f.id == "repr" and len(node.args) == 1 \
                    and not isinstance(node.args[0], ast.Constant):
                self.set_sites.append((file, qual, "repr", ast.unparse(node)))
            # hash / id / __hash__ used as a value (sort key, map argument, attribute call)
            for kw in node.keywords:
                if kw.arg == "key" and isinstance(kw.value, ast.Name) and kw.value.id in ("hash", "id"):
                    self.set_sites.append((file, qual, "key=" + kw.value.id, ast.unparse(node)))
            if isinstance(f, ast.Attribute) and f.attr == "__hash__" and qual.split(".")[-1] != "__hash__":
                self.set_sites.append((file, qual, "hash", ast.unparse(node)))
            if isinstance(f, ast.Attribute) and f.attr == "pop" and not node.args and not node.keywords:
                k = self.kind(f.value, env)
                # a bare local name is not part of the site's identity (renaming it is harmless)
                rec = (file, qual, "pop", "<local>" if isinstance(f.value, ast.Name) else ast.unparse(f.value))
                if k == SET:
                    self.set_sites.append(rec)
                elif k == UNK:
                    self.unk_sites.append(rec)
            if fname is not None and fname in ORDER_OBSERVERS:
                for a in node.args:
                    if isinstance(a, ast.Starred):
                        continue
                    k = self.kind(a, env)
                    if k == SET:
                        self.set_sites.append((file, qual, f"arg:{fname}", ast.unparse(a)))

    def bind_target(self, target, it, env):
        """Loop variables: give `x` in `for x in d.values()` the element annotation when known."""
        if isinstance(target, ast.Name) and isinstance(it, ast.Call) and isinstance(it.func, ast.Attribute) \
                and it.func.attr == "values":
            for a in self.elem_anns(it.func.value, env):
                if a is not None and ("@" + target.id) not in env:
                    env[target.id] = self.ann_kind(a)
        elif isinstance(target, ast.Name) and ("@" + target.id) not in env and target.id not in env:
            env[target.id] = UNK


def scan(root: Path, rels: list[str], decl_only: list[str] = ()) -> Scan:
    """rels: files whose sites are inventoried; decl_only: further files read for their
    annotations (attribute / return types, aliases) only."""
    files = {}
    for r in list(rels) + [d for d in decl_only if d not in rels]:
        p = root / r
        if not p.exists():
            raise FileNotFoundError(r)
        files[r] = p.read_text()
    s = Scan(files)
    s.trees = {r: s.trees[r] for r in rels}
    return s.run()


if __name__ == "__main__":
    import sys
    root = Path(sys.argv[1])
    rels = sys.argv[2:]
    decl = sorted(str(p.relative_to(root)) for p in root.rglob("*.py"))
    s = scan(root, rels, decl)
    print("iteration expressions:", s.n_iter, "ordered:", s.n_ordered)
    print("SET sites:")
    for x in s.set_sites:
        print("  ", x)
    print("UNKNOWN sites:")
    for x in s.unk_sites:
        print("  ", x)
