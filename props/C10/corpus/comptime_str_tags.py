# MODE: compile ENTRY: main
# comptime strings (result tags) forwarded through user helpers: one monomorphized copy per tag
from guppylang import guppy
from guppylang.std.builtins import comptime, result

@guppy
def report(x: int, label: str @comptime) -> None:
    result(label, x)

@guppy
def report2(x: int, label: str @comptime, other: str @comptime) -> None:
    report(x, label)
    report(x + 1, other)

@guppy
def main(x: int) -> None:
    report(x, "alpha")
    report(x + 1, "beta")
    report(x + 2, "alphb")
    report(x + 3, "")
    report2(x, "gamma", "alpha")
    report2(x, "delta_with_a_much_longer_tag", "b")
