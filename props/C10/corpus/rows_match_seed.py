# MODE: check ENTRY: f
# four variables typed differently on the two branches: which one is reported?
from guppylang import guppy

@guppy
def f(c: bool) -> int:
    if c:
        a = 1
        b = 1
        d = 1
        e = 1
    else:
        a = 1.0
        b = 1.0
        d = 1.0
        e = 1.0
    return int(a) + int(b) + int(d) + int(e)
