# MODE: compile ENTRY: f
# several parameters need monomorphization: which one is named?
from guppylang import guppy
from guppylang.std.builtins import comptime

@guppy
def f(alpha: int @comptime, beta: float @comptime, gamma: bool @comptime, delta: int @comptime) -> int:
    return alpha
