# MODE: check ENTRY: f
from guppylang import guppy
from guppylang.std.builtins import comptime

@guppy.declare
def g(alpha: int @comptime, beta: float @comptime, gamma: bool @comptime, delta: int @comptime) -> int: ...

@guppy
def f() -> int:
    return g(1, 2.0, True, 3)
