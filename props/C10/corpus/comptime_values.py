# MODE: compile ENTRY: main
# every kind of compile-time value as a monomorphization key: int, float, bool, nat, str, tuple
from guppylang import guppy
from guppylang.std.builtins import comptime, result, nat, array

@guppy
def ki(x: int, k: int @comptime) -> int:
    return x + k

@guppy
def kf(x: float, k: float @comptime) -> float:
    return x + k

@guppy
def kb(x: int, k: bool @comptime) -> int:
    if k:
        return x
    return -x

@guppy
def kn(x: int, n: nat @comptime) -> int:
    return x + int(n)

@guppy
def ks(x: int, k: str @comptime, j: int @comptime) -> None:
    result(k, x + j)

@guppy
def main(x: int) -> int:
    a = ki(x, 1) + ki(x, -7) + ki(x, 123456789012) + ki(x, 1)
    b = kf(1.5, 0.5) + kf(1.5, -2.25) + kf(1.5, 1e100)
    c = kb(x, True) + kb(x, False)
    d = kn(x, 3) + kn(x, 4)
    ks(x, "one", 1)
    ks(x, "one", 2)
    ks(x, "two", 1)
    return a + c + d + int(b)
