# MODE: check ENTRY: f
# x is maybe-undefined and read on both arms: which read is reported?
from guppylang import guppy

@guppy
def f(c: bool, d: bool) -> int:
    if c:
        x = 1
    if d:
        y = x
    else:
        y = x + 1
    return y
