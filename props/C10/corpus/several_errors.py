# MODE: check ENTRY: main
# several simultaneous errors of different kinds
from guppylang import guppy

@guppy
def main(p: bool, q: bool, a: int) -> int:
    if p:
        u = 1
        v = 1
        w = a
    else:
        v = 2.0
        w = True
    if q:
        z = u + v
    else:
        z = w
    return z + k + u
