# MODE: check ENTRY: main
# expr_checker.check_call: (subst.keys() - ty.unsolved_vars).pop()
from guppylang import guppy
from guppylang.std.builtins import array

S = guppy.type_var("S")
T = guppy.type_var("T")
U = guppy.type_var("U")

@guppy.declare
def mk() -> tuple[S, T, U]: ...

@guppy
def main() -> int:
    x = mk()
    return 1
