# MODE: compile ENTRY: main
# comprehensions whose bodies / guards read several variables of the enclosing scope
from guppylang import guppy
from guppylang.std.builtins import array

@guppy
def main(alpha: int, beta: int, gamma: int, delta: int, eps: float) -> int:
    xs = array(i + alpha * beta - gamma + delta for i in range(5))
    ys = array(k + gamma + alpha + delta + beta for k in range(4))
    zs = array(eps + float(alpha) + float(j) for j in range(3))
    ws = array(array(a + b + alpha + delta + gamma for a in range(2)) for b in range(3))
    s = 0
    for y in ys:
        s = s + y
    return s + int(zs[0]) + ws[1][1] + xs[0]
