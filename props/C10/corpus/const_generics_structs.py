# MODE: compile ENTRY: main
# const generics, type variables, structs and functions whose names differ only slightly
from guppylang import guppy
from guppylang.std.builtins import array, nat, comptime, result, panic

T = guppy.type_var("T")
U = guppy.type_var("U")
n = guppy.nat_var("n")
m = guppy.nat_var("m")

@guppy.struct
class Pair:
    first: int
    second: float

@guppy.struct
class Pair2:
    first: int
    second: float

@guppy.struct
class Box[T]:
    item: T

@guppy
def first(p: Pair) -> int:
    return p.first

@guppy
def first_(p: Pair2) -> int:
    return p.first

@guppy
def firsts(p: Pair, q: Pair2) -> int:
    return first(p) + first_(q)

@guppy
def length(xs: array[int, n]) -> int:
    return int(n)

@guppy
def swap(x: T, y: U) -> tuple[U, T]:
    return y, x

@guppy
def unbox(b: Box[T]) -> T:
    return b.item

@guppy
def main(x: int) -> int:
    p = Pair(x, 1.0)
    q = Pair2(x + 1, 2.0)
    a3 = array(1, 2, 3)
    a5 = array(1, 2, 3, 4, 5)
    y, z = swap(x, 2.5)
    w, v = swap(True, x)
    if x > 1000:
        panic("value too large", x)
    result("first", firsts(p, q))
    result("second", length(a3) + length(a5))
    return unbox(Box(x)) + int(unbox(Box(y))) + w
