# MODE: compile ENTRY: main
# many definitions compiled together, struct, generic function, nested closure, loop-carried rows
from guppylang import guppy

T = guppy.type_var("T")

@guppy.struct
class P:
    x: int
    y: float

    @guppy
    def sx(self: "P") -> int:
        return self.x

@guppy
def ident(x: T) -> T:
    return x

@guppy
def h0(x: int, y: int) -> int:
    while x < y:
        if x % 2 == 0:
            x = x + y
        else:
            y = y - 1
    return x + y

@guppy
def h1(x: int, y: int) -> int:
    return h0(y, x) + h2(x)

@guppy
def h2(x: int) -> int:
    if x > 3:
        return h1(x - 1, 2)
    return x

@guppy
def main(a: int, b: int, c: int, d: int) -> int:
    p = P(a, 1.5)
    def inner(z: int) -> int:
        return z + a + b
    for i in range(3):
        if a > b:
            a, b = b, a + i
        else:
            c = c + d + inner(i)
    e = ident(c) + ident(p).sx()
    w = (a, b, (c, d))
    a, b, (c, d) = w
    return h1(a, b) + e + c + d
