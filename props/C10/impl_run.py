"""Implementation side of C10: check / compile ONE or MORE programs with the real compiler of
the tree under test in THIS interpreter process and print what a user would observe.

stdin JSON: {"programs": [{"id":…, "src":…, "entry":…, "mode":"check"|"compile"}…],
             "junk": int,            # objects pre-allocated (and kept / partly freed) to shift id()s
             "sched": null | "fifo" | "lifo" | "idx" | "ridx" | ["rand", seed]  # rebinding of
                                     # analysis.py's global name `set` (worklist pop order)
             "dir": scratch dir}
stdout JSON: [{"id":…, "outcome": "ok"|"error"|"crash", "text": rendered diagnostic | sha256 | traceback tail}]
PYTHONHASHSEED is chosen by the caller through the environment."""
import hashlib
import importlib.util
import io
import json
import os
import random
import sys
import traceback

req = json.load(sys.stdin)

# ---- heap perturbation: happens BEFORE the compiler is imported and again before each program
_keep = []


def perturb(n, salt):
    r = random.Random(f"{n}/{salt}")
    objs = []
    for _ in range(n):
        k = r.randrange(6)
        if k == 0:
            objs.append(object())
        elif k == 1:
            objs.append([None] * r.randrange(1, 40))
        elif k == 2:
            objs.append({r.random(): None})
        elif k == 3:
            objs.append(bytearray(r.randrange(1, 300)))
        elif k == 4:
            objs.append((r.random(),) * r.randrange(1, 9))
        else:
            objs.append(type("J", (), {})())
    # free a random half so that the free lists / pools have holes
    r.shuffle(objs)
    _keep.append(objs[: len(objs) // 2])


perturb(req.get("junk", 0), "pre")

import repo_shim  # noqa: E402,F401
import guppylang  # noqa: E402
from guppylang_internals.error import GuppyError  # noqa: E402
import guppylang_internals.cfg.analysis as an  # noqa: E402

guppylang.enable_experimental_features()

sched = req.get("sched")
if sched:
    class Sched(set):
        """Ordered work-set: pop order decided by policy instead of by id()-hash order."""
        policy = sched
        rnd = random.Random(str(sched))

        def __init__(self, it=()):
            super().__init__()
            self.order = []
            self.update(it)

        def update(self, it):
            for x in it:
                self.add(x)

        def add(self, x):
            if x not in self:
                super().add(x)
                self.order.append(x)

        def pop(self):
            p = self.policy
            if p == "fifo":
                x = self.order[0]
            elif p == "lifo":
                x = self.order[-1]
            elif p == "idx":
                x = min(self.order, key=lambda b: b.idx)
            elif p == "ridx":
                x = max(self.order, key=lambda b: b.idx)
            else:
                x = self.rnd.choice(self.order)
            self.order.remove(x)
            super().remove(x)
            return x
    an.set = Sched


def render(err):
    from guppylang_internals.diagnostic import DiagnosticsRenderer
    from guppylang_internals.engine import DEF_STORE
    r = DiagnosticsRenderer(DEF_STORE.sources)
    r.render_diagnostic(err.error)
    return "\n".join(r.buffer)


out = []
for n, p in enumerate(req["programs"]):
    path = os.path.join(req["dir"], f"prog_{os.getpid()}_{n}.py")
    with open(path, "w") as f:
        f.write(p["src"])
    perturb(min(req.get("junk", 0) // 4, 1500), f"p{n}")
    rec = {"id": p["id"]}
    try:
        spec = importlib.util.spec_from_file_location(f"prog_{n}", path)
        mod = importlib.util.module_from_spec(spec)
        sys.modules[f"prog_{n}"] = mod
        spec.loader.exec_module(mod)
        fn = getattr(mod, p["entry"])
        if p["mode"] == "check":
            fn.check()
            rec.update(outcome="ok", text="checked")
        else:
            pkg = fn.compile_function() if hasattr(fn, "compile_function") else fn.compile()
            b = pkg.to_bytes()
            rec.update(outcome="ok", text=hashlib.sha256(b).hexdigest(), nbytes=len(b))
            try:  # names of the function definitions / declarations, for the replay's benefit
                from hugr import ops
                h = pkg.modules[0]
                rec["funcs"] = [h[n].op.f_name for n in h if isinstance(h[n].op, (ops.FuncDefn, ops.FuncDecl))]
            except Exception as e:  # noqa: BLE001
                rec["funcs"] = f"unavailable: {type(e).__name__}"
    except GuppyError as e:
        rec.update(outcome="error", text=render(e).replace(path, "<prog>").replace(os.path.basename(path), "<prog>"))
    except BaseException as e:  # noqa: BLE001
        if type(e).__name__ in ("SystemExit",) :
            rec.update(outcome="error", text="SystemExit")
        else:
            rec.update(outcome="crash",
                       text=(type(e).__name__ + ": " + str(e))[:600].replace(path, "<prog>").replace(os.path.basename(path), "<prog>"),
                       tb=traceback.format_exc()[-1500:].replace(path, "<prog>"))
    out.append(rec)
json.dump(out, sys.stdout)
