"""Implementation side of the C10 model tie (X): runs the REAL `check()` of the tree under test on
each program and, from inside the real `check_cfg` call, dumps the very CFG objects the checker
works on (so model and implementation see the same graph) together with what the checker did.

stdin JSON: {"programs": [{"id", "src", "entry"}...], "dir": scratch dir,
             "fsched": null | policy  (pop order injected into analysis.py's `set`, i.e. the
                                       forward work list of the repaired code)}
stdout JSON: per program {"id", "dump": {...} | null, "obs": [...], "note": str}
dump = {"blocks": [{"succ","dsucc","pred","dpred","use":[var ids in order of first use],
                    "def":[var ids], "defs":[[var, ty, pos]...]}...],
        "inputs": [[var, ty, pos]...], "inout": [var...], "glob": [var...], "names": {id: name},
        "usepos": {"w:x": [line, col]}, "branchpos": {"a": [line, col]}}
obs = the model's [enc] of the outcome: [0] accepted; [1,w,x]; [2,w,x,0] / [2,w,x,1,a,tv];
      [3,w,x,p1,t1,p2,t2]; ["other", class name] for a diagnostic outside the model."""
import ast
import importlib.util
import json
import os
import random
import sys

req = json.load(sys.stdin)

import repo_shim  # noqa: E402,F401
import guppylang  # noqa: E402
from guppylang_internals.ast_util import line_col  # noqa: E402
from guppylang_internals.error import GuppyError  # noqa: E402
import guppylang_internals.cfg.analysis as an  # noqa: E402
import guppylang_internals.checker.func_checker as fc  # noqa: E402
from guppylang_internals.tys.ty import InputFlags  # noqa: E402

guppylang.enable_experimental_features()

if req.get("fsched"):
    pol = req["fsched"]
    rnd = random.Random(str(pol))

    class Sched(set):
        def pop(self):
            items = sorted(self, key=lambda b: b.idx)
            x = items[0] if pol == "idx" else items[-1] if pol == "ridx" else rnd.choice(items)
            self.remove(x)
            return x
    an.set = Sched

TY = {"int": 1, "float": 2, "bool": 3}
cur = {}


def pos(node):
    if node is None:
        return 0
    l, c = line_col(node)
    return l * 1000 + c


def dump_cfg(cfg, inputs, globals_, generic_params):
    ids, tys = {}, dict(TY)
    note = []

    def vid(x):
        return ids.setdefault(x, len(ids))

    def tid(t):
        return tys.setdefault(str(t), 10 + len(tys))
    for v in inputs:
        vid(v.name)
    blocks = []
    fresh = [100]
    for bb in cfg.bbs:
        st = bb.compute_variable_stats()
        defs = {}
        for s in bb.statements:
            if isinstance(s, ast.Assign) and len(s.targets) == 1 and isinstance(s.targets[0], ast.Name):
                v = s.value
                if isinstance(v, ast.Constant) and type(v.value) in (int, float, bool):
                    t = TY[type(v.value).__name__]
                else:
                    fresh[0] += 1
                    t = fresh[0]
                defs[s.targets[0].id] = (t, pos(s.targets[0]))
            elif isinstance(s, (ast.Expr, ast.Return)):
                pass
            else:
                note.append(f"statement {type(s).__name__} outside the model")
        if set(defs) != set(st.assigned):
            note.append(f"assigned set of block {bb.idx} not recognised: {sorted(st.assigned)} vs {sorted(defs)}")
        blocks.append({
            "succ": [s.idx for s in bb.successors], "dsucc": [s.idx for s in bb.dummy_successors],
            "pred": [s.idx for s in bb.predecessors], "dpred": [s.idx for s in bb.dummy_predecessors],
            "use": [vid(x) for x in st.used], "def": [vid(x) for x in st.assigned],
            "defs": [[vid(x), t, p] for x, (t, p) in defs.items()]})
    if [bb.idx for bb in cfg.bbs] != list(range(len(cfg.bbs))) or cfg.entry_bb.idx != 0 or cfg.exit_bb.idx != 1:
        note.append("unexpected block numbering")
    names = {i: x for x, i in ids.items()}
    glob = [i for x, i in ids.items() if x in globals_ or x in generic_params]
    return {"blocks": blocks,
            "inputs": [[vid(v.name), tid(v.ty), pos(v.defined_at)] for v in inputs],
            "inout": [vid(v.name) for v in inputs if InputFlags.Inout in v.flags],
            "glob": glob, "names": names, "tys": tys}, ids, tys, note


def observe(err, cfg, ids, tys):
    name = type(err).__name__
    kids = list(err.children)

    def use_block(x):
        for bb in cfg.bbs:
            if bb._vars is not None and bb.vars.used.get(x) is err.span:
                return bb.idx
        return -1
    if name == "VarNotDefinedError":
        return [1, use_block(err.var), ids.get(err.var, -1)]
    if name == "VarMaybeNotDefinedError":
        o = [2, use_block(err.var), ids.get(err.var, -1)]
        if not kids:
            return o + [0]
        k = kids[0]
        a = [bb.idx for bb in cfg.bbs if bb.branch_pred is k.span]
        return o + [1, a[0] if a else -1, 1 if k.truth_value else 0]
    if name == "BranchTypeError" and err.ident.startswith("Variable `") and len(kids) == 2:
        x = err.ident[len("Variable `"):-1]
        o = [3, use_block(x), ids.get(x, -1)]
        for k in kids:
            o += [pos(k.span), tys.get(str(k.ty), -1)]
        return o
    return ["other", name]


_orig = fc.check_cfg


def wrapped(cfg, inputs, return_ty, generic_params, func_name, globals_):
    d, ids, tys, note = dump_cfg(cfg, inputs, globals_, generic_params)
    cur["dump"], cur["note"] = d, note
    try:
        r = _orig(cfg, inputs, return_ty, generic_params, func_name, globals_)
    except GuppyError as e:
        cur["obs"] = observe(e.error, cfg, ids, tys)
        d["usepos"] = {f"{bb.idx}:{ids[x]}": list(line_col(n)) for bb in cfg.bbs if bb._vars is not None
                       for x, n in bb.vars.used.items() if x in ids and hasattr(n, "lineno")}
        raise
    cur["obs"] = [0]
    return r


fc.check_cfg = wrapped

out = []
for n, p in enumerate(req["programs"]):
    path = os.path.join(req["dir"], f"front_{os.getpid()}_{n}.py")
    with open(path, "w") as f:
        f.write(p["src"])
    cur.clear()
    rec = {"id": p["id"]}
    try:
        spec = importlib.util.spec_from_file_location(f"front_{n}", path)
        mod = importlib.util.module_from_spec(spec)
        sys.modules[f"front_{n}"] = mod
        spec.loader.exec_module(mod)
        getattr(mod, p["entry"]).check()
    except GuppyError:
        pass
    except BaseException as e:  # noqa: BLE001
        cur.setdefault("note", []).append(f"crash {type(e).__name__}: {str(e)[:200]}")
        cur["obs"] = ["other", type(e).__name__]
    rec["dump"] = cur.get("dump")
    rec["obs"] = cur.get("obs", ["other", "no check_cfg call"])
    rec["note"] = "; ".join(cur.get("note", []))
    out.append(rec)
    os.unlink(path)
json.dump(out, sys.stdout)
