"""Neutral term language for C12 (mirrors coq/C12/Ty.v), seeded generator, Coq printer,
serialiser (= Coq `ser`), and an independent textbook Robinson unifier (the oracle).
No guppylang imports here.

term ::= ["E", id] | ["N", head, [term...]]
head ::= ["num",k] | ["none"] | ["boundT",i,c,d] | ["tuple"] | ["fun",[flags],[params]]
       | ["opaque",d] | ["struct",d] | ["argT"] | ["argC"] | ["cval",v] | ["cbound",i]
id conventions: existential id = 8*k + is_const + 2*copyable + 4*droppable;
                definition id  = 4*k + never_copyable + 2*never_droppable."""
import json

# ------------------------------------------------------------------ constructors
def E(i): return ["E", i]
def N(h, a=()): return ["N", list(h), list(a)]
def argT(t): return N(["argT"], [t])
def argC(c): return N(["argC"], [c])
def num(k): return N(["num", k])
NONE = N(["none"])
def boundT(i, c, d): return N(["boundT", i, c, d])
def tup(*ts): return N(["tuple"], [argT(t) for t in ts])
def fun(ins, out, params=(), cargs=()):
    return N(["fun", [f for _, f in ins], list(params)], [argT(t) for t, _ in ins] + [argT(out)] + [argC(c) for c in cargs])
def opaque(d, args=()): return N(["opaque", d], args)
def struct(d, args=()): return N(["struct", d], args)
def cval(v): return N(["cval", v])
def cbound(i): return N(["cbound", i])
BOOL, STRING, LIST, ARRAY, OPTION, QUBIT = 0, 4, 8, 13, 16, 23
def tvar(k, copy=1, drop=1): return E(8 * k + 2 * copy + 4 * drop)
def cvar(k): return E(8 * k + 1 + 6)


def key(x):
    return json.dumps(x, separators=(",", ":"))


# ------------------------------------------------------------------ Coq printing
def _nl(xs):
    return "[" + "; ".join(f"{x}%N" for x in xs) + "]" if xs else "(@nil N)"


def head_to_coq(h):
    k = h[0]
    if k == "num": return f"(HNum {['KNat', 'KInt', 'KFloat'][h[1]]})"
    if k == "none": return "HNone"
    if k == "boundT": return f"(HBoundT {h[1]}%N {'true' if h[2] else 'false'} {'true' if h[3] else 'false'})"
    if k == "tuple": return "HTuple"
    if k == "fun": return f"(HFun {_nl(h[1])} {_nl(h[2])})"
    if k == "opaque": return f"(HOpaque {h[1]}%N)"
    if k == "struct": return f"(HStruct {h[1]}%N)"
    if k == "argT": return "HArgT"
    if k == "argC": return "HArgC"
    if k == "cval": return f"(HCVal ({h[1]})%Z)"
    if k == "cbound": return f"(HCBound {h[1]}%N)"
    raise ValueError(h)


def to_coq(t):
    if t[0] == "E":
        return f"(Ex {t[1]}%N)"
    a = "; ".join(to_coq(c) for c in t[2])
    return f"(Nd {head_to_coq(t[1])} " + (f"[{a}]" if t[2] else "(@nil ty)") + ")"


def subst_to_coq(sg):
    if not sg:
        return "(@nil (N * ty))"
    return "[" + "; ".join(f"({x}%N, {to_coq(t)})" for x, t in sg) + "]"


# ------------------------------------------------------------------ serialisation (= Coq ser)
def ser_head(h):
    k = h[0]
    if k == "num": return [1, h[1]]
    if k == "none": return [2]
    if k == "boundT": return [3, h[1], h[2], h[3]]
    if k == "tuple": return [4]
    if k == "fun": return [5, len(h[1])] + list(h[1]) + [len(h[2])] + list(h[2])
    if k == "opaque": return [6, h[1]]
    if k == "struct": return [7, h[1]]
    if k == "argT": return [8]
    if k == "argC": return [9]
    if k == "cval": return [10, h[1]]
    if k == "cbound": return [11, h[1]]
    raise ValueError(h)


def ser(t):
    if t[0] == "E":
        return [0, t[1]]
    out = ser_head(t[1]) + [len(t[2])]
    for c in t[2]:
        out += ser(c)
    return out


def pretty(t):
    if t[0] == "E":
        return f"?{t[1]}"
    h, a = t[1], t[2]
    k = h[0]
    if k in ("argT", "argC"): return pretty(a[0])
    if k == "num": return ["nat", "int", "float"][h[1]]
    if k == "none": return "None"
    if k == "boundT": return f"T{h[1]}<{h[2]}{h[3]}>"
    if k == "tuple": return "(" + ", ".join(pretty(c) for c in a) + ("," if len(a) == 1 else "") + ")"
    if k == "fun":
        n = len(h[1])
        ins = ", ".join(pretty(c) + ("@" + str(f) if f else "") for c, f in zip(a[:n], h[1]))
        rest = a[n:]
        return f"forall{h[2]}" * bool(h[2]) + f"[{ins}] -> " + pretty(rest[0]) + ("".join(" ;" + pretty(c) for c in rest[1:]))
    if k in ("opaque", "struct"): return f"{k[0]}{h[1]}[" + ", ".join(pretty(c) for c in a) + "]"
    if k == "cval": return str(h[1])
    if k == "cbound": return f"n{h[1]}"
    return str(t)


# ------------------------------------------------------------------ term utilities
def vars_of(t, acc=None):
    acc = [] if acc is None else acc
    if t[0] == "E":
        acc.append(t[1])
    else:
        for c in t[2]:
            vars_of(c, acc)
    return acc


def erase_head(h):
    if h[0] == "boundT": return ["boundT", h[1], 0, 0]
    if h[0] == "fun": return ["fun", [0] * len(h[1]), list(h[2])]
    return list(h)


def erase(t):
    return t if t[0] == "E" else ["N", erase_head(t[1]), [erase(c) for c in t[2]]]


class Cyclic(Exception):
    pass


def resolve(t, sg, depth=0):
    """Full recursive application of a (triangular) substitution dict id -> term."""
    if depth > 200:
        raise Cyclic()
    if t[0] == "E":
        return resolve(sg[t[1]], sg, depth + 1) if t[1] in sg else t
    return ["N", t[1], [resolve(c, sg, depth + 1) for c in t[2]]]


def is_acyclic(sg):
    try:
        for x in sg:
            resolve(E(x), sg)
        return True
    except Cyclic:
        return False


# ------------------------------------------------------------------ the oracle: Robinson, idempotent substitutions
def _apply(t, th):
    if t[0] == "E":
        return th.get(t[1], t)
    return ["N", t[1], [_apply(c, th) for c in t[2]]]


def oracle(s, t, sigma, erase_flags):
    """mgu (dict id -> term, idempotent) of the equations {E x = u | (x,u) in sigma} + {s = t},
    or None.  Heads are compared exactly, or modulo what /repo's unify ignores."""
    th = {}
    work = [(E(x), u) for x, u in sigma] + [(s, t)]
    while work:
        a, b = work.pop()
        a, b = _apply(a, th), _apply(b, th)
        if a == b:
            continue
        if a[0] != "E" and b[0] == "E":
            a, b = b, a
        if a[0] == "E":
            if a[1] in vars_of(b):
                return None
            x = a[1]
            th = {y: _apply(u, {x: b}) for y, u in th.items()}
            th[x] = b
            continue
        ha, hb = (erase_head(a[1]), erase_head(b[1])) if erase_flags else (a[1], b[1])
        if ha != hb or len(a[2]) != len(b[2]):
            return None
        work += list(zip(a[2], b[2]))
    return th


# ------------------------------------------------------------------ generator
class Gen:
    def __init__(self, r):
        self.r = r
        self.tv = [tvar(k, c, d) for k, (c, d) in enumerate([(1, 1), (1, 1), (1, 1), (0, 0), (0, 1), (1, 1)], start=1)]
        self.cv = [cvar(k) for k in (20, 21, 22)]

    def const(self, pv=0.4):
        r = self.r
        x = r.random()
        if x < pv: return r.choice(self.cv)
        if x < 0.9: return cval(r.choice([0, 1, 2, 3, 10]))
        return cbound(r.choice([0, 1]))

    def ty(self, depth, pv=0.25):
        r = self.r
        if depth <= 0 or r.random() < 0.25:
            x = r.random()
            if x < pv: return r.choice(self.tv)
            return r.choice([num(0), num(1), num(2), NONE, opaque(BOOL), opaque(STRING), opaque(QUBIT),
                             boundT(0, 1, 1), boundT(1, 0, 0), num(1), opaque(BOOL), tup(), NONE, tup(), fun([], NONE)])
        k = r.choice(["tuple", "tuple", "fun", "list", "array", "option", "struct", "var"])
        if k == "var":
            return r.choice(self.tv)
        if k == "tuple":
            return tup(*[self.ty(depth - 1, pv) for _ in range(r.choice([0, 1, 2, 2, 3]))])
        if k == "fun":
            n = r.choice([0, 1, 1, 2])
            ins = [(self.ty(depth - 1, pv), r.choice([0, 0, 1, 2])) for _ in range(n)]
            cargs = [self.const()] if r.random() < 0.1 else []
            return fun(ins, self.ty(depth - 1, pv), (), cargs)
        if k == "list": return opaque(LIST, [argT(self.ty(depth - 1, pv))])
        if k == "option": return opaque(OPTION, [argT(self.ty(depth - 1, pv))])
        if k == "array": return opaque(ARRAY, [argT(self.ty(depth - 1, pv)), argC(self.const())])
        d = r.choice([40, 41, 43, 44])
        return struct(d, [argT(self.ty(depth - 1, pv)) for _ in range(r.choice([0, 1, 2]))])

    def abstract(self, t, p, sort=True, memo=None):
        """replace random subterms by variables (same subterm -> same variable with prob.)"""
        r = self.r
        memo = {} if memo is None else memo
        if t[0] == "E":
            return t
        h = t[1][0]
        if h in ("argT", "argC"):
            return ["N", t[1], [self.abstract(t[2][0], p, h == "argT", memo)]]
        if r.random() < p:
            k = key(t)
            if k in memo and r.random() < 0.8:
                return memo[k]
            v = r.choice(self.tv if sort else self.cv)
            memo[k] = v
            return v
        return ["N", t[1], [self.abstract(c, p, True, memo) for c in t[2]]]

    def mutate(self, t, p):
        """small head/arity/flag mutations"""
        r = self.r
        if t[0] == "E":
            return t
        h, a = list(t[1]), [self.mutate(c, p) for c in t[2]]
        if r.random() < p:
            k = h[0]
            if k == "tuple" and r.random() < 0.5:
                a = a[:-1] if a and r.random() < 0.5 else a + [argT(self.ty(1))]
            elif k == "fun":
                x = r.random()
                n = len(h[1])
                if x < 0.5 and n:
                    i = r.randrange(n); h[1] = list(h[1]); h[1][i] = r.choice([0, 1, 2])
                elif x < 0.7 and n:
                    h[1] = list(h[1])[:-1]; a = a[:n - 1] + a[n:]
            elif k == "num": h[1] = r.choice([0, 1, 2])
            elif k == "opaque" and a: h[1] = r.choice([LIST, OPTION, ARRAY, h[1]])
            elif k == "struct": h[1] = r.choice([40, 41, 43, 44])
            elif k == "cval": h[1] = r.choice([0, 1, 2, 3])
            elif k == "boundT": h = ["boundT", r.choice([0, 1]), h[2], r.choice([0, 1])]
        return ["N", h, a]

    def prior(self):
        """consistent (acyclic) triangular substitution: bind v_i to a term over later / unbound vars"""
        r = self.r
        order = self.tv[:]
        r.shuffle(order)
        k = r.choice([1, 1, 2, 3, 4])
        sg = []
        for i in range(k):
            later = order[i + 1:]
            save = self.tv
            self.tv = later or save
            t = r.choice(later) if (later and r.random() < 0.35) else self.ty(r.choice([0, 1, 2]), 0.5)
            self.tv = save
            if order[i][1] in vars_of(t):
                continue
            sg.append([order[i][1], t])
        if r.random() < 0.3:
            a, b = r.sample(self.cv, 2)
            sg.append([a[1], b if r.random() < 0.6 else cval(r.choice([1, 2]))])
        r.shuffle(sg)
        return sg

    def case(self):
        r = self.r
        shape = r.choice(["instance", "instance", "both-vars", "both-vars", "occurs", "mismatch", "flags",
                          "prior", "prior", "prior", "const", "random"])
        sg = []
        if shape == "instance":
            t = self.ty(r.choice([2, 3, 4]), 0.05)
            s = self.abstract(t, 0.3)
            if r.random() < 0.25: t = self.mutate(t, 0.15)
        elif shape == "both-vars":
            base = self.ty(r.choice([2, 3, 4]), 0.1)
            s, t = self.abstract(base, 0.25), self.abstract(base, 0.25)
            if r.random() < 0.2: t = self.mutate(t, 0.15)
        elif shape == "occurs":
            a, b, c = r.sample(self.tv, 3)
            wrap = r.choice([lambda x: tup(x), lambda x: opaque(LIST, [argT(x)]), lambda x: fun([(x, 0)], num(1)),
                             lambda x: tup(num(1), x)])
            x = r.random()
            if x < 0.25: s, t = tup(a, b), tup(wrap(b), wrap(a))
            elif x < 0.4: s, t = a, wrap(a)
            elif x < 0.55: s, t = tup(a, b, a), tup(wrap(b), wrap(a), wrap(a))
            elif x < 0.7: s, t = tup(a, b, c), tup(wrap(b), wrap(c), wrap(a))
            elif x < 0.85: sg = [[a[1], b]]; s, t = r.choice([(b, wrap(a)), (wrap(a), b), (tup(b, c), tup(wrap(c), a))])
            else: sg = [[a[1], wrap(b)]]; s, t = r.choice([(b, wrap(a)), (tup(c, b), tup(a, wrap(c)))])
            if r.random() < 0.5: s, t = t, s
        elif shape == "mismatch":
            base = self.ty(r.choice([2, 3]), 0.15)
            s, t = base, self.mutate(self.abstract(base, 0.15), 0.35)
            if r.random() < 0.15:
                s, t = opaque(ARRAY, [argT(num(1)), argC(cval(2))]), opaque(ARRAY, [argT(num(1)), argT(num(0))])
        elif shape == "flags":
            arr = opaque(ARRAY, [argT(num(1)), argC(cval(2))])       # affine: non-copyable, droppable
            lin = [opaque(QUBIT), self.tv[3], boundT(1, 0, 0), tup(opaque(QUBIT)), opaque(ARRAY, [argT(opaque(QUBIT)), argC(cval(2))]),
                   struct(43), num(1), self.tv[0], self.tv[4],
                   arr, arr, self.tv[4], boundT(0, 0, 1), tup(arr, num(1)), struct(41), opaque(OPTION, [argT(arr)]),
                   opaque(ARRAY, [argT(self.tv[0]), argC(self.cv[0])])]
            n = r.choice([1, 2])
            i1 = [(r.choice(lin), r.choice([0, 1, 2])) for _ in range(n)]
            i2 = [(t_ if r.random() < 0.7 else r.choice(lin), f if r.random() < 0.5 else r.choice([0, 1, 2])) for t_, f in i1]
            out = self.ty(1)
            s, t = fun(i1, out), fun(i2, out if r.random() < 0.8 else self.ty(1))
            if r.random() < 0.3: s, t = tup(s, self.tv[1]), tup(t, num(1))
        elif shape == "prior":
            sg = self.prior()
            base = self.ty(r.choice([1, 2, 3]), 0.35)
            s, t = self.abstract(base, 0.2), self.abstract(base, 0.2)
            x = r.random()
            tb = [b for b in sg if b[0] % 2 == 0]
            if x < 0.15 and tb: s, t = E(tb[0][0]), r.choice(self.tv)
            elif x < 0.3 and tb: s, t = r.choice(self.tv), E(tb[0][0])
            elif x < 0.4 and len(tb) > 1: s, t = E(tb[0][0]), E(tb[1][0])
        elif shape == "const":
            mk = lambda: opaque(ARRAY, [argT(self.ty(1, 0.3)), argC(self.const(0.5))])
            x = r.random()
            if x < 0.4: s, t = mk(), mk()
            elif x < 0.7:
                c1, c2 = r.sample(self.cv, 2)
                sg = [[c1[1], c2]] if r.random() < 0.7 else [[c1[1], c2], [c2[1], cval(3)]]
                s, t = r.choice([(c2, c1), (c1, c2), (c2, cval(3)), (c1, self.cv[2]), (self.cv[2], c1)])
                s, t = opaque(ARRAY, [argT(num(1)), argC(s)]), opaque(ARRAY, [argT(num(1)), argC(t)])
            else:
                s, t = tup(mk(), mk()), tup(mk(), mk())
        else:
            s, t = self.ty(r.choice([1, 2, 3])), self.ty(r.choice([1, 2, 3]))
        if shape != "random" and r.random() < 0.03:
            s, t = self.param_fun(s), self.param_fun(t)
        return {"kind": "unify", "s": s, "t": t, "sigma": sg, "shape": shape}

    def param_fun(self, out):
        r = self.r
        return fun([(boundT(0, 1, 1), 0)], out, [r.choice([0, 0, 3])])

    def app_case(self):
        return {"kind": "app", "t": self.ty(self.r.choice([1, 2, 3]), 0.5), "sigma": self.prior(), "shape": "app"}

    def lin_case(self):
        return {"kind": "lin", "t": self.ty(self.r.choice([0, 1, 2, 3]), 0.3), "shape": "lin"}


# ------------------------------------------------------------------ boundary sizes and nullary constructors (round 3)
def nullaries():
    """every constructor applied to nothing / boundary sizes: None, (), 1-tuple, 0-ary type applications,
    functions without inputs, numeric kinds, bound variables"""
    return [NONE, tup(), tup(NONE), tup(tup()), opaque(BOOL), opaque(STRING), opaque(QUBIT), num(0), num(1), num(2),
            fun([], NONE), fun([], tup()), struct(40), struct(43), boundT(0, 1, 1), boundT(1, 1, 1)]


CONTEXTS = ["top", "list", "tuple", "fun-out", "fun-in", "solved-left", "solved-right", "repeated-var", "chain"]


def in_context(ctx, x, y, A=None, B=None):
    """the pair x ~ y placed at top level, nested, or reached through (pre-)solved variables"""
    A = A or tvar(1); B = B or tvar(2)
    W = lambda s, t, sg=(): {"kind": "unify", "s": s, "t": t, "sigma": [list(b) for b in sg], "shape": "nullary-" + ctx}
    if ctx == "top": return W(x, y)
    if ctx == "list": return W(opaque(LIST, [argT(x)]), opaque(LIST, [argT(y)]))
    if ctx == "tuple": return W(tup(num(1), x), tup(num(1), y))
    if ctx == "fun-out": return W(fun([(num(1), 0)], x), fun([(num(1), 0)], y))
    if ctx == "fun-in": return W(fun([(x, 0)], NONE), fun([(y, 0)], NONE))
    if ctx == "solved-left": return W(A, y, [(A[1], x)])
    if ctx == "solved-right": return W(y, A, [(A[1], x)])
    if ctx == "repeated-var": return W(tup(A, A), tup(x, y))
    if ctx == "chain": return W(tup(A, B), tup(y, tup(A)), [(B[1], tup(x))])
    raise ValueError(ctx)


def boundary_cases(r, full):
    """every nullary constructor against every other (and itself): all pairs at top level, plus every pair in
    every context (full) or in two seeded contexts (quick)"""
    ns = nullaries()
    out = []
    for i, x in enumerate(ns):
        for j, y in enumerate(ns):
            if j < i:
                continue
            a, b = (x, y) if r.random() < 0.5 else (y, x)
            out.append(in_context("top", a, b))
            for c in (CONTEXTS[1:] if full else r.sample(CONTEXTS[1:], 2)):
                out.append(in_context(c, a, b))
    return out


def leaves(t, path=()):
    if t[0] == "E" or not t[2]:
        yield path
    else:
        for k, c in enumerate(t[2]):
            yield from leaves(c, path + (k,))


def replace_at(t, path, u):
    if not path:
        return u
    return ["N", t[1], [replace_at(c, path[1:], u) if k == path[0] else c for k, c in enumerate(t[2])]]


def subterm(t, path):
    for k in path:
        t = t[2][k]
    return t


def one_leaf_case(g):
    """malformed stream: two near-equal types that differ in exactly one leaf"""
    r = g.r
    t = g.ty(r.choice([2, 3, 4]), 0.15)
    ps = [p for p in leaves(t) if subterm(t, p[:-1])[1][0] == "argT" or not p] if t[0] == "N" else [()]
    ps = ps or [()]
    p = r.choice(ps)
    old = subterm(t, p)
    new = r.choice([u for u in nullaries() + [r.choice(g.tv)] if u != old])
    s2 = replace_at(t, p, new)
    s, t2 = (t, s2) if r.random() < 0.5 else (s2, t)
    sg = []
    if r.random() < 0.3:          # reach the differing leaf through a solved variable
        v = r.choice(g.tv)
        if v[1] not in vars_of(s) + vars_of(t2):
            sg = [[v[1], new]]; t2 = replace_at(t2 if t2 is not t else t2, p, v) if subterm(t2, p) == new else t2
            s = replace_at(s, p, v) if subterm(s, p) == new else s
    return {"kind": "unify", "s": s, "t": t2, "sigma": sg, "shape": "one-leaf"}


def case_to_coq(c, fuel=600):
    if c["kind"] == "unify":
        return f"ser_outcome (unify {fuel} {to_coq(c['s'])} {to_coq(c['t'])} {subst_to_coq(c['sigma'])})"
    if c["kind"] == "app":
        return f"ser (app {subst_to_coq(c['sigma'])} {to_coq(c['t'])})"
    if c["kind"] == "lin":
        t = to_coq(c["t"])
        return f"[Zb (copyable {t}); Zb (droppable {t}); Zb (linear {t})]"
    raise ValueError(c)


# ------------------------------------------------------------------ generic calls (round 2)
def copyable(t):
    """spec-side copy of TypeBase.copyable on neutral terms (id conventions of Ty.v)"""
    if t[0] == "E": return bool(t[1] & 2)
    k = t[1][0]
    if k == "boundT": return bool(t[1][2])
    if k in ("opaque", "struct"): return not (t[1][1] & 1) and all(copyable(c) for c in t[2])
    if k in ("tuple", "argT"): return all(copyable(c) for c in t[2])
    return True


def droppable(t):
    if t[0] == "E": return bool(t[1] & 4)
    k = t[1][0]
    if k == "boundT": return bool(t[1][3])
    if k in ("opaque", "struct"): return not (t[1][1] & 2) and all(droppable(c) for c in t[2])
    if k in ("tuple", "argT"): return all(droppable(c) for c in t[2])
    return True


def bound_ok(x, w):
    return (not (x & 2) or copyable(w)) and (not (x & 4) or droppable(w))


def is_num(t):
    return t[0] == "N" and t[1][0] == "num"


def annot(t):
    """Python annotation source of a neutral type (call tie): vars are module-level T<id>/n<id>"""
    if t[0] == "E":
        return ("n" if t[1] & 1 else "T") + str(t[1])
    h, a = t[1], t[2]
    k = h[0]
    if k in ("argT", "argC"): return annot(a[0])
    if k == "num": return ["nat", "int", "float"][h[1]]
    if k == "none": return "None"
    if k == "cval": return str(h[1])
    if k == "tuple": return "tuple[" + (", ".join(annot(c) for c in a) if a else "()") + "]"
    if k == "fun":
        n = len(h[1])
        return "Callable[[" + ", ".join(annot(c) for c in a[:n]) + "], " + annot(a[n]) + "]"
    if k == "opaque":
        name = {BOOL: "bool", ARRAY: "array", OPTION: "Option"}[h[1]]
        return name + ("[" + ", ".join(annot(c) for c in a) + "]" if a else "")
    raise ValueError(t)


class CallGen:
    """generic first-order signatures x argument type lists"""
    def __init__(self, r):
        self.r = r
        self.pool = [tvar(1), tvar(2), tvar(3), tvar(4, 0, 0), tvar(5, 0, 1)]
        self.cpool = [cvar(20), cvar(21)]

    def closed(self, depth, copy_only=False):
        r = self.r
        if depth <= 0 or r.random() < 0.35:
            return r.choice([num(0), num(1), num(1), num(2), opaque(BOOL), NONE, NONE, tup(), tup(NONE)])
        k = r.choice(["tuple", "tuple", "array", "option", "fun"] if not copy_only else ["tuple", "option", "fun"])
        if k == "tuple": return tup(*[self.closed(depth - 1, copy_only) for _ in range(r.choice([1, 2, 2, 3]))])
        if k == "array": return opaque(ARRAY, [argT(self.closed(depth - 1, True)), argC(cval(r.choice([1, 2, 3])))])
        if k == "option": return opaque(OPTION, [argT(self.closed(depth - 1, copy_only))])
        return fun([(self.closed(depth - 1, True), 0) for _ in range(r.choice([0, 1, 2]))], self.closed(depth - 1, True))

    def param_ty(self, depth, tvs, cvs):
        r = self.r
        if depth <= 0 or r.random() < 0.3:
            return r.choice(tvs) if r.random() < 0.7 else r.choice([num(0), num(1), num(2), opaque(BOOL)])
        k = r.choice(["tuple", "tuple", "array", "option", "fun", "var"])
        if k == "var": return r.choice(tvs)
        if k == "tuple": return tup(*[self.param_ty(depth - 1, tvs, cvs) for _ in range(r.choice([1, 2, 2, 3]))])
        if k == "array":
            c = r.choice(cvs) if cvs and r.random() < 0.6 else cval(r.choice([1, 2, 3]))
            return opaque(ARRAY, [argT(self.param_ty(depth - 1, tvs, cvs)), argC(c)])
        if k == "option": return opaque(OPTION, [argT(self.param_ty(depth - 1, tvs, cvs))])
        return fun([(self.param_ty(depth - 1, tvs, cvs), 0) for _ in range(r.choice([1, 1, 2]))], self.param_ty(depth - 1, tvs, cvs))

    def mutate_closed(self, t):
        r = self.r
        if t[0] == "N" and t[2] and r.random() < 0.6:
            i = r.randrange(len(t[2]))
            return ["N", t[1], [self.mutate_closed(c) if j == i else c for j, c in enumerate(t[2])]]
        if t[0] == "N" and t[1][0] in ("argT", "argC"):
            return ["N", t[1], [self.mutate_closed(t[2][0])]]
        if is_num(t): return num(r.choice([0, 1, 2]))
        if t[0] == "N" and t[1][0] == "cval": return cval(r.choice([1, 2, 3]))
        if t[0] == "N" and t[1][0] == "tuple" and r.random() < 0.5:
            return tup(*([c[2][0] for c in t[2]] + [num(1)]))
        return self.closed(1)

    def case(self):
        r = self.r
        tvs = r.sample(self.pool, r.choice([1, 2, 2, 3]))
        cvs = r.sample(self.cpool, r.choice([0, 0, 1]))
        n = r.choice([1, 2, 2, 3])
        ins = [self.param_ty(r.choice([0, 1, 2]), tvs, cvs) for _ in range(n)]
        used = set(v for i in ins for v in vars_of(i))
        params = [v[1] for v in tvs + cvs if v[1] in used]
        shape = "call-instance"
        # (a quantified variable that occurs in no parameter type cannot be written with guppy.type_var;
        #  the theorem's `covers` hypothesis excludes it)
        th = {}
        for x in params:
            if x & 1: th[x] = cval(r.choice([1, 2, 3]))
            else:
                viol = r.random() < 0.2
                th[x] = self.closed(r.choice([0, 1, 2]), copy_only=not viol and bool(x & 2))
        acts = [resolve(i, th) for i in ins]
        x = r.random()
        if x < 0.3:
            j = r.randrange(n); acts[j] = self.mutate_closed(acts[j]); shape = "call-mutated"
        elif x < 0.4:
            j = r.randrange(n); acts[j] = self.closed(r.choice([0, 1, 2])); shape = "call-random-arg"
        elif x < 0.45 and n > 1:
            acts = acts[:-1]; shape = "call-arity"
        elif x < 0.6:
            js = [j for j in range(n) if is_num(acts[j])]
            if js:      # numeric widening / narrowing at top level (try_coerce_to)
                j = r.choice(js); acts[j] = num(r.choice([0, 1, 2])); shape = "call-numeric"
        if any(not vars_of(a) == [] for a in acts):
            acts = [resolve(a, {v: num(1) for v in vars_of(a)}) for a in acts]
        return {"kind": "call", "params": params, "ins": ins, "acts": acts, "shape": shape}


def call_to_coq(c, fuel=600):
    lst = lambda ts: "[" + "; ".join(to_coq(t) for t in ts) + "]" if ts else "(@nil ty)"
    return f"ser_call (synth_call {fuel} {_nl(c['params'])} {lst(c['ins'])} {lst(c['acts'])})"
