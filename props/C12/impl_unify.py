"""Implementation side of the C12 tie: builds real /repo Type/Const objects from neutral terms
(gen_types.py), runs tys.ty.unify / .substitute / .linear, converts the answers back and
prints them serialised exactly like the Coq model (`ser_outcome`, `ser`)."""
import json
import sys

import repo_shim  # noqa: F401  (StructType.fields imports definition.struct)
from guppylang_internals.tys.arg import ConstArg, TypeArg
from guppylang_internals.tys.const import BoundConstVar, ConstValue, ExistentialConstVar
from guppylang_internals.tys.param import TypeParam
from guppylang_internals.tys.ty import (
    BoundTypeVar, ExistentialTypeVar, FuncInput, FunctionType, InputFlags, NoneType, NumericType,
    OpaqueType, StructType, TupleType, unify,
)

sys.path.insert(0, __file__.rsplit("/", 1)[0])
from gen_types import ser  # noqa: E402

sys.setrecursionlimit(4000)
KINDS = [NumericType.Kind.Nat, NumericType.Kind.Int, NumericType.Kind.Float]
NAT = NumericType(NumericType.Kind.Nat)


class Defn:
    """stand-in for OpaqueTypeDef / CheckedStructDef: identity equality, flags from the id"""
    def __init__(self, d, is_struct):
        self.d, self.name, self.params, self.bound = d, f"{'s' if is_struct else 'o'}{d}", [], None
        self.never_copyable, self.never_droppable = bool(d & 1), bool(d & 2)
        if is_struct:
            class F:
                def __init__(self, name, ty): self.name, self.ty = name, ty
            self.fields = []
            if d & 1: self.fields.append(F("a", OpaqueType([], defn(1, False))))
            if d & 2: self.fields.append(F("b", OpaqueType([], defn(2, False))))


_defs = {}
def defn(d, is_struct):
    if (d, is_struct) not in _defs:
        _defs[(d, is_struct)] = Defn(d, is_struct)
    return _defs[(d, is_struct)]


def build(t):
    if t[0] == "E":
        i = t[1]
        if i & 1:
            return ExistentialConstVar(NAT, f"v{i}", i)
        return ExistentialTypeVar(f"v{i}", i, bool(i & 2), bool(i & 4))
    h, a = t[1], t[2]
    k = h[0]
    if k == "num": return NumericType(KINDS[h[1]])
    if k == "none": return NoneType()
    if k == "boundT": return BoundTypeVar(f"T{h[1]}", h[1], bool(h[2]), bool(h[3]))
    if k == "argT": return TypeArg(build(a[0]))
    if k == "argC": return ConstArg(build(a[0]))
    if k == "cval": return ConstValue(NAT, h[1])
    if k == "cbound": return BoundConstVar(NAT, f"n{h[1]}", h[1])
    args = [build(c) for c in a]
    if k == "tuple": return TupleType([x.ty for x in args])
    if k == "fun":
        n = len(h[1])
        ins = [FuncInput(x.ty, InputFlags(f)) for x, f in zip(args[:n], h[1])]
        params = [TypeParam(i, f"P{p}", bool(p & 1), bool(p & 2)) for i, p in enumerate(h[2])]
        return FunctionType(ins, args[n].ty, params, comptime_args=list(args[n + 1:]))
    if k == "opaque": return OpaqueType(args, defn(h[1], False))
    if k == "struct": return StructType(args, defn(h[1], True))
    raise ValueError(t)


def back(o):
    """inverse of build"""
    if isinstance(o, (ExistentialTypeVar, ExistentialConstVar)): return ["E", o.id]
    if isinstance(o, TypeArg): return ["N", ["argT"], [back(o.ty)]]
    if isinstance(o, ConstArg): return ["N", ["argC"], [back(o.const)]]
    if isinstance(o, NumericType): return ["N", ["num", KINDS.index(o.kind)], []]
    if isinstance(o, NoneType): return ["N", ["none"], []]
    if isinstance(o, BoundTypeVar): return ["N", ["boundT", o.idx, int(o.copyable), int(o.droppable)], []]
    if isinstance(o, ConstValue): return ["N", ["cval", o.value], []]
    if isinstance(o, BoundConstVar): return ["N", ["cbound", o.idx], []]
    if isinstance(o, TupleType): return ["N", ["tuple"], [back(x) for x in o.args]]
    if isinstance(o, FunctionType):
        return ["N", ["fun", [i.flags.value for i in o.inputs], [int(p.name[1:]) for p in o.params]], [back(x) for x in o.args]]
    if isinstance(o, OpaqueType): return ["N", ["opaque", o.defn.d], [back(x) for x in o.args]]
    if isinstance(o, StructType): return ["N", ["struct", o.defn.d], [back(x) for x in o.args]]
    raise ValueError(repr(o))


def run(c):
    try:
        if c["kind"] == "unify":
            sg = {build(["E", x]): build(u) for x, u in c["sigma"]}
            r = unify(build(c["s"]), build(c["t"]), sg)
            if r is None:
                return [0, []]
            return [1, sorted([v.id, ser(back(u))] for v, u in r.items())]
        if c["kind"] == "app":
            sg = {build(["E", x]): build(u) for x, u in c["sigma"]}
            return ser(back(build(c["t"]).substitute(sg)))
        if c["kind"] == "lin":
            t = build(c["t"])
            return [int(t.copyable), int(t.droppable), int(t.linear)]
    except RecursionError:
        return [-1, []]
    except Exception as e:  # noqa: BLE001
        return [-2, repr(e)[:300]]


if __name__ == "__main__":
    print(json.dumps([run(c) for c in json.load(sys.stdin)]))
