"""T-part of the C12 tie: the `case` arms of `unify` / `_unify_args` in tys/ty.py, read with `ast`.
Each arm of the model's `compat` / `unify` corresponds to one arm below; an added, removed, reordered or
re-guarded arm is behaviour the model does not describe -> the tie is broken (fail closed)."""
import ast

EXPECTED = {
    "unify": [
        ("[ExistentialVar(id=s_id), ExistentialVar(id=t_id)]", "s_id == t_id"),        # Ex x, Ex y, x = y
        ("[ExistentialTypeVar() | ExistentialConstVar() as s_var, t]", None),           # unify_var x t
        ("[s, ExistentialTypeVar() | ExistentialConstVar() as t_var]", None),           # unify_var y s
        ("[BoundVar(idx=s_idx), BoundVar(idx=t_idx)]", "s_idx == t_idx"),               # HBoundT / HCBound
        ("[ConstValue(value=c_value), ConstValue(value=d_value)]", "c_value == d_value"),  # HCVal
        ("[NumericType(kind=s_kind), NumericType(kind=t_kind)]", "s_kind == t_kind"),   # HNum
        ("[NoneType(), NoneType()]", None),                                             # HNone
        ("[FunctionType() as s, FunctionType() as t]", "s.params == t.params"),         # HFun
        ("[TupleType() as s, TupleType() as t]", None),                                 # HTuple
        ("[OpaqueType() as s, OpaqueType() as t]", "s.defn == t.defn"),                 # HOpaque
        ("[StructType() as s, StructType() as t]", "s.defn == t.defn"),                 # HStruct
        ("_", None),
    ],
    "_unify_args": [
        ("[TypeArg(ty=sa_ty), TypeArg(ty=ta_ty)]", None),                               # HArgT
        ("[ConstArg(const=sa_const), ConstArg(const=ta_const)]", None),                 # HArgC
        ("_", None),
    ],
}


def arms(path):
    tree = ast.parse(open(path).read())
    out = {}
    for fn in tree.body:
        if isinstance(fn, ast.FunctionDef) and fn.name in EXPECTED:
            ms = [n for n in ast.walk(fn) if isinstance(n, ast.Match)]
            out[fn.name] = [[(ast.unparse(c.pattern), ast.unparse(c.guard) if c.guard else None) for c in m.cases] for m in ms]
    return out


def diff(path):
    """[] when the arms are the modelled ones, else human-readable differences"""
    got, problems = arms(path), []
    for name, exp in EXPECTED.items():
        ms = got.get(name)
        if not ms or len(ms) != 1:
            problems.append(f"{name}: expected exactly one `match`, found {0 if not ms else len(ms)}")
            continue
        g = [tuple(x) for x in ms[0]]
        for a in g:
            if a not in exp:
                problems.append(f"{name}: arm not in the model: case {a[0]}" + (f" if {a[1]}" if a[1] else ""))
        for a in exp:
            if a not in g:
                problems.append(f"{name}: modelled arm missing: case {a[0]}" + (f" if {a[1]}" if a[1] else ""))
        if not problems and g != exp:
            problems.append(f"{name}: arms reordered")
    return problems
