"""C12 — unification finds an instantiation exactly when one exists.  Tie: X.

1. re-check coq/C12/Props.v (theorems about the hand-written model coq/C12/{Ty,Unify}.v);
2. correspondence: seeded generator (gen_types.py) builds type/const pairs + consistent prior
   substitutions once; they are turned into Coq terms (model, vm_compute) and into real /repo
   objects (impl_unify.py -> tys.ty.unify / .substitute / .linear); results are compared after
   canonicalisation (bindings sorted by variable id, structural serialisation);
3. failing-input search (always run): the implementation's own answers are judged against an
   independent Robinson unifier (gen_types.oracle) — solvability, unifier-after-closure,
   acyclicity, extension of the prior substitution, most-generality."""
import json
from collections import Counter

import vlib
from vlib import proof_coverage

import gen_types as G

LEVEL = "proof"
FUEL = 600
TRUSTED = [
    "Coq 8.16.1 kernel (vm_compute used in Examples / witnesses only)",
    "hand-written model coq/C12/Unify.v of unify/_unify_var/_occurs/_unify_args/Substituter over the term shape of coq/C12/Ty.v; tied to the code only by the differential harness below (generator, canonicaliser, stub OpaqueTypeDef/StructDef objects in impl_unify.py, tools/repo_shim.py)",
    "id conventions of Ty.v (an existential id determines sort and copy/drop flags, a definition id its never_copyable/never_droppable flags); const `ty` fields, names, `preserve`, `unitary_flags` are not modelled",
    "the model describes ty.py with the committed repair (resolved occurs check `_occurs`, chasing of solved const variables)",
    "calls: synth_call models type_check_args/synthesize_call for synthesised (closed) argument types; tied to the real check() of generated @guppy.declare functions (impl_call.py: program text generator, reading GlobalCall.type_args); checking position and comptime arguments are not modelled",
]
ASSUMPTIONS = [
    "input substitutions are acyclic (wfs): the graph x -> vars(subst[x]) is well-founded",
    "identity of types is taken modulo what unify never looks at: input flags of function types when at least one of the two input types is copyable at the time of comparison (flags ARE compared whenever both input types are non-copyable, linear or affine) and the copy/drop flags of bound variables; completeness is stated for exact identity",
    "existential variables are identified by id (ids are globally fresh in /repo)",
    "call theorems: parameter types contain no stored comptime args (plain), argument types are closed, every quantified variable occurs in a parameter type; numeric widening (try_coerce_to) makes acceptance order dependent, so exact instance => accepted => instance up to widening",
]


def n_cases(ctx):
    return (500, 100, 100) if ctx.quick else (11000, 1000, 1000)


def n_calls(ctx):
    return 120 if ctx.quick else 1200


def canon(res):
    if isinstance(res, list) and len(res) == 2 and isinstance(res[1], list) and res and res[0] in (1, 0, -1):
        return [res[0], sorted([list(b) if not isinstance(b, list) else b for b in res[1]])]
    return res


def model_results(ctx, cases):
    files, order = {}, []
    by_kind = {}
    for i, c in enumerate(cases):
        by_kind.setdefault(c["kind"], []).append(i)
    for kind, idxs in by_kind.items():
        for j in range(0, len(idxs), 400):
            chunk = idxs[j:j + 400]
            name = f"{kind}{j // 400}"
            body = ["From Coq Require Import ZArith NArith List Bool.", "From V.C12 Require Import Ty Unify.",
                    "Import ListNotations.", "Definition cases := ["]
            body.append(";\n".join((G.call_to_coq(cases[i], FUEL) if kind == "call" else G.case_to_coq(cases[i], FUEL)) for i in chunk) + "].")
            body.append("Eval vm_compute in cases.")
            files[name] = "\n".join(body)
            order.append((name, chunk))
    outs = ctx.coq_eval_many(files)
    res = [None] * len(cases)
    for name, chunk in order:
        vals = vlib.parse_coq_values(outs[name])[0]
        assert len(vals) == len(chunk), (name, len(vals), len(chunk))
        for i, v in zip(chunk, vals):
            res[i] = json.loads(json.dumps(v))  # tuples -> lists
    return res


def replay_snippet(c):
    return ("cd /verif && printf '%s' '" + json.dumps([c]) + "' | PYTHONPATH=/verif/tools:/verif/props/C12:"
            "$REPO/guppylang/src:$REPO/guppylang-internals/src /venv/bin/python props/C12/impl_unify.py"
            "   # prints [tag, bindings]: tag 1 dict, 0 None, -1 RecursionError, -2 exception (REPO=/repo)")


def judge(c, impl):
    """Spec side: judge the implementation's answer with the independent oracle.
    Returns (verdict_label, failure_or_None)."""
    s, t, sg = c["s"], c["t"], c["sigma"]
    ex = G.oracle(s, t, sg, False)
    er = G.oracle(s, t, sg, True)
    label = "exact-unifiable" if ex is not None else ("erased-unifiable" if er is not None else "not-unifiable")
    tag = impl[0]
    if tag in (-1, -2):
        return label, f"non-termination/crash: implementation raised ({'RecursionError' if tag == -1 else impl[1]})"
    if tag == 0:
        return label, ("incomplete: returned None although a unifier exists" if ex is not None else None)
    if er is None:
        return label, "unsound: returned a substitution for types that no assignment makes identical"
    return label, None


def deser(lst):
    """inverse of G.ser"""
    pos = 0

    def term():
        nonlocal pos
        k = lst[pos]
        if k == 0:
            pos += 2
            return ["E", lst[pos - 1]]
        if k == 1: h = ["num", lst[pos + 1]]; pos += 2
        elif k == 2: h = ["none"]; pos += 1
        elif k == 3: h = ["boundT", lst[pos + 1], lst[pos + 2], lst[pos + 3]]; pos += 4
        elif k == 4: h = ["tuple"]; pos += 1
        elif k == 5:
            n = lst[pos + 1]; f = lst[pos + 2:pos + 2 + n]; m = lst[pos + 2 + n]; p = lst[pos + 3 + n:pos + 3 + n + m]
            h = ["fun", list(f), list(p)]; pos += 3 + n + m
        elif k == 6: h = ["opaque", lst[pos + 1]]; pos += 2
        elif k == 7: h = ["struct", lst[pos + 1]]; pos += 2
        elif k == 8: h = ["argT"]; pos += 1
        elif k == 9: h = ["argC"]; pos += 1
        elif k == 10: h = ["cval", lst[pos + 1]]; pos += 2
        elif k == 11: h = ["cbound", lst[pos + 1]]; pos += 2
        else: raise ValueError(lst)
        n = lst[pos]; pos += 1
        return ["N", h, [term() for _ in range(n)]]
    return term()


def judge_dict(c, impl, er):
    """impl returned a dict and the oracle (erased) says unifiable with mgu `er`."""
    s, t, sg = c["s"], c["t"], c["sigma"]
    sub = {b[0]: deser(b[1]) for b in impl[1]}
    for x, u in sg:
        if sub.get(x) != u:
            return "result does not extend the prior substitution"
    if not G.is_acyclic(sub):
        return "unsound: returned substitution is cyclic (no idempotent closure)"
    if G.erase(G.resolve(s, sub)) != G.erase(G.resolve(t, sub)):
        return "unsound: closure of the returned substitution does not make the two sides identical"
    for x, u in sub.items():
        if G.erase(G.resolve(["E", x], er)) != G.erase(G.resolve(u, er)):
            return "not most general: the oracle's unifier does not solve the returned binding"
    return None


def correspondence(ctx, info):
    r = vlib.rng(ctx.seed, "C12")
    g = G.Gen(r)
    cases = []
    for f in sorted((ctx.dir / "corpus").glob("*.json")):
        cases += json.loads(f.read_text())
    n_corpus = len(cases)
    nu, na, nl = n_cases(ctx)
    cases += G.boundary_cases(r, not ctx.quick)
    cases += [G.one_leaf_case(g) for _ in range(nu // 4)]
    cases += [g.case() for _ in range(nu)] + [g.app_case() for _ in range(na)] + [g.lin_case() for _ in range(nl)]
    payload = [{k: v for k, v in c.items() if k != "shape"} for c in cases]
    impl = []
    for j in range(0, len(payload), 5000):
        impl += json.loads(ctx.impl("impl_unify.py", payload[j:j + 5000]))
    impl = [canon(x) for x in impl]
    model = None
    try:
        model = [canon(x) for x in model_results(ctx, cases)]
    except Exception as e:  # noqa: BLE001
        ctx.notes.append(f"model evaluation failed: {str(e)[:1500]}")
    # ---- spec check of the implementation (failing-input search)
    verdicts, outcomes, fails, sizes = Counter(), Counter(), [], Counter()
    occurs_resolved = 0
    for c, i in zip(cases, impl):
        if c["kind"] != "unify":
            continue
        label, why = judge(c, i)
        verdicts[label] += 1
        outcomes[{1: "dict", 0: "None", -1: "RecursionError", -2: "exception"}[i[0]]] += 1
        if i[0] == 1:
            sizes[len(i[1]) - len(c["sigma"])] += 1
            if why is None:
                why = judge_dict(c, i, G.oracle(c["s"], c["t"], c["sigma"], True))
        if why:
            fails.append((c, i, why))
    # how often does the resolved occurs check matter: not unifiable, but unifiable when the occurs check is dropped
    for c in cases:
        if c["kind"] == "unify" and G.oracle(c["s"], c["t"], c["sigma"], True) is None:
            if _unifiable_without_occurs(c):
                occurs_resolved += 1
    spec_keys = set()
    for c, i, why in fails:
        k = "unify:" + G.key([c["s"], c["t"], c["sigma"]])
        spec_keys.add(k)
    reported = 0
    for c, i, why in fails:
        if reported >= 5:
            break
        reported += 1
        k = "unify:" + G.key([c["s"], c["t"], c["sigma"]])
        ctx.report(k, "counterexample", "unify vs independent Robinson unifier: " + why,
                   {"s": G.pretty(c["s"]), "t": G.pretty(c["t"]), "prior_subst": {f"?{x}": G.pretty(u) for x, u in c["sigma"]},
                    "implementation": _show(i), "expected": _expected(c), "why": why, "case": c,
                    "model": _show(model[cases.index(c)]) if model else None, "replay": replay_snippet(c)})
    # ---- model vs implementation
    disagreements = 0
    if model is not None:
        for c, i, m in zip(cases, impl, model):
            if i != m:
                disagreements += 1
                k = c["kind"] + ":" + G.key([c.get("s"), c["t"], c.get("sigma")])
                if k in spec_keys or disagreements > 5:
                    continue
                ctx.report(k, "correspondence", f"model (coq/C12/Unify.v) vs /repo on {c['kind']}",
                           {"case": c, "s": G.pretty(c["s"]) if "s" in c else None, "t": G.pretty(c["t"]),
                            "implementation": _show(i) if c["kind"] == "unify" else i,
                            "model": _show(m) if c["kind"] == "unify" else m, "replay": replay_snippet(c)})
    call_stats = call_correspondence(ctx, r)
    if not info["ok"] and not ctx.violations and not ctx.known_hits:
        ctx.report("proof-broken:" + str(info["failed"]), "proof-broken", str(info["failed"]),
                   {"coq_error": vlib.CoqResult(False, info["log"]).error_excerpt(), "searched_cases": len(cases)},
                   found_input=False)
    if model is None and info["ok"]:
        ctx.report("model-eval", "correspondence", "model could not be evaluated", {"notes": ctx.notes}, found_input=False)
    un = [c for c in cases if c["kind"] == "unify"]
    nontrivial = len({G.key([c["s"], c["t"], c["sigma"]]) for c in un if c["s"] != c["t"] and (G.vars_of(c["s"]) or G.vars_of(c["t"]))})
    pick = [n_corpus, n_corpus + nu // 2, n_corpus + nu - 1]
    return dict(
        evaluations=len(cases), distinct_nontrivial=nontrivial,
        rule="distinct unify inputs (s, t, prior substitution) whose sides differ syntactically and contain at least one inference variable",
        traces_validated_against_impl=len(cases) if model else 0, model_impl_disagreements=disagreements,
        spec_failures_of_implementation=len(fails), corpus_cases=n_corpus,
        shape_histogram=dict(Counter(c["shape"] for c in cases)), impl_outcomes=dict(outcomes),
        oracle_verdicts=dict(verdicts), new_bindings_histogram={str(k): v for k, v in sorted(sizes.items())},
        cases_with_prior_substitution=sum(1 for c in un if c["sigma"]),
        cases_where_resolved_occurs_check_decides=occurs_resolved,
        **call_stats,
        samples=[{"s": G.pretty(cases[j]["s"]), "t": G.pretty(cases[j]["t"]),
                  "prior": {f"?{x}": G.pretty(u) for x, u in cases[j]["sigma"]}, "impl": _show(impl[j])} for j in pick],
        notes=ctx.notes)


def judge_call(c, impl):
    """Spec side for calls (independent of the model): does an instantiation of the quantified
    variables make the arguments fit?  Returns (verdict, failure_or_None)."""
    ins, acts, params = c["ins"], c["acts"], c["params"]
    if len(ins) != len(acts):
        return "arity", ("accepted a call with the wrong number of arguments" if impl[0] == 1 else None)
    ex = G.oracle(G.tup(*ins), G.tup(*acts), [], False)
    nn = [(i, a) for i, a in zip(ins, acts) if not G.is_num(a)]
    er_nn = G.oracle(G.tup(*[i for i, _ in nn]), G.tup(*[a for _, a in nn]), [], True)
    must_accept = ex is not None and all(p in ex and G.bound_ok(p, ex[p]) for p in params)
    must_reject = er_nn is None or (ex is not None and len(nn) == len(ins) and not all(p in ex and G.bound_ok(p, ex[p]) for p in params))
    verdict = "instance-exists" if must_accept else ("no-instance" if must_reject else "widening-or-flags")
    if impl[0] == 1:
        if must_reject:
            return verdict, "accepted although no instantiation of the parameters makes the arguments fit"
        th = {p: deser(t) for p, t in zip(params, impl[1])}
        for i, a in zip(ins, acts):
            u = G.resolve(i, th)
            if G.erase(u) != G.erase(a) and not (G.is_num(a) and G.is_num(u) and a[1][1] < u[1][1]):
                return verdict, "accepted, but the inferred instantiation does not make an argument fit"
        if not all(G.bound_ok(p, th[p]) for p in params):
            return verdict, "accepted, but the inferred instantiation violates a copy/drop bound"
    elif impl[0] == 0 and must_accept:
        return verdict, "rejected although an instantiation makes every argument type equal to the parameter type"
    elif impl[0] not in (0, 1):
        return verdict, f"checker crashed: {impl[1]}"
    return verdict, None


def call_correspondence(ctx, r):
    g = G.CallGen(r)
    cases = []
    f = ctx.dir / "corpus_calls.json"
    if f.exists():
        cases += json.loads(f.read_text())
    cases += [g.case() for _ in range(n_calls(ctx))]
    payload = [{k: v for k, v in c.items() if k != "shape"} for c in cases]
    impl = []
    for j in range(0, len(payload), 400):
        impl += json.loads(ctx.impl("impl_call.py", payload[j:j + 400], args=[str(ctx.scratch / f"c12_calls_{j}.py")]))
    impl_c = [[x[0], x[1] if x[0] == 1 else []] for x in impl]
    model = None
    try:
        model = [[m[0], [list(t) for t in m[1]]] for m in model_results(ctx, cases)]
    except Exception as e:  # noqa: BLE001
        ctx.notes.append(f"call model evaluation failed: {str(e)[:1500]}")
    verdicts, fails, dis = Counter(), 0, 0
    for k, (c, i) in enumerate(zip(cases, impl)):
        v, why = judge_call(c, i)
        verdicts[v] += 1
        key = "call:" + G.key([c["params"], c["ins"], c["acts"]])
        show = {"signature": "f(" + ", ".join(G.annot(t) for t in c["ins"]) + ")", "arguments": [G.annot(t) for t in c["acts"]],
                "params": c["params"], "implementation": i if i[0] != 1 else {"accepted_inst": [G.pretty(deser(t)) for t in i[1]]},
                "model": model[k] if model else None, "case": c,
                "replay": "printf '%s' '" + json.dumps([payload[k]]) + "' | PYTHONPATH=/verif/tools:/verif/props/C12:$REPO/guppylang/src:$REPO/guppylang-internals/src /venv/bin/python /verif/props/C12/impl_call.py /tmp/c12_call_replay.py   # REPO=/repo; the generated program is left in /tmp/c12_call_replay.py"}
        if why:
            fails += 1
            if fails <= 3:
                ctx.report(key, "counterexample", "generic call vs instantiation oracle: " + why, show)
        elif model is not None and impl_c[k] != model[k]:
            dis += 1
            if dis <= 3:
                ctx.report(key, "correspondence", "model synth_call (coq/C12/Unify.v) vs /repo check() of a generic call", show)
    if model is None:
        ctx.report("call-model-eval", "correspondence", "call model could not be evaluated", {"notes": ctx.notes}, found_input=False)
    return dict(call_cases=len(cases), call_shapes=dict(Counter(c["shape"] for c in cases)),
                call_impl_outcomes=dict(Counter({1: "accepted", 0: "rejected"}.get(i[0], "crash") for i in impl)),
                call_rejection_kinds=dict(Counter(i[1] for i in impl if i[0] == 0)),
                call_oracle_verdicts=dict(verdicts), call_model_impl_disagreements=dis, call_spec_failures=fails,
                call_samples=[{"signature": [G.annot(t) for t in cases[j]["ins"]], "arguments": [G.annot(t) for t in cases[j]["acts"]],
                               "impl": impl[j]} for j in (0, len(cases) // 2, len(cases) - 1)])


def _unifiable_without_occurs(c):
    """rational-tree unifiability: Robinson without occurs check, and a plain `var in vars(t)`
    test passes at every binding -> only a check resolved through the substitution can reject it"""
    th = {}
    work = [(["E", x], u) for x, u in c["sigma"]] + [(c["s"], c["t"])]
    steps = 0

    def walk(a):
        while a[0] == "E" and a[1] in th:
            a = th[a[1]]
        return a
    seen = set()
    while work:
        steps += 1
        if steps > 5000:
            return False
        a, b = work.pop()
        a, b = walk(a), walk(b)
        if a == b:
            continue
        if a[0] != "E" and b[0] == "E":
            a, b = b, a
        if a[0] == "E":
            if a[1] in G.vars_of(b):
                return False
            th[a[1]] = b
            continue
        if G.erase_head(a[1]) != G.erase_head(b[1]) or len(a[2]) != len(b[2]):
            return False
        k = (G.key(a), G.key(b))
        if k in seen:
            continue
        seen.add(k)
        work += list(zip(a[2], b[2]))
    return True


def _show(res):
    if not isinstance(res, list) or not res:
        return res
    if res[0] == 1:
        return {f"?{b[0]}": G.pretty(deser(b[1])) for b in res[1]}
    return {0: "None", -1: "RecursionError / out of fuel", -2: "exception " + str(res[1])}.get(res[0], res)


def _expected(c):
    ex = G.oracle(c["s"], c["t"], c["sigma"], False)
    er = G.oracle(c["s"], c["t"], c["sigma"], True)
    if er is None:
        return "None (no assignment makes the two sides identical)"
    return {"mgu": {f"?{x}": G.pretty(u) for x, u in sorted(er.items())}, "exact_identity_possible": ex is not None}


def generate(ctx):
    pass  # C12 has no generated Coq files (tie X)


def run(ctx):
    generate(ctx)
    info = ctx.coq_props()
    import tr_arms
    arm_problems = tr_arms.diff(ctx.int_src("tys/ty.py"))
    extras = correspondence(ctx, info)
    extras["unify_match_arms"] = "as modelled (12 arms of unify, 3 of _unify_args)" if not arm_problems else arm_problems
    if arm_problems and not ctx.violations:
        # a new / changed `case` arm is behaviour the model does not describe; the search above found no input
        ctx.report("unify-arms:" + ";".join(arm_problems), "correspondence",
                   "the `match` arms of unify/_unify_args differ from the modelled ones", {"differences": arm_problems,
                    "searched": "boundary pairs of all nullary constructors in all contexts, one-leaf stream, random stream"},
                   found_input=False)
    cov = proof_coverage(info, "make -f Makefile.C12 C12/Props.vo && coqc C12/Props.v (Print Assumptions)", TRUSTED, **extras)
    return ctx.finish(LEVEL, cov, ASSUMPTIONS)
