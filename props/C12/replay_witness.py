"""Replays the C12 defects on the real code:
PYTHONPATH=$REPO/guppylang-internals/src /venv/bin/python /verif/props/C12/replay_witness.py"""
import sys
sys.setrecursionlimit(3000)
from guppylang_internals.tys.const import ExistentialConstVar
from guppylang_internals.tys.ty import ExistentialTypeVar, NumericType, TupleType, unify

A = ExistentialTypeVar("A", 1, True, True)
B = ExistentialTypeVar("B", 2, True, True)
tup = lambda *xs: TupleType(list(xs))
show = lambda r: None if r is None else {k.display_name: str(v) for k, v in r.items()}
print("unify((A,B), ((B,),(A,)), {})       ->", show(unify(tup(A, B), tup(tup(B), tup(A)), {})), "  expected None")
try:
    print("unify((A,B,A), ((B,),(A,),(A,)), {}) ->", show(unify(tup(A, B, A), tup(tup(B), tup(A), tup(A)), {})), "  expected None")
except RecursionError:
    print("unify((A,B,A), ((B,),(A,),(A,)), {}) -> RecursionError   expected None")
nat = NumericType(NumericType.Kind.Nat)
n, m = ExistentialConstVar(nat, "n", 11), ExistentialConstVar(nat, "m", 12)
print("unify(m, n, {n: m})                 ->", show(unify(m, n, {n: m})), "  expected {n: m}")
