"""Implementation side of the C12 call tie: for every case a `@guppy.declare`d generic function
`f_k(x0: <in0>, ...) -> None` and a caller `caller_k(a0: <act0>, ...) -> None: f_k(a0, ...)` are
written to a real module file; `caller_k.check()` (real /repo checker under tools/repo_shim) decides
accept / reject, and the inferred instantiation is read from the checked GlobalCall node's
`type_args`.  Output per case: [1, [ser(inst_i)...]] accepted, [0, errname] rejected (type error /
inference error), [-2, repr] anything else."""
import ast
import importlib.util
import json
import sys

import repo_shim  # noqa: F401

sys.path.insert(0, __file__.rsplit("/", 1)[0])
from gen_types import annot, ser, vars_of  # noqa: E402

from guppylang_internals.engine import ENGINE  # noqa: E402
from guppylang_internals.error import GuppyError, GuppyTypeError, GuppyTypeInferenceError  # noqa: E402
from guppylang_internals.nodes import GlobalCall  # noqa: E402
from guppylang_internals.tys.arg import ConstArg, TypeArg  # noqa: E402
from guppylang_internals.tys.const import ConstValue  # noqa: E402
from guppylang_internals.tys.ty import FunctionType, NoneType, NumericType, OpaqueType, TupleType  # noqa: E402

KINDS = [NumericType.Kind.Nat, NumericType.Kind.Int, NumericType.Kind.Float]
DEFS = {"bool": 0, "array": 13, "Option": 16}


def back(o):
    if isinstance(o, TypeArg): return ["N", ["argT"], [back(o.ty)]]
    if isinstance(o, ConstArg): return ["N", ["argC"], [back(o.const)]]
    if isinstance(o, NumericType): return ["N", ["num", KINDS.index(o.kind)], []]
    if isinstance(o, NoneType): return ["N", ["none"], []]
    if isinstance(o, ConstValue): return ["N", ["cval", o.value], []]
    if isinstance(o, TupleType): return ["N", ["tuple"], [back(x) for x in o.args]]
    if isinstance(o, FunctionType):
        assert not o.params
        return ["N", ["fun", [0 for _ in o.inputs], []], [back(x) for x in o.args]]
    if isinstance(o, OpaqueType):
        d = DEFS[o.defn.name]
        assert (o.defn.never_copyable, o.defn.never_droppable) == (bool(d & 1), bool(d & 2))
        return ["N", ["opaque", d], [back(x) for x in o.args]]
    raise ValueError(repr(o))


def module_source(cases):
    ids = sorted({v for c in cases for t in c["ins"] for v in vars_of(t)} | {p for c in cases for p in c["params"]})
    out = ["from collections.abc import Callable", "from guppylang import guppy",
           "from guppylang.std.builtins import array, nat", "from guppylang.std.option import Option", ""]
    for i in ids:
        if i & 1: out.append(f'n{i} = guppy.nat_var("n{i}")')
        else: out.append(f'T{i} = guppy.type_var("T{i}", copyable={bool(i & 2)}, droppable={bool(i & 4)})')
    for k, c in enumerate(cases):
        ps = ", ".join(f"x{j}: {annot(t)}" for j, t in enumerate(c["ins"]))
        out += ["", "@guppy.declare", f"def f_{k}({ps}) -> None: ..."]
        as_ = ", ".join(f"a{j}: {annot(t)}" for j, t in enumerate(c["acts"]))
        out += ["", "@guppy", f"def caller_{k}({as_}) -> None:",
                f"    f_{k}(" + ", ".join(f"a{j}" for j in range(len(c["acts"]))) + ")"]
    return "\n".join(out) + "\n"


def run(cases, path):
    open(path, "w").write(module_source(cases))
    spec = importlib.util.spec_from_file_location("c12_calls", path)
    mod = importlib.util.module_from_spec(spec)
    sys.modules["c12_calls"] = mod
    spec.loader.exec_module(mod)
    res = []
    for k, c in enumerate(cases):
        caller = getattr(mod, f"caller_{k}")
        try:
            caller.check()
            d = ENGINE.checked[caller.id]
            calls = [nd for bb in d.cfg.bbs for st in bb.statements for nd in ast.walk(st) if isinstance(nd, GlobalCall)]
            calls = [nd for nd in calls if nd.def_id == getattr(mod, f"f_{k}").id]
            assert len(calls) == 1, calls
            # type_args are ordered like the function's params (order of first occurrence in the signature)
            fty = ENGINE.get_checked(calls[0].def_id).ty
            names = [p.name for p in fty.params]
            inst = {nm: back(a)[2][0] for nm, a in zip(names, calls[0].type_args)}  # unwrap TypeArg/ConstArg
            res.append([1, [ser(inst[("n" if p & 1 else "T") + str(p)]) for p in c["params"]]])
        except (GuppyTypeError, GuppyTypeInferenceError) as e:
            res.append([0, type(e.error).__name__])
        except GuppyError as e:
            res.append([-2, "GuppyError:" + type(e.error).__name__])
        except Exception as e:  # noqa: BLE001
            res.append([-2, repr(e)[:300]])
    return res


if __name__ == "__main__":
    print(json.dumps(run(json.load(sys.stdin), sys.argv[1] if len(sys.argv) > 1 else "c12_calls_prog.py")))
