"""Seeded generator of PyAst programs (tuple terms of pyast.py) for the C03 tie.

Profiles:
  full      every construct of the model, lifted expressions anywhere (chained-comparison
            middle operands stay lift-free: the Coq builder model covers exactly that)
  frag      the proved fragment of build_preserves_partial: value positions hold lift-free
            expressions, conditions are built from not/and/or/chains/conditional expressions
            over lift-free leaves
  unmodelled  like full, but chained comparisons may have lifted middle operands (programs
            for the semantic search on the implementation's CFG only)
  loopelse  like frag but loops may carry an else suite
"""
from collections import Counter

from pyast import BINOPS, CMPOPS

NV = 5          # user variables v0..v4 (v0..v3 are parameters, v4 a local)
NF = 4          # functions f0..f3 (odd ones return bools in the test oracle)
SAFE_BIN = ["Add", "Sub", "Mul", "BitAnd", "BitOr", "BitXor"]


def has_lift(e):
    k = e[0]
    if k in ("Bool", "If", "Walrus"):
        return True
    if k == "Cmp":
        return len(e[2]) > 1 or has_lift(e[1]) or any(has_lift(x) for _, x in e[2])
    if k == "Unary":
        return has_lift(e[2])
    if k == "Bin":
        return has_lift(e[2]) or has_lift(e[3])
    if k in ("Call", "Tuple"):
        return any(has_lift(a) for a in e[-1])
    return False


def wtargets(e):
    if not isinstance(e, tuple):
        return set()
    k = e[0]
    out = set()
    if k == "Walrus":
        out.add(e[1])
    for x in e[1:]:
        if isinstance(x, tuple):
            out |= wtargets(x)
        elif isinstance(x, list):
            for y in x:
                out |= wtargets(y[1] if (isinstance(y, tuple) and len(y) == 2 and isinstance(y[0], str) and y[0] in CMPOPS) else y)
    return out


class Gen:
    def __init__(self, rng, profile="full"):
        self.r = rng
        self.profile = profile
        self.forloops = False
        self.for_targets = []
        self.hist = Counter()

    # ---------------------------------------------------------------- expressions
    def leaf(self):
        r = self.r
        k = r.random()
        if k < 0.45:
            self.hist["Name"] += 1
            return ("Name", ("U", r.randrange(NV if r.random() < 0.15 else NV - 1)))
        if k < 0.75:
            self.hist["Const.int"] += 1
            return ("Const", ("Int", r.choice([0, 1, 2, 3, 5, 7])))
        if k < 0.93:
            self.hist["Const.bool"] += 1
            return ("Const", ("Bool", r.random() < 0.5))
        self.hist["Const.None"] += 1
        return ("Const", ("None",))

    def simple(self, d):
        """lift-free expression"""
        r = self.r
        if d <= 0 or r.random() < 0.3:
            return self.leaf()
        k = r.random()
        if k < 0.3:
            op = r.choice(BINOPS if r.random() < 0.2 else SAFE_BIN)
            self.hist["BinOp"] += 1
            return ("Bin", op, self.simple(d - 1), self.simple(d - 1))
        if k < 0.45:
            op = r.choice(["Neg", "Neg", "Not", "Pos", "Invert"])
            self.hist["UnaryOp." + op] += 1
            a = self.simple(d - 1)
            if op == "Neg" and a[0] == "Const":
                self.hist["Neg-of-constant"] += 1
            return ("Unary", op, a)
        if k < 0.65:
            self.hist["Compare.single"] += 1
            return ("Cmp", self.simple(d - 1), [(r.choice(CMPOPS), self.simple(d - 1))])
        if k < 0.9:
            n = r.choice([0, 1, 1, 2])
            self.hist["Call"] += 1
            return ("Call", r.randrange(NF), [self.simple(d - 1) for _ in range(n)])
        self.hist["Tuple"] += 1
        return ("Tuple", [self.simple(d - 1) for _ in range(r.choice([0, 1, 2, 2]))])

    # ------------------------------------------------------- "safe" profile (order_safe fragment)
    def pure_noread(self, d, avoid):
        """call-free, lift-free expression that reads none of the variables in `avoid`"""
        r = self.r
        names = [n for n in range(NV - 1) if n not in avoid]
        if d <= 0 or r.random() < 0.4 or not names:
            if names and r.random() < 0.6:
                return ("Name", ("U", r.choice(names)))
            return ("Const", ("Int", r.choice([0, 1, 2, 3]))) if r.random() < 0.7 else ("Const", ("Bool", r.random() < 0.5))
        k = r.random()
        if k < 0.5:
            return ("Bin", r.choice(SAFE_BIN), self.pure_noread(d - 1, avoid), self.pure_noread(d - 1, avoid))
        if k < 0.7:
            return ("Unary", r.choice(["Neg", "Not", "Invert"]), self.pure_noread(d - 1, avoid))
        return ("Cmp", self.pure_noread(d - 1, avoid), [(r.choice(CMPOPS), self.pure_noread(d - 1, avoid))])

    def safe_pair(self, d):
        b = self.safe_expr(d)
        if has_lift(b):
            self.hist["safe:pure-operand-before-lifted"] += 1
            return self.pure_noread(d, wtargets(b)), b
        return self.safe_expr(d), b

    def safe_boolish(self, d):
        r = self.r
        k = r.random()
        if d <= 0 or k < 0.35:
            a, b = self.safe_pair(max(d - 1, 0))
            return ("Cmp", a, [(r.choice(CMPOPS), b)])
        if k < 0.5:
            return ("Const", ("Bool", r.random() < 0.5))
        if k < 0.65:
            return ("Unary", "Not", self.safe_expr(d - 1))
        if k < 0.85:
            return ("Bool", r.choice(["And", "Or"]), self.safe_boolish(d - 1), self.safe_boolish(d - 1))
        return ("If", self.safe_cond(d - 1), self.safe_boolish(d - 1), self.safe_boolish(d - 1))

    def safe_chain(self, d):
        r = self.r
        n = r.choice([2, 2, 3])
        self.hist[f"Compare.chain{n}"] += 1
        last = self.safe_expr(d - 1)
        avoid = wtargets(last) if has_lift(last) else set()
        mids = [self.pure_noread(d - 1, avoid) for _ in range(n - 1)]
        left = self.safe_expr(d - 1)
        return ("Cmp", left, [(r.choice(CMPOPS), m) for m in mids] + [(r.choice(CMPOPS), last)])

    def safe_expr(self, d):
        r = self.r
        if d <= 0 or r.random() < 0.25:
            return self.leaf()
        k = r.random()
        if k < 0.25:
            return self.simple(d)
        if k < 0.37:
            self.hist["value:BoolOp"] += 1
            return ("Bool", r.choice(["And", "Or"]), self.safe_boolish(d - 1), self.safe_boolish(d - 1))
        if k < 0.5:
            self.hist["value:IfExp"] += 1
            return ("If", self.safe_cond(d - 1), self.safe_expr(d - 1), self.safe_expr(d - 1))
        if k < 0.6:
            self.hist["value:Walrus"] += 1
            return ("Walrus", r.randrange(NV), self.safe_expr(d - 1))
        if k < 0.68:
            self.hist["value:chain"] += 1
            return self.safe_chain(d)
        if k < 0.82:
            self.hist["BinOp"] += 1
            a, b = self.safe_pair(d - 1)
            return ("Bin", r.choice(SAFE_BIN), a, b)
        if k < 0.88:
            op = r.choice(["Neg", "Not", "Pos", "Invert"])
            self.hist["UnaryOp." + op] += 1
            return ("Unary", op, self.safe_expr(d - 1))
        if k < 0.94:
            self.hist["Compare.single"] += 1
            a, b = self.safe_pair(d - 1)
            return ("Cmp", a, [(r.choice(CMPOPS), b)])
        self.hist["Call"] += 1
        a, b = self.safe_pair(d - 1)
        return ("Call", r.randrange(NF), [a, b] if r.random() < 0.5 else [b])

    def safe_cond(self, d):
        r = self.r
        if d <= 0 or r.random() < 0.25:
            a, b = self.safe_pair(1)
            self.hist["cond:Compare"] += 1
            return ("Cmp", a, [(r.choice(CMPOPS), b)])
        k = r.random()
        if k < 0.3:
            self.hist["cond:BoolOp"] += 1
            return ("Bool", r.choice(["And", "Or"]), self.safe_cond(d - 1), self.safe_cond(d - 1))
        if k < 0.45:
            self.hist["cond:Not"] += 1
            return ("Unary", "Not", self.safe_cond(d - 1))
        if k < 0.6:
            self.hist["cond:chain"] += 1
            return self.safe_chain(d)
        if k < 0.7:
            self.hist["cond:IfExp"] += 1
            return ("If", self.safe_cond(d - 1), self.safe_cond(d - 1), self.safe_cond(d - 1))
        self.hist["cond:value-expr"] += 1
        return self.safe_expr(d - 1)

    def chain(self, d, sub):
        r = self.r
        n = r.choice([2, 2, 3])
        self.hist[f"Compare.chain{n}"] += 1
        left = sub(d - 1)
        ops = []
        for i in range(n):
            last = i == n - 1
            if last:
                e = sub(d - 1)
            elif self.profile == "unmodelled" and r.random() < 0.5:
                e = self.expr(d - 1)
                self.hist["chain-middle-lifted"] += 1
            elif self.profile in ("frag", "loopelse"):
                e = self.pure_noread(d - 1, set())      # proved fragment: call-free middle operands
                self.hist["chain-middle-pure"] += 1
            else:
                e = self.simple(d - 1)
                if e[0] == "Call":
                    self.hist["chain-middle-call"] += 1
                if e[0] == "Unary" and e[1] == "Neg" and e[2][0] == "Const":
                    self.hist["chain-middle-negconst"] += 1
            ops.append((r.choice(CMPOPS), e))
        return ("Cmp", left, ops)

    def expr(self, d):
        """value-position expression"""
        r = self.r
        if self.profile in ("frag", "loopelse"):
            return self.simple(d)
        if self.profile == "safe":
            return self.safe_expr(d)
        if d <= 0 or r.random() < 0.25:
            return self.leaf()
        k = r.random()
        if k < 0.3:
            return self.simple(d)
        if k < 0.42:
            self.hist["value:BoolOp"] += 1
            return ("Bool", r.choice(["And", "Or"]), self.expr(d - 1), self.expr(d - 1))
        if k < 0.54:
            self.hist["value:IfExp"] += 1
            return ("If", self.cond(d - 1), self.expr(d - 1), self.expr(d - 1))
        if k < 0.64:
            self.hist["value:Walrus"] += 1
            return ("Walrus", r.randrange(NV), self.expr(d - 1))
        if k < 0.72:
            self.hist["value:chain"] += 1
            return self.chain(d, self.expr)
        if k < 0.84:
            self.hist["BinOp"] += 1
            return ("Bin", r.choice(SAFE_BIN), self.expr(d - 1), self.expr(d - 1))
        if k < 0.9:
            op = r.choice(["Neg", "Not", "Pos", "Invert"])
            self.hist["UnaryOp." + op] += 1
            return ("Unary", op, self.expr(d - 1))
        if k < 0.95:
            self.hist["Compare.single"] += 1
            return ("Cmp", self.expr(d - 1), [(r.choice(CMPOPS), self.expr(d - 1))])
        self.hist["Call"] += 1
        return ("Call", r.randrange(NF), [self.expr(d - 1) for _ in range(r.choice([1, 2, 3]))])

    def cond(self, d):
        """branch-position expression"""
        r = self.r
        if self.profile == "safe":
            return self.safe_cond(d)
        sub = self.simple if self.profile in ("frag", "loopelse") else self.expr
        if d <= 0 or r.random() < 0.2:
            k = r.random()
            if k < 0.12:
                self.hist["cond:const-bool"] += 1
                return ("Const", ("Bool", r.random() < 0.5))
            if k < 0.6:
                self.hist["cond:Compare"] += 1
                return ("Cmp", sub(1), [(r.choice(CMPOPS), sub(1))])
            self.hist["cond:other-leaf"] += 1
            return sub(1)
        k = r.random()
        if k < 0.3:
            self.hist["cond:BoolOp"] += 1
            return ("Bool", r.choice(["And", "Or"]), self.cond(d - 1), self.cond(d - 1))
        if k < 0.45:
            self.hist["cond:Not"] += 1
            return ("Unary", "Not", self.cond(d - 1))
        if k < 0.6:
            self.hist["cond:chain"] += 1
            return self.chain(d, sub)
        if k < 0.7:
            self.hist["cond:IfExp"] += 1
            return ("If", self.cond(d - 1), self.cond(d - 1), self.cond(d - 1))
        if k < 0.85:
            self.hist["cond:Compare"] += 1
            return ("Cmp", sub(d - 1), [(r.choice(CMPOPS), sub(d - 1))])
        self.hist["cond:value-expr"] += 1
        return sub(d - 1)

    # ---------------------------------------------------------------- statements
    def simple_stmt(self, d):
        r = self.r
        k = r.random()
        if k < 0.45:
            self.hist["Assign"] += 1
            return ("Assign", ("TName", ("U", r.randrange(NV))), self.expr(d))
        if k < 0.55:
            self.hist["Assign.tuple"] += 1
            n = r.choice([2, 2, 3])
            xs = [r.randrange(NV) for _ in range(n)]
            return ("Assign", ("TTuple", xs), ("Tuple", [self.expr(d - 1) for _ in range(n)]))
        if k < 0.72:
            self.hist["AugAssign"] += 1
            e = self.expr(d)
            xs = [n for n in range(NV - 1) if n not in wtargets(e)] if self.profile == "safe" else list(range(NV - 1))
            return ("Aug", r.choice(xs or [0]), r.choice(SAFE_BIN), e)
        if k < 0.95:
            self.hist["ExprStmt"] += 1
            e = self.expr(d)
            if r.random() < 0.6 and e[0] != "Call":
                e = ("Call", r.randrange(NF), [e])
            return ("Expr", e)
        self.hist["Pass"] += 1
        return ("Pass",)

    def block(self, d, in_loop, n=None):
        r = self.r
        n = n if n is not None else r.choice([1, 1, 2, 2, 3])
        out = []
        jumped = False
        for _ in range(n):
            if jumped:
                self.hist["stmt-after-jump(unreachable)"] += 1
            s = self.stmt(d, in_loop)
            out.append(s)
            if s[0] in ("Break", "Continue", "Return"):
                jumped = True
                if r.random() < 0.7:
                    break
        return out

    def loop_else(self, d, in_loop):
        if self.profile == "loopelse" and self.r.random() < 0.6:
            self.hist["loop-else"] += 1
            return self.block(d - 1, in_loop, 1)
        return []

    def stmt(self, d, in_loop):
        r = self.r
        if self.forloops and d > 0 and r.random() < (0.55 if self.for_targets else 0.3):
            self.hist["For"] += 1
            q = r.random()
            if q < 0.7:
                it = ("Tuple", [self.simple(1) for _ in range(r.choice([0, 1, 2, 2, 3, 3]))])
                self.hist["For.iter-tuple"] += 1
            elif q < 0.82:
                it = ("Name", ("U", r.randrange(NV - 1)))
            else:
                it = self.expr(2)
                self.hist["For.iter-expr"] += 1
            orelse = []
            if r.random() < 0.04:
                self.hist["loop-else"] += 1
                orelse = self.block(d - 1, in_loop, 1)
            if self.for_targets and r.random() < 0.5:
                x = r.choice(self.for_targets)          # nested loop re-using an enclosing loop's target
                self.hist["For.nested-same-target"] += 1
            else:
                x = r.randrange(NV)
            if self.for_targets:
                self.hist["For.nested"] += 1
            self.for_targets.append(x)
            body = self.block(d - 1, True)
            self.for_targets.pop()
            return ("For", x, it, body, orelse)
        k = r.random()
        if d <= 0 or k < 0.45:
            return self.simple_stmt(max(d, 1) + 1)
        if k < 0.65:
            self.hist["If"] += 1
            body = self.block(d - 1, in_loop)
            q = r.random()
            if q < 0.35:
                orelse = []
            elif q < 0.6:
                self.hist["If.elif-shape"] += 1
                orelse = [("If", self.cond(2), self.block(d - 1, in_loop), self.block(d - 1, in_loop) if r.random() < 0.5 else [])]
            else:
                self.hist["If.else"] += 1
                orelse = self.block(d - 1, in_loop)
            return ("If", self.cond(2), body, orelse)
        if k < 0.8:
            q = r.random()
            if q < 0.5:
                # counting loop: terminates unless the body `continue`s past the increment
                self.hist["While.counting"] += 1
                v = r.randrange(NV - 1)
                body = self.block(d - 1, True) + [("Aug", v, "Add", ("Const", ("Int", 1)))]
                c = ("Cmp", ("Name", ("U", v)), [("Lt", ("Const", ("Int", r.choice([1, 2, 3]))))])
                if r.random() < 0.4:
                    c = ("Bool", "And", c, self.cond(1))
                return ("While", c, body, self.loop_else(d, in_loop))
            if q < 0.75:
                self.hist["While.True+break"] += 1
                body = self.block(d - 1, True) + [("Break",)] if r.random() < 0.7 else \
                    [("If", self.cond(1), [("Break",)], [])] + self.block(d - 1, True) + [("Break",)]
                return ("While", ("Const", ("Bool", True)), body, self.loop_else(d, in_loop))
            self.hist["While.general"] += 1
            return ("While", self.cond(2), self.block(d - 1, True), self.loop_else(d, in_loop))
        if k < 0.88:
            if r.random() < 0.5:
                self.hist["Return.value"] += 1
                return ("Return", self.expr(2))
            self.hist["Return.bare"] += 1
            return ("Return", None)
        if in_loop:
            if r.random() < 0.5:
                self.hist["Break"] += 1
                return ("Break",)
            self.hist["Continue"] += 1
            return ("Continue",)
        return self.simple_stmt(2)

    def program(self):
        r = self.r
        body = self.block(r.choice([1, 2, 2, 3]), False, r.choice([1, 2, 3, 3, 4]))
        return body


def style(rng):
    """print-style decisions (flat BoolOp chains, elif) drawn from the same PRNG"""
    return (lambda e: rng.random() < 0.7), (lambda s: rng.random() < 0.7)


def roundtrip_ok(body, src):
    """The printed source must parse back to the same term (guards the printer)."""
    import pyast

    def norm(t):
        if isinstance(t, (list, tuple)):
            return tuple(norm(x) for x in t)
        return t
    return norm(pyast.parse_program(src)) == norm(body)
