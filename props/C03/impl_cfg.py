"""Implementation side of the C03 tie: run the repo-under-test's real CFGBuilder on Python
sources and return each CFG canonicalised (integer tokens of coq/C03/Encode.v, Coq term text
for the semantic search, and a readable dump).  stdin: JSON list of {"src", "returns_none"}."""
import ast
import json
import sys

import repo_shim  # noqa: F401
from guppylang_internals.ast_util import annotate_location
from guppylang_internals.cfg.builder import CFGBuilder
from guppylang_internals.checker.core import Globals
from guppylang_internals.error import GuppyError, InternalGuppyError

import pyast


def classify(e):
    if isinstance(e, GuppyError):
        d = e.error
        name = type(d).__name__
        if name == "UnsupportedError":
            return "Unsupported", getattr(d, "things", "")
        if name == "ExpectedError":
            return "ExpectedReturn", getattr(d, "expected", "")
        return "GuppyError:" + name, ""
    if isinstance(e, InternalGuppyError):
        return "Internal", str(e)
    return "Crash:" + type(e).__name__, str(e)[:200]


def build(src, returns_none):
    fn = ast.parse(src).body[0]
    annotate_location(fn, src, "prog.py", 1)
    try:
        cfg = CFGBuilder().build(fn.body, returns_none, Globals(None))
    except Exception as e:  # noqa: BLE001
        kind, msg = classify(e)
        return {"ok": False, "err": kind, "msg": str(msg)}
    try:
        idx = {id(bb): i for i, bb in enumerate(cfg.bbs)}
        blocks = []
        for i, bb in enumerate(cfg.bbs):
            assert bb.idx == i
            blocks.append({
                "stmts": [m for s in bb.statements for m in pyast.from_ast_simple_multi(s)],
                "pred": None if bb.branch_pred is None else pyast.from_ast_expr(bb.branch_pred),
                "succs": [idx[id(s)] for s in bb.successors],
                "dummy": [idx[id(s)] for s in bb.dummy_successors],
                "reach": bool(bb.reachable)})
        assert cfg.entry_bb is cfg.bbs[0] and cfg.exit_bb is cfg.bbs[1]
        blocks, off, odd = pyast.shift_tmps(blocks)
    except pyast.Unencodable as e:
        return {"ok": False, "err": "Unencodable", "msg": str(e)}
    dump = [f"{i}: reach={int(b['reach'])} stmts={[pyast.simple_src(s) for s in b['stmts']]} "
            f"pred={None if b['pred'] is None else pyast.expr_src(b['pred'])} succ={b['succs']} dummy={b['dummy']}"
            for i, b in enumerate(blocks)]
    return {"ok": True, "tokens": [pyast.block_tok(b) for b in blocks], "coq": pyast.cfg_coq(blocks), "dump": dump,
            "nonstandard_hidden_names": odd}


def main():
    jobs = json.load(sys.stdin)
    json.dump([build(j["src"], j["returns_none"]) for j in jobs], sys.stdout)


if __name__ == "__main__":
    main()
