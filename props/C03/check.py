"""C03 — classical control and data flow behave as in Python (decided on the compiler side).

1. re-check coq/C03/Props.v (build_preserves_partial + the build_preserves_refuted_* witnesses);
2. tie X: PyAst programs from one seeded PRNG -> Python source -> the repo-under-test's real
   CFGBuilder().build -> canonical CFG, compared token for token with the Coq model's CFG
   (Builder.build evaluated by vm_compute);
3. semantic search: the implementation's CFG imported into Coq as data, run by CfgSem, against
   PySem on the source, on small stores: every known refutation witness is replayed (KNOWN-FINDING),
   every program of the [safe_stmts] fragment must agree, every program on which tie X failed
   is searched for a distinguishing input (the replay of the VIOLATION)."""
import json
from collections import Counter

import pyast
import tie
import vlib
from vlib import proof_coverage

LEVEL = "proof"
PROFILES_QUICK = {"full": 130, "frag": 100, "safe": 100, "for": 60, "loopelse": 16, "unmodelled": 24}
PROFILES_THOROUGH = {"full": 550, "frag": 350, "safe": 350, "for": 250, "loopelse": 40, "unmodelled": 60}
SEM_QUICK, SEM_THOROUGH = 70, 300
MAX_REPORTS = 3
REPLAY = ("cd /verif && echo '[{\"src\": <program text as JSON string>, \"returns_none\": true}]' | "
          "PYTHONPATH=/verif/tools:$VERIF_REPO/guppylang/src:$VERIF_REPO/guppylang-internals/src VERIF_REPO=${VERIF_REPO:-/repo} "
          "/venv/bin/python props/C03/impl_cfg.py   # prints the real CFGBuilder's CFG ('dump'); compare with running the "
          "same source under CPython with f0..f3 recording their calls")


def generate(ctx):
    import tr_unpack
    ctx.gen("GenUnpack.v", tr_unpack.translate(ctx.int_src("compiler/stmt_compiler.py")))
    # the builder model is hand-written (tie X); fail closed if the anchors moved
    src = ctx.int_src("cfg/builder.py").read_text()
    for needle in ("class CFGBuilder", "class ExprBuilder", "class BranchBuilder", "def visit_While", "def add_branch"):
        if needle not in src:
            raise vlib.TranslatorError(f"cfg/builder.py no longer contains `{needle}`")


def load_fixed(ctx):
    """witnesses + corpus: programs given by source text"""
    out = []
    for w in json.loads((ctx.dir / "witnesses.json").read_text()):
        out.append({"body": pyast.parse_program(w["src"]), "src": w["src"], "returns_none": True,
                    "profile": "witness", "name": w["name"]})
    for f in sorted((ctx.dir / "corpus").glob("*.json")):
        for c in json.loads(f.read_text()):
            out.append({"body": pyast.parse_program(c["src"]), "src": c["src"], "returns_none": c.get("returns_none", True),
                        "profile": "corpus", "name": f.name})
    return out


def run(ctx):
    generate(ctx)
    info = ctx.coq_props()
    # ForModel.v (for loops; definitions only) is not a dependency of Props.v: build it explicitly
    fm = ctx.coq_make(["C03/ForModel.vo"])
    if not fm.ok:
        info["ok"] = False
        info["failed"] = fm.failed or "C03/ForModel.vo"
        info["log"] += fm.log
    model_ok = all((vlib.COQ / "C03" / f"{m}.vo").exists() for m in ("Builder", "Encode", "Frag", "CfgSem", "ForModel"))
    if not model_ok:
        ctx.report("model-build", "proof-broken", "coq/C03 model files do not compile",
                   {"coq_error": vlib.CoqResult(False, info["log"]).error_excerpt()}, found_input=False)
        return ctx.finish(LEVEL, proof_coverage(info, "make C03/Props.vo", [], evaluations=0, distinct_nontrivial=0), [])

    # ------------------------------------------------------------------ unpacking assignments
    import unpack_tie
    ustats, uviol = unpack_tie.run(ctx)
    ucex = [v for v in uviol if v["kind"] == "counterexample"]
    ucex.sort(key=lambda v: len(v["program"]))
    for v in (ucex[:2] if ucex else uviol[:1]):
        if v["kind"] == "counterexample":
            ctx.report("unpack:" + v["program"], "counterexample",
                       "array unpacking binds other elements than Python (StmtCompiler._assign_array)",
                       {**v, "replay": "compile the program with the tree under test (import repo_shim first) and read the pop ops "
                                       "wired to the returned variables, e.g. props/C19/impl_seq.py with {source, funcs}"})
        else:
            ctx.report("unpack-tie:" + v.get("program", v.get("what", "")), "correspondence",
                       "unpack tie: " + v["kind"], v, found_input=False)

    progs = load_fixed(ctx)
    n_fixed = len(progs)
    hist = Counter()
    for prof, n in (PROFILES_QUICK if ctx.quick else PROFILES_THOROUGH).items():
        ps, h = tie.make_programs(ctx.seed, ctx.tier, n, prof)
        progs += ps
        hist.update({f"{k}": v for k, v in h.items()})
    impl = tie.run_impl(ctx, progs)
    model = tie.run_model(ctx, progs, "m")

    # ------------------------------------------------------------------ tie X
    stat = Counter()
    diffs = []
    for i, (p, im, (flags, mo)) in enumerate(zip(progs, impl, model)):
        p["safe"], p["frag"], p["lsafe"] = bool(flags[0]), bool(flags[1]), bool(flags[2])
        d = tie.compare_cfg(p, im, mo)
        if d is None:
            stat["agree" if im["ok"] else "agree-rejected:" + im["err"]] += 1
        elif d == "unmodelled":
            stat["outside-builder-model(chain middle lifted)"] += 1
        else:
            stat["DIFFER"] += 1
            diffs.append((i, d))
    agree_idx = [i for i, p in enumerate(progs) if i not in {j for j, _ in diffs}]

    # ------------------------------------------------------------------ semantic search
    sem_n = SEM_QUICK if ctx.quick else SEM_THOROUGH
    want = [i for i in range(n_fixed)]
    want += [i for i in agree_idx if i >= n_fixed and progs[i]["safe"] and impl[i]["ok"]][:sem_n]
    want += [i for i in agree_idx if i >= n_fixed and progs[i]["profile"] == "unmodelled" and impl[i]["ok"]][:sem_n // 6]
    want = sorted(set(want))
    sem = tie.run_sem(ctx, [progs[i] for i in want], [impl[i] for i in want], "s")
    sem = {want[k]: v for k, v in sem.items()}
    sem_stat = Counter()
    reports = 0
    for i, rs in sem.items():
        p = progs[i]
        d = tie.first_sem_diff(rs)
        for py, cf in rs:
            sem_stat["python-raises" if py[0] == 1 else "python-out-of-fuel" if py[0] == 2 else ("same" if py == cf else "differ")] += 1
        if d is None:
            if p["profile"] == "witness":
                ctx.notes.append(f"witness {p['name']} no longer differs on the real CFG (repaired?)")
            continue
        if p["profile"] == "witness":
            ctx.report("finding:" + p["src"], "counterexample", "build_preserves refuted: " + p["name"],
                       {"program": p["src"], **d, "real_cfg": impl[i]["dump"], "replay": REPLAY})
        elif p["safe"]:
            if reports < MAX_REPORTS:
                reports += 1
                ctx.report("safe-fragment:" + p["src"], "counterexample",
                           "the real CFG of a program inside the order_safe fragment does not behave like the Python source",
                           {"program": p["src"], **d, "real_cfg": impl[i]["dump"], "in_proved_fragment": p["frag"], "in_proved_lifted_fragment": p["lsafe"], "replay": REPLAY})
        else:
            sem_stat["differ-outside-safe-fragment(known classes: operand order, bool(and/or), chain middle twice)"] += 1

    # ------------------------------------------------------------------ tie failures -> find a distinguishing input
    if diffs:
        r = vlib.rng(ctx.seed, "C03/stores")
        stores = tie.STORES + [[r.choice([-5, -2, -1, 0, 1, 2, 4, True, False]) for _ in range(4)] for _ in range(9)]
        order = sorted(diffs, key=lambda t: (not progs[t[0]]["frag"], not progs[t[0]]["safe"], len(progs[t[0]]["src"])))[:12]
        idx = [i for i, _ in order]
        sd = tie.run_sem(ctx, [progs[i] for i in idx], [impl[i] for i in idx], "d", stores=stores)
        found = 0
        for k, (i, d) in enumerate(order):
            p = progs[i]
            loop_else = isinstance(d, dict) and d.get("model", "").startswith("builder rejects (Unsupported)") and impl[i]["ok"]
            s = tie.first_sem_diff(sd[k], stores) if k in sd else None
            if s is not None and (p["safe"] or loop_else) and found < MAX_REPORTS:
                found += 1
                name = ("loop `else` clause accepted but not executed as in Python" if loop_else else
                        "real CFG differs from the verified builder model and from the Python meaning of the source")
                ctx.report(("loop-else:" if loop_else else "tie:") + p["src"], "counterexample", name,
                           {"program": p["src"], "returns_none": p["returns_none"], **s, "cfg_difference": d, "replay": REPLAY})
        if found == 0:
            i, d = order[0]
            ctx.report("tie-only:" + progs[i]["src"], "correspondence", "Builder.build (Coq model) vs CFGBuilder.build",
                       {"program": progs[i]["src"], "returns_none": progs[i]["returns_none"], "cfg_difference": d,
                        "differing_programs": len(diffs), "searched_stores": len(stores),
                        "meaning": "the real builder no longer produces the CFG the proved model produces; no input was found on which a program of the safe fragment misbehaves",
                        "replay": REPLAY}, found_input=False)

    if not info["ok"] and not any(v.get("found_failing_input") for v in ctx.violations):
        # (when a concrete failing input was found above, that is the report for the broken proof)
        ctx.report("proof-broken:" + str(info["failed"]), "proof-broken", str(info["failed"]),
                   {"coq_error": vlib.CoqResult(False, info["log"]).error_excerpt()}, found_input=False)

    nontrivial = sum(1 for i in agree_idx if impl[i]["ok"] and len(impl[i]["tokens"]) > 2)
    samples = [{"program": progs[j]["src"], "profile": progs[j]["profile"], "real_cfg": impl[j].get("dump", impl[j].get("err"))}
               for j in (n_fixed, n_fixed + 1, len(progs) - 1)]
    cov = proof_coverage(
        info, "make -f Makefile.C03 C03/Props.vo && coqc C03/Props.v (Print Assumptions)",
        ["Coq 8.16.1 kernel incl. vm_compute (refutation witnesses are computed)",
         "PySem.v as the meaning of the Python fragment (written from the language reference; unbounded ints; no floats/structs/arrays/for)",
         "CfgSem.v: statements inside a block have their Python meaning (StmtCompiler/ExprCompiler and compile_bb wiring are NOT modelled)",
         "tie X: props/C03/{pyast,pygen,impl_cfg,tie}.py (printer, ast->term conversion, token encoding), tools/repo_shim.py",
         "modelled after fix-1.patch (loop else rejected) and fix-2.patch (fresh constant when folding -c)"],
        evaluations=len(progs), distinct_nontrivial=nontrivial,
        rule="one evaluation = one program built by both the Coq model and the real CFGBuilder; non-trivial = accepted with at least one block besides entry/exit and CFGs equal",
        traces_validated_against_impl=len(progs) - stat["DIFFER"], tie=dict(stat),
        in_safe_fragment=sum(1 for p in progs if p.get("safe")), in_proved_fragment=sum(1 for p in progs if p.get("frag")),
        in_proved_lifted_fragment=sum(1 for p in progs if p.get("lsafe")),
        semantic_runs=sum(len(v) for v in sem.values()), semantic=dict(sem_stat),
        unpack_tie=ustats,
        construct_histogram=dict(sorted(hist.items())), samples=samples, notes=ctx.notes)
    return ctx.finish(LEVEL, cov, [
        "statement-level meaning inside basic blocks is Python's (gap to HUGR lowering stated in NOTES.md)",
        "calls are uninterpreted effectful functions whose result may depend on the whole call history",
        "safe_stmts (order_safe) beyond frag_stmts is searched, not proved"])
