"""Unpacking assignments `p1..pk, *s, q1..qm = xs` (arrays): differential tie and failing-input search.

Programs for every (k, m, n, star) with n <= NMAX are compiled by the compiler of the tree under
test (props/C19/impl_seq.py is used read-only as HUGR region extractor: op sequence with which register
feeds which operand).  The pop ops are replayed on the symbolic array [0, 1, .., n-1]; the element index
each returned variable is wired to is compared with (a) Python's unpacking and (b) the Coq model
Unpack.assign_array instantiated with the flags read from the source (GenUnpack.v)."""
import json

import vlib

NMAX = 5


def cases():
    out = []
    for n in range(1, NMAX + 1):
        for k in range(0, n + 1):
            for m in range(0, n - k + 1):
                if k + m == 0:
                    continue
                for star in ([True] if k + m < n else [True, False]):
                    out.append((k, m, n, star))
    return out


def source(cs):
    lines = ["from guppylang import guppy", "from guppylang.std.builtins import array, owned", ""]
    for (k, m, n, star) in cs:
        names = [f"a{i}" for i in range(k)] + (["*s"] if star else []) + [f"b{j}" for j in range(m)]
        rets = [f"a{i}" for i in range(k)] + [f"b{j}" for j in range(m)]
        ty = "int" if len(rets) == 1 else "tuple[" + ", ".join(["int"] * len(rets)) + "]"
        lines += ["@guppy", f"def {fname(k, m, n, star)}(xs: array[int, {n}] @ owned) -> {ty}:",
                  f"    {', '.join(names)}{',' if len(names) == 1 else ''} = xs", f"    return {', '.join(rets)}", ""]
    return "\n".join(lines)


def fname(k, m, n, star):
    return f"u_{k}_{m}_{n}_{int(star)}"


def program_text(k, m, n, star):
    return source([(k, m, n, star)])


def replay_ops(block, n):
    """-> list of element indices the function outputs are wired to (None if not an element)"""
    regs = {0: ("arr", list(range(n)))}
    nxt = block["n_inputs"]
    for ins in block["instrs"]:
        if "op" in ins and ins["op"][0] in ("pop_left", "pop_right"):
            kind, arr = regs[ins["ins"][0]]
            assert kind == "arr" and arr, "pop on a non-array / empty array"
            if ins["op"][0] == "pop_left":
                regs[nxt] = ("opt", arr[0], arr[1:])
            else:
                regs[nxt] = ("opt", arr[-1], arr[:-1])
            nxt += 1
        elif "cond" in ins:
            v = regs[ins["cond"]]
            assert v[0] == "opt" and len(ins["cases"]) == 2 and ins["cases"][1]["body"] == [] \
                and ins["cases"][1]["outs"] == [0, 1] and ins["nout"] == 2, "unrecognised unwrap"
            regs[nxt] = ("elt", v[1])
            regs[nxt + 1] = ("arr", v[2])
            nxt += 2
        else:
            for _ in range(ins.get("nout", 0)):
                regs[nxt] = ("other",)
                nxt += 1
    return [regs[o][1] if regs.get(o, ("?",))[0] == "elt" else None for o in block["outs"]]


def python_indices(k, m, n):
    return list(range(k)) + list(range(n - m, n))


def coq_file(cs):
    items = []
    for (k, m, n, star) in cs:
        left = "[" + "; ".join(str(i) for i in range(k)) + "]"
        right = "[" + "; ".join(str(100 + j) for j in range(m)) + "]"
        st = "(Some 999)" if star else "None"
        items.append(f"enc (assign_array nat gen_rev_pats_right gen_rev_elts_right {left} {st} {right} (seq 0 {n}))")
    return ("From Coq Require Import List ZArith.\nFrom V.C03 Require Import Unpack GenUnpack.\nImport ListNotations.\n"
            "Definition enc (r : option (list (nat * nat) * option (nat * list nat))) : list Z :=\n"
            "  match r with Some (b, _) => concat (map (fun p => [Z.of_nat (fst p); Z.of_nat (snd p)]) b) | None => [(-1)%Z] end.\n"
            "Definition cases : list (list Z) := [\n" + ";\n".join(items) + "].\nEval vm_compute in cases.\n")


def run(ctx):
    """-> (stats dict, list of violation dicts)"""
    cs = cases()
    res = json.loads(ctx.impl(vlib.VERIF / "props" / "C19" / "impl_seq.py",
                              {"source": source(cs), "funcs": [fname(*c) for c in cs]}))
    viol, stats = [], {"programs": len(cs), "agree": 0}
    if "fatal" in res:
        return stats, [{"kind": "harness", "what": "unpack programs do not load: " + res["fatal"]}]
    model = vlib.parse_coq_values(ctx.coq_eval("unpack", coq_file(cs)))[0]
    for c, mo in zip(cs, model):
        k, m, n, star = c
        r = res["results"][fname(*c)]
        want = python_indices(k, m, n)
        mod = dict(zip(mo[0::2], mo[1::2])) if mo and mo[0] != -1 else None
        mod_idx = None if mod is None else [mod.get(i) for i in range(k)] + [mod.get(100 + j) for j in range(m)]
        if not r.get("ok"):
            viol.append({"kind": "rejected", "case": c, "program": program_text(*c), "error": r.get("error")})
            continue
        try:
            blocks = r["module"][fname(*c)]
            assert len(blocks) == 1 and "unsupported" not in blocks[0], "not a single plain block"
            got = replay_ops(blocks[0], n)
        except (AssertionError, KeyError) as e:
            viol.append({"kind": "unrecognised", "case": c, "program": program_text(*c), "error": str(e)})
            continue
        if got != want:
            names = [f"a{i}" for i in range(k)] + [f"b{j}" for j in range(m)]
            viol.append({"kind": "counterexample", "case": c, "program": program_text(*c),
                         "python_binds": {nm: f"xs[{i}]" for nm, i in zip(names, want)},
                         "compiled_code_binds": {nm: (f"xs[{i}]" if i is not None else "?") for nm, i in zip(names, got)},
                         "model_binds": mod_idx})
        elif mod_idx != got:
            viol.append({"kind": "model-mismatch", "case": c, "program": program_text(*c), "model": mod_idx, "compiled": got})
        else:
            stats["agree"] += 1
    return stats, viol
