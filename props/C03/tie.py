"""Differential tie and semantic search for C03 (used by check.py).

tie:     model CFG (Coq, vm_compute of Builder.build) == real CFGBuilder's CFG, token for token
search:  the *implementation's* CFG, imported into Coq as data and run by CfgSem, must give the
         same result / final user variables / call trace as PySem on the source program
"""
import json

import pyast
import pygen
import vlib

ERR_MAP = {1: "Unsupported", 2: "Internal", 3: "ExpectedReturn"}
STORES = [[0, 1, 2, True], [3, 0, False, 5], [1, 1, 1, 1]]
PY_FUEL = 60
CFG_FUEL = 4000
HEADER = ("From Coq Require Import ZArith List Bool.\n"
          "From V.C03 Require Import PyAst PySem Cfg CfgSem Builder Encode Frag Lift ForModel.\n"
          "Import ListNotations.\n")


def make_programs(seed, salt, n, profile):
    r = vlib.rng(seed, f"C03/{salt}/{profile}")
    g = pygen.Gen(r, "safe" if profile == "for" else profile)
    g.forloops = profile == "for"
    flat, elif_ok = pygen.style(r)
    progs = []
    while len(progs) < n:
        body = g.program()
        src = pyast.program_src(body, 4, flat, elif_ok)
        rn = r.random() < 0.85
        progs.append({"body": body, "src": src, "returns_none": rn, "profile": profile})
    return progs, g.hist


def run_impl(ctx, progs):
    out = []
    for i in range(0, len(progs), 2000):
        chunk = progs[i:i + 2000]
        out += json.loads(ctx.impl("impl_cfg.py", [{"src": p["src"], "returns_none": p["returns_none"]} for p in chunk]))
    return out


def model_item(p):
    rn = 'true' if p['returns_none'] else 'false'
    if pyast.has_for(p['body']):
        return (f"(let p := {pyast.fstmts_coq(p['body'])} in [Z.b2z (fsafe_stmts p); 0%Z; 0%Z] :: enc_build (fbuild p {rn}))")
    return (f"(let p := {pyast.stmts_coq(p['body'])} in [Z.b2z (safe_stmts p); Z.b2z (frag_stmts p); Z.b2z (lsafe_stmts p)] "
            f":: enc_build (build p {rn}))")


def model_file(progs):
    items = [model_item(p) for p in progs]
    return HEADER + "Definition cases : list (list (list Z)) := [\n" + ";\n".join(items) + "].\nEval vm_compute in cases.\n"


def model_file_old(progs):
    items = [f"(let p := {pyast.stmts_coq(p['body'])} in [Z.b2z (safe_stmts p); Z.b2z (frag_stmts p); Z.b2z (lsafe_stmts p)] :: enc_build (build p {'true' if p['returns_none'] else 'false'}))" for p in progs]
    return HEADER + "Definition cases : list (list (list Z)) := [\n" + ";\n".join(items) + "].\nEval vm_compute in cases.\n"


def run_model(ctx, progs, tag, per=250):
    chunks = [progs[i:i + per] for i in range(0, len(progs), per)]
    outs = ctx.coq_eval_many({f"{tag}{i}": model_file(c) for i, c in enumerate(chunks)})
    res = []
    for i in range(len(chunks)):
        res += vlib.parse_coq_values(outs[f"{tag}{i}"])[0]
    assert len(res) == len(progs), (len(res), len(progs))
    return [(r[0], r[1:]) for r in res]


def compare_cfg(p, impl, model):
    """returns None if equal, else a dict describing the difference"""
    if model and model[0] and model[0][0] == -1:
        code = model[0][1]
        if code == 4:
            return "unmodelled"
        want = ERR_MAP.get(code, "?")
        if impl["ok"]:
            return {"model": f"builder rejects ({want})", "impl": "accepted", "impl_cfg": impl["dump"]}
        if impl["err"] != want:
            return {"model": f"builder rejects ({want})", "impl": f"{impl['err']}: {impl['msg']}"}
        return None
    if not impl["ok"]:
        return {"model": "accepted", "impl": f"{impl['err']}: {impl['msg']}"}
    if impl["tokens"] != model:
        first = next((i for i, (a, b) in enumerate(zip(impl["tokens"], model)) if a != b), min(len(model), len(impl["tokens"])))
        return {"first_differing_block": first, "impl_cfg": impl["dump"],
                "hidden_names_not_of_the_form_%tmpN": impl.get("nonstandard_hidden_names", []),
                "model_block_tokens": model[first] if first < len(model) else None,
                "impl_block_tokens": impl["tokens"][first] if first < len(impl["tokens"]) else None,
                "n_blocks": [len(impl["tokens"]), len(model)]}
    return None


def sem_file(progs, impls, stores=None):
    """PySem on the source vs CfgSem on the implementation's CFG, for each store."""
    items = []
    for p, im in zip(progs, impls):
        isfor = pyast.has_for(p["body"])
        body = pyast.fstmts_coq(p["body"]) if isfor else pyast.stmts_coq(p["body"])
        orc = "(for_oracle test_oracle)" if isfor else "test_oracle"
        ex = "fexec_py" if isfor else "exec_py"
        for st in (stores or STORES):
            s = "(store_of [" + "; ".join(pyast.val_coq(v) for v in st) + "], [])"
            items.append(f"[enc_run {pygen.NV} ({ex} {orc} {PY_FUEL} {body} {s}); "
                         f"enc_run {pygen.NV} (run_cfg {orc} {im['coq']} {CFG_FUEL} {s})]")
    return HEADER + "Definition cases : list (list (list Z)) := [\n" + ";\n".join(items) + "].\nEval vm_compute in cases.\n"


def run_sem(ctx, progs, impls, tag, per=60, stores=None):
    """-> {index: [(py_tokens, cfg_tokens) per store]} for the programs the implementation built"""
    stores = stores or STORES
    idx = [i for i, im in enumerate(impls) if im["ok"]]
    chunks = [idx[i:i + per] for i in range(0, len(idx), per)]
    outs = ctx.coq_eval_many({f"{tag}{k}": sem_file([progs[i] for i in c], [impls[i] for i in c], stores) for k, c in enumerate(chunks)})
    res = {}
    for k, c in enumerate(chunks):
        vals = vlib.parse_coq_values(outs[f"{tag}{k}"])[0]
        assert len(vals) == len(c) * len(stores)
        for j, i in enumerate(c):
            res[i] = vals[j * len(stores):(j + 1) * len(stores)]
    return res


def first_sem_diff(rs, stores=None):
    """first store on which Python terminates normally and the CFG run differs"""
    for st, (py, cf) in zip(stores or STORES, rs):
        if py[0] == 0 and py != cf:
            return {"arguments_v0_v3": st, "python": decode_run(py), "cfg": decode_run(cf)}
    return None


def decode_run(tok):
    if tok[0] == 1:
        return "raises / stuck"
    if tok[0] == 2:
        return "out of fuel"
    pos = [1]

    def val():
        t = tok[pos[0]]
        pos[0] += 1
        if t == 0:
            pos[0] += 1
            return tok[pos[0] - 1]
        if t == 1:
            pos[0] += 1
            return bool(tok[pos[0] - 1])
        if t == 2:
            return None
        if t == 9:
            return "<unbound>"
        n = tok[pos[0]]
        pos[0] += 1
        return tuple(val() for _ in range(n))
    out = {"returns": val(), "vars": {f"v{i}": val() for i in range(pygen.NV)}}
    n = tok[pos[0]]
    pos[0] += 1
    calls = []
    for _ in range(n):
        f, k = tok[pos[0]], tok[pos[0] + 1]
        pos[0] += 2
        args = [val() for _ in range(k)]
        calls.append(f"f{f}({', '.join(map(repr, args))}) -> {val()!r}")
    out["calls"] = calls
    return out


def describe_run(tok):
    if tok[0] == 1:
        return "raises"
    if tok[0] == 2:
        return "timeout"
    return {"tokens": tok}
