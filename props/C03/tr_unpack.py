"""Fail-closed translator for StmtCompiler._assign_array (compiler/stmt_compiler.py).

Reads which end each call of the inner helper `pop` pops from and where the helper reverses
(`pats[::-1]` / `reversed(pats)` on the pattern list, `reversed(elts)` / `elts[::-1]` on the popped
elements) and emits coq/C03/GenUnpack.v.  Any other shape raises TranslatorError."""
import ast

from vlib import TranslatorError


def _is_rev(node, name):
    """`reversed(name)` or `name[::-1]`"""
    if isinstance(node, ast.Call) and isinstance(node.func, ast.Name) and node.func.id == "reversed" \
            and len(node.args) == 1 and isinstance(node.args[0], ast.Name) and node.args[0].id == name:
        return True
    if isinstance(node, ast.Subscript) and isinstance(node.value, ast.Name) and node.value.id == name \
            and isinstance(node.slice, ast.Slice) and node.slice.lower is None and node.slice.upper is None \
            and isinstance(node.slice.step, ast.UnaryOp) and isinstance(node.slice.step.op, ast.USub) \
            and isinstance(node.slice.step.operand, ast.Constant) and node.slice.step.operand.value == 1:
        return True
    return False


def _cond_rev(node, name):
    """value used for `name` when popping from the right: -> bool (reversed?)"""
    if isinstance(node, ast.Name) and node.id == name:
        return False
    if isinstance(node, ast.IfExp) and isinstance(node.test, ast.Name) and node.test.id == "from_left" \
            and isinstance(node.body, ast.Name) and node.body.id == name:
        if _is_rev(node.orelse, name):
            return True
        if isinstance(node.orelse, ast.Name) and node.orelse.id == name:
            return False
    raise TranslatorError(f"_assign_array.pop: unrecognised use of `{name}`: {ast.unparse(node)}")


def translate(path):
    tree = ast.parse(path.read_text())
    fn = None
    for n in ast.walk(tree):
        if isinstance(n, ast.FunctionDef) and n.name == "_assign_array":
            fn = n
    if fn is None:
        raise TranslatorError("stmt_compiler.py: _assign_array not found")
    pops = [n for n in fn.body if isinstance(n, ast.FunctionDef) and n.name == "pop"]
    if len(pops) != 1 or [a.arg for a in pops[0].args.args] != ["array", "length", "pats", "from_left"]:
        raise TranslatorError("_assign_array: inner helper pop(array, length, pats, from_left) not found")
    pop = pops[0]
    rev_pats = False
    loops, zips = [], []
    for st in pop.body:
        # assignments to `pats` (anywhere in the helper, possibly under `if not from_left`)
        for sub in ast.walk(st):
            if isinstance(sub, ast.Assign) and any(isinstance(t, ast.Name) and t.id == "pats" for t in sub.targets):
                ok = isinstance(st, ast.If) and isinstance(st.test, ast.UnaryOp) and isinstance(st.test.op, ast.Not) \
                    and isinstance(st.test.operand, ast.Name) and st.test.operand.id == "from_left" \
                    and not st.orelse and sub in st.body and _is_rev(sub.value, "pats")
                if not ok or loops:
                    raise TranslatorError("_assign_array.pop: unrecognised assignment to `pats`: " + ast.unparse(st))
                rev_pats = not rev_pats
        if isinstance(st, ast.For):
            loops.append(st)
    if len(loops) != 2:
        raise TranslatorError("_assign_array.pop: expected the pop loop and the assignment loop")
    pop_loop, asg_loop = loops
    # pop loop: array_pop(elt_ty, length - i, from_left) ... elts.append(elt)
    calls = [c for c in ast.walk(pop_loop) if isinstance(c, ast.Call) and isinstance(c.func, ast.Name) and c.func.id == "array_pop"]
    if len(calls) != 1 or len(calls[0].args) != 3 or not (isinstance(calls[0].args[2], ast.Name) and calls[0].args[2].id == "from_left") \
            or ast.unparse(calls[0].args[1]) != "length - i" or ast.unparse(pop_loop.iter) != "range(num_pats)":
        raise TranslatorError("_assign_array.pop: unrecognised pop loop: " + ast.unparse(pop_loop)[:200])
    appends = [c for c in ast.walk(pop_loop) if isinstance(c, ast.Call) and ast.unparse(c.func) == "elts.append"]
    if len(appends) != 1 or ast.unparse(appends[0].args[0]) != "elt":
        raise TranslatorError("_assign_array.pop: popped elements are not appended to `elts` in pop order")
    # assignment loop: for pat, elt in zip(<pats>, <elts>, strict=True): self._assign(pat, elt)
    it = asg_loop.iter
    if not (isinstance(it, ast.Call) and isinstance(it.func, ast.Name) and it.func.id == "zip" and len(it.args) == 2
            and ast.unparse(asg_loop.target) == "(pat, elt)" and len(asg_loop.body) == 1
            and ast.unparse(asg_loop.body[0]) == "self._assign(pat, elt)"):
        raise TranslatorError("_assign_array.pop: unrecognised assignment loop: " + ast.unparse(asg_loop)[:200])
    if _cond_rev(it.args[0], "pats"):
        rev_pats = not rev_pats
    rev_elts = _cond_rev(it.args[1], "elts")
    # the two calls: left patterns popped from the left first, right patterns from the right
    outer = [n for n in fn.body if isinstance(n, ast.Assign) and isinstance(n.value, ast.Call)
             and isinstance(n.value.func, ast.Name) and n.value.func.id == "pop"]
    got = [(ast.unparse(c.value.args[2]), ast.unparse(c.value.args[3])) for c in outer if len(c.value.args) == 4]
    if got != [("lhs.pattern.left", "True"), ("lhs.pattern.right", "False")]:
        raise TranslatorError(f"_assign_array: unexpected pop calls {got}")
    b = lambda x: "true" if x else "false"  # noqa: E731
    return ("(* GENERATED by props/C03/tr_unpack.py from compiler/stmt_compiler.py (_assign_array) - do not edit *)\n"
            f"Definition gen_rev_pats_right : bool := {b(rev_pats)}.\n"
            f"Definition gen_rev_elts_right : bool := {b(rev_elts)}.\n")
