"""PyAst terms on the Python side (mirror of coq/C03/PyAst.v) and their three printers:
Python source, Coq term text, and the integer-token encoding of coq/C03/Encode.v.
Also: conversion of a real `ast` node (as found in a built CFG) back into a PyAst term.

Term shapes (tuples):
  expr : ('Const', ('Int', z) | ('Bool', b) | ('None',)) | ('Name', ('U', n) | ('T', n))
       | ('Unary', op, e) | ('Bin', op, a, b) | ('Cmp', l, [(op, e), ...])
       | ('Bool', op, a, b) | ('If', c, a, b) | ('Walrus', x, e) | ('Call', f, [e...]) | ('Tuple', [e...])
  stmt : ('Assign', ('TName', var) | ('TTuple', [n...]), e) | ('Aug', x, op, e) | ('Expr', e)
       | ('If', c, body, orelse) | ('While', c, body, orelse) | ('Break',) | ('Continue',) | ('Pass',)
       | ('Return', e | None)
"""
import ast

UNOPS = ["Not", "Neg", "Pos", "Invert"]
UNOP_SRC = {"Not": "not ", "Neg": "-", "Pos": "+", "Invert": "~"}
UNOP_AST = {ast.Not: "Not", ast.USub: "Neg", ast.UAdd: "Pos", ast.Invert: "Invert"}
BINOPS = ["Add", "Sub", "Mul", "FloorDiv", "Mod", "BitAnd", "BitOr", "BitXor"]
BINOP_SRC = {"Add": "+", "Sub": "-", "Mul": "*", "FloorDiv": "//", "Mod": "%", "BitAnd": "&", "BitOr": "|", "BitXor": "^"}
BINOP_AST = {ast.Add: "Add", ast.Sub: "Sub", ast.Mult: "Mul", ast.FloorDiv: "FloorDiv", ast.Mod: "Mod",
             ast.BitAnd: "BitAnd", ast.BitOr: "BitOr", ast.BitXor: "BitXor"}
CMPOPS = ["Eq", "Ne", "Lt", "Le", "Gt", "Ge"]
CMPOP_SRC = {"Eq": "==", "Ne": "!=", "Lt": "<", "Le": "<=", "Gt": ">", "Ge": ">="}
CMPOP_AST = {ast.Eq: "Eq", ast.NotEq: "Ne", ast.Lt: "Lt", ast.LtE: "Le", ast.Gt: "Gt", ast.GtE: "Ge"}
BOOLOPS = ["And", "Or"]


class Unencodable(Exception):
    pass


# ------------------------------------------------------------------ Python source
def var_src(v):
    return f"v{v[1]}" if v[0] == "U" else f"%tmp{v[1]}"


def expr_src(e, flat=None):
    """Fully parenthesised source.  `flat(e)` decides whether a right-nested same-operator
    BoolOp is printed flat (`a and b and c`, parsed by CPython as one BoolOp with three
    values) or with parentheses."""
    k = e[0]
    if k == "Const":
        c = e[1]
        if c[0] == "Int":
            return str(c[1]) if c[1] >= 0 else f"({c[1]})"
        return {"Bool": str(bool(c[1])) if c[0] == "Bool" else "", "None": "None"}[c[0]]
    if k == "Name":
        return var_src(e[1])
    if k == "Unary":
        return f"({UNOP_SRC[e[1]]}{expr_src(e[2], flat)})"
    if k == "Bin":
        return f"({expr_src(e[2], flat)} {BINOP_SRC[e[1]]} {expr_src(e[3], flat)})"
    if k == "Cmp":
        s = expr_src(e[1], flat)
        for op, x in e[2]:
            s += f" {CMPOP_SRC[op]} {expr_src(x, flat)}"
        return f"({s})"
    if k == "Bool":
        kw = " and " if e[1] == "And" else " or "
        parts = [expr_src(e[2], flat)]
        r = e[3]
        while r[0] == "Bool" and r[1] == e[1] and flat is not None and flat(r):
            parts.append(expr_src(r[2], flat))
            r = r[3]
        parts.append(expr_src(r, flat))
        return "(" + kw.join(parts) + ")"
    if k == "If":
        return f"({expr_src(e[2], flat)} if {expr_src(e[1], flat)} else {expr_src(e[3], flat)})"
    if k == "Walrus":
        return f"(v{e[1]} := {expr_src(e[2], flat)})"
    if k == "Call":
        return f"f{e[1]}({', '.join(expr_src(a, flat) for a in e[2])})"
    if k == "Tuple":
        if len(e[1]) == 0:
            return "()"
        return "(" + ", ".join(expr_src(a, flat) for a in e[1]) + ("," if len(e[1]) == 1 else "") + ")"
    raise ValueError(k)


def simple_src(s, flat=None):
    k = s[0]
    if k == "Assign":
        t = s[1]
        lhs = var_src(t[1]) if t[0] == "TName" else ", ".join(f"v{n}" for n in t[1])
        return f"{lhs} = {expr_src(s[2], flat)}"
    if k == "Aug":
        return f"v{s[1]} {BINOP_SRC[s[2]]}= {expr_src(s[3], flat)}"
    if k == "Expr":
        return expr_src(s[1], flat)
    if k == "Return":
        return "return" if s[1] is None else f"return {expr_src(s[1], flat)}"
    if k in ("Break", "Continue", "Pass"):
        return k.lower()
    raise ValueError(k)


def stmts_src(ss, ind, flat=None, elif_ok=None):
    out = []
    pad = "    " * ind
    for s in ss:
        k = s[0]
        if k == "If":
            out.append(f"{pad}if {expr_src(s[1], flat)}:")
            out += stmts_src(s[2], ind + 1, flat, elif_ok)
            orelse = s[3]
            while len(orelse) == 1 and orelse[0][0] == "If" and elif_ok is not None and elif_ok(orelse[0]):
                o = orelse[0]
                out.append(f"{pad}elif {expr_src(o[1], flat)}:")
                out += stmts_src(o[2], ind + 1, flat, elif_ok)
                orelse = o[3]
            if orelse:
                out.append(f"{pad}else:")
                out += stmts_src(orelse, ind + 1, flat, elif_ok)
        elif k == "While":
            out.append(f"{pad}while {expr_src(s[1], flat)}:")
            out += stmts_src(s[2], ind + 1, flat, elif_ok)
            if s[3]:
                out.append(f"{pad}else:")
                out += stmts_src(s[3], ind + 1, flat, elif_ok)
        elif k == "For":
            out.append(f"{pad}for v{s[1]} in {expr_src(s[2], flat)}:")
            out += stmts_src(s[3], ind + 1, flat, elif_ok)
            if s[4]:
                out.append(f"{pad}else:")
                out += stmts_src(s[4], ind + 1, flat, elif_ok)
        else:
            out.append(pad + simple_src(s, flat))
    return out


def program_src(body, nvars=4, flat=None, elif_ok=None):
    args = ", ".join(f"v{i}" for i in range(nvars))
    return f"def f({args}):\n" + "\n".join(stmts_src(body, 1, flat, elif_ok)) + "\n"


# ------------------------------------------------------------------ Coq text
def z_coq(z):
    return f"({z})%Z"


def var_coq(v):
    return f"(V{v[0]} {v[1]})"


def expr_coq(e):
    k = e[0]
    if k == "Const":
        c = e[1]
        if c[0] == "Int":
            return f"(EConst (CInt {z_coq(c[1])}))"
        if c[0] == "Bool":
            return f"(EConst (CBool {'true' if c[1] else 'false'}))"
        return "(EConst CNone)"
    if k == "Name":
        return f"(EName {var_coq(e[1])})"
    if k == "Unary":
        return f"(EUnary U{e[1]} {expr_coq(e[2])})"
    if k == "Bin":
        return f"(EBin B{e[1]} {expr_coq(e[2])} {expr_coq(e[3])})"
    if k == "Cmp":
        def tail(ops):
            op, x = ops[0]
            if len(ops) == 1:
                return f"(CLast C{op} {expr_coq(x)})"
            return f"(CMore C{op} {expr_coq(x)} {tail(ops[1:])})"
        return f"(ECmp {expr_coq(e[1])} {tail(e[2])})"
    if k == "Bool":
        return f"(EBool Bo{e[1]} {expr_coq(e[2])} {expr_coq(e[3])})"
    if k == "If":
        return f"(EIf {expr_coq(e[1])} {expr_coq(e[2])} {expr_coq(e[3])})"
    if k == "Walrus":
        return f"(EWalrus {e[1]} {expr_coq(e[2])})"
    if k == "Call":
        return f"(ECall {e[1]} {exprs_coq(e[2])})"
    if k == "Tuple":
        return f"(ETuple {exprs_coq(e[1])})"
    raise ValueError(k)


def exprs_coq(es):
    s = "ENil"
    for e in reversed(es):
        s = f"(ECons {expr_coq(e)} {s})"
    return s


def stmt_coq(s):
    k = s[0]
    if k == "Assign":
        t = s[1]
        tc = f"(TName {var_coq(t[1])})" if t[0] == "TName" else "(TTuple [" + "; ".join(str(n) for n in t[1]) + "])"
        return f"(SAssign {tc} {expr_coq(s[2])})"
    if k == "Aug":
        return f"(SAug {s[1]} B{s[2]} {expr_coq(s[3])})"
    if k == "Expr":
        return f"(SExpr {expr_coq(s[1])})"
    if k == "If":
        return f"(SIf {expr_coq(s[1])} {stmts_coq(s[2])} {stmts_coq(s[3])})"
    if k == "While":
        return f"(SWhile {expr_coq(s[1])} {stmts_coq(s[2])} {stmts_coq(s[3])})"
    if k == "Return":
        return "(SReturn None)" if s[1] is None else f"(SReturn (Some {expr_coq(s[1])}))"
    return {"Break": "SBreak", "Continue": "SContinue", "Pass": "SPass"}[k]


def stmts_coq(ss):
    s = "SNil"
    for x in reversed(ss):
        s = f"(SCons {stmt_coq(x)} {s})"
    return s


def has_for(ss):
    for s in ss:
        if s[0] == "For":
            return True
        if s[0] in ("If", "While") and (has_for(s[2]) or has_for(s[3])):
            return True
    return False


def fstmt_coq(s):
    """statement of coq/C03/ForModel.v (parallel syntax with `for`)"""
    k = s[0]
    if k == "Assign":
        t = s[1]
        tc = f"(TName {var_coq(t[1])})" if t[0] == "TName" else "(TTuple [" + "; ".join(str(n) for n in t[1]) + "])"
        return f"(FAssign {tc} {expr_coq(s[2])})"
    if k == "Aug":
        return f"(FAug {s[1]} B{s[2]} {expr_coq(s[3])})"
    if k == "Expr":
        return f"(FExpr {expr_coq(s[1])})"
    if k == "If":
        return f"(FIf {expr_coq(s[1])} {fstmts_coq(s[2])} {fstmts_coq(s[3])})"
    if k == "While":
        return f"(FWhile {expr_coq(s[1])} {fstmts_coq(s[2])} {fstmts_coq(s[3])})"
    if k == "For":
        return f"(FFor {s[1]} {expr_coq(s[2])} {fstmts_coq(s[3])} {fstmts_coq(s[4])})"
    if k == "Return":
        return "(FReturn None)" if s[1] is None else f"(FReturn (Some {expr_coq(s[1])}))"
    return {"Break": "FBreak", "Continue": "FContinue", "Pass": "FPass"}[k]


def fstmts_coq(ss):
    s = "FNil"
    for x in reversed(ss):
        s = f"(FCons {fstmt_coq(x)} {s})"
    return s


def block_coq(b):
    """b = dict(stmts=[simple stmt terms], pred=expr|None, succs=[...], dummy=[...], reach=bool)"""
    st = "[" + "; ".join(stmt_coq(s) for s in b["stmts"]) + "]"
    pr = "None" if b["pred"] is None else f"(Some {expr_coq(b['pred'])})"
    return (f"(mkBlock {st} {pr} [" + "; ".join(map(str, b["succs"])) + "] [" + "; ".join(map(str, b["dummy"]))
            + f"] {'true' if b['reach'] else 'false'})")


def cfg_coq(blocks):
    return "[" + ";\n  ".join(block_coq(b) for b in blocks) + "]"


def val_coq(v):
    if v is None:
        return "VNone"
    if isinstance(v, bool):
        return f"(VBool {'true' if v else 'false'})"
    if isinstance(v, int):
        return f"(VInt {z_coq(v)})"
    return "(VTuple [" + "; ".join(val_coq(x) for x in v) + "])"


# ------------------------------------------------------------------ integer tokens (Encode.v)
def var_tok(v):
    return [3 if v[0] == "U" else 4, v[1]]


def expr_tok(e):
    k = e[0]
    if k == "Const":
        c = e[1]
        return [0, c[1]] if c[0] == "Int" else ([1, int(c[1])] if c[0] == "Bool" else [2])
    if k == "Name":
        return var_tok(e[1])
    if k == "Unary":
        return [5, UNOPS.index(e[1])] + expr_tok(e[2])
    if k == "Bin":
        return [6, BINOPS.index(e[1])] + expr_tok(e[2]) + expr_tok(e[3])
    if k == "Cmp":
        out = [7, len(e[2])] + expr_tok(e[1])
        for op, x in e[2]:
            out += [CMPOPS.index(op)] + expr_tok(x)
        return out
    if k == "Bool":
        return [8, BOOLOPS.index(e[1])] + expr_tok(e[2]) + expr_tok(e[3])
    if k == "If":
        return [9] + expr_tok(e[1]) + expr_tok(e[2]) + expr_tok(e[3])
    if k == "Walrus":
        return [10, e[1]] + expr_tok(e[2])
    if k == "Call":
        return [11, e[1], len(e[2])] + [t for a in e[2] for t in expr_tok(a)]
    if k == "Tuple":
        return [12, len(e[1])] + [t for a in e[1] for t in expr_tok(a)]
    raise ValueError(k)


def simple_tok(s):
    k = s[0]
    if k == "Assign":
        t = s[1]
        if t[0] == "TName":
            return [20] + var_tok(t[1]) + expr_tok(s[2])
        return [21, len(t[1])] + list(t[1]) + expr_tok(s[2])
    if k == "Aug":
        return [22, s[1], BINOPS.index(s[2])] + expr_tok(s[3])
    if k == "Expr":
        return [23] + expr_tok(s[1])
    if k == "Return":
        return [24] if s[1] is None else [25] + expr_tok(s[1])
    return [99]


def block_tok(b):
    out = [int(b["reach"]), len(b["succs"])] + list(b["succs"]) + [len(b["dummy"])] + list(b["dummy"])
    out += [0] if b["pred"] is None else [1] + expr_tok(b["pred"])
    out += [len(b["stmts"])]
    for s in b["stmts"]:
        out += simple_tok(s)
    return out


# ------------------------------------------------------------------ real ast -> term
def _name(n):
    if n.startswith("%tmp"):
        if n[4:].isdigit():
            return ("T", int(n[4:]))
        # a hidden variable that is not drawn from the %tmp<k> stream: keep its identity (the
        # string) so that shift_tmps can give equal names equal numbers; the tie then reports it
        return ("T", n)
    if n.startswith("v") and n[1:].isdigit():
        return ("U", int(n[1:]))
    raise Unencodable(f"name {n}")


def from_ast_expr(n):
    if isinstance(n, ast.Constant):
        v = n.value
        if isinstance(v, bool):
            return ("Const", ("Bool", v))
        if isinstance(v, int):
            return ("Const", ("Int", v))
        if v is None:
            return ("Const", ("None",))
        raise Unencodable(f"constant {v!r}")
    if isinstance(n, ast.Name):
        return ("Name", _name(n.id))
    if isinstance(n, ast.UnaryOp) and type(n.op) in UNOP_AST:
        return ("Unary", UNOP_AST[type(n.op)], from_ast_expr(n.operand))
    if isinstance(n, ast.BinOp) and type(n.op) in BINOP_AST:
        return ("Bin", BINOP_AST[type(n.op)], from_ast_expr(n.left), from_ast_expr(n.right))
    if isinstance(n, ast.Compare) and all(type(o) in CMPOP_AST for o in n.ops):
        return ("Cmp", from_ast_expr(n.left),
                [(CMPOP_AST[type(o)], from_ast_expr(c)) for o, c in zip(n.ops, n.comparators)])
    if isinstance(n, ast.BoolOp):
        op = "And" if isinstance(n.op, ast.And) else "Or"
        vals = [from_ast_expr(v) for v in n.values]
        if len(vals) < 2:
            raise Unencodable("BoolOp with < 2 values")
        r = vals[-1]
        for v in reversed(vals[:-1]):
            r = ("Bool", op, v, r)
        return r
    if isinstance(n, ast.IfExp):
        return ("If", from_ast_expr(n.test), from_ast_expr(n.body), from_ast_expr(n.orelse))
    if isinstance(n, ast.NamedExpr) and isinstance(n.target, ast.Name):
        v = _name(n.target.id)
        if v[0] != "U":
            raise Unencodable("walrus on temporary")
        return ("Walrus", v[1], from_ast_expr(n.value))
    if isinstance(n, ast.Call) and isinstance(n.func, ast.Name) and not n.keywords \
            and n.func.id.startswith("f") and n.func.id[1:].isdigit():
        return ("Call", int(n.func.id[1:]), [from_ast_expr(a) for a in n.args])
    if isinstance(n, ast.Tuple):
        return ("Tuple", [from_ast_expr(a) for a in n.elts])
    # the iterator protocol of CFGBuilder.visit_For (reserved function numbers of ForModel.v)
    if type(n).__name__ == "MakeIter":
        return ("Call", 1000, [from_ast_expr(n.value)])
    if type(n).__name__ == "IterNext":
        return ("Call", 1001, [from_ast_expr(n.value)])
    if isinstance(n, ast.Call) and isinstance(n.func, ast.Attribute) and isinstance(n.func.value, ast.Name) \
            and not n.args and not n.keywords and n.func.attr in ("is_some", "unwrap_nothing"):
        return ("Call", {"is_some": 1002, "unwrap_nothing": 1003}[n.func.attr], [from_ast_expr(n.func.value)])
    raise Unencodable(f"expression node {type(n).__name__}: {ast.dump(n)[:80]}")


def _is_unwrap(n):
    return isinstance(n, ast.Call) and isinstance(n.func, ast.Attribute) and n.func.attr == "unwrap" \
        and isinstance(n.func.value, ast.Name) and not n.args and not n.keywords


def from_ast_simple_multi(s):
    """one real block statement -> list of model statements (the for-template's
    `x, it = res.unwrap()` is modelled as two assignments, see ForModel.v)"""
    if isinstance(s, ast.Assign) and len(s.targets) == 1 and isinstance(s.targets[0], ast.Tuple) \
            and _is_unwrap(s.value) and len(s.targets[0].elts) == 2 \
            and all(isinstance(x, ast.Name) for x in s.targets[0].elts):
        x, it = (_name(e.id) for e in s.targets[0].elts)
        res = from_ast_expr(s.value.func.value)
        if x[0] == "U" and it[0] == "T":
            return [("Assign", ("TName", x), ("Call", 1004, [res])), ("Assign", ("TName", it), ("Call", 1005, [res]))]
    return [from_ast_simple(s)]


def from_ast_simple(s):
    if isinstance(s, ast.Assign) and len(s.targets) == 1:
        t = s.targets[0]
        if isinstance(t, ast.Name):
            return ("Assign", ("TName", _name(t.id)), from_ast_expr(s.value))
        if isinstance(t, ast.Tuple) and all(isinstance(x, ast.Name) for x in t.elts):
            ns = [_name(x.id) for x in t.elts]
            if all(v[0] == "U" for v in ns):
                return ("Assign", ("TTuple", [v[1] for v in ns]), from_ast_expr(s.value))
        raise Unencodable("assignment target")
    if isinstance(s, ast.AugAssign) and isinstance(s.target, ast.Name) and type(s.op) in BINOP_AST:
        v = _name(s.target.id)
        if v[0] != "U":
            raise Unencodable("augassign on temporary")
        return ("Aug", v[1], BINOP_AST[type(s.op)], from_ast_expr(s.value))
    if isinstance(s, ast.Expr):
        return ("Expr", from_ast_expr(s.value))
    if isinstance(s, ast.Return):
        return ("Return", None if s.value is None else from_ast_expr(s.value))
    raise Unencodable(f"statement node {type(s).__name__}")


NONSTD_BASE = 100000


def shift_tmps(blocks):
    """Rename %tmpN by the offset of the process-global counter (smallest N that occurs).
    Hidden names that are not of the form %tmp<digits> are numbered NONSTD_BASE + i (i = rank of
    the name), equal names getting equal numbers: the model never produces such numbers, so the
    CFG-equality tie fires, and the semantic search still sees exactly the sharing the real CFG has.
    Returns (blocks, offset, sorted list of non-standard names)."""
    ns, odd = [], set()

    def walk(t):
        if isinstance(t, tuple):
            if len(t) == 2 and t[0] == "T" and isinstance(t[1], int):
                ns.append(t[1])
            elif len(t) == 2 and t[0] == "T" and isinstance(t[1], str):
                odd.add(t[1])
            for x in t:
                walk(x)
        elif isinstance(t, list):
            for x in t:
                walk(x)
    for b in blocks:
        walk(b["stmts"])
        walk(b["pred"])
    off = min(ns) if ns else 0
    rank = {n: NONSTD_BASE + i for i, n in enumerate(sorted(odd))}

    def sh(t):
        if isinstance(t, tuple):
            if len(t) == 2 and t[0] == "T" and isinstance(t[1], int):
                return ("T", t[1] - off)
            if len(t) == 2 and t[0] == "T" and isinstance(t[1], str):
                return ("T", rank[t[1]])
            return tuple(sh(x) for x in t)
        if isinstance(t, list):
            return [sh(x) for x in t]
        return t
    return [dict(b, stmts=sh(b["stmts"]), pred=sh(b["pred"])) for b in blocks], off, sorted(odd)


def conv_stmts(ns):
    out = []
    for n in ns:
        if isinstance(n, ast.If):
            out.append(("If", from_ast_expr(n.test), conv_stmts(n.body), conv_stmts(n.orelse)))
        elif isinstance(n, ast.While):
            out.append(("While", from_ast_expr(n.test), conv_stmts(n.body), conv_stmts(n.orelse)))
        elif isinstance(n, ast.For) and isinstance(n.target, ast.Name) and _name(n.target.id)[0] == "U":
            out.append(("For", _name(n.target.id)[1], from_ast_expr(n.iter), conv_stmts(n.body), conv_stmts(n.orelse)))
        elif isinstance(n, ast.Break):
            out.append(("Break",))
        elif isinstance(n, ast.Continue):
            out.append(("Continue",))
        elif isinstance(n, ast.Pass):
            out.append(("Pass",))
        else:
            out.append(from_ast_simple(n))
    return out


def parse_program(src):
    """Python source of one function -> PyAst term of its body (Unencodable outside the fragment)."""
    return conv_stmts(ast.parse(src).body[0].body)
