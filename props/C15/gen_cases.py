"""Case generator and renderers for C15.

A case is a JSON-able dict
  {"locals": [ty], "decls": [{"ins": [ty], "out": ty}], "overs": [[decl index, ...]],
   "pos": None | ty, "call": ["call", ["o", j], [expr, ...]]}
ty   = "nat" | "int" | "float" | "bool" | ["tuple", [ty, ...]]
expr = ["int", v] | ["flt"] | ["bool", b] | ["tup", [expr]] | ["name", i]
     | ["call", ["d", i] | ["o", j], [expr]]
plus, for the part of the spec-side search the Coq model does not cover,
  "generic": True  (some declared signature uses the type variable "T").
`pos` None = synthesis position `r = o(args)`; a type = checking position `r: T = o(args)`.
The same case is rendered as a Python module (implementation side) and as Coq terms of
V.C15.Overload (model side)."""
import json

SCALARS = ["nat", "int", "float", "bool"]
NUM = {"nat": 0, "int": 1, "float": 2}
BIG = [2**63 - 1, 2**63, 2**64 - 1, 2**64]


# ------------------------------------------------------------------ rendering: python
def py_ty(t):
    if isinstance(t, str):
        return t
    return "tuple[" + ", ".join(py_ty(x) for x in t[1]) + "]"


def py_expr(e):
    k = e[0]
    if k == "int":
        return str(e[1])
    if k == "flt":
        return "1.5"
    if k == "bool":
        return "True" if e[1] else "False"
    if k == "tup":
        inner = ", ".join(py_expr(x) for x in e[1])
        return f"({inner},)" if len(e[1]) == 1 else f"({inner})"
    if k == "name":
        return f"x{e[1]}"
    if k == "call":
        return f"{e[1][0]}{e[1][1]}(" + ", ".join(py_expr(x) for x in e[2]) + ")"
    raise ValueError(e)


def direct_calls(case):
    """[(function name, call expr)]: the overloaded call first, then one direct call per variant."""
    call = case["call"]
    j = call[1][1]
    out = [("main", call)]
    for n, d in enumerate(case["overs"][j]):
        out.append((f"direct_{n}", ["call", ["d", d], call[2]]))
    return out


def py_source(case):
    lines = ["import repo_shim  # noqa: F401", "from guppylang import guppy",
             "from guppylang.std.builtins import nat  # noqa: F401", ""]
    if case.get("generic"):
        lines += ['T = guppy.type_var("T")', ""]
    for i, d in enumerate(case["decls"]):
        params = ", ".join(f"a{n}: {py_ty(t)}" for n, t in enumerate(d["ins"]))
        lines += ["@guppy.declare", f"def d{i}({params}) -> {py_ty(d['out'])}: ...", ""]
    for j, vs in enumerate(case["overs"]):
        lines += [f"@guppy.overload({', '.join(f'd{v}' for v in vs)})", f"def o{j}(): ...", ""]
    params = ", ".join(f"x{n}: {py_ty(t)}" for n, t in enumerate(case["locals"]))
    names = []
    for fn, call in direct_calls(case):
        lhs = "r" if case["pos"] is None else f"r: {py_ty(case['pos'])}"
        lines += ["@guppy", f"def {fn}({params}) -> None:", f"    {lhs} = {py_expr(call)}", ""]
        names.append(fn)
    lines += ['if __name__ == "__main__":',
              f"    for f in [{', '.join(names)}]:",
              "        try:",
              "            f.check()",
              "            print(f.wrapped.name, 'accepted')",
              "        except Exception as e:  # noqa: BLE001",
              "            print(f.wrapped.name, 'REJECTED:', type(e).__name__, getattr(getattr(e, 'error', None), 'title', e))",
              ""]
    return "\n".join(lines)


# ------------------------------------------------------------------ rendering: Coq
def coq_ty(t):
    if isinstance(t, str):
        return {"nat": "(TNum KNat)", "int": "(TNum KInt)", "float": "(TNum KFloat)", "bool": "TBool"}[t]
    return "(TTuple [" + "; ".join(coq_ty(x) for x in t[1]) + "])"


def coq_expr(e, ndecls):
    k = e[0]
    if k == "int":
        return f"(EInt None ({e[1]}))"
    if k == "flt":
        return "(EFlt None)"
    if k == "bool":
        return f"(EBool None {'true' if e[1] else 'false'})"
    if k == "tup":
        return "(ETup None [" + "; ".join(coq_expr(x, ndecls) for x in e[1]) + "])"
    if k == "name":
        return f"(EName {e[1]}%nat)"
    if k == "call":
        f = e[1][1] if e[1][0] == "d" else ndecls + e[1][1]
        return f"(ECall {f}%nat [" + "; ".join(coq_expr(x, ndecls) for x in e[2]) + "])"
    raise ValueError(e)


def coq_env(case):
    sigs = [f"(mkSig {i}%nat [{'; '.join(coq_ty(t) for t in d['ins'])}] {coq_ty(d['out'])})"
            for i, d in enumerate(case["decls"])]
    funs = [f"FDecl {s}" for s in sigs] + ["FOver [" + "; ".join(sigs[v] for v in vs) + "]" for vs in case["overs"]]
    return f"(mkEnv [{'; '.join(coq_ty(t) for t in case['locals'])}] [{'; '.join(funs)}])"


def coq_case(case, fuel=40):
    """A Coq term of type list (list Z): for cp in [true; false], for each of main/direct_i,
    enc_out of the outcome."""
    nd = len(case["decls"])
    mode = "Synth" if case["pos"] is None else f"(Check {coq_ty(case['pos'])})"
    calls = "[" + "; ".join(coq_expr(c, nd) for _, c in direct_calls(case)) + "]"
    return (f"(let E := {coq_env(case)} in flat_map (fun cp => map (fun e => enc_out (fst (tc cp {fuel} E {mode} e))) {calls}) [true; false])")


def coq_file(cases):
    lines = ["From Coq Require Import ZArith List Bool.", "From V.C15 Require Import Overload.",
             "Import ListNotations. Open Scope Z_scope.",
             "Definition results : list (list (list Z)) := ["]
    lines.append(";\n".join(coq_case(c) for c in cases) + "].")
    lines.append("Eval vm_compute in results.")
    return "\n".join(lines)


def case_key(case):
    c = {k: case[k] for k in ("locals", "decls", "overs", "pos", "call")}
    if case.get("generic"):
        c["generic"] = True
    return "case:" + json.dumps(c, separators=(",", ":"), sort_keys=True)


# ------------------------------------------------------------------ generation
def rand_ty(r, depth=0, p_tuple=0.3):
    if depth < 2 and r.random() < p_tuple:
        return ["tuple", [rand_ty(r, depth + 1, p_tuple * 0.6) for _ in range(r.choice([1, 2, 2, 2, 3]))]]
    return r.choice(SCALARS)


def mutate_ty(r, t):
    """A type that overlaps with t: shift a numeric kind, swap bool/number, change one tuple slot."""
    if isinstance(t, str):
        return r.choice([x for x in SCALARS if x != t])
    elts = list(t[1])
    what = r.random()
    if what < 0.75 or len(elts) == 1:
        i = r.randrange(len(elts))
        elts[i] = mutate_ty(r, elts[i])
    elif what < 0.9:
        elts.pop(r.randrange(len(elts)))
    else:
        return r.choice(SCALARS)
    return ["tuple", elts]


def widens(a, b):
    """value of type a acceptable where b is expected (named values: equal or numeric widening)"""
    return a == b or (isinstance(a, str) and isinstance(b, str) and a in NUM and b in NUM and NUM[a] < NUM[b])


def rand_int(r):
    x = r.random()
    if x < 0.8:
        return r.randrange(0, 10)
    return r.choice(BIG)


def fit_expr(r, case, t, depth):
    """An expression meant to be accepted where t is expected (not guaranteed)."""
    opts = []
    names = [i for i, lt in enumerate(case["locals"]) if widens(lt, t)]
    if names:
        opts += ["name"] * 3
    callees = [["d", i] for i, d in enumerate(case["decls"]) if d["out"] == t and i in case["_helpers"]]
    callees += [["o", j] for j in case["_nested_overs"] if any(case["decls"][v]["out"] == t for v in case["overs"][j])]
    if callees and depth < 2:
        opts += ["call"] * 3
    opts += ["lit"] * 4
    o = r.choice(opts)
    if o == "name":
        return ["name", r.choice(names)]
    if o == "call":
        f = r.choice(callees)
        return gen_call(r, case, f, depth + 1)
    if isinstance(t, list):
        return ["tup", [fit_expr(r, case, x, depth) for x in t[1]]]
    if t == "bool":
        return ["bool", r.random() < 0.5]
    if t == "float":
        return ["flt"] if r.random() < 0.5 else ["int", rand_int(r)]
    return ["int", rand_int(r)]


def rand_expr(r, case, depth):
    x = r.random()
    if x < 0.2 and case["locals"]:
        return ["name", r.randrange(len(case["locals"]))]
    if x < 0.35 and depth < 2:
        return ["tup", [rand_expr(r, case, depth + 1) for _ in range(r.choice([1, 2, 2, 3]))]]
    if x < 0.45 and depth < 2 and case["_helpers"]:
        return gen_call(r, case, ["d", r.choice(case["_helpers"])], depth + 1)
    return r.choice([["int", rand_int(r)], ["flt"], ["bool", True], ["bool", False]])


def gen_call(r, case, f, depth, p_fit=0.85):
    """A call of f whose arguments are aimed at one of its signatures."""
    if f[0] == "d":
        ins = case["decls"][f[1]]["ins"]
    else:
        ins = case["decls"][r.choice(case["overs"][f[1]])]["ins"]
    args = [fit_expr(r, case, t, depth) if r.random() < p_fit else rand_expr(r, case, depth) for t in ins]
    if r.random() < 0.05:
        if args and r.random() < 0.5:
            args.pop()
        else:
            args.append(rand_expr(r, case, depth))
    return ["call", f, args]


def gen_overload_set(r, case, base_ins, outs, n):
    """n declared variants whose inputs overlap with base_ins; returns their indices."""
    idx = []
    for _ in range(n):
        x = r.random()
        if x < 0.15 or not base_ins:
            ins = [rand_ty(r) for _ in range(r.choice([0, 1, 1, 2, 2, 3]))]
        else:
            ins = [json.loads(json.dumps(t)) for t in base_ins]
            for _ in range(r.choice([0, 1, 1, 2])):
                i = r.randrange(len(ins))
                ins[i] = mutate_ty(r, ins[i])
            if x > 0.85:
                if r.random() < 0.5 and len(ins) > 0:
                    ins.pop(r.randrange(len(ins)))
                else:
                    ins.insert(r.randrange(len(ins) + 1), rand_ty(r))
        case["decls"].append({"ins": ins, "out": r.choice(outs)})
        idx.append(len(case["decls"]) - 1)
    return idx


def gen_case(r):
    case = {"locals": [rand_ty(r, p_tuple=0.2) for _ in range(r.choice([0, 1, 2, 2, 3]))],
            "decls": [], "overs": [], "pos": None, "_helpers": [], "_nested_overs": []}
    # helper functions for nested calls
    for _ in range(r.choice([0, 1, 2, 2])):
        case["decls"].append({"ins": [rand_ty(r, p_tuple=0.1) for _ in range(r.choice([0, 0, 1, 1, 2]))],
                              "out": rand_ty(r, p_tuple=0.2)})
        case["_helpers"].append(len(case["decls"]) - 1)
    # sometimes an overload set that is only used nested inside arguments
    if r.random() < 0.3:
        outs = [rand_ty(r, p_tuple=0.1) for _ in range(2)]
        vs = gen_overload_set(r, case, [rand_ty(r, p_tuple=0.2) for _ in range(r.choice([1, 1, 2]))], outs, r.choice([2, 3]))
        case["overs"].append(vs)
        case["_nested_overs"].append(len(case["overs"]) - 1)
    # the overload set under test
    base = [rand_ty(r, p_tuple=0.35) for _ in range(r.choice([0, 1, 1, 2, 2, 2, 3]))]
    outs = [rand_ty(r, p_tuple=0.15) for _ in range(r.choice([1, 2, 3]))]
    vs = gen_overload_set(r, case, base, outs, r.choice([2, 2, 3, 3, 4]))
    if r.random() < 0.3:
        r.shuffle(vs)
    case["overs"].append(vs)
    top = len(case["overs"]) - 1
    # arguments aimed at one variant (later ones preferred: fall-through is the interesting part)
    target = case["decls"][r.choice(vs[1:] + vs)]
    args = [fit_expr(r, case, t, 0) if r.random() < 0.9 else rand_expr(r, case, 0) for t in target["ins"]]
    if r.random() < 0.05:
        if args and r.random() < 0.5:
            args.pop()
        else:
            args.append(rand_expr(r, case, 0))
    case["call"] = ["call", ["o", top], args]
    if r.random() < 0.5:
        case["pos"] = target["out"] if r.random() < 0.7 else r.choice([case["decls"][v]["out"] for v in vs] + [rand_ty(r)])
    del case["_helpers"], case["_nested_overs"]
    return case


# ---- generic signatures: spec-side search only (the Coq model is monomorphic)
def gen_generic_case(r):
    """Overload sets mixing a generic variant (T, tuple[T, T], T -> T) with concrete ones."""
    shapes = [(["T"], "T"), (["T", "T"], "T"), ([["tuple", ["T", "T"]]], "T"), (["T", "int"], "T"),
              ([["tuple", ["T", "bool"]]], "T"), (["T"], "int")]
    case = {"locals": [r.choice(SCALARS) for _ in range(r.choice([0, 1, 2]))], "decls": [], "overs": [],
            "pos": None, "generic": True}
    n = r.choice([2, 3, 3])
    gen_at = r.randrange(n)
    g = r.choice(shapes)
    arity = len(g[0])
    for i in range(n):
        if i == gen_at:
            case["decls"].append({"ins": g[0], "out": g[1]})
        else:
            ins = []
            for t in g[0]:
                ins.append(["tuple", [r.choice(SCALARS), r.choice(SCALARS)]] if isinstance(t, list) else r.choice(SCALARS))
            if r.random() < 0.15:
                ins = ins[:-1] if ins and r.random() < 0.5 else [*ins, r.choice(SCALARS)]
            case["decls"].append({"ins": ins, "out": r.choice(SCALARS)})
    case["overs"].append(list(range(n)))
    tmp = {"locals": case["locals"], "decls": [], "overs": [], "_helpers": [], "_nested_overs": []}
    args = []
    for k in range(arity):
        conc = [d["ins"][k] for i, d in enumerate(case["decls"]) if i != gen_at and k < len(d["ins"])]
        t = r.choice(conc) if conc and r.random() < 0.8 else rand_ty(r, p_tuple=0.3)
        args.append(fit_expr(r, tmp, t, 2) if r.random() < 0.9 else rand_expr(r, tmp, 2))
    case["call"] = ["call", ["o", 0], args]
    if r.random() < 0.5:
        case["pos"] = r.choice(SCALARS)
    return case


# ---- cases aimed at "fails late, after a partial coercion/annotation"
def _leaves(ts):
    out = []

    def go(t, path):
        if isinstance(t, list):
            for i, x in enumerate(t[1]):
                go(x, [*path, i])
        else:
            out.append(path)
    for i, t in enumerate(ts):
        go(t, [i])
    return out


def _get(ts, path):
    t = ts[path[0]]
    for i in path[1:]:
        t = t[1][i]
    return t


def _set(ts, path, new):
    ts = json.loads(json.dumps(ts))
    if len(path) == 1:
        ts[path[0]] = new
        return ts
    t = ts[path[0]]
    for i in path[1:-1]:
        t = t[1][i]
    t[1][path[-1]] = new
    return ts


def gen_sensitive_case(r):
    """The target variant comes late; earlier variants agree with it up to an earlier leaf whose
    numeric kind differs (so checking it annotates / coerces the argument) and disagree at a
    later leaf (so the attempt fails after that)."""
    case = {"locals": [r.choice(SCALARS) for _ in range(r.choice([0, 1, 2]))], "decls": [], "overs": [],
            "pos": None, "_helpers": [], "_nested_overs": []}
    if r.random() < 0.5:
        case["decls"].append({"ins": [r.choice(SCALARS) for _ in range(r.choice([0, 1]))], "out": r.choice(["nat", "int", "float"])})
        case["_helpers"].append(0)
    while True:
        ins = [rand_ty(r, p_tuple=0.45) for _ in range(r.choice([1, 2, 2, 3]))]
        lv = _leaves(ins)
        if len(lv) >= 2:
            break
    outs = [r.choice(SCALARS) for _ in range(2)]
    n_before = r.choice([1, 1, 2])
    vs = []
    for _ in range(n_before):
        p, q = sorted(r.sample(range(len(lv)), 2))
        early = _set(ins, lv[p], r.choice(["nat", "int", "float"]))
        tq = _get(early, lv[q])
        early = _set(early, lv[q], r.choice([x for x in SCALARS if not widens(tq, x)] or ["bool"]))
        case["decls"].append({"ins": early, "out": r.choice(outs)})
        vs.append(len(case["decls"]) - 1)
    case["decls"].append({"ins": ins, "out": r.choice(outs)})
    vs.append(len(case["decls"]) - 1)
    if r.random() < 0.4:
        case["decls"].append({"ins": [mutate_ty(r, t) for t in ins], "out": r.choice(outs)})
        vs.append(len(case["decls"]) - 1)
    case["overs"].append(vs)
    args = [fit_expr(r, case, t, 0) for t in ins]
    case["call"] = ["call", ["o", 0], args]
    if r.random() < 0.4:
        case["pos"] = case["decls"][vs[n_before]]["out"]
    del case["_helpers"], case["_nested_overs"]
    return case
