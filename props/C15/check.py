"""C15 — overloaded calls pick the first applicable variant.

1. T: regenerate coq/C15/GenLoop.v from definition/overloaded.py + decorator.py (loop order,
   suppressed exception, does every attempt get its own copy of the argument nodes);
2. re-check coq/C15/Props.v (first_match & co. are stated for the generated `copies_args`);
3. X: generated overload sets x argument lists x position; the implementation's `check()`
   under the shim (checked AST of the call, canonicalised) against the Coq model `tc`
   evaluated by vm_compute — for the overloaded call and for the direct call to every variant;
4. spec-side search (always run): the overloaded call must give exactly what the direct call to
   the least accepting variant gives, and must be rejected iff every direct call is rejected.
   This part also covers generic variants, which the Coq model does not."""
import json
from concurrent.futures import ThreadPoolExecutor

import vlib
from vlib import proof_coverage

import gen_cases as G

LEVEL = "proof"
SRC = "definition/overloaded.py"


def generate(ctx):
    import tr_loop
    ctx.gen("GenLoop.v", tr_loop.translate(ctx.int_src(SRC), ctx.pub_src("decorator.py")))


def load_corpus(ctx):
    out = []
    for p in sorted((ctx.dir / "corpus").glob("*.json")):
        c = json.loads(p.read_text())
        c["_name"] = p.name
        out.append(c)
    return out


def run_impl(ctx, cases, jobs=8):
    payload = [{"id": str(i), "src": G.py_source(c), "funcs": [fn for fn, _ in G.direct_calls(c)],
                "ndecls": len(c["decls"])} for i, c in enumerate(cases)]
    chunks = [payload[k::jobs] for k in range(jobs)]
    res = {}
    with ThreadPoolExecutor(max_workers=jobs) as ex:
        for out in ex.map(lambda ch: json.loads(ctx.impl("impl_overload.py", ch)) if ch else {}, chunks):
            res.update(out)
    return [res[str(i)] for i in range(len(cases))]


def run_model(ctx, cases, per_file=120):
    """-> per case: {cp: [tokens for main, direct_0, ...]}"""
    chunks = [cases[i:i + per_file] for i in range(0, len(cases), per_file)]
    outs = ctx.coq_eval_many({f"m{i}": G.coq_file(ch) for i, ch in enumerate(chunks)})
    res = []
    for i, ch in enumerate(chunks):
        vals = vlib.parse_coq_values(outs[f"m{i}"])[0]
        if len(vals) != len(ch):
            raise RuntimeError("model output does not match the number of cases")
        for c, v in zip(ch, vals):
            n = len(G.direct_calls(c))
            if len(v) != 2 * n:
                raise RuntimeError("model output has the wrong shape")
            res.append({True: v[:n], False: v[n:]})
    return res


def spec_expected(impl_case, case):
    """The specification side, from direct calls only: outcome of the least accepting variant."""
    names = [fn for fn, _ in G.direct_calls(case)][1:]
    for k, fn in enumerate(names):
        if impl_case[fn][0] == 1:
            return k, impl_case[fn]
        if impl_case[fn][0] == 9:
            return None, None                           # a crash in a direct call: no verdict from the spec side
    return -1, [0]


def same_outcome(exp, obs):
    if exp[0] == 1:
        return obs == exp
    return obs[0] == 0


def describe(case):
    return {"python": G.py_source(case), "case": {k: v for k, v in case.items() if not k.startswith("_")}}


REPLAY = ("save detail.python as /tmp/c15_replay.py, then: VERIF_REPO=/repo PYTHONPATH=/verif/tools:/repo/guppylang/src:"
          "/repo/guppylang-internals/src /venv/bin/python /tmp/c15_replay.py   (prints accepted/REJECTED for the "
          "overloaded call `main` and for the direct call to each variant)")


def run(ctx):
    try:
        generate(ctx)
        info = ctx.coq_props()
        gen_txt = (ctx.coqdir / "GenLoop.v").read_text()
        cp_flag = "copies_args_check : bool := true" in gen_txt and "copies_args_synth : bool := true" in gen_txt
    except vlib.TranslatorError as e:
        # fail closed: the loop no longer has a shape the translator can read, so no theorem is
        # known to speak about it.  Still search the implementation for a concrete failing input.
        res = ctx.coq_make(["C15/Overload.vo"])
        names = [f"{f.name}:{n}" for f in sorted(ctx.coqdir.glob("*.v")) for n in vlib.count_theorems(f)]
        info = {"ok": False, "obligations": len(names), "discharged": 0, "axioms": [], "theorems": names,
                "log": f"translator failed closed: {e}\n" + res.log[-2000:], "failed": f"translator: {e}"}
        cp_flag = None
    r = vlib.rng(ctx.seed, "C15")
    corpus = load_corpus(ctx)
    n_mono, n_sens, n_gen = (500, 250, 120) if ctx.quick else (6000, 3000, 1500)
    mono = [c for c in corpus if not c.get("generic")] + [G.gen_case(r) for _ in range(n_mono)] \
        + [G.gen_sensitive_case(r) for _ in range(n_sens)]
    generic = [c for c in corpus if c.get("generic")] + [G.gen_generic_case(r) for _ in range(n_gen)]
    cases = mono + generic
    import time
    phases = {"coq_props": round(time.time() - ctx.t0, 1)}
    t1 = time.time()
    impl = run_impl(ctx, cases, jobs=10 if ctx.quick else 14)
    phases["implementation"] = round(time.time() - t1, 1)
    t1 = time.time()

    # ---- program corpus (regressions of the per-variant copy: node kinds, comptime objects)
    progs = sorted(str(p) for p in (ctx.dir / "corpus").glob("prog_*.py"))
    prog_rows = json.loads(ctx.impl("impl_programs.py", progs)) if progs else {}
    prog_total, prog_bad = 0, 0
    for fname, rows in sorted(prog_rows.items()):
        for fn, how, exp, obs, detail in rows:
            prog_total += 1
            if exp != obs:
                prog_bad += 1
                if prog_bad <= 3:
                    ctx.report(f"program:{fname}:{fn}:{how}", "counterexample",
                               "overloaded call behaves as the direct call to the first accepting variant (program corpus)",
                               {"program": f"props/C15/corpus/{fname}.py", "function": fn, "how": how, "expected": exp,
                                "observed": obs, "detail": detail,
                                "replay": f"cd /tmp && VERIF_REPO=/repo PYTHONPATH=/verif/tools:/repo/guppylang/src:/repo/guppylang-internals/src /venv/bin/python -c \"import repo_shim, importlib.util as u; s=u.spec_from_file_location('m','/verif/props/C15/corpus/{fname}.py'); m=u.module_from_spec(s); s.loader.exec_module(m); m.{fn}.{how}()\""})

    # ---- model side
    model = None
    if (vlib.COQ / "C15" / "Overload.vo").exists():
        try:
            model = run_model(ctx, mono)
        except RuntimeError as e:
            ctx.notes.append(f"model evaluation failed: {e}")
    else:
        ctx.notes.append("Overload.vo missing: model not evaluated")

    phases["model"] = round(time.time() - t1, 1)
    if not info["ok"]:          # a stale Props.vo must not count as discharged
        info["discharged"] = sum(1 for n in info.get("theorems", []) if not n.startswith("Props.v:")) if "forbidden" not in str(info["failed"]) else 0

    # ---- spec side: overloaded call vs. direct calls (implementation only)
    spec_fail, selected_hist, crashes = [], {}, 0
    for c, ic in zip(cases, impl):
        if any(v[0] == 9 for v in ic.values()):
            crashes += 1
        k, exp = spec_expected(ic, c)
        if k is None:              # a direct call crashed: no verdict about the overloaded call
            continue
        selected_hist[k] = selected_hist.get(k, 0) + 1
        if not same_outcome(exp, ic["main"]):
            spec_fail.append((c, ic, k, exp))
    for c, ic, k, exp in spec_fail[:3]:
        names = [fn for fn, _ in G.direct_calls(c)]
        what = ("a call crashed (not a GuppyError)" if k == "crash" else
                "rejected although a direct call is accepted" if ic["main"][0] != 1 and k >= 0 else
                "accepted although every direct call is rejected" if k == -1 else
                "differs from the direct call to the least accepting variant")
        thm = "first_match / rejected_iff_no_variant_accepts (spec side: direct calls to each variant)"
        if not info["ok"]:
            thm += f"; theorem file C15/Props.v no longer checks ({info['failed']})"
        d = describe(c)
        d.update({"what": "overloaded call " + what, "least_accepting_variant_index": k,
                  "expected_outcome_tokens": exp, "observed": {fn: ic[fn] for fn in names},
                  "encoding": "[1,*type,*checked call AST] accepted; [0,title] rejected; [9,text] crash (see enc_out in coq/C15/Overload.v)",
                  "copies_args_in_source": cp_flag, "replay": REPLAY})
        if not info["ok"]:
            d["coq_error"] = vlib.CoqResult(False, info["log"]).error_excerpt()
        ctx.report(G.case_key(c), "counterexample", thm, d)

    # ---- correspondence: model (with the flag read from the source) vs implementation
    mismatches, sensitive, fallthrough, rejected, agree, follows = [], 0, 0, 0, 0, {}
    if model is not None:
        for c, ic, mc in zip(mono, impl, model):
            names = [fn for fn, _ in G.direct_calls(c)]
            def diff(m):
                return [fn for fn, tok in zip(names, m) if not (tok == ic[fn] or (tok == [0] and ic[fn][0] == 0))]
            if cp_flag is None:      # translator failed: which of the two models does the code follow?
                bad = min(diff(mc[True]), diff(mc[False]), key=len)
                if diff(mc[True]) != diff(mc[False]):
                    follows[not diff(mc[True])] = follows.get(not diff(mc[True]), 0) + 1
            else:
                bad = diff(mc[cp_flag])
            if bad:
                mismatches.append((c, ic, mc, bad))
            else:
                agree += len(names)
            if mc[True][0] != mc[False][0]:
                sensitive += 1
            k, _ = spec_expected(ic, c)
            if k is not None and k >= 1:
                fallthrough += 1
            if k == -1:
                rejected += 1
        for c, ic, mc, bad in mismatches[:3]:
            d = describe(c)
            d.update({"what": "model and implementation disagree", "functions": bad,
                      "implementation": {fn: ic[fn] for fn in bad},
                      "copies_args_in_source": cp_flag,
                      "model(copies_args=true)": dict(zip([fn for fn, _ in G.direct_calls(c)], mc[True])),
                      "model(copies_args=false)": dict(zip([fn for fn, _ in G.direct_calls(c)], mc[False])),
                      "replay": REPLAY})
            ctx.report("model:" + G.case_key(c), "correspondence", "Overload.tc vs check() under repo_shim", d)

    if not info["ok"] and not spec_fail:
        ctx.report("proof-broken:" + str(info["failed"]), "proof-broken", str(info["failed"]),
                   {"coq_error": vlib.CoqResult(False, info["log"]).error_excerpt(), "searched_cases": len(cases),
                    "copies_args_in_source": cp_flag}, found_input=False)
    if model is None:
        ctx.report("model-unavailable", "correspondence", "Overload.tc could not be evaluated",
                   {"notes": ctx.notes}, found_input=False)

    n_eval = sum(len(ic) for ic in impl)
    pos_hist = {"synthesis": sum(1 for c in cases if c["pos"] is None), "checking": sum(1 for c in cases if c["pos"] is not None)}
    arity_hist, nvar_hist = {}, {}
    for c in cases:
        a = len(c["call"][2])
        arity_hist[a] = arity_hist.get(a, 0) + 1
        nv = len(c["overs"][c["call"][1][1]])
        nvar_hist[nv] = nvar_hist.get(nv, 0) + 1
    samples = []
    for j in (0, len(mono) // 2, len(cases) - 1):
        samples.append({"call": G.py_expr(cases[j]["call"]), "pos": cases[j]["pos"],
                        "variants": [cases[j]["decls"][v] for v in cases[j]["overs"][cases[j]["call"][1][1]]],
                        "impl_main": impl[j]["main"][:12]})
    cov = proof_coverage(
        info, "make -f Makefile.C15 C15/Props.vo && coqc C15/Props.v (Print Assumptions)",
        ["Coq 8.16.1 kernel; vm_compute in witnesses/examples only",
         "props/C15/tr_loop.py: reading of the loop in OverloadedFunctionDef.check_call/synthesize_call (order, suppress(GuppyError), deepcopy of args) and of _Guppy.overload (func_ids in decorator order)",
         "coq/C15/ProofsSpec.v: the declarative reference (sig_accepts/checks/synthesizes on annotation-free source expressions) is the written-down meaning of 'the signature accepts the arguments'; tc is proved equal to it (ref_correct), fuel is proved sufficient (enough_fuel)",
         "coq/C15/Overload.v is a hand-written model of the argument-checking fragment of expr_checker.py (monomorphic types nat/int/float/bool/tuples; literals, tuples, names, nested calls); it is tied to the code by the differential harness only",
         "tools/repo_shim.py, props/C15/impl_overload.py (canonicalisation of the checked AST), props/C15/gen_cases.py",
         "the generic loop theorem (Proofs.LoopFacts) assumes an attempt is a function of (variant, argument nodes): no other state (globals, ctx) is changed by a failed attempt",
         "generic (type-variable) signatures, comptime arguments, custom call checkers and borrowed/owned flags are outside the model; generics are covered only by the implementation-level comparison with direct calls"],
        evaluations=n_eval, distinct_nontrivial=fallthrough + sensitive,
        rule="one evaluation = one check() of a generated function (overloaded call or direct call to one variant); non-trivial = the least accepting variant is not the first one (fall-through past a failing variant) or the case's outcome depends on whether failed attempts mutate the argument nodes (model with copies_args=false differs from model with copies_args=true)",
        traces_validated_against_impl=agree, model_mismatches=len(mismatches), spec_side_failures=len(spec_fail),
        cases=len(cases), monomorphic_cases=len(mono), generic_cases_spec_side_only=len(generic), corpus_cases=len(corpus), corpus_program_checks=prog_total, corpus_program_failures=prog_bad,
        mutation_sensitive_cases=sensitive, fallthrough_cases=fallthrough, rejected_cases=rejected, crashes=crashes,
        least_accepting_variant_histogram={str(k): v for k, v in sorted(selected_hist.items())},
        position_histogram=pos_hist, arity_histogram={str(k): v for k, v in sorted(arity_hist.items())},
        variants_histogram={str(k): v for k, v in sorted(nvar_hist.items())},
        copies_args_in_source=cp_flag, implementation_follows_model_with_copies_args={str(k): v for k, v in follows.items()}, phase_seconds=phases, samples=samples, notes=ctx.notes)
    return ctx.finish(LEVEL, cov, [
        "overloaded.py's loop is read as: try variants in func_ids order, return the first that raises no GuppyError, else _call_error raises",
        "a failed attempt changes nothing but the argument nodes it was given (no global/context state)",
        "copy.deepcopy of ast nodes preserves the checker's annotations (.type, location attributes)"])
