"""Implementation side for C15: type-check generated programs with the guppylang sources of
the tree under test (under repo_shim) and report, for every requested function, either the
checked AST of the call on the right-hand side of its single assignment — canonicalised to the
same token list as `enc_out` in coq/C15/Overload.v — or the rejection.

stdin : JSON list of cases {"id": str, "src": python module text, "funcs": [names], "ndecls": n}
        (declared functions are called d0..d{n-1}, locals x0.., overload sets o0..)
stdout: JSON {id: {func: tokens}}   tokens = [1, *ty, *expr] accepted | [0, title] rejected by a
        GuppyError | [9, text] any other exception (a crash, never produced by the model)"""
import ast
import importlib.util
import json
import os
import sys

import repo_shim  # noqa: F401  (must come first)
from guppylang_internals.engine import ENGINE
from guppylang_internals.error import GuppyError
from guppylang_internals.nodes import GlobalCall, PlaceNode
from guppylang_internals.tys.builtin import is_bool_type
from guppylang_internals.tys.ty import NumericType, TupleType

KIND = {"Nat": 0, "Int": 1, "Float": 2}


def enc_ty(t):
    if isinstance(t, NumericType):
        return [KIND[t.kind.name] + 1]
    if is_bool_type(t):
        return [4]
    if isinstance(t, TupleType):
        out = [5, len(t.element_types)]
        for e in t.element_types:
            out += enc_ty(e)
        return out
    raise ValueError(f"type outside the fragment: {t!r}")


def enc_ann(n):
    t = getattr(n, "type", None)
    return [0] if t is None else [1, *enc_ty(t)]


def enc_expr(n, ids):
    if isinstance(n, ast.Constant):
        v = n.value
        if isinstance(v, bool):
            return [12, *enc_ann(n), 1 if v else 0]
        if isinstance(v, int):
            return [10, *enc_ann(n), v]
        if isinstance(v, float):
            return [11, *enc_ann(n)]
        raise ValueError(f"constant outside the fragment: {v!r}")
    if isinstance(n, ast.Tuple):
        out = [13, *enc_ann(n), len(n.elts)]
        for e in n.elts:
            out += enc_expr(e, ids)
        return out
    if isinstance(n, PlaceNode):
        name = str(n.place)
        if not (name.startswith("x") and name[1:].isdigit()):
            raise ValueError(f"place outside the fragment: {name}")
        return [16, *enc_ann(n), int(name[1:])]
    if isinstance(n, GlobalCall):
        if n.def_id in ids:
            out = [17, *enc_ann(n), ids[n.def_id], len(n.args)]
            for e in n.args:
                out += enc_expr(e, ids)
            return out
        name = ENGINE.get_parsed(n.def_id).name
        if name in ("__int__", "__float__") and len(n.args) == 1:
            return [18, *enc_ann(n), 1 if name == "__int__" else 2, *enc_expr(n.args[0], ids)]
        raise ValueError(f"call of {name} outside the fragment")
    if isinstance(n, ast.Name):
        return [14, int(n.id[1:])]
    if isinstance(n, ast.Call):
        raise ValueError("unchecked ast.Call left in a checked tree")
    raise ValueError(f"node outside the fragment: {ast.dump(n)[:80]}")


def checked_value(defn):
    chk = ENGINE.checked[defn.id]
    vals = [s.value for bb in chk.cfg.bbs for s in bb.statements
            if isinstance(s, ast.Assign | ast.AnnAssign) and s.value is not None]
    if len(vals) != 1:
        raise ValueError(f"expected exactly one assignment, found {len(vals)}")
    return vals[0]


def run_case(case, workdir):
    path = os.path.join(workdir, f"case_{case['id']}.py")
    with open(path, "w") as f:
        f.write(case["src"])
    spec = importlib.util.spec_from_file_location(f"case_{case['id']}", path)
    mod = importlib.util.module_from_spec(spec)
    sys.modules[spec.name] = mod
    spec.loader.exec_module(mod)
    ids = {getattr(mod, f"d{i}").id: i for i in range(case["ndecls"])}
    res = {}
    for fn in case["funcs"]:
        defn = getattr(mod, fn)
        try:
            defn.check()
            v = checked_value(defn)
            res[fn] = [1, *enc_ty(v.type), *enc_expr(v, ids)]
        except GuppyError as e:
            res[fn] = [0, getattr(e.error, "title", type(e.error).__name__)]
        except BaseException as e:  # noqa: BLE001  crash: reported as such
            res[fn] = [9, f"{type(e).__name__}: {e}"[:300]]
    del sys.modules[spec.name]
    return res


def main():
    cases = json.load(sys.stdin)
    workdir = os.getcwd()
    out = {}
    for c in cases:
        try:
            out[c["id"]] = run_case(c, workdir)
        except BaseException as e:  # noqa: BLE001  the module itself failed to load
            out[c["id"]] = {fn: [9, f"module: {type(e).__name__}: {e}"[:300]] for fn in c["funcs"]}
    json.dump(out, sys.stdout)


if __name__ == "__main__":
    main()
