"""Regression programs for the per-variant copy of the argument nodes (fix-1 / fix-2).
Each entry of EXPECT is (function, how, expected) with how in {check, compile_function}."""
from guppylang import guppy
from guppylang.std.builtins import array, owned


@guppy.declare
def v1(x: int) -> int: ...


@guppy.declare
def v2(x: float) -> int: ...


@guppy.overload(v1, v2)
def comb(): ...


@guppy
def generator_argument(i: int) -> int:
    # the argument contains a MakeIter node (custom __init__ with required arguments)
    return comb(array(i for _ in range(1))[0])


@guppy.declare
def w1(xs: array[float, 2] @ owned) -> float: ...


@guppy.declare
def w2(xs: array[int, 2] @ owned) -> int: ...


@guppy.overload(w1, w2)
def comb2(): ...


@guppy.comptime
def traced_local_array() -> int:
    xs = array(1, 2)
    return comb2(xs)


@guppy.comptime
def traced_owned_array(xs: array[int, 2] @ owned) -> int:
    # the argument place refers to a frozenlist of Guppy objects
    return comb2(xs)


EXPECT = [
    ("generator_argument", "check", "accept"),
    ("generator_argument", "compile_function", "accept"),
    ("traced_local_array", "compile_function", "accept"),
    ("traced_owned_array", "compile_function", "accept"),
]
