"""Overloaded calls whose first variant fails (so that the arguments are copied and checked at least
twice) with many kinds of argument expressions; every call is accepted when made directly to
the second variant, hence must be accepted through the overload."""
from guppylang import guppy
from guppylang.std.builtins import array, comptime, nat, owned  # noqa: F401


@guppy.struct
class P:
    a: int
    b: float


@guppy.declare
def b1(x: bool) -> int: ...


@guppy.declare
def i1(x: int) -> int: ...


@guppy.overload(b1, i1)
def pick_int(): ...


@guppy.declare
def bf(x: bool) -> int: ...


@guppy.declare
def f1(x: float) -> int: ...


@guppy.overload(bf, f1)
def pick_float(): ...


@guppy.declare
def a0(xs: array[bool, 3] @ owned) -> int: ...


@guppy.declare
def a1(xs: array[int, 3] @ owned) -> int: ...


@guppy.overload(a0, a1)
def pick_array(): ...


@guppy.declare
def t0(x: tuple[bool, bool]) -> int: ...


@guppy.declare
def t1(x: tuple[int, tuple[float, bool]]) -> int: ...


@guppy.overload(t0, t1)
def pick_tuple(): ...


N = 3


@guppy
def binop(i: int, j: int) -> int:
    return pick_int(i * j + 2)


@guppy
def unary(i: int) -> int:
    return pick_int(-i)


@guppy
def ifexp(i: int, c: bool) -> int:
    return pick_int(i if c else 0)


@guppy
def compare_chain_in_ifexp(i: int) -> int:
    return pick_int(1 if 0 < i < 10 else 2)


@guppy
def nested_overload(i: int) -> int:
    return pick_int(pick_int(pick_float(i)))


@guppy
def subscript(xs: array[int, 3]) -> int:
    return pick_int(xs[1])


@guppy
def field(p: P) -> int:
    return pick_float(p.b) + pick_int(p.a)


@guppy
def constructor_field() -> int:
    return pick_int(P(1, 2.0).a)


@guppy
def method_call(x: float) -> int:
    return pick_int(int(x))


@guppy
def comptime_expr() -> int:
    return pick_int(comptime(N + 1))


@guppy
def array_comprehension(i: int) -> int:
    return pick_array(array(i + k for k in range(3)))


@guppy
def array_comprehension_unpack(ps: array[tuple[int, int], 3] @ owned) -> int:
    return pick_array(array(a + b for a, b in ps))


@guppy
def array_comprehension_unpack_direct(ps: array[tuple[int, int], 3] @ owned) -> int:
    return a1(array(a + b for a, b in ps))


@guppy
def array_literal(i: int) -> int:
    return pick_array(array(i, 2, 3))


@guppy
def nested_tuple(i: nat, x: float) -> int:
    return pick_tuple((i, (x, i < 2)))


@guppy
def walrus(i: int) -> int:
    return pick_int((j := i + 1)) + j


EXPECT = [(name, "check", "accept") for name in [
    "binop", "unary", "ifexp", "compare_chain_in_ifexp", "nested_overload", "subscript", "field",
    "constructor_field", "method_call", "comptime_expr", "array_comprehension",
    "array_comprehension_unpack", "array_comprehension_unpack_direct", "array_literal", "nested_tuple", "walrus"]]
