"""Implementation side for the program corpus of C15: import each corpus/prog_*.py given on stdin
(JSON list of paths) with the tree under test and run its EXPECT table.
stdout: JSON {file: [[function, how, expected, observed, detail]]}, observed in accept|reject|crash."""
import importlib.util
import json
import sys

import repo_shim  # noqa: F401
from guppylang_internals.error import GuppyError

out = {}
for path in json.load(sys.stdin):
    name = path.rsplit("/", 1)[-1][:-3]
    rows = []
    try:
        spec = importlib.util.spec_from_file_location(name, path)
        mod = importlib.util.module_from_spec(spec)
        sys.modules[name] = mod
        spec.loader.exec_module(mod)
        for fn, how, exp in mod.EXPECT:
            try:
                getattr(getattr(mod, fn), how)()
                rows.append([fn, how, exp, "accept", ""])
            except GuppyError as e:
                rows.append([fn, how, exp, "reject", getattr(e.error, "title", type(e.error).__name__)])
            except BaseException as e:  # noqa: BLE001
                rows.append([fn, how, exp, "crash", f"{type(e).__name__}: {e}"[:300]])
    except BaseException as e:  # noqa: BLE001
        rows.append(["<module>", "import", "accept", "crash", f"{type(e).__name__}: {e}"[:300]])
    out[name] = rows
json.dump(out, sys.stdout)
