"""Fail-closed translator for C15: reads the overload-resolution loop of
definition/overloaded.py (and the registration in decorator.py) with Python `ast` and emits
coq/C15/GenLoop.v, the facts about the loop that the model is parameterised by:

  * variants are tried in the order of `self.func_ids` (= the order given to @guppy.overload),
  * the first attempt that does not raise is returned, `GuppyError` (and nothing else) makes the
    loop continue, after the loop `_call_error` raises,
  * copies_args_check / copies_args_synth: is each attempt given its own deep copy of `args`?

Any other shape raises TranslatorError."""
import ast

from vlib import TranslatorError


def _fail(msg):
    raise TranslatorError(f"overloaded.py: {msg}")


def _is_name(n, name):
    return isinstance(n, ast.Name) and n.id == name


def _is_deepcopy_of(n, name, aliases):
    """copy.deepcopy(name) / deepcopy(name) / a local bound to one of those in the loop body"""
    if isinstance(n, ast.Name) and n.id in aliases:
        return aliases[n.id] == name
    if isinstance(n, ast.Call) and len(n.args) == 1 and not n.keywords and _is_name(n.args[0], name):
        f = n.func
        if isinstance(f, ast.Attribute) and f.attr == "deepcopy" and _is_name(f.value, "copy"):
            return True
        if _is_name(f, "deepcopy"):
            return True
    return False


def _attempt(stmt, method, aliases):
    """`return defn.<method>(A, [ty,] N, ctx)` -> copies?"""
    if not (isinstance(stmt, ast.Return) and isinstance(stmt.value, ast.Call)):
        _fail(f"{method}: the guarded statement is not `return defn.{method}(...)`")
    c = stmt.value
    if not (isinstance(c.func, ast.Attribute) and c.func.attr == method and _is_name(c.func.value, "defn")):
        _fail(f"{method}: attempt does not call defn.{method}")
    want = 4 if method == "check_call" else 3
    if len(c.args) != want or c.keywords:
        _fail(f"{method}: unexpected arguments of the attempt")
    a, node, ctx = c.args[0], c.args[-2], c.args[-1]
    if method == "check_call" and not _is_name(c.args[1], "ty"):
        _fail("check_call: expected type is not passed through")
    if not _is_name(ctx, "ctx"):
        _fail(f"{method}: ctx is not passed through")
    if not (_is_name(node, "node") or _is_deepcopy_of(node, "node", aliases)):
        _fail(f"{method}: node argument is neither `node` nor a copy of it")
    if _is_name(a, "args"):
        return False
    if _is_deepcopy_of(a, "args", aliases):
        return True
    _fail(f"{method}: argument list is neither `args` nor `copy.deepcopy(args)`")


def _loop(fn: ast.FunctionDef):
    method = fn.name
    body = [s for s in fn.body if not (isinstance(s, ast.Expr) and isinstance(s.value, ast.Constant))]
    if len(body) != 3:
        _fail(f"{method}: expected `available_sigs = []; for ...; return self._call_error(...)`")
    init, loop, final = body
    if not (isinstance(init, ast.AnnAssign | ast.Assign) and isinstance(init.value, ast.List) and not init.value.elts):
        _fail(f"{method}: first statement is not an empty-list initialisation")
    if not (isinstance(loop, ast.For) and not loop.orelse and _is_name(loop.target, "def_id")
            and isinstance(loop.iter, ast.Attribute) and loop.iter.attr == "func_ids" and _is_name(loop.iter.value, "self")):
        _fail(f"{method}: loop is not `for def_id in self.func_ids:`")
    copies = None
    aliases = {}
    for s in loop.body:
        if isinstance(s, ast.Assert):
            continue
        if isinstance(s, ast.Assign) and len(s.targets) == 1 and isinstance(s.targets[0], ast.Name):
            t = s.targets[0].id
            v = s.value
            if t == "defn":
                if not (isinstance(v, ast.Subscript) and _is_name(v.slice, "def_id") and isinstance(v.value, ast.Attribute)
                        and v.value.attr == "globals" and _is_name(v.value.value, "ctx")):
                    _fail(f"{method}: defn is not ctx.globals[def_id]")
                continue
            for src in ("args", "node"):
                if _is_deepcopy_of(v, src, {}):
                    aliases[t] = src
                    break
            else:
                _fail(f"{method}: unexpected assignment to {t} in the loop")
            continue
        if isinstance(s, ast.Expr) and isinstance(s.value, ast.Call) and isinstance(s.value.func, ast.Attribute) \
                and s.value.func.attr == "append" and isinstance(s.value.func.value, ast.Name) \
                and s.value.func.value.id not in ("args",):
            continue                                   # available_sigs.append(defn.ty)
        if isinstance(s, ast.With):
            if copies is not None:
                _fail(f"{method}: more than one attempt in the loop body")
            if not (len(s.items) == 1 and isinstance(s.items[0].context_expr, ast.Call)
                    and _is_name(s.items[0].context_expr.func, "suppress")
                    and len(s.items[0].context_expr.args) == 1 and _is_name(s.items[0].context_expr.args[0], "GuppyError")):
                _fail(f"{method}: attempt is not guarded by `with suppress(GuppyError)`")
            inner = list(s.body)
            for pre in inner[:-1]:
                if isinstance(pre, ast.Assign) and len(pre.targets) == 1 and isinstance(pre.targets[0], ast.Name):
                    for src in ("args", "node"):
                        if _is_deepcopy_of(pre.value, src, {}):
                            aliases[pre.targets[0].id] = src
                            break
                    else:
                        _fail(f"{method}: unexpected statement inside the guarded block")
                else:
                    _fail(f"{method}: unexpected statement inside the guarded block")
            copies = _attempt(inner[-1], method, aliases)
            continue
        if isinstance(s, ast.Try):
            if copies is not None:
                _fail(f"{method}: more than one attempt in the loop body")
            if s.orelse or s.finalbody or len(s.handlers) != 1:
                _fail(f"{method}: unexpected try shape")
            h = s.handlers[0]
            if not (_is_name(h.type, "GuppyError") and len(h.body) == 1 and isinstance(h.body[0], ast.Continue | ast.Pass)):
                _fail(f"{method}: handler is not `except GuppyError: continue`")
            inner = list(s.body)
            for pre in inner[:-1]:
                ok = False
                if isinstance(pre, ast.Assign) and len(pre.targets) == 1 and isinstance(pre.targets[0], ast.Name):
                    for src in ("args", "node"):
                        if _is_deepcopy_of(pre.value, src, {}):
                            aliases[pre.targets[0].id] = src
                            ok = True
                if not ok:
                    _fail(f"{method}: unexpected statement inside the try block")
            copies = _attempt(inner[-1], method, aliases)
            continue
        _fail(f"{method}: unexpected statement in the loop: {ast.unparse(s)[:60]}")
    if copies is None:
        _fail(f"{method}: no attempt found in the loop")
    if not (isinstance(final, ast.Return) and isinstance(final.value, ast.Call)
            and isinstance(final.value.func, ast.Attribute) and final.value.func.attr == "_call_error"
            and _is_name(final.value.func.value, "self") and final.value.args and _is_name(final.value.args[0], "args")):
        _fail(f"{method}: the loop is not followed by `return self._call_error(args, ...)`")
    return copies


def _call_error_raises(fn: ast.FunctionDef):
    last = fn.body[-1]
    if not (isinstance(last, ast.Raise) and isinstance(last.exc, ast.Call) and _is_name(last.exc.func, "GuppyError")):
        _fail("_call_error does not end with `raise GuppyError(...)`")
    for n in ast.walk(fn):
        if isinstance(n, ast.Return):
            _fail("_call_error may return")


def _registration(dec_src: str):
    tree = ast.parse(dec_src)
    fns = [n for n in ast.walk(tree) if isinstance(n, ast.FunctionDef) and n.name == "overload"
           and any(a.arg == "self" for a in n.args.args)]
    if len(fns) != 1 or fns[0].args.vararg is None or fns[0].args.vararg.arg != "funcs":
        raise TranslatorError("decorator.py: `def overload(self, *funcs)` not found")
    fn = fns[0]
    loops = [n for n in fn.body if isinstance(n, ast.For)]
    if len(loops) != 1 or not (_is_name(loops[0].iter, "funcs") and _is_name(loops[0].target, "func")):
        raise TranslatorError("decorator.py: overload does not iterate `for func in funcs`")
    appends = [n for n in ast.walk(loops[0]) if isinstance(n, ast.Call) and isinstance(n.func, ast.Attribute)
               and n.func.attr == "append" and _is_name(n.func.value, "func_ids")]
    if len(appends) != 1 or ast.unparse(appends[0].args[0]) != "func.id":
        raise TranslatorError("decorator.py: overload does not collect `func_ids.append(func.id)` in order")
    for n in ast.walk(fn):
        if isinstance(n, ast.Call):
            f = n.func
            nm = f.attr if isinstance(f, ast.Attribute) else getattr(f, "id", "")
            if nm in ("sorted", "sort", "reverse", "reversed", "set", "insert", "shuffle"):
                raise TranslatorError(f"decorator.py: overload reorders the variants ({nm})")
    ctor = [n for n in ast.walk(fn) if isinstance(n, ast.Call) and _is_name(n.func, "OverloadedFunctionDef")]
    if len(ctor) != 1 or not ctor[0].args or not _is_name(ctor[0].args[-1], "func_ids"):
        raise TranslatorError("decorator.py: OverloadedFunctionDef is not built from func_ids")


def translate(overloaded_path, decorator_path) -> str:
    tree = ast.parse(overloaded_path.read_text())
    cls = [n for n in tree.body if isinstance(n, ast.ClassDef) and n.name == "OverloadedFunctionDef"]
    if len(cls) != 1:
        _fail("class OverloadedFunctionDef not found")
    meths = {n.name: n for n in cls[0].body if isinstance(n, ast.FunctionDef)}
    for m in ("check_call", "synthesize_call", "_call_error"):
        if m not in meths:
            _fail(f"method {m} not found")
    cc = _loop(meths["check_call"])
    sc = _loop(meths["synthesize_call"])
    _call_error_raises(meths["_call_error"])
    _registration(decorator_path.read_text())
    b = {True: "true", False: "false"}
    return ("(* GENERATED by props/C15/tr_loop.py from definition/overloaded.py and decorator.py — do not edit.\n"
            "   Facts read from the source: variants are tried in func_ids order (= @guppy.overload order),\n"
            "   the first attempt that raises no GuppyError is returned, _call_error raises afterwards;\n"
            "   and whether each attempt gets its own deep copy of the argument nodes. *)\n"
            f"Definition copies_args_check : bool := {b[cc]}.\n"
            f"Definition copies_args_synth : bool := {b[sc]}.\n"
            "Definition copies_args : bool := copies_args_check && copies_args_synth.\n")
