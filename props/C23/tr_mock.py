"""Translator for C23 (fail-closed): tracing/builtins_mock.py::mock_builtins  ->  coq/C23/GenMock.v,
plus the place where it is applied (tracing/function.py::trace_function) and the shape of
tracing/state.py::set_tracing_state.

The body of mock_builtins is rendered statement by statement into a state-passing Gallina
term over an abstract state S with a lens (getg, putg) onto `f.__globals__`:
    NAME = {"k": name, ...}                      let l_NAME := d_lit [...] in ...
    NAME = {x: D[x] for x in N2 if x in D2}       match d_comp ... with inr e => raise | inl l_NAME => ...
    G.update(NAME)                                 putg (d_update (getg s) l_NAME) s
    for x in NAME: <block>                         for_keys (keys l_NAME) (fun x s => ...)
    if <x in D | x not in D>: <block>              if ... then ... else (s, None)
    del G[x]                                       d_del (KeyError when absent)
    try: <block> finally: <block>                  try_finally
    yield                                          yield_ s   (the body of the with statement)
where G is `<param>.__globals__`.  Anything else raises TranslatorError."""
import ast
from pathlib import Path

from tr_common import HEADER, TranslatorError, find_func, parse_file, strip_doc


def _cs(s: str) -> str:
    if '"' in s or "\\" in s or any(ord(c) > 126 or ord(c) < 32 for c in s):
        raise TranslatorError(f"string with special characters: {s!r}")
    return f'"{s}"'


class MockTr:
    def __init__(self, fn: ast.FunctionDef, module_defs: set[str]):
        self.fn = fn
        if len(fn.args.args) != 1 or fn.args.vararg or fn.args.kwarg or fn.args.kwonlyargs:
            raise TranslatorError("mock_builtins signature changed")
        self.param = fn.args.args[0].arg
        self.G = f"{self.param}.__globals__"
        self.module_defs = module_defs
        self.locals: set[str] = set()
        self.mock_items: list[tuple[str, str]] | None = None
        self.yields = 0

    def fail(self, node, why):
        raise TranslatorError(f"mock_builtins: cannot translate `{ast.unparse(node)[:80]}` (line {getattr(node, 'lineno', '?')}): {why}")

    # dict-valued expression: G or a local
    def dexpr(self, e, loopvars):
        if ast.unparse(e) == self.G:
            return "(getg s)"
        if isinstance(e, ast.Name) and e.id in self.locals:
            return f"l_{e.id}"
        self.fail(e, "not f.__globals__ nor a local dict")

    def key(self, e, loopvars):
        if isinstance(e, ast.Name) and e.id in loopvars:
            return f"x_{e.id}"
        if isinstance(e, ast.Constant) and isinstance(e.value, str):
            return _cs(e.value)
        self.fail(e, "key is neither the loop variable nor a string constant")

    def cond(self, e, loopvars):
        if isinstance(e, ast.Compare) and len(e.ops) == 1 and isinstance(e.ops[0], (ast.In, ast.NotIn)):
            t = f"(d_in {self.key(e.left, loopvars)} {self.dexpr(e.comparators[0], loopvars)})"
            return t if isinstance(e.ops[0], ast.In) else f"(negb {t})"
        if isinstance(e, ast.UnaryOp) and isinstance(e.op, ast.Not):
            return f"(negb {self.cond(e.operand, loopvars)})"
        self.fail(e, "condition is not a membership test")

    def block(self, stmts, loopvars) -> str:
        """Coq term of type S * outcome in a context where s : S is bound."""
        stmts = strip_doc(stmts)
        if not stmts:
            return "(s, None)"
        st, rest = stmts[0], stmts[1:]

        def then(e):   # sequencing with the rest of the block
            if not rest:
                return e
            return f"(match {e} with\n | (s, None) => {self.block(rest, loopvars)}\n | (s, Some e) => (s, Some e) end)"

        if isinstance(st, ast.Pass):
            return self.block(rest, loopvars)
        if isinstance(st, ast.Assign) and len(st.targets) == 1 and isinstance(st.targets[0], ast.Name):
            name, v = st.targets[0].id, st.value
            if name in self.locals or name in loopvars or name == self.param:
                self.fail(st, "local assigned twice")
            if isinstance(v, ast.Dict):
                items = []
                for k, val in zip(v.keys, v.values):
                    if not (isinstance(k, ast.Constant) and isinstance(k.value, str) and isinstance(val, ast.Name)):
                        self.fail(st, "dict display entries must be \"name\": name")
                    if val.id not in self.module_defs:
                        self.fail(val, "value is not a module-level class/function of builtins_mock.py")
                    items.append((k.value, val.id))
                if self.mock_items is None:
                    self.mock_items = items
                lit = "[" + "; ".join(f"({_cs(k)}, VMock {_cs(n)})" for k, n in items) + "]"
                self.locals.add(name)
                return f"(let l_{name} := d_lit {lit} in\n {self.block(rest, loopvars)})"
            if isinstance(v, ast.DictComp) and len(v.generators) == 1:
                g = v.generators[0]
                if g.is_async or not isinstance(g.target, ast.Name) or len(g.ifs) > 1:
                    self.fail(st, "comprehension shape")
                x = g.target.id
                lv = loopvars | {x}
                if not (isinstance(v.key, ast.Name) and v.key.id == x):
                    self.fail(st, "comprehension key is not the loop variable")
                if not (isinstance(v.value, ast.Subscript) and isinstance(v.value.slice, ast.Name) and v.value.slice.id == x):
                    self.fail(st, "comprehension value is not D[x]")
                src = self.dexpr(v.value.value, lv)
                it = self.dexpr(g.iter, lv)
                c = self.cond(g.ifs[0], lv) if g.ifs else "true"
                self.locals.add(name)
                return (f"(match d_comp {it} (fun x_{x} => {c}) (fun x_{x} => d_get {src} x_{x}) with\n"
                        f" | inr e => (s, Some e)\n | inl l_{name} => {self.block(rest, loopvars)} end)")
            self.fail(st, "assignment shape")
        if isinstance(st, ast.Expr) and isinstance(st.value, ast.Call):
            c = st.value
            if (isinstance(c.func, ast.Attribute) and c.func.attr == "update" and ast.unparse(c.func.value) == self.G
                    and len(c.args) == 1 and not c.keywords):
                return then(f"(putg (d_update (getg s) {self.dexpr(c.args[0], loopvars)}) s, None)")
            self.fail(st, "call is not f.__globals__.update(local)")
        if isinstance(st, ast.Expr) and isinstance(st.value, ast.Yield):
            if st.value.value is not None:
                self.fail(st, "yield with a value")
            self.yields += 1
            return then("(yield_ s)")
        if isinstance(st, ast.Delete) and len(st.targets) == 1 and isinstance(st.targets[0], ast.Subscript) \
                and ast.unparse(st.targets[0].value) == self.G:
            k = self.key(st.targets[0].slice, loopvars)
            return then(f"(let '(g', o) := d_del (getg s) {k} in (putg g' s, o))")
        if isinstance(st, ast.If):
            c = self.cond(st.test, loopvars)
            el = self.block(st.orelse, loopvars) if st.orelse else "(s, None)"
            return then(f"(if {c} then {self.block(st.body, loopvars)} else {el})")
        if isinstance(st, ast.For) and isinstance(st.target, ast.Name) and not st.orelse:
            x = st.target.id
            if x in loopvars or x in self.locals:
                self.fail(st, "loop variable shadows")
            body = self.block(st.body, loopvars | {x})
            return then(f"(for_keys (keys {self.dexpr(st.iter, loopvars)}) (fun x_{x} s => {body}) s)")
        if isinstance(st, ast.Try) and not st.handlers and not st.orelse and st.finalbody:
            b = self.block(st.body, loopvars)
            f = self.block(st.finalbody, loopvars)
            return then(f"(try_finally (fun s => {b})\n (fun s => {f}) s)")
        self.fail(st, f"statement kind {type(st).__name__}")


def translate(mock_path: Path, function_path: Path, state_path: Path) -> str:
    mod = parse_file(mock_path)
    defs = {n.name for n in mod.body if isinstance(n, (ast.ClassDef, ast.FunctionDef))}
    fn = find_func(mod, "mock_builtins")
    decs = [ast.unparse(d) for d in fn.decorator_list]
    if decs != ["contextmanager"]:
        raise TranslatorError(f"mock_builtins decorators: {decs} (expected exactly @contextmanager)")
    imp = [n for n in mod.body if isinstance(n, ast.ImportFrom) and n.module == "contextlib" and any(a.name == "contextmanager" and a.asname is None for a in n.names)]
    if not imp:
        raise TranslatorError("contextmanager is not contextlib.contextmanager")
    tr = MockTr(fn, defs)
    body = tr.block(fn.body, frozenset())
    if tr.yields != 1:
        raise TranslatorError(f"mock_builtins has {tr.yields} yield statements (a @contextmanager needs exactly one)")
    if sum(isinstance(n, (ast.Yield, ast.YieldFrom)) for n in ast.walk(fn)) != 1:
        raise TranslatorError("mock_builtins has yields outside the translated statements")
    if tr.mock_items is None:
        raise TranslatorError("no dict display of mocks found")
    out = [HEADER.format(src="guppylang_internals/tracing/{builtins_mock,function,state}.py", tool="props/C23/tr_mock.py"),
           "From Coq Require Import ZArith String Bool List.\nFrom V.C23 Require Import ModelBase.\nImport ListNotations.\nOpen Scope string_scope.\n",
           "Definition mock_names : list string := [" + "; ".join(_cs(k) for k, _ in tr.mock_items) + "].\n",
           "Definition mock_lit : ns := d_lit [" + "; ".join(f"({_cs(k)}, VMock {_cs(n)})" for k, n in tr.mock_items) + "].\n",
           "Definition mock_builtins_gen {S : Type} (getg : S -> ns) (putg : ns -> S -> S) (yield_ : S -> S * outcome) (s : S) : S * outcome :=\n" + body + ".\n"]
    out.append(applied(function_path))
    out.append(state_shape(state_path))
    return "\n".join(out)


def applied(function_path: Path) -> str:
    """Where mock_builtins is applied: trace_function must wrap exactly the call of the user's
    Python function in `with ..., mock_builtins(<that same function>):`."""
    mod = parse_file(function_path)
    fn = find_func(mod, "trace_function")
    pf = fn.args.args[0].arg
    hits = []
    for n in ast.walk(mod):
        if isinstance(n, ast.Call) and ast.unparse(n.func).endswith("mock_builtins"):
            hits.append(n)
    withs = [w for w in ast.walk(fn) if isinstance(w, ast.With)
             and any(isinstance(i.context_expr, ast.Call) and ast.unparse(i.context_expr.func) == "mock_builtins" for i in w.items)]
    if len(hits) != 1 or len(withs) != 1:
        raise TranslatorError(f"function.py: expected exactly one use of mock_builtins, as a with item in trace_function (calls: {len(hits)}, with statements: {len(withs)})")
    w = withs[0]
    items = []
    for i in w.items:
        if i.optional_vars is not None or not isinstance(i.context_expr, ast.Call):
            raise TranslatorError("function.py: with item shape")
        items.append(ast.unparse(i.context_expr.func))
    mb = [i.context_expr for i in w.items if ast.unparse(i.context_expr.func) == "mock_builtins"][0]
    if [ast.unparse(a) for a in mb.args] != [pf] or mb.keywords:
        raise TranslatorError(f"function.py: mock_builtins is applied to `{ast.unparse(mb)}`, not to the traced function `{pf}`")
    if not (len(w.body) == 1 and isinstance(w.body[0], ast.Assign) and isinstance(w.body[0].value, ast.Call)
            and ast.unparse(w.body[0].value.func) == pf):
        raise TranslatorError("function.py: the with block does not consist of the single call of the traced function")
    # every other call of the traced function would run unmocked / outside the restore
    calls = [n for n in ast.walk(fn) if isinstance(n, ast.Call) and ast.unparse(n.func) == pf]
    if len(calls) != 1:
        raise TranslatorError(f"function.py: the traced function is called {len(calls)} times in trace_function")
    return ("(* tracing/function.py: `with " + ", ".join(items) + f"({pf}): <single call of {pf}>` *)\n"
            "Definition with_items : list string := [" + "; ".join(_cs(x) for x in items) + "].\n"
            "Definition traced_call_inside_mock : bool := true.\n")


def state_shape(state_path: Path) -> str:
    """set_tracing_state: `token = _STATE.set(state); yield; _STATE.reset(token)` — records
    whether the reset is protected by try/finally (it is not in 0.21.6)."""
    mod = parse_file(state_path)
    fn = find_func(mod, "set_tracing_state")
    protected = any(isinstance(n, ast.Try) and n.finalbody and any("reset" in ast.unparse(x) for x in n.finalbody) for n in ast.walk(fn))
    resets = sum(1 for n in ast.walk(fn) if isinstance(n, ast.Call) and ast.unparse(n.func).endswith(".reset"))
    if resets != 1:
        raise TranslatorError("state.py: set_tracing_state does not reset the ContextVar exactly once")
    return f"Definition tracing_state_reset_in_finally : bool := {'true' if protected else 'false'}.\n"
