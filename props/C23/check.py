"""C23 — comptime tracing leaves the user's module untouched.
Tie: T (translator, regenerated every run) + translator validation + X (real compile()).

1. regenerate coq/C23/GenMock.v from tracing/builtins_mock.py (body of mock_builtins),
   tracing/function.py (where it is applied) and tracing/state.py (fail-closed);
2. re-check coq/C23/Props.v against it;
3. direct: random namespaces (with/without user bindings of int/float/len, arbitrary order,
   sometimes already holding a mock object) and random nesting trees of traces / exception
   points / handlers are run (a) through /repo's real mock_builtins on synthetic functions,
   (b) through the generated Coq definition (vm_compute), (c) against the property
   (namespace identical afterwards, exception iff the tree raises); all three compared, also
   the namespace the with-body sees;
4. scenarios: generated modules with @guppy.comptime functions (succeeding, raising Python /
   Guppy errors at the k-th traced operation, wrong return type, leaking a qubit, calling
   each other within and across modules, re-entering compile() while being traced), with
   every combination of user-level bindings of int/float/len; module __dict__ snapshots
   (names, identities, order) around every compile()."""
import json

import vlib
from vlib import proof_coverage

LEVEL = "proof"
T = "tracing/"
NAMES = ["int", "float", "len"]


def generate(ctx):
    import tr_mock
    ctx.gen("GenMock.v", tr_mock.translate(ctx.int_src(T + "builtins_mock.py"), ctx.int_src(T + "function.py"),
                                           ctx.int_src(T + "state.py")))


def mock_names(ctx):
    """Keys of the first dict display in mock_builtins (independent of the translator's
    success: used to aim the search when the translator fails closed)."""
    import ast
    mod = ast.parse(ctx.int_src(T + "builtins_mock.py").read_text())
    for n in ast.walk(mod):
        if isinstance(n, ast.FunctionDef) and n.name == "mock_builtins":
            for d in ast.walk(n):
                if isinstance(d, ast.Dict) and all(isinstance(k, ast.Constant) and isinstance(k.value, str) for k in d.keys):
                    return [k.value for k in d.keys]
    return list(NAMES)


# ---------------------------------------------------------------------------------------
# direct cases


def gen_tree(r, nmods, depth, budget):
    items = []
    for _ in range(r.randint(0, 3 if depth else 4)):
        if budget[0] <= 0:
            break
        budget[0] -= 1
        x = r.random()
        if x < 0.55 and depth < 4:
            items.append(["trace", r.randrange(nmods), gen_tree(r, nmods, depth + 1, budget)])
        elif x < 0.75:
            items.append(["raise"])
        elif depth < 4:
            items.append(["catch", gen_tree(r, nmods, depth + 1, budget)])
    return items


def gen_direct(r, mocks):
    nmods = r.choice([1, 1, 2, 3])
    pool = ["__name__", "__builtins__", "x", "f", "g", "abs", "LOG", "print"] + mocks + mocks
    mods, uid = [], 0
    for _ in range(nmods):
        ks = []
        for k in r.sample(pool, r.randint(0, len(pool))):
            if k not in ks:
                ks.append(k)
        mod = []
        for k in ks:
            if k in mocks and r.random() < 0.12:
                mod.append([k, -1 - r.randrange(len(mocks))])      # already bound to a mock object
            else:
                mod.append([k, uid])
                uid += 1
        mods.append(mod)
    tree = gen_tree(r, nmods, 0, [r.choice([3, 8, 16])])
    if not any(i[0] == "trace" for i in tree):
        tree.insert(0, ["trace", 0, gen_tree(r, nmods, 1, [4])])
    return {"modules": mods, "tree": tree}


def probes(mocks):
    """Exhaustive small cases: every subset of the mocked names bound by the user, one trace
    that succeeds / raises / nests."""
    out = []
    for mask in range(2 ** len(mocks)):
        mod = [["__name__", 0]] + [[m, 10 + i] for i, m in enumerate(mocks) if mask >> i & 1] + [["f", 1]]
        for tree in ([["trace", 0, []]], [["trace", 0, [["raise"]]]], [["trace", 0, [["trace", 0, []]]]],
                     [["trace", 0, [["catch", [["trace", 0, [["raise"]]]]]]]]):
            out.append({"modules": [mod], "tree": tree})
    return out


def spec_direct(case):
    """The property: namespaces afterwards identical; ends by an exception iff the tree says so."""
    def raises(items):
        for it in items:
            if it[0] == "raise":
                return True
            if it[0] == "trace" and raises(it[2]):
                return True
        return False
    return {"final": case["modules"], "ended": "Exception" if raises(case["tree"]) else None}


def reached(tree, nmods):
    """(m, nesting count of traces on m including this one) for every trace whose body starts."""
    out, depth = [], [0] * nmods

    def walk(items):
        for it in items:
            if it[0] == "raise":
                return True
            if it[0] == "trace":
                depth[it[1]] += 1
                out.append((it[1], depth[it[1]]))
                r = walk(it[2])
                depth[it[1]] -= 1
                if r:
                    return True
            elif it[0] == "catch":
                walk(it[1])
        return False
    walk(tree)
    return out


def coq_ns(mod):
    return "[" + "; ".join(f'("{k}", {"VUser " + str(c) if c >= 0 else "VMock (nth " + str(-1 - c) + " mock_names EmptyString)"})' for k, c in mod) + "]"


def coq_tree(items):
    out = "INil"
    for it in reversed(items):
        t = "IRaise" if it[0] == "raise" else f"(ITrace {it[1]} {coq_tree(it[2])})" if it[0] == "trace" else f"(ICatch {coq_tree(it[1])})"
        out = f"(ICons {t} {out})"
    return out


def coq_cases(cases):
    lines = ["From Coq Require Import ZArith List String Bool.", "From V.C23 Require Import ModelBase GenMock Model.",
             "Import ListNotations. Open Scope string_scope. Open Scope list_scope.",
             "Fixpoint idx (n : string) (l : list string) (i : Z) : Z := match l with [] => 999999%Z | h :: t => if String.eqb h n then i else idx n t (i + 1)%Z end.",
             "Definition encv (v : value) : Z := match v with VUser i => i | VMock n => (- 1 - idx n mock_names 0)%Z end.",
             "Definition encns (d : ns) : list (string * Z) := map (fun kv => (fst kv, encv (snd kv))) d.",
             "Definition enc (r : mstate * outcome) : list (list (string * Z)) * Z := (map encns (fst r), match snd r with None => 0%Z | Some _ => 1%Z end).",
             "Definition seen (s : mstate) (mk : nat * nat) : list (string * Z) := encns (Nat.iter (snd mk) (fun g => d_update g mock_lit) (getm (fst mk) s)).",
             "Definition cases : list ((list (list (string * Z)) * Z) * list (list (string * Z))) := ["]
    items = []
    for c in cases:
        st = "[" + "; ".join(coq_ns(m) for m in c["modules"]) + "]"
        rs = "[" + "; ".join(f"({m}, {k})%nat" for m, k in reached(c["tree"], len(c["modules"]))) + "]"
        items.append(f"(enc (run_items {coq_tree(c['tree'])} {st}), map (seen {st}) {rs})")
    lines.append(";\n".join(items) + "].")
    lines.append("Eval vm_compute in cases.")
    return "\n".join(lines)


def direct_script(case, mocks):
    """Stand-alone replay of a direct case on the real mock_builtins."""
    L = ["import repo_shim, types", "import guppylang_internals.tracing.builtins_mock as bm", "from guppylang_internals.tracing.builtins_mock import mock_builtins",
         f"MOCKS = {mocks!r}", "objs = {}",
         "def val(c): return getattr(bm, MOCKS[-1 - c]) if c < 0 else objs.setdefault(c, object())",
         f"mods = {case['modules']!r}", "dicts = [{k: val(c) for k, c in m} for m in mods]",
         "funcs = [types.FunctionType((lambda: None).__code__, d) for d in dicts]",
         "before = [list(d.items()) for d in dicts]", "try:"]

    def emit(items, ind):
        pad = "    " * ind
        if not items:
            L.append(pad + "pass")
        for it in items:
            if it[0] == "raise":
                L.append(pad + "raise RuntimeError('injected')")
            elif it[0] == "trace":
                L.append(f"{pad}with mock_builtins(funcs[{it[1]}]):")
                emit(it[2], ind + 1)
            else:
                L.append(pad + "try:")
                emit(it[1], ind + 1)
                L.append(pad + "except Exception: pass")
    emit(case["tree"], 1)
    L += ["except Exception as e: print('history left by', type(e).__name__)",
          "after = [list(d.items()) for d in dicts]",
          "for m, (b, a) in enumerate(zip(before, after)):",
          "    same = len(a) == len(b) and all(k1 == k2 and v1 is v2 for (k1, v1), (k2, v2) in zip(b, a))",
          "    print('module', m, 'unchanged' if same else 'CHANGED: before %r after %r' % ([k for k, _ in b], [k for k, _ in a]))"]
    return "\n".join(L)


# ---------------------------------------------------------------------------------------
# scenarios (real compile)

OPS = {"int": ["y = y + 1", "y = y * 2", "y = y - x", "y = -y", "y = int(y)", "y = y + int(float(y))"],
       # a user object bound to `int` cannot serve as a type annotation: such modules use bool
       "bool": ["y = y & x", "y = y | x", "y = y ^ x", "z = int(y)", "z = float(int(y))", "y = y ^ y"]}


def gen_module(r, name, other, nfuncs, other_funcs):
    bind = {}
    for n in NAMES:
        bind[n] = r.choice([None, None, "builtin", "custom"])
    top = [n for n in NAMES if bind[n] and r.random() < 0.5]
    src = ["import builtins", "from guppylang import guppy", "from guppylang.std.quantum import qubit",
           "import guppylang_internals.tracing.builtins_mock as _bm"]
    if other:
        src.append(f"import {other} as other")
    src += ["LOG = []", "class _UserObj:", "    def __call__(self, *a): return 0", ""]

    def binding(n):
        return f"{n} = builtins.{n}" if bind[n] == "builtin" else f"{n} = _UserObj()"
    src += [binding(n) for n in top]
    src += ["def _probe(tag):", "    g = globals()",
            "    LOG.append((tag, [[n, n in g, g.get(n) is getattr(_bm, n, None)] for n in ('int', 'float', 'len')]))", ""]
    funcs = []
    ty = "bool" if bind["int"] == "custom" else "int"
    ops, plus = OPS[ty], ("|" if ty == "bool" else "+")
    for i in range(nfuncs):
        fn = f"f{i}"
        kind = r.choice(["ok", "ok", "pyraise", "guppyerr", "wrongret", "leak", "calls", "calls", "reent", "reent"])
        body = [f"    _probe('{fn}')", "    y = x"]
        k = r.randint(0, 4)
        body += ["    " + r.choice(ops) for _ in range(k)]
        targets = [f"f{j}" for j in range(i)] + [f"other.{g}" for g in other_funcs]
        if kind in ("calls", "reent") and not targets:
            kind = "ok"
        if kind == "pyraise":
            body.append("    raise ValueError('boom')")
        elif kind == "guppyerr":
            body.append(f"    y = y {plus} 'a'")
        elif kind == "wrongret":
            body.append("    return 1.5")
        elif kind == "leak":
            body.append("    q = qubit()")
        elif kind == "calls":
            for t in r.sample(targets, min(len(targets), r.randint(1, 2))):
                body.append(f"    y = y {plus} {t}(x)")
        elif kind == "reent":
            for t in r.sample(targets, min(len(targets), r.randint(1, 2))):
                if r.random() < 0.6:
                    body += ["    try:", f"        {t}.compile()", "    except BaseException as e:",
                             f"        LOG.append(('caught in {fn}', type(e).__name__))"]
                else:
                    body.append(f"    {t}.compile()")
            body.append(f"    _probe('{fn} after re-entrant compile')")
        if kind != "wrongret":
            body += ["    " + r.choice(ops) for _ in range(r.randint(0, 2))] + ["    return y"]
        src += ["@guppy.comptime", f"def {fn}(x: {ty}) -> {ty}:"] + body + [""]
        funcs.append((fn, kind))
    src += [binding(n) for n in NAMES if bind[n] and n not in top]
    return "\n".join(src) + "\n", funcs, bind


def gen_scenario(r, idx):
    two = r.random() < 0.5
    mods, steps = [], []
    n1 = f"c23_s{idx}_m1"
    f1 = []
    if two:
        s1, f1, b1 = gen_module(r, n1, None, r.randint(1, 3), [])
        mods.append({"name": n1, "source": s1, "bindings": b1, "funcs": f1})
    n0 = f"c23_s{idx}_m0"
    s0, f0, b0 = gen_module(r, n0, n1 if two else None, r.randint(2, 5), [f for f, _ in f1])
    mods.append({"name": n0, "source": s0, "bindings": b0, "funcs": f0})
    allf = [(m["name"], f) for m in mods for f, _ in m["funcs"]]
    for _ in range(r.randint(2, 6)):
        steps.append(list(r.choice(allf)))
    return {"modules": mods, "steps": steps}


# ---------------------------------------------------------------------------------------


def run(ctx):
    terr = None
    try:
        generate(ctx)
        info = ctx.coq_props()
    except vlib.TranslatorError as e:
        terr = str(e)
        info = {"ok": False, "failed": f"translator failed closed: {e}", "log": f"Error: translator: {e}",
                "obligations": 1, "discharged": 0, "theorems": [], "axioms": []}
    mocks = mock_names(ctx)
    r = vlib.rng(ctx.seed, "C23")
    direct = []
    for p in sorted((ctx.dir / "corpus").glob("direct*.json")):
        direct += json.loads(p.read_text())
    direct += probes(mocks)
    n_fixed = len(direct)
    n_direct, n_scen = (500, 30) if ctx.quick else (4000, 250)
    direct += [gen_direct(r, mocks) for _ in range(n_direct)]
    scen = []
    for p in sorted((ctx.dir / "corpus").glob("scenario*.json")):
        scen += json.loads(p.read_text())
    scen += [gen_scenario(r, i) for i in range(n_scen)]
    payload = {"scratch": str(ctx.scratch), "mock_names": mocks, "direct": direct,
               "scenarios": [{"modules": [{"name": m["name"], "source": m["source"]} for m in s["modules"]], "steps": s["steps"]} for s in scen]}
    impl = json.loads(ctx.impl("impl_tracing.py", payload))
    # ---- model side
    model = None
    d = vlib.COQ / "C23"
    built = all((d / f"{n}.vo").exists() and (d / f"{n}.vo").stat().st_mtime >= (d / f"{n}.v").stat().st_mtime for n in ("ModelBase", "GenMock", "Model"))
    if terr is None and (info["ok"] or built):
        try:
            chunks = [direct[i:i + 400] for i in range(0, len(direct), 400)]
            outs = ctx.coq_eval_many({f"cases{i}": coq_cases(c) for i, c in enumerate(chunks)})
            model = []
            for i in range(len(chunks)):
                model += vlib.parse_coq_values(outs[f"cases{i}"])[0]
        except Exception as e:  # noqa: BLE001
            model = None
            ctx.notes.append(f"model evaluation failed: {str(e)[:600]}")
    # ---- direct: impl vs property, impl vs model
    spec_bad, model_bad, nontrivial, shadowed = [], 0, set(), 0
    for j, c in enumerate(direct):
        it = impl["direct"][j]
        sp = spec_direct(c)
        key = json.dumps(c, sort_keys=True)
        if any(k in mocks for m in c["modules"] for k, _ in m) and it["seen"]:
            nontrivial.add(key)
        shadowed += sum(1 for m, ns in it["seen"] for k, code in ns if k in mocks and code < 0)
        if it["final"] != sp["final"] or it["ended"] != sp["ended"]:
            spec_bad.append((c, it, sp))
        if model is not None and j < len(model):
            mfinal, mraised, mseen = model[j]   # Coq prints ((a, b), c) as (a, b, c)
            mfinal = [[list(kv) for kv in ns] for ns in mfinal]
            mseen = [[list(kv) for kv in ns] for ns in mseen]
            iseen = [ns for _, ns in it["seen"]]
            if mfinal != it["final"] or bool(mraised) != (it["ended"] is not None) or mseen != iseen:
                model_bad += 1
                if model_bad <= 3:
                    ctx.report("model-mismatch:" + key, "correspondence", "generated Coq definition vs real mock_builtins",
                               {"case": c, "impl": it, "model_final": mfinal, "model_raised": mraised, "model_seen": mseen,
                                "replay_script": direct_script(c, mocks)})
    spec_bad.sort(key=lambda x: len(json.dumps(x[0])))
    for c, it, sp in spec_bad[:2]:
        ctx.report("spec-direct:" + json.dumps(c, sort_keys=True), "counterexample",
                   "mock_builtins does not leave the namespace as it was" + ("" if info["ok"] else f" (and the proof side is broken: {info['failed']})"),
                   {"namespaces_before": c["modules"], "nesting": c["tree"], "namespaces_after(/repo)": it["final"], "ended(/repo)": it["ended"],
                    "expected": sp, "value_codes": ">=0 user object, -(1+i) mock object " + str(mocks),
                    "replay_script": direct_script(c, mocks),
                    "replay": "save replay_script as r.py; PYTHONPATH=/verif/tools:<repo>/guppylang/src:<repo>/guppylang-internals/src /venv/bin/python r.py"})
    # ---- scenarios
    scen_bad, steps_total, ended_hist, probes_seen, probes_mocked, leaks = 0, 0, {}, 0, 0, 0
    scen_nontrivial = set()
    for s, res in zip(scen, impl["scenarios"]):
        if "import_error" in res:
            ctx.notes.append(f"scenario import error: {res['import_error']}")
            continue
        for st in res["steps"]:
            steps_total += 1
            ended_hist[str(st["ended"])] = ended_hist.get(str(st["ended"]), 0) + 1
            leaks += 1 if st["tracing_active_after"] else 0
            for mlog in st["log"]:
                for ent in mlog[1:]:
                    if len(ent) == 2 and isinstance(ent[1], list):
                        probes_seen += 1
                        if all(x[1] and x[2] for x in ent[1] if x[0] in mocks):
                            probes_mocked += 1
            if st["log"]:
                scen_nontrivial.add(json.dumps([s["modules"][0]["source"], st["step"]]))
            if not st["unchanged"]:
                scen_bad += 1
                if scen_bad <= 2:
                    ctx.report("scenario:" + json.dumps([[m["source"] for m in s["modules"]], s["steps"]]), "counterexample",
                               f"module namespace changed by compile() of {st['step']}",
                               {"modules": {m["name"]: m["source"] for m in s["modules"]}, "steps": s["steps"], "failing_step": st["step"],
                                "ended": st["ended"], "difference": st["diff"],
                                "replay": "write the modules to a directory D; under `import repo_shim` with D on sys.path import them, run the steps `<module>.<func>.compile()` (catching exceptions) and compare list(module.__dict__.items()) before/after"})
    if probes_seen and probes_mocked != probes_seen:
        ctx.notes.append(f"{probes_seen - probes_mocked} of {probes_seen} in-trace probes did not see all mocks installed")
    if not all(impl["mock_objects_found"]):
        ctx.report("mock-objects", "correspondence", "mock table names are not attributes of builtins_mock", {"names": mocks, "found": impl["mock_objects_found"]})
    if not info["ok"] and not ctx.violations:
        ctx.report("proof-broken:" + str(info["failed"]), "proof-broken", str(info["failed"]),
                   {"coq_error": vlib.CoqResult(False, info["log"]).error_excerpt(),
                    "searched": f"{len(direct)} direct histories on the real mock_builtins and {steps_total} real compile() steps all leave the namespaces unchanged"},
                   found_input=False)
    kinds = {}
    for s in scen:
        for m in s["modules"]:
            for _, k in m.get("funcs", []):
                kinds[k] = kinds.get(k, 0) + 1
    bind_hist = {}
    for s in scen:
        for m in s["modules"]:
            b = ",".join(f"{n}={m['bindings'][n]}" for n in NAMES) if "bindings" in m else "corpus"
            bind_hist[b] = bind_hist.get(b, 0) + 1
    cov = proof_coverage(
        info, "make -f Makefile.C23 C23/Props.vo && coqc C23/Props.v (Print Assumptions)",
        ["Coq 8.16.1 kernel (vm_compute in examples and case files)",
         "props/C23/tr_mock.py: reading of dict display / dict comprehension / dict.update / for+if+del / try-finally / yield in a @contextmanager as the state-passing term of GenMock.v; coq/C23/ModelBase.v: Python dict semantics (insertion order, KeyError) — validated against the real mock_builtins on every direct case",
         "coq/C23/Model.v: what can happen inside the with block (exception points, handlers, nested traces of the same or other modules); user code that itself rebinds globals during tracing is outside the model",
         "tools/repo_shim.py for compile(); not modelled: the rest of trace_function/compile (observed through __dict__ snapshots only); set_tracing_state's ContextVar is not part of the module namespace (its missing try/finally is reported in NOTES.md, not here)"],
        evaluations=len(direct) + steps_total, distinct_nontrivial=len(nontrivial) + len(scen_nontrivial),
        rule="direct: probes (every subset of user-bound mocked names x 4 tiny trees) + seeded random 1-3 namespaces (random subset/order of 14 names, 12% of mocked names pre-bound to a mock object) x random nesting trees (depth<=4, budget 3/8/16); non-trivial = distinct case with at least one user binding of a mocked name and at least one trace body reached. scenarios: generated modules (1-2 modules, 1-5 comptime functions of kinds ok/pyraise/guppyerr/wrongret/leak/calls/reent, user bindings none/builtin/custom per name, placed before or after the functions), 2-6 compile() steps; non-trivial = distinct (module, step) whose trace really ran (in-trace probe logged)",
        traces_validated_against_impl=len(direct) if model is not None else 0,
        direct_cases={"corpus_and_probes": n_fixed, "random": n_direct}, scenarios=len(scen), compile_steps=steps_total,
        compile_outcomes=ended_hist, function_kinds=kinds, binding_histogram=bind_hist,
        in_trace_probes=probes_seen, in_trace_probes_all_mocked=probes_mocked, shadowed_bindings_seen_in_direct=shadowed,
        steps_leaving_tracing_state_set=leaks, model_disagreements=model_bad, spec_disagreements=len(spec_bad), scenario_violations=scen_bad,
        samples=[{"direct_case": direct[n_fixed] if len(direct) > n_fixed else direct[0], "impl": impl["direct"][n_fixed if len(direct) > n_fixed else 0]},
                 {"scenario_module": scen[-1]["modules"][-1]["source"], "steps": scen[-1]["steps"], "result": impl["scenarios"][-1]}] if scen else [{"direct_case": direct[0]}],
        notes=ctx.notes)
    return ctx.finish(LEVEL, cov, ["the traced function's body does not itself rebind or delete module globals named int/float/len while it runs",
                                   "single-threaded tracing (f.__globals__ is shared mutable state)",
                                   "__warningregistry__ (added by Python's warnings machinery) is ignored in snapshots"])
