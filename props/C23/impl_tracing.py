"""Implementation side for C23.  stdin JSON:
  {"scratch": dir, "mock_names": [...],
   "direct": [{"modules": [[[key, code], ...], ...], "tree": [...]}, ...],
   "scenarios": [{"modules": [{"name": str, "source": str}, ...], "steps": [[module_name, func_name], ...]}, ...]}

direct:    runs /repo's real `mock_builtins` context manager on synthetic functions whose
           __globals__ are the given dicts, nested as the tree says
           (["raise"] | ["trace", m, [...]] | ["catch", [...]]), and reports the final dicts, how
           the history ended, and each dict as the body of its with block saw it.
           value codes: >= 0 a distinct user object, -(1+i) the mock object named mock_names[i].
scenarios: writes the given modules, imports them and compile()s the named @guppy.comptime
           functions one after the other; snapshots every module's __dict__ (names, object
           identities, order) before and after each step."""
import importlib
import json
import sys
import types
import warnings

warnings.simplefilter("ignore")
import repo_shim  # noqa: E402,F401
import guppylang_internals.tracing.builtins_mock as bm  # noqa: E402
from guppylang_internals.tracing.builtins_mock import mock_builtins  # noqa: E402
from guppylang_internals.tracing.state import tracing_active, reset_state  # noqa: E402

inp = json.load(sys.stdin)
scratch = inp["scratch"]
sys.path.insert(0, scratch)
MOCKS = inp["mock_names"]
mock_objs = [getattr(bm, n, None) for n in MOCKS]
out = {"mock_objects_found": [o is not None for o in mock_objs], "direct": [], "scenarios": []}


class Boom(Exception):
    pass


def run_direct(case):
    users = {}

    def val(code):
        if code < 0:
            return mock_objs[-1 - code]
        return users.setdefault(code, type("U", (), {"code": code})())

    dicts = [{k: val(c) for k, c in mod} for mod in case["modules"]]
    funcs = [types.FunctionType((lambda: None).__code__, d) for d in dicts]

    def enc(d):
        res = []
        for k, v in d.items():
            c = 999999
            for i, m in enumerate(mock_objs):
                if v is m:
                    c = -1 - i
            if c == 999999 and getattr(v, "code", None) is not None and users.get(v.code) is v:
                c = v.code
            res.append([k, c])
        return res

    seen = []

    def run(items):
        for it in items:
            if it[0] == "raise":
                raise Boom()
            if it[0] == "trace":
                with mock_builtins(funcs[it[1]]):
                    seen.append([it[1], enc(dicts[it[1]])])
                    run(it[2])
            elif it[0] == "catch":
                try:
                    run(it[1])
                except Exception:  # noqa: BLE001
                    pass

    ended = None
    try:
        run(case["tree"])
    except Boom:
        ended = "Exception"
    except Exception as e:  # noqa: BLE001
        ended = type(e).__name__
    return {"final": [enc(d) for d in dicts], "ended": ended, "seen": seen}


for case in inp["direct"]:
    out["direct"].append(run_direct(case))


# ---------------------------------------------------------------------------------------
IGNORED_KEYS = {"__warningregistry__"}


def snapshot(mods):
    return [[(k, v) for k, v in m.__dict__.items() if k not in IGNORED_KEYS] for m in mods]


def same(a, b):
    return len(a) == len(b) and all(
        len(x) == len(y) and all(k1 == k2 and v1 is v2 for (k1, v1), (k2, v2) in zip(x, y)) for x, y in zip(a, b))


def diff(a, b, names):
    res = []
    for n, x, y in zip(names, a, b):
        kx, ky = [k for k, _ in x], [k for k, _ in y]
        dx, dy = dict(x), dict(y)
        res.append({"module": n, "missing": [k for k in kx if k not in dy], "added": [k for k in ky if k not in dx],
                    "rebound": [k for k in kx if k in dy and dx[k] is not dy[k]],
                    "reordered": kx != ky and sorted(kx) == sorted(ky)})
    return res


for sc in inp["scenarios"]:
    reset_state()
    mods, names = [], []
    for m in sc["modules"]:
        with open(f"{scratch}/{m['name']}.py", "w") as fh:
            fh.write(m["source"])
    importlib.invalidate_caches()
    try:
        for m in sc["modules"]:
            mods.append(importlib.import_module(m["name"]))
            names.append(m["name"])
    except Exception as e:  # noqa: BLE001
        out["scenarios"].append({"import_error": f"{type(e).__name__}: {e}"[:300], "steps": []})
        continue
    steps = []
    for mname, fname in sc["steps"]:
        mod = mods[names.index(mname)]
        for m in mods:
            m.LOG.clear()
        before = snapshot(mods)
        try:
            getattr(mod, fname).compile()
            ended = None
        except BaseException as e:  # noqa: BLE001
            ended = type(e).__name__
        after = snapshot(mods)
        ok = same(before, after)
        log = [[n] + [list(x) for x in m.LOG] for n, m in zip(names, mods) if m.LOG]
        steps.append({"step": [mname, fname], "ended": ended, "unchanged": ok,
                      "diff": None if ok else diff(before, after, names),
                      "log": log, "tracing_active_after": bool(tracing_active())})
    out["scenarios"].append({"steps": steps})
json.dump(out, sys.stdout)
