(** C12 — Part 5: calls to generic functions (`type_check_args` / `synthesize_call`). *)
From Coq Require Import ZArith NArith List Bool Lia Arith.
From V.C12 Require Import Ty Unify Proofs Proofs2 Proofs3 Proofs4.
Import ListNotations.

(** closed = no inference variable (synthesised argument types) *)
Definition closedt (t : ty) : Prop := vars t = [].
Definition closedsb (sb : subst) : Prop := forall x w, lookup sb x = Some w -> closedt w.

(** no explicitly stored comptime args below (so that `substitute` is the plain homomorphism) *)
Fixpoint plain (t : ty) : bool :=
  match t with
  | Ex _ => true
  | Nd h a =>
      match h with HFun f _ => Nat.eqb (length a) (S (length f)) | _ => true end && forallb plain a
  end.

Lemma flat_map_nil {A B} (f : A -> list B) l : flat_map f l = [] -> forall x, In x l -> f x = [].
Proof.
  induction l as [|a l IH]; simpl; intros H x []; apply app_eq_nil in H; destruct H; subst; auto.
Qed.

Lemma closed_arg h a u : closedt (Nd h a) -> In u a -> closedt u.
Proof. unfold closedt. simpl. intros H Hu. eapply flat_map_nil; eauto. Qed.

Lemma inst_closed th : forall t, closedt t -> inst th t = t.
Proof.
  induction t as [x|h a IH] using ty_ind'; intros C. discriminate C.
  simpl. f_equal. rewrite Forall_forall in IH.
  assert (forall u, In u a -> inst th u = u) by (intros u Hu; apply IH; auto; eapply closed_arg; eauto).
  clear IH C. induction a as [|u a IHa]; simpl; auto. f_equal. apply H; left; auto. apply IHa. intros; apply H; right; auto.
Qed.

Lemma lookup_app (s1 s2 : subst) x :
  lookup (s1 ++ s2) x = match lookup s1 x with Some w => Some w | None => lookup s2 x end.
Proof. induction s1 as [|[y t] s1 IH]; simpl; auto. destruct (N.eqb x y); auto. Qed.

(* ---- `app` on plain types is the plain homomorphism *)
Lemma app_go_full (F : ty -> ty) : forall a k, length a <= k ->
  (fix go (k : nat) (a : list ty) {struct a} : list ty :=
     match k, a with S k', u :: a' => F u :: go k' a' | _, _ => [] end) k a = map F a.
Proof. induction a as [|u a IH]; intros [|k] H; simpl in *; auto; try lia. f_equal. apply IH. lia. Qed.

Lemma app_plain sb h a : plain (Nd h a) = true -> app sb (Nd h a) = Nd h (map (app sb) a).
Proof.
  simpl. intros H. apply andb_true_iff in H. destruct H as [H _]. destruct h; auto.
  apply Nat.eqb_eq in H. f_equal. apply (app_go_full (app sb)). lia.
Qed.

Lemma plain_arg h a u : plain (Nd h a) = true -> In u a -> plain u = true.
Proof.
  simpl. intros H Hu. apply andb_true_iff in H. destruct H as [_ H]. rewrite forallb_forall in H. auto.
Qed.

Lemma app_sol pr th sb : sol pr th sb -> forall i, plain i = true -> eqv pr th (app sb i) i.
Proof.
  intros Hs. induction i as [x|h a IH] using ty_ind'; intros P.
  - unfold eqv. simpl. destruct (lookup sb x) as [w|] eqn:L.
    + symmetry. apply (Hs _ _ L).
    + reflexivity.
  - rewrite app_plain by auto. unfold eqv. simpl. f_equal. rewrite Forall_forall in IH.
    assert (H : forall u, In u a -> er pr (inst th (app sb u)) = er pr (inst th u)).
    { intros u Hu. apply IH; auto. eapply plain_arg; eauto. }
    clear IH P. induction a as [|u a IHa]; simpl; auto. f_equal. apply H; left; auto. apply IHa. intros; apply H; right; auto.
Qed.

Lemma app_vars_unsolved sb : closedsb sb -> forall i, plain i = true ->
  forall y, In y (vars (app sb i)) -> lookup sb y = None /\ In y (vars i).
Proof.
  intros C. induction i as [x|h a IH] using ty_ind'; intros P y.
  - simpl. destruct (lookup sb x) as [w|] eqn:L.
    + intros Hy. rewrite (C _ _ L) in Hy. destruct Hy.
    + intros [<-|[]]. split; auto; left; auto.
  - rewrite app_plain by auto. simpl. intros Hy. apply in_flat_map in Hy. destruct Hy as [u' [Hu' Hy]].
    apply in_map_iff in Hu'. destruct Hu' as [u [<- Hu]]. rewrite Forall_forall in IH.
    destruct (IH u Hu (plain_arg _ _ _ P Hu) y Hy). split; auto. apply in_flat_map. eauto.
Qed.

Lemma app_vars_keep sb : forall i, plain i = true -> forall x, In x (vars i) -> lookup sb x = None -> In x (vars (app sb i)).
Proof.
  induction i as [y|h a IH] using ty_ind'; intros P x.
  - intros [<-|[]] L. simpl. rewrite L. left; auto.
  - rewrite app_plain by auto. simpl. intros Hx L. apply in_flat_map in Hx. destruct Hx as [u [Hu Hx]].
    rewrite Forall_forall in IH. apply in_flat_map. exists (app sb u). split. apply in_map; auto.
    apply IH; auto. eapply plain_arg; eauto.
Qed.

(* ---- unify against a closed type: all variables of the other side get closed solutions *)
Definition bind_spec (rec : ty -> ty -> subst -> outcome) :=
  forall s t sb sb', rec s t sb = Unifier sb' -> closedt t -> closedsb sb ->
    closedsb sb' /\ (forall x, lookup sb x <> None -> lookup sb' x <> None) /\
    forall x, In x (vars s) -> lookup sb' x <> None.

Lemma unify_list_bind rec a : bind_spec rec -> forall b sb sb',
  unify_list rec a b sb = Unifier sb' -> (forall v, In v b -> closedt v) -> closedsb sb ->
  closedsb sb' /\ (forall x, lookup sb x <> None -> lookup sb' x <> None) /\
  forall u x, In u a -> In x (vars u) -> lookup sb' x <> None.
Proof.
  intros IH. induction a as [|u a IHa]; intros [|v b] sb sb'; simpl; try discriminate.
  - intros [= <-] _ C. repeat split; auto; intros u x [].
  - destruct (rec u v sb) as [| |s1] eqn:R; try discriminate. intros H Cb C.
    destruct (IH _ _ _ _ R (Cb v (or_introl eq_refl)) C) as [C1 [M1 B1]].
    destruct (IHa _ _ _ H (fun w Hw => Cb w (or_intror Hw)) C1) as [C2 [M2 B2]].
    split; auto. split; auto. intros u' x [<-|Hu'] Hx. apply M2, B1; auto. eapply B2; eauto.
Qed.

Lemma unify_bind n : bind_spec (unify n).
Proof.
  induction n as [|n IH]; intros s t sb sb'; simpl; [discriminate|].
  destruct t as [y|h2 a2]; [intros _ Ct; destruct s; discriminate Ct|].
  destruct s as [x|h1 a1].
  - unfold unify_var. destruct (lookup sb x) as [u|] eqn:Lx.
    + intros H Ct C. destruct (IH _ _ _ _ H Ct C) as [C1 [M1 B1]]. split; auto. split; auto.
      intros z [<-|[]]. apply M1. congruence.
    + destruct (occ n sb x (vars (Nd h2 a2))) as [[|]|]; try discriminate.
      intros [= <-] Ct C. split; [|split].
      * intros z w. simpl. destruct (N.eqb z x). intros [= <-]; auto. apply C.
      * intros z Hz. simpl. destruct (N.eqb z x); auto. discriminate.
      * intros z [<-|[]]. rewrite lookup_cons_eq. discriminate.
  - destruct (compat h1 a1 h2 a2); [|discriminate]. unfold unify_args.
    destruct (Nat.eqb (length a1) (length a2)); [|discriminate]. intros H Ct C.
    destruct (unify_list_bind _ _ IH _ _ _ H (fun v Hv => closed_arg _ _ _ Ct Hv) C) as [C1 [M1 B1]].
    split; auto. split; auto. intros x Hx. simpl in Hx. apply in_flat_map in Hx. destruct Hx as [u [Hu Hx]]. eauto.
Qed.

(* ---- new bindings are for variables of the universe *)
Definition domU (U : list N) (sb : subst) := forall x w, lookup sb x = Some w -> In x U.
Definition dom_spec U (rec : ty -> ty -> subst -> outcome) :=
  forall s t sb sb', rec s t sb = Unifier sb' -> inU U s -> inU U t -> closed U sb -> domU U sb -> domU U sb'.

Lemma unify_list_dom U rec a : dom_spec U rec -> ext_spec U rec -> forall b sb sb',
  unify_list rec a b sb = Unifier sb' ->
  (forall u, In u a -> inU U u) -> (forall u, In u b -> inU U u) -> closed U sb -> domU U sb -> domU U sb'.
Proof.
  intros IH IHe. induction a as [|u a IHa]; intros [|v b] sb sb'; simpl; try discriminate.
  - intros [= <-]; auto.
  - destruct (rec u v sb) as [| |s1] eqn:R; try discriminate. intros H Ha Hb C D.
    destruct (IHe _ _ _ _ R C (Ha _ (or_introl eq_refl)) (Hb _ (or_introl eq_refl))) as [C1 _].
    eapply IHa; eauto. eapply IH; eauto.
Qed.

Lemma unify_var_dom U rec n x t sb sb' : dom_spec U rec ->
  unify_var rec n x t sb = Unifier sb' -> In x U -> inU U t -> closed U sb -> domU U sb -> domU U sb'.
Proof.
  intros IH. unfold unify_var. destruct (lookup sb x) as [u|] eqn:Lx.
  - intros H Hx Ht C D. eapply IH; eauto.
  - destruct (match t with Ex y => lookup sb y | Nd _ _ => None end) as [u|] eqn:Lt.
    + intros H Hx Ht C D. destruct t as [y|]; [|discriminate]. eapply IH; eauto. intros v [<-|[]]; auto.
    + destruct (occ n sb x (vars t)) as [[|]|]; try discriminate. intros [= <-] Hx _ _ D z w. simpl.
      destruct (N.eqb_spec z x). subst; auto. apply D.
Qed.

Lemma unify_dom U n : dom_spec U (unify n).
Proof.
  induction n as [|n IH]; intros s t sb sb'; simpl; [discriminate|].
  destruct s as [x|h1 a1], t as [y|h2 a2].
  - destruct (N.eqb x y). intros [= <-]; auto. intros H Hs Ht. eapply unify_var_dom; eauto. apply Hs; left; auto.
  - intros H Hs Ht. eapply unify_var_dom; eauto. apply Hs; left; auto.
  - intros H Hs Ht. eapply unify_var_dom; eauto. apply Ht; left; auto.
  - destruct (compat h1 a1 h2 a2); [|discriminate]. unfold unify_args.
    destruct (Nat.eqb (length a1) (length a2)); [|discriminate].
    intros H Hs Ht. eapply unify_list_dom; eauto using unify_ext; intros u Hu;
      [apply (inU_arg U h1 a1 u Hs Hu) | apply (inU_arg U h2 a2 u Ht Hu)].
Qed.

(* ---------------------------------------------------------------- type_check_args *)
(** the argument type `a` fits the instantiated parameter type: identical (up to the flags unify
    ignores), or a numeric widening of it *)
Definition fits (th : asg) (i a : ty) : Prop :=
  same (inst th i) a \/ exists u, same (inst th i) u /\ widen a u = true.

Lemma check_arg_cases n e a s' : check_arg n e a = Unifier s' ->
  unify n e a [] = Unifier s' \/ (s' = [] /\ widen a e = true).
Proof.
  unfold check_arg. destruct (unify n e a []) as [| |s1]; try discriminate.
  - destruct (widen a e); [|discriminate]. intros [= <-]. auto.
  - intros [= <-]. auto.
Qed.

Lemma widen_closed a e : widen a e = true -> closedt e.
Proof. destruct a as [|[] [|]], e as [|[] [|]]; simpl; try discriminate. reflexivity. Qed.

Lemma fwd_args n : forall ins acts sb sbF, check_args n ins acts sb = Unifier sbF ->
  closedsb sb -> Forall (fun i => plain i = true) ins -> Forall closedt acts ->
  closedsb sbF /\ (forall x w, lookup sb x = Some w -> lookup sbF x = Some w) /\
  (forall i x, In i ins -> In x (vars i) -> lookup sbF x <> None) /\
  forall th, sol pr_flags th sbF -> Forall2 (fits th) ins acts.
Proof.
  induction ins as [|i ins IH]; intros [|a acts] sb sbF; simpl; try discriminate.
  - intros [= <-] C _ _. repeat split; auto; intros i x [].
  - destruct (check_arg n (app sb i) a) as [| |s'] eqn:CA; try discriminate.
    intros H C Pi Ca. inversion Pi as [|? ? Pi1 Pi2]; subst. inversion Ca as [|? ? Ca1 Ca2]; subst.
    destruct (check_arg_cases _ _ _ _ CA) as [U|[-> Wd]].
    + assert (C0 : closedsb []) by (intros x w; discriminate).
      destruct (unify_bind n _ _ _ _ U Ca1 C0) as [C1 [_ B1]].
      assert (D : domU (vars (app sb i)) s').
      { apply (unify_dom (vars (app sb i)) n _ _ _ _ U).
        - intros v Hv; auto. - intros v Hv. rewrite Ca1 in Hv. destruct Hv.
        - intros x w; discriminate. - intros x w; discriminate. }
      assert (Dj : forall x w, lookup s' x = Some w -> lookup sb x = None).
      { intros x w L. apply (app_vars_unsolved sb C i Pi1 x). eapply D; eauto. }
      assert (C2 : closedsb (s' ++ sb)).
      { intros x w. rewrite lookup_app. destruct (lookup s' x) eqn:L. intros [= <-]. eapply C1; eauto. apply C. }
      assert (M1 : forall x w, lookup sb x = Some w -> lookup (s' ++ sb) x = Some w).
      { intros x w L. rewrite lookup_app. destruct (lookup s' x) eqn:L'; auto. rewrite (Dj _ _ L') in L. discriminate. }
      destruct (IH _ _ _ H C2 Pi2 Ca2) as [CF [MF [BF SF]]].
      split; auto. split; [intros; auto|]. split.
      * intros i0 x [<-|Hi] Hx; [|eapply BF; eauto].
        destruct (lookup sb x) as [w|] eqn:L.
        { rewrite (MF _ _ (M1 _ _ L)). discriminate. }
        pose proof (B1 x (app_vars_keep sb i Pi1 x Hx L)) as B.
        destruct (lookup s' x) as [w|] eqn:L'; [|congruence].
        assert (L2 : lookup (s' ++ sb) x = Some w) by (rewrite lookup_app, L'; auto).
        rewrite (MF _ _ L2). discriminate.
      * intros th S. constructor; auto.
        assert (S1 : sol pr_flags th (s' ++ sb)) by (intros x w L; apply S; auto).
        assert (Ss : sol pr_flags th s').
        { intros x w L. apply S1. rewrite lookup_app, L. auto. }
        assert (Sb : sol pr_flags th sb) by (intros x w L; apply S1; auto).
        destruct (proj1 (result_char n _ _ _ _ th U) Ss) as [_ E].
        left. unfold same in *. rewrite (inst_closed th a Ca1) in E. rewrite <- E.
        symmetry. apply (app_sol pr_flags th sb Sb i Pi1).
    + simpl in H. destruct (IH _ _ _ H C Pi2 Ca2) as [CF [MF [BF SF]]].
      split; auto. split; auto. split.
      * intros i0 x [<-|Hi] Hx; [|eapply BF; eauto].
        destruct (lookup sb x) as [w|] eqn:L. { rewrite (MF _ _ L). discriminate. }
        exfalso. pose proof (app_vars_keep sb i Pi1 x Hx L) as K. rewrite (widen_closed _ _ Wd) in K. destruct K.
      * intros th S. constructor; auto.
        assert (Sb : sol pr_flags th sb) by (intros x w L; apply S; auto).
        right. exists (app sb i). split; auto. unfold same.
        rewrite <- (inst_closed th (app sb i) (widen_closed _ _ Wd)).
        symmetry. apply (app_sol pr_flags th sb Sb i Pi1).
Qed.

Lemma solves_nil th : solves th [].
Proof. intros x w; discriminate. Qed.

Lemma bwd_args th : forall ins acts, Forall2 (fun i a => inst th i = a) ins acts ->
  forall sb, solves th sb -> closedsb sb -> Forall (fun i => plain i = true) ins -> Forall closedt acts ->
  exists n sbF, (forall m, n <= m -> check_args m ins acts sb = Unifier sbF) /\ solves th sbF.
Proof.
  induction 1 as [|i a ins acts E _ IH]; intros sb S C Pi Ca.
  - exists 0, sb. split; auto.
  - inversion Pi as [|? ? Pi1 Pi2]; subst. inversion Ca as [|? ? Ca1 Ca2]; subst.
    assert (E1 : inst th (app sb i) = inst th (inst th i)).
    { pose proof (app_sol (fun h => h) th sb (solves_sol _ _ S) i Pi1) as A. unfold eqv in A. rewrite !er_id in A.
      rewrite A. symmetry. apply inst_closed. auto. }
    assert (exists n1 s', forall m, n1 <= m -> unify m (app sb i) (inst th i) [] = Unifier s') as [n1 [s' H1]].
    { destruct (unify_total [] (app sb i) (inst th i) wfs_nil) as [n1 [r [Hr H1]]]. destruct r as [| |s'].
      - congruence.
      - exfalso. apply (complete_main n1 _ _ [] th (solves_nil th) E1). apply H1. lia.
      - exists n1, s'. exact H1. }
    assert (S' : solves th s').
    { apply (keep_exact n1 _ _ _ _ th (H1 n1 (le_n _)) (solves_nil th) E1). }
    assert (C0 : closedsb []) by (intros x w; discriminate).
    destruct (unify_bind n1 _ _ _ _ (H1 n1 (le_n _)) Ca1 C0) as [C1 _].
    destruct (IH (s' ++ sb)) as [n2 [sbF [H2 SF]]]; auto.
    { intros x w. rewrite lookup_app. destruct (lookup s' x) eqn:L. intros [= <-]. apply (S' _ _ L). apply S. }
    { intros x w. rewrite lookup_app. destruct (lookup s' x) eqn:L. intros [= <-]. eapply C1; eauto. apply C. }
    exists (max n1 n2), sbF. split; auto. intros m Hm. simpl. unfold check_arg. rewrite H1 by lia. apply H2. lia.
Qed.

Lemma check_arg_mono n m e a : done (check_arg n e a) -> n <= m -> check_arg m e a = check_arg n e a.
Proof.
  unfold check_arg. intros D Hm. destruct (unify n e a []) as [| |s1] eqn:U.
  - exfalso. apply D. reflexivity.
  - rewrite (unify_mono' n m), U by (rewrite ?U; unfold done; try discriminate; auto). auto.
  - rewrite (unify_mono' n m), U by (rewrite ?U; unfold done; try discriminate; auto). auto.
Qed.

Lemma check_args_mono n m : n <= m -> forall ins acts sb, done (check_args n ins acts sb) ->
  check_args m ins acts sb = check_args n ins acts sb.
Proof.
  intros Hm. induction ins as [|i ins IH]; intros [|a acts] sb; simpl; auto.
  intros D. destruct (check_arg n (app sb i) a) as [| |s1] eqn:CA.
  - exfalso. apply D. reflexivity.
  - rewrite (check_arg_mono n m), CA by (rewrite ?CA; unfold done; try discriminate; auto). auto.
  - rewrite (check_arg_mono n m), CA by (rewrite ?CA; unfold done; try discriminate; auto). auto.
Qed.

(* ---------------------------------------------------------------- synthesize_call *)
Definition covers (params : list N) (ins : list ty) := forall x, In x params -> exists i, In i ins /\ In x (vars i).

Lemma read_inst_some sb params l : read_inst sb params = Some l ->
  l = map (fun x => match lookup sb x with Some w => w | None => Ex x end) params /\
  forall x, In x params -> exists w, lookup sb x = Some w /\ bound_ok x w = true.
Proof.
  revert l. induction params as [|x r IH]; simpl; intros l.
  - intros [= <-]. split; auto. intros x [].
  - destruct (lookup sb x) as [w|] eqn:L; [|discriminate]. destruct (read_inst sb r) as [l'|]; [|discriminate].
    destruct (bound_ok x w) eqn:B; [|discriminate]. intros [= <-]. destruct (IH _ eq_refl) as [-> H].
    split; auto. intros z [<-|Hz]; eauto.
Qed.

Lemma read_inst_complete sb th params : (forall x, In x params -> lookup sb x = Some (th x) /\ bound_ok x (th x) = true) ->
  read_inst sb params = Some (map th params).
Proof.
  induction params as [|x r IH]; simpl; intros H; auto.
  destruct (H x (or_introl eq_refl)) as [L B]. rewrite L, IH, B; auto.
Qed.

Lemma call_accept_main th params ins acts :
  Forall (fun i => plain i = true) ins -> Forall closedt acts -> covers params ins ->
  Forall2 (fun i a => inst th i = a) ins acts -> (forall x, In x params -> bound_ok x (th x) = true) ->
  exists n, forall m, n <= m -> synth_call m params ins acts = CallAccepted (map th params).
Proof.
  intros Pi Ca Cv F B.
  assert (C0 : closedsb []) by (intros x w; discriminate).
  destruct (bwd_args th ins acts F [] (solves_nil th) C0 Pi Ca) as [n [sbF [H S]]].
  exists n. intros m Hm. unfold synth_call. rewrite (H m Hm).
  destruct (fwd_args m _ _ _ _ (H m Hm) C0 Pi Ca) as [CF [_ [BF _]]].
  rewrite (read_inst_complete sbF th); auto. intros x Hx. split; auto.
  destruct (Cv x Hx) as [i [Hi Hxi]]. pose proof (BF i x Hi Hxi) as Hb.
  destruct (lookup sbF x) as [w|] eqn:L; [|congruence]. f_equal.
  rewrite (S _ _ L). symmetry. apply inst_closed. eapply CF; eauto.
Qed.

Lemma call_sound_main n params ins acts l :
  Forall (fun i => plain i = true) ins -> Forall closedt acts ->
  synth_call n params ins acts = CallAccepted l ->
  exists th, l = map th params /\ Forall2 (fits th) ins acts /\ forall x, In x params -> bound_ok x (th x) = true.
Proof.
  intros Pi Ca. unfold synth_call. destruct (check_args n ins acts []) as [| |sbF] eqn:H; try discriminate.
  destruct (read_inst sbF params) as [l'|] eqn:R; [|discriminate]. intros [= <-].
  assert (C0 : closedsb []) by (intros x w; discriminate).
  destruct (fwd_args n _ _ _ _ H C0 Pi Ca) as [CF [_ [_ SF]]].
  destruct (read_inst_some _ _ _ R) as [-> Hb].
  set (th := fun x => match lookup sbF x with Some w => w | None => Ex x end).
  exists th. split; auto. split.
  - apply SF. intros x w L. unfold eqv. simpl. unfold th at 1. rewrite L. rewrite (inst_closed th w); auto. eapply CF; eauto.
  - intros x Hx. destruct (Hb x Hx) as [w [L B]]. unfold th. rewrite L. auto.
Qed.

Lemma call_reject_main n params ins acts th :
  Forall (fun i => plain i = true) ins -> Forall closedt acts -> covers params ins ->
  synth_call n params ins acts = CallRejected ->
  ~ (Forall2 (fun i a => inst th i = a) ins acts /\ forall x, In x params -> bound_ok x (th x) = true).
Proof.
  intros Pi Ca Cv R [F B]. destruct (call_accept_main th params ins acts Pi Ca Cv F B) as [n0 H0].
  specialize (H0 (max n n0) ltac:(lia)). unfold synth_call in *.
  assert (D : done (check_args n ins acts [])).
  { unfold done. destruct (check_args n ins acts []); try discriminate. }
  rewrite (check_args_mono n (max n n0) ltac:(lia) _ _ _ D) in H0.
  rewrite H0 in R. discriminate.
Qed.
