(** Guppy types and constants (guppylang_internals/tys/{ty,const,arg,var}.py), reusable.

    Representation.  `/repo` gives every non-variable type a list `.args` of `Argument`s
    (ParametrizedTypeBase.args; FunctionType.args = inputs ++ [output] ++ comptime_args) and
    all generic algorithms (`unify`/`_unify_args`, `Substituter`, `unsolved_vars`) work on
    that list.  The model keeps exactly that shape: a type/const/argument is either an
    existential variable or a node `Nd head args`, where `head` carries the data of the
    Python class that is not itself a type (kind, de Bruijn index, definition id, input
    flags, params).  Smart constructors below give the familiar Guppy constructors.

    Conventions that make ids self-describing (the generator of the tie follows them, and
    `/repo` itself guarantees that an id determines its variable / a definition its flags):
      existential id  = 8*k + (is_const) + 2*(copyable) + 4*(droppable)
      definition id   = 4*k + (never_copyable) + 2*(never_droppable)
    Not modelled (all `compare=False` or ignored by `unify`): display names, input names,
    `preserve`, `unitary_flags`, the `ty` of a const (the generator only builds nat consts).
    NO proofs in this file (see TyFacts.v). *)
From Coq Require Import ZArith NArith List Bool.
Import ListNotations.

Inductive numkind := KNat | KInt | KFloat.

Inductive head :=
| HNum (k : numkind)                      (* NumericType(kind) *)
| HNone                                   (* NoneType *)
| HBoundT (idx : N) (copy drop : bool)    (* BoundTypeVar(idx, copyable, droppable) *)
| HTuple                                  (* TupleType; args = [TypeArg el ...] *)
| HFun (flags : list N) (params : list N) (* FunctionType: one InputFlags value per input; params as opaque codes;
                                             args = [TypeArg in ...] ++ [TypeArg out] ++ comptime ConstArgs *)
| HOpaque (d : N)                         (* OpaqueType(defn); bool / string / array / list / option / qubit ... *)
| HStruct (d : N)                         (* StructType(defn) *)
| HArgT                                   (* TypeArg(ty): exactly one child *)
| HArgC                                   (* ConstArg(const): exactly one child *)
| HCVal (v : Z)                           (* ConstValue(value) *)
| HCBound (idx : N).                      (* BoundConstVar(idx) *)

Inductive ty :=
| Ex (id : N)                             (* ExistentialTypeVar / ExistentialConstVar *)
| Nd (h : head) (args : list ty).

(* ---- smart constructors ------------------------------------------------------------ *)
Definition argT (t : ty) : ty := Nd HArgT [t].
Definition argC (c : ty) : ty := Nd HArgC [c].
Definition TNum (k : numkind) : ty := Nd (HNum k) [].
Definition TNone : ty := Nd HNone [].
Definition TBound (i : N) (c d : bool) : ty := Nd (HBoundT i c d) [].
Definition TTuple (ts : list ty) : ty := Nd HTuple (map argT ts).
Definition TFun (ins : list (ty * N)) (out : ty) (params : list N) (cargs : list ty) : ty :=
  Nd (HFun (map snd ins) params) (map argT (map fst ins) ++ [argT out] ++ map argC cargs).
Definition TOpaque (d : N) (args : list ty) : ty := Nd (HOpaque d) args.
Definition TStruct (d : N) (args : list ty) : ty := Nd (HStruct d) args.
Definition CVal (v : Z) : ty := Nd (HCVal v) [].
Definition CBound (i : N) : ty := Nd (HCBound i) [].

Definition bool_def : N := 0.     (* copyable, droppable *)
Definition string_def : N := 4.
Definition list_def : N := 8.
Definition array_def : N := 13.   (* never copyable *)
Definition option_def : N := 16.
Definition qubit_def : N := 23.   (* never copyable, never droppable *)
Definition TBool := TOpaque bool_def [].
Definition TString := TOpaque string_def [].

(* ---- id conventions ---------------------------------------------------------------- *)
Definition ex_is_const (id : N) : bool := N.testbit id 0.
Definition ex_copy (id : N) : bool := N.testbit id 1.
Definition ex_drop (id : N) : bool := N.testbit id 2.
Definition def_never_copy (d : N) : bool := N.testbit d 0.
Definition def_never_drop (d : N) : bool := N.testbit d 1.

(* ---- boolean equality --------------------------------------------------------------- *)
Definition numkind_eqb (a b : numkind) : bool :=
  match a, b with KNat, KNat | KInt, KInt | KFloat, KFloat => true | _, _ => false end.

Fixpoint listN_eqb (a b : list N) : bool :=
  match a, b with
  | [], [] => true
  | x :: a', y :: b' => N.eqb x y && listN_eqb a' b'
  | _, _ => false
  end.

Definition head_eqb (a b : head) : bool :=
  match a, b with
  | HNum k, HNum l => numkind_eqb k l
  | HNone, HNone | HTuple, HTuple | HArgT, HArgT | HArgC, HArgC => true
  | HBoundT i c d, HBoundT j e f => N.eqb i j && Bool.eqb c e && Bool.eqb d f
  | HFun f p, HFun g q => listN_eqb f g && listN_eqb p q
  | HOpaque d, HOpaque e | HStruct d, HStruct e => N.eqb d e
  | HCVal v, HCVal w => Z.eqb v w
  | HCBound i, HCBound j => N.eqb i j
  | _, _ => false
  end.

Fixpoint ty_eqb (s t : ty) {struct s} : bool :=
  match s, t with
  | Ex x, Ex y => N.eqb x y
  | Nd h a, Nd g b =>
      head_eqb h g &&
      (fix go (a b : list ty) {struct a} : bool :=
         match a, b with
         | [], [] => true
         | x :: a', y :: b' => ty_eqb x y && go a' b'
         | _, _ => false
         end) a b
  | _, _ => false
  end.

(* ---- measures and variables ---------------------------------------------------------- *)
Fixpoint vars (t : ty) : list N :=          (* `unsolved_vars` (as a list, duplicates kept) *)
  match t with
  | Ex x => [x]
  | Nd _ a => flat_map vars a
  end.

Fixpoint size (t : ty) : nat :=
  match t with
  | Ex _ => 1
  | Nd _ a => S (list_sum (map size a))
  end.

(* ---- copyable / droppable / linear (TypeBase.copyable etc.) --------------------------- *)
Fixpoint copyable (t : ty) : bool :=
  match t with
  | Ex x => ex_copy x
  | Nd h a =>
      match h with
      | HBoundT _ c _ => c
      | HOpaque d | HStruct d => negb (def_never_copy d) && forallb copyable a
      | HTuple | HArgT => forallb copyable a
      | _ => true                         (* numeric, None, functions, const args, consts *)
      end
  end.

Fixpoint droppable (t : ty) : bool :=
  match t with
  | Ex x => ex_drop x
  | Nd h a =>
      match h with
      | HBoundT _ _ d => d
      | HOpaque d | HStruct d => negb (def_never_drop d) && forallb droppable a
      | HTuple | HArgT => forallb droppable a
      | _ => true
      end
  end.

Definition linear (t : ty) : bool := negb (copyable t) && negb (droppable t).

(* ---- sort discipline (what /repo's constructors and asserts guarantee) ---------------- *)
Fixpoint type_args_then_const_args (n : nat) (a : list ty) {struct a} : bool :=
  match a with
  | [] => match n with O => true | _ => false end
  | Nd HArgT _ :: a' => match n with O => false | S n' => type_args_then_const_args n' a' end
  | Nd HArgC _ :: a' => match n with O => type_args_then_const_args O a' | _ => false end
  | _ => false
  end.

(* `wf true t`: t is a Type; `wf false t`: t is a Const *)
Fixpoint wf (is_ty : bool) (t : ty) {struct t} : bool :=
  match t with
  | Ex x => Bool.eqb (negb (ex_is_const x)) is_ty
  | Nd h a =>
      let wf_arg (u : ty) : bool :=
        match u with
        | Nd HArgT [v] => wf true v
        | Nd HArgC [c] => wf false c
        | _ => false
        end in
      let no_args := match a with [] => true | _ => false end in
      match h with
      | HNum _ | HNone | HBoundT _ _ _ => is_ty && no_args
      | HCVal _ | HCBound _ => negb is_ty && no_args
      | HTuple => is_ty && forallb wf_arg a && type_args_then_const_args (length a) a
      | HFun f _ => is_ty && forallb wf_arg a && type_args_then_const_args (S (length f)) a
      | HOpaque _ | HStruct _ => is_ty && forallb wf_arg a
      | HArgT | HArgC => false              (* arguments only occur directly under a node *)
      end
  end.
