(** C12 — Part 3: the property-level lemmas (soundness w.r.t. sigma*, completeness, mgu). *)
From Coq Require Import ZArith NArith List Bool Lia Arith.
From V.C12 Require Import Ty Unify Proofs Proofs2.
Import ListNotations.

(** what `unify` does not always look at: input flags (their number stays; they are compared
    exactly when both input types are non-copyable) and bound-variable flags *)
Definition pr_flags (h : head) : head :=
  match h with
  | HBoundT i _ _ => HBoundT i false false
  | HFun f p => HFun (map (fun _ => 0%N) f) p
  | _ => h
  end.
(** identity of two types up to those flags *)
Definition same (u v : ty) : Prop := er pr_flags u = er pr_flags v.

Lemma numkind_eqb_eq a b : numkind_eqb a b = true <-> a = b.
Proof. destruct a, b; simpl; split; congruence. Qed.
Lemma listN_eqb_eq a : forall b, listN_eqb a b = true <-> a = b.
Proof.
  induction a as [|x a IH]; intros [|y b]; simpl; split; try congruence.
  - intros H. apply andb_true_iff in H. destruct H as [H1 H2]. apply N.eqb_eq in H1. apply IH in H2. congruence.
  - intros [= -> ->]. rewrite N.eqb_refl. apply IH. auto.
Qed.
Lemma map_const_len {A} (f g : list A) (c : N) : length f = length g -> map (fun _ => c) f = map (fun _ => c) g.
Proof. revert g. induction f; intros [|? g]; simpl; try congruence. intros [= H]. f_equal. auto. Qed.

Lemma compat_pr_flags h1 a1 h2 a2 : compat h1 a1 h2 a2 = true -> pr_flags h1 = pr_flags h2.
Proof.
  destruct h1, h2; simpl; try discriminate; auto; intros H.
  - apply numkind_eqb_eq in H. congruence.
  - apply N.eqb_eq in H. congruence.
  - apply andb_true_iff in H. destruct H as [H _]. apply andb_true_iff in H. destruct H as [H1 H2].
    apply listN_eqb_eq in H1. apply Nat.eqb_eq in H2. subst. f_equal. apply map_const_len. auto.
  - apply N.eqb_eq in H. congruence.
  - apply N.eqb_eq in H. congruence.
  - apply Z.eqb_eq in H. congruence.
  - apply N.eqb_eq in H. congruence.
Qed.

Lemma flags_ok_refl f : forall a1 a2, flags_ok f a1 f a2 = true.
Proof.
  induction f as [|x f IH]; intros [|u a1] [|v a2]; simpl; auto.
  rewrite N.eqb_refl. simpl. rewrite andb_false_r. simpl. apply IH.
Qed.

Lemma incompat_id h1 a1 h2 a2 : compat h1 a1 h2 a2 = false -> (fun h : head => h) h1 <> (fun h : head => h) h2.
Proof.
  intros H E. simpl in E. subst h2. destruct h1; simpl in H; try discriminate.
  - assert (numkind_eqb k k = true) by (apply numkind_eqb_eq; auto). congruence.
  - rewrite N.eqb_refl in H. discriminate.
  - assert (listN_eqb params params = true) by (apply listN_eqb_eq; auto).
    rewrite H0, Nat.eqb_refl, flags_ok_refl in H. discriminate.
  - rewrite N.eqb_refl in H. discriminate.
  - rewrite N.eqb_refl in H. discriminate.
  - rewrite Z.eqb_refl in H. discriminate.
  - rewrite N.eqb_refl in H. discriminate.
Qed.

Lemma er_id t : er (fun h => h) t = t.
Proof.
  induction t as [x|h a IH] using ty_ind'; simpl; auto. f_equal.
  induction IH; simpl; auto. rewrite H, IHIH. auto.
Qed.

(** an assignment th satisfies the prior solution sb exactly *)
Definition solves (th : asg) (sb : subst) : Prop := forall x w, lookup sb x = Some w -> th x = inst th w.

Lemma solves_sol th sb : solves th sb -> sol (fun h => h) th sb.
Proof. intros H x w L. unfold eqv. rewrite !er_id. simpl. auto. Qed.

(* ---------------------------------------------------------------- soundness *)
Lemma sound_main n s t sb sb' : wfs sb -> unify n s t sb = Unifier sb' ->
  wfs sb' /\ (exists d, sb' = d ++ sb) /\
  exists m u v, resolve m sb' s = Some u /\ resolve m sb' t = Some v /\ same u v.
Proof.
  intros W H. destruct (unify_pres n _ _ _ _ H W) as [W' Hext]. split; auto. split; auto.
  destruct (resolve_cover sb' W' (vars s ++ vars t ++ allvars sb')) as [m Hm].
  assert (S' : sol pr_flags (star m sb') sb').
  { apply star_sol; auto. intros y Hy. apply Hm. apply in_or_app. right. apply in_or_app. auto. }
  destruct (unify_fwd pr_flags compat_pr_flags _ n _ _ _ _ H S') as [_ E].
  destruct (resolve_total sb' W' s) as [k1 [u Hu]]. destruct (resolve_total sb' W' t) as [k2 [v Hv]].
  exists (max k1 k2), u, v. split; [|split].
  - eapply resolve_mono; eauto. lia.
  - eapply resolve_mono; eauto. lia.
  - unfold same. rewrite (resolve_is_inst sb' m k1 s u Hu), (resolve_is_inst sb' m k2 t v Hv). exact E.
    + intros y Hy. apply Hm. apply in_or_app. right. apply in_or_app. auto.
    + intros y Hy. apply Hm. apply in_or_app. auto.
Qed.

(* ---------------------------------------------------------------- completeness (no false None) *)
Lemma complete_main n s t sb th : solves th sb -> inst th s = inst th t -> unify n s t sb <> NoUnifier.
Proof.
  intros Hs He H. apply (unify_none (fun h => h) incompat_id th n _ _ _ H (solves_sol _ _ Hs)).
  unfold eqv. rewrite He. reflexivity.
Qed.

(** exact solutions are kept as well (used for calls) *)
Lemma keep_exact n s t sb sb' th : unify n s t sb = Unifier sb' -> solves th sb -> inst th s = inst th t -> solves th sb'.
Proof.
  intros H Hs He x w L.
  pose proof (unify_bwd (fun h => h) th n _ _ _ _ H (solves_sol _ _ Hs)) as B.
  assert (E : eqv (fun h => h) th s t) by (unfold eqv; rewrite He; reflexivity).
  specialize (B E x w L). unfold eqv in B. rewrite !er_id in B. exact B.
Qed.

(* ---------------------------------------------------------------- most general *)
Lemma resolve_sol pr th sb : sol pr th sb -> forall m w u, resolve m sb w = Some u -> eqv pr th u w.
Proof.
  intros Hs. induction m as [|m IH]; intros w u; simpl; [discriminate|].
  destruct w as [x|h a].
  - destruct (lookup sb x) as [w'|] eqn:L.
    + intros H. specialize (IH _ _ H). unfold eqv in *. rewrite IH. symmetry. apply (Hs _ _ L).
    + intros [= <-]. reflexivity.
  - destruct (opt_list (map (resolve m sb) a)) as [l|] eqn:O; [|discriminate].
    simpl. intros [= <-]. apply opt_list_some in O. unfold eqv. simpl. f_equal.
    induction O as [|w v a l Hw _ IHO]; simpl; auto. f_equal; auto. apply (IH _ _ Hw).
Qed.

Lemma mgu_main n s t sb sb' th : unify n s t sb = Unifier sb' ->
  sol pr_flags th sb -> same (inst th s) (inst th t) ->
  sol pr_flags th sb' /\ forall m w u, resolve m sb' w = Some u -> same (inst th u) (inst th w).
Proof.
  intros H Hs He. assert (S' : sol pr_flags th sb') by (eapply unify_bwd; eauto).
  split; auto. intros m w u R. apply (resolve_sol pr_flags th sb' S' m w u R).
Qed.

(** and conversely every solution of the result unifies the inputs and solves the prior substitution *)
Lemma result_char n s t sb sb' th : unify n s t sb = Unifier sb' ->
  (sol pr_flags th sb' <-> sol pr_flags th sb /\ same (inst th s) (inst th t)).
Proof.
  intros H. split.
  - intros S'. apply (unify_fwd pr_flags compat_pr_flags th n _ _ _ _ H S').
  - intros [Hs He]. eapply unify_bwd; eauto.
Qed.

(** the closure of the result is itself an assignment that satisfies the prior solution and
    makes the two sides identical (up to the flags unify ignores) *)
Lemma sound_asg n s t sb sb' : wfs sb -> unify n s t sb = Unifier sb' ->
  exists th, sol pr_flags th sb /\ same (inst th s) (inst th t).
Proof.
  intros W H. destruct (unify_pres n _ _ _ _ H W) as [W' _].
  destruct (resolve_cover sb' W' (allvars sb')) as [m Hm].
  exists (star m sb'). apply (result_char n s t sb sb' _ H). apply star_sol; auto.
Qed.
