(** C12 — lemmas about the model of coq/C12/Unify.v.
    Part 1: unification preserves the set of solutions (no acyclicity needed). *)
From Coq Require Import ZArith NArith List Bool Lia Arith.
From V.C12 Require Import Ty Unify.
Import ListNotations.

Lemma ty_ind' (P : ty -> Prop) :
  (forall x, P (Ex x)) -> (forall h a, Forall P a -> P (Nd h a)) -> forall t, P t.
Proof.
  intros HE HN. fix IH 1. intros [x|h a]. apply HE. apply HN.
  induction a; constructor; auto.
Qed.

(** assignments of types/consts to ALL inference variables, applied homomorphically *)
Definition asg := N -> ty.
Fixpoint inst (th : asg) (t : ty) : ty :=
  match t with Ex x => th x | Nd h a => Nd h (map (inst th) a) end.

Lemma size_pos t : 1 <= size t.
Proof. destruct t; simpl; lia. Qed.

Lemma size_inst_var th t v : In v (vars t) -> size (th v) <= size (inst th t).
Proof.
  induction t as [x|h a IH] using ty_ind'; simpl; intros Hin.
  - destruct Hin as [->|[]]. lia.
  - apply in_flat_map in Hin. destruct Hin as [u [Hu Hv]].
    rewrite Forall_forall in IH. specialize (IH u Hu Hv).
    clear Hv. induction a as [|w a IHa]; [destruct Hu|].
    simpl. destruct Hu as [->|Hu]. lia. specialize (IHa Hu). lia.
Qed.

Lemma size_inst_var_nd th h a v : In v (vars (Nd h a)) -> size (th v) < size (inst th (Nd h a)).
Proof.
  intros Hin. simpl in Hin. apply in_flat_map in Hin. destruct Hin as [u [Hu Hv]].
  pose proof (size_inst_var th u v Hv). simpl.
  clear Hv. induction a as [|w a IHa]; [destruct Hu|].
  simpl. destruct Hu as [->|Hu]. lia. specialize (IHa Hu). lia.
Qed.

Lemma lookup_cons_ne (s : subst) x y t : x <> y -> lookup ((y, t) :: s) x = lookup s x.
Proof. intros. simpl. destruct (N.eqb_spec x y); congruence. Qed.
Lemma lookup_cons_eq (s : subst) x t : lookup ((x, t) :: s) x = Some t.
Proof. simpl. now rewrite N.eqb_refl. Qed.

Section Sol.
  (** [pr] projects away the part of a head that identity is taken modulo *)
  Variable pr : head -> head.

  Fixpoint er (t : ty) : ty :=
    match t with Ex x => Ex x | Nd h a => Nd (pr h) (map er a) end.

  Lemma size_er t : size (er t) = size t.
  Proof.
    induction t as [x|h a IH] using ty_ind'; simpl; auto.
    f_equal. induction IH; simpl; [auto | rewrite H, IHIH; auto].
  Qed.

  Definition eqv (th : asg) (s t : ty) : Prop := er (inst th s) = er (inst th t).
  (** th solves the equations x = sb[x] *)
  Definition sol (th : asg) (sb : subst) : Prop :=
    forall x w, lookup sb x = Some w -> eqv th (Ex x) w.

  Definition eqvl th (a b : list ty) := map er (map (inst th) a) = map er (map (inst th) b).

  Lemma eqv_nd_inv th h1 a1 h2 a2 : eqv th (Nd h1 a1) (Nd h2 a2) -> pr h1 = pr h2 /\ eqvl th a1 a2.
  Proof. unfold eqv, eqvl. simpl. intros H. injection H. auto. Qed.

  Lemma sol_cons th sb x t : sol th sb -> eqv th (Ex x) t -> sol th ((x, t) :: sb).
  Proof.
    intros Hs He z w. simpl. destruct (N.eqb_spec z x).
    - intros [= <-]. subst. exact He.
    - apply Hs.
  Qed.

  Lemma sol_tail th sb x t : lookup sb x = None -> sol th ((x, t) :: sb) -> sol th sb.
  Proof.
    intros Hn Hs z w Hz. apply Hs. rewrite lookup_cons_ne; auto. congruence.
  Qed.

  (* ---------------------------------------------------------------- backward: solutions are kept *)
  Definition bwd_spec th (rec : ty -> ty -> subst -> outcome) :=
    forall s t sb sb', rec s t sb = Unifier sb' -> sol th sb -> eqv th s t -> sol th sb'.

  Lemma unify_var_bwd th rec n x t sb sb' :
    bwd_spec th rec -> unify_var rec n x t sb = Unifier sb' -> sol th sb -> eqv th (Ex x) t -> sol th sb'.
  Proof.
    intros IH. unfold unify_var. destruct (lookup sb x) as [u|] eqn:Lx.
    - intros H Hs He. eapply IH; eauto. unfold eqv in *. rewrite <- He. symmetry. apply (Hs _ _ Lx).
    - destruct (match t with Ex y => lookup sb y | Nd _ _ => None end) as [u|] eqn:Lt.
      + intros H Hs He. destruct t as [y|]; [|discriminate]. eapply IH; eauto.
        unfold eqv in *. rewrite He. apply (Hs _ _ Lt).
      + destruct (occ n sb x (vars t)) as [[|]|]; try discriminate.
        intros [= <-] Hs He. apply sol_cons; auto.
  Qed.

  Lemma unify_list_bwd th rec a : bwd_spec th rec ->
    forall b sb sb', unify_list rec a b sb = Unifier sb' -> sol th sb -> eqvl th a b -> sol th sb'.
  Proof.
    intros IH. induction a as [|x a IHa]; intros [|y b] sb sb'; simpl; try discriminate.
    - intros [= <-]. auto.
    - destruct (rec x y sb) as [| |s1] eqn:R; try discriminate.
      intros H Hs He. unfold eqvl in He. simpl in He. injection He as He1 He2.
      eapply IHa; eauto.
  Qed.

  Lemma unify_bwd th n : bwd_spec th (unify n).
  Proof.
    induction n as [|n IH]; intros s t sb sb'; simpl; [discriminate|].
    destruct s as [x|h1 a1], t as [y|h2 a2].
    - destruct (N.eqb_spec x y).
      + intros [= <-]. auto.
      + intros. eapply unify_var_bwd; eauto.
    - intros. eapply unify_var_bwd; eauto.
    - intros H Hs He. eapply unify_var_bwd; eauto. unfold eqv in *. auto.
    - destruct (compat h1 a1 h2 a2); [|discriminate]. unfold unify_args.
      destruct (Nat.eqb (length a1) (length a2)); [|discriminate].
      intros H Hs He. apply eqv_nd_inv in He. eapply unify_list_bwd; eauto. tauto.
  Qed.

  (* ---------------------------------------------------------------- forward: every solution of the result unifies *)
  Hypothesis compat_pr : forall h1 a1 h2 a2, compat h1 a1 h2 a2 = true -> pr h1 = pr h2.

  Definition fwd_spec th (rec : ty -> ty -> subst -> outcome) :=
    forall s t sb sb', rec s t sb = Unifier sb' -> sol th sb' -> sol th sb /\ eqv th s t.

  Lemma unify_var_fwd th rec n x t sb sb' :
    fwd_spec th rec -> unify_var rec n x t sb = Unifier sb' -> sol th sb' -> sol th sb /\ eqv th (Ex x) t.
  Proof.
    intros IH. unfold unify_var. destruct (lookup sb x) as [u|] eqn:Lx.
    - intros H Hs. destruct (IH _ _ _ _ H Hs) as [H1 H2]. split; auto.
      unfold eqv in *. rewrite <- H2. apply (H1 _ _ Lx).
    - destruct (match t with Ex y => lookup sb y | Nd _ _ => None end) as [u|] eqn:Lt.
      + intros H Hs. destruct t as [y|]; [|discriminate]. destruct (IH _ _ _ _ H Hs) as [H1 H2]. split; auto.
        unfold eqv in *. rewrite H2. symmetry. apply (H1 _ _ Lt).
      + destruct (occ n sb x (vars t)) as [[|]|]; try discriminate.
        intros [= <-] Hs. split. eapply sol_tail; eauto. apply Hs. apply lookup_cons_eq.
  Qed.

  Lemma unify_list_fwd th rec a : fwd_spec th rec ->
    forall b sb sb', unify_list rec a b sb = Unifier sb' -> sol th sb' -> sol th sb /\ eqvl th a b.
  Proof.
    intros IH. induction a as [|x a IHa]; intros [|y b] sb sb'; simpl; try discriminate.
    - intros [= <-]. split; auto. reflexivity.
    - destruct (rec x y sb) as [| |s1] eqn:R; try discriminate.
      intros H Hs. destruct (IHa _ _ _ H Hs) as [H1 H2]. destruct (IH _ _ _ _ R H1) as [H3 H4].
      split; auto. unfold eqvl in *. simpl. unfold eqv in H4. rewrite H4, H2. reflexivity.
  Qed.

  Lemma unify_fwd th n : fwd_spec th (unify n).
  Proof.
    induction n as [|n IH]; intros s t sb sb'; simpl; [discriminate|].
    destruct s as [x|h1 a1], t as [y|h2 a2].
    - destruct (N.eqb_spec x y).
      + intros [= <-]. subst. split; auto. reflexivity.
      + intros. eapply unify_var_fwd; eauto.
    - intros. eapply unify_var_fwd; eauto.
    - intros H Hs. destruct (unify_var_fwd _ _ _ _ _ _ _ IH H Hs). split; auto. unfold eqv in *. auto.
    - destruct (compat h1 a1 h2 a2) eqn:C; [|discriminate]. unfold unify_args.
      destruct (Nat.eqb (length a1) (length a2)); [|discriminate].
      intros H Hs. destruct (unify_list_fwd _ _ _ IH _ _ _ H Hs) as [H1 H2]. split; auto.
      unfold eqv, eqvl in *. simpl. rewrite (compat_pr _ _ _ _ C), H2. reflexivity.
  Qed.

  (* ---------------------------------------------------------------- failure: no solution unifies *)
  Hypothesis incompat_pr : forall h1 a1 h2 a2, compat h1 a1 h2 a2 = false -> pr h1 <> pr h2.

  Lemma occ_true_size th sb x n : sol th sb -> forall vs, occ n sb x vs = Some true ->
    exists v, In v vs /\ size (th x) <= size (th v).
  Proof.
    intros Hs. induction n as [|n IH]; intros vs; simpl; [discriminate|].
    destruct vs as [|v r]; [discriminate|].
    destruct (N.eqb_spec v x).
    - subst. intros _. exists x. split; [left; auto|lia].
    - destruct (lookup sb v) as [w|] eqn:Lv.
      + destruct (occ n sb x (vars w)) as [[|]|] eqn:O; try discriminate.
        * intros _. destruct (IH _ O) as [v' [Hin Hle]]. exists v. split; [left; auto|].
          pose proof (Hs _ _ Lv) as E. unfold eqv in E. apply (f_equal size) in E. rewrite !size_er in E.
          simpl in E. rewrite E. pose proof (size_inst_var th w v' Hin). lia.
        * intros H. destruct (IH _ H) as [v' [Hin Hle]]. exists v'. split; [right; auto|auto].
      + intros H. destruct (IH _ H) as [v' [Hin Hle]]. exists v'. split; [right; auto|auto].
  Qed.

  Definition none_spec th (rec : ty -> ty -> subst -> outcome) :=
    forall s t sb, rec s t sb = NoUnifier -> sol th sb -> ~ eqv th s t.

  Lemma unify_var_none th rec n x t sb :
    none_spec th rec -> unify_var rec n x t sb = NoUnifier -> sol th sb -> t <> Ex x -> ~ eqv th (Ex x) t.
  Proof.
    intros IH. unfold unify_var. destruct (lookup sb x) as [u|] eqn:Lx.
    - intros H Hs _ He. apply (IH _ _ _ H Hs). unfold eqv in *. rewrite <- He. symmetry. apply (Hs _ _ Lx).
    - destruct (match t with Ex y => lookup sb y | Nd _ _ => None end) as [u|] eqn:Lt.
      + intros H Hs _ He. destruct t as [y|]; [|discriminate]. apply (IH _ _ _ H Hs).
        unfold eqv in *. rewrite He. apply (Hs _ _ Lt).
      + destruct (occ n sb x (vars t)) as [[|]|] eqn:O; try discriminate.
        intros _ Hs Hne He. destruct (occ_true_size th sb x n Hs _ O) as [v [Hin Hle]].
        destruct t as [y|h a].
        * (* an unsolved variable different from x: the occurs check cannot fire *)
          destruct n; [discriminate|]. simpl in O, Lt. rewrite Lt in O.
          destruct (N.eqb_spec y x); [subst; congruence|]. destruct n; discriminate.
        * pose proof (size_inst_var_nd th h a v Hin) as Hlt.
          unfold eqv in He. apply (f_equal size) in He. rewrite !size_er in He. simpl in He, Hlt. lia.
  Qed.

  Lemma unify_list_none th rec a : none_spec th rec -> bwd_spec th rec ->
    forall b sb, unify_list rec a b sb = NoUnifier -> sol th sb -> ~ eqvl th a b.
  Proof.
    intros IH IHb. induction a as [|x a IHa]; intros [|y b] sb; simpl; try discriminate.
    destruct (rec x y sb) as [| |s1] eqn:R; try discriminate.
      + intros _ Hs He. unfold eqvl in He. simpl in He. injection He as He1 He2. apply (IH _ _ _ R Hs He1).
      + intros H Hs He. unfold eqvl in He. simpl in He. injection He as He1 He2.
        apply (IHa _ _ H (IHb _ _ _ _ R Hs He1) He2).
  Qed.

  Lemma unify_none th n : none_spec th (unify n).
  Proof.
    induction n as [|n IH]; intros s t sb; simpl; [discriminate|].
    destruct s as [x|h1 a1], t as [y|h2 a2].
    - destruct (N.eqb_spec x y); [discriminate|].
      intros. eapply unify_var_none; eauto. congruence.
    - intros. eapply unify_var_none; eauto. discriminate.
    - intros H Hs He. eapply unify_var_none; eauto. discriminate. unfold eqv in *. auto.
    - destruct (compat h1 a1 h2 a2) eqn:C.
      + unfold unify_args. destruct (Nat.eqb_spec (length a1) (length a2)) as [L|L].
        * intros H Hs He. apply eqv_nd_inv in He. eapply unify_list_none; eauto using unify_bwd. tauto.
        * intros _ _ He. apply eqv_nd_inv in He. destruct He as [_ He]. apply L.
          unfold eqvl in He. apply (f_equal (@length ty)) in He. now rewrite !map_length in He.
      + intros _ _ He. apply eqv_nd_inv in He. eapply incompat_pr; eauto. tauto.
  Qed.
End Sol.
