(** C12 — Type inference finds an instantiation exactly when one exists.

    All statements are about the executable model coq/C12/Unify.v (`unify`, `_unify_var`,
    `_occurs`, `_unify_args`, closure `resolve`) of guppylang_internals/tys/ty.py with
    props/C12/fix-1.patch applied; the model is tied to /repo by the differential harness of
    props/C12 on every run.  Vocabulary (defined in Proofs*.v, all independent of `unify`):
      wfs sb            the prior substitution is consistent: "x is solved by a term mentioning y"
                        is a well-founded relation (no variable depends on itself)
      inst th t         apply an assignment th : N -> ty of ALL inference variables to t
      solves th sb      th satisfies every equation x = sb[x] exactly
      same u v          u and v are identical up to what unify never inspects: ownership flags of
                        function inputs whose type is copyable on at least one side (flags are compared whenever
                        both input types are non-copyable: linear AND affine ones such as arrays) and the
                        copy/drop flags of bound variables
      sol pr_flags th sb   th satisfies every equation of sb up to `same`
      resolve m sb t    the idempotent closure sb* applied to t (None = fuel m too small)
    Fuel: `unify n` returns OutOfFuel when n is too small; `unify_terminates` shows that on
    consistent substitutions enough fuel always exists and the answer no longer depends on it. *)
From Coq Require Import ZArith NArith List Bool Lia.
From V.C12 Require Import Ty TyFacts Unify Proofs Proofs2 Proofs3 Proofs4 Proofs5.
Import ListNotations.

(* 0. the type language has decidable equality *)
Theorem ty_eqb_decides : forall s t, ty_eqb s t = true <-> s = t.
Proof. exact ty_eqb_spec. Qed.
Print Assumptions ty_eqb_decides.

(* 1. termination *)
Theorem unify_terminates : forall sb s t, wfs sb ->
  exists n r, r <> OutOfFuel /\ forall m, n <= m -> unify m s t sb = r.
Proof. intros sb s t W. exact (unify_total sb s t W). Qed.
Print Assumptions unify_terminates.

(* 2. soundness w.r.t. the idempotent closure: the result extends the prior solution, is again
      consistent, and resolving both sides through it gives the same type *)
Theorem unify_sound : forall n s t sb sb', wfs sb -> unify n s t sb = Unifier sb' ->
  wfs sb' /\ (exists d, sb' = d ++ sb) /\
  exists m u v, resolve m sb' s = Some u /\ resolve m sb' t = Some v /\ same u v.
Proof. exact sound_main. Qed.
Print Assumptions unify_sound.

(* 2b. ... hence success implies that an instantiation exists *)
Theorem unify_success_instance : forall n s t sb sb', wfs sb -> unify n s t sb = Unifier sb' ->
  exists th, sol pr_flags th sb /\ same (inst th s) (inst th t).
Proof. exact sound_asg. Qed.
Print Assumptions unify_success_instance.

(* 3. completeness: if some assignment extending the prior solution makes the two sides identical,
      unification succeeds (for every sufficiently large fuel, with one and the same answer) *)
Theorem unify_complete : forall s t sb, wfs sb ->
  (exists th, solves th sb /\ inst th s = inst th t) ->
  exists n sb', forall m, n <= m -> unify m s t sb = Unifier sb'.
Proof.
  intros s t sb W [th [Hs He]]. destruct (unify_total sb s t W) as [n [r [Hr Hn]]].
  destruct r as [| |sb'].
  - congruence.
  - exfalso. apply (complete_main n s t sb th Hs He). apply Hn. lia.
  - exists n, sb'. exact Hn.
Qed.
Print Assumptions unify_complete.

(* 3b. a `None` answer is never wrong *)
Theorem unify_none_correct : forall n s t sb, unify n s t sb = NoUnifier ->
  ~ exists th, solves th sb /\ inst th s = inst th t.
Proof. intros n s t sb H [th [Hs He]]. exact (complete_main n s t sb th Hs He H). Qed.
Print Assumptions unify_none_correct.

(* 4. most general: every assignment that satisfies the prior solution and unifies the two sides
      satisfies the returned substitution, and therefore factors through its closure
      (th o sb'* = th);  conversely the solutions of the result are exactly those assignments *)
Theorem unify_mgu : forall n s t sb sb' th, unify n s t sb = Unifier sb' ->
  sol pr_flags th sb -> same (inst th s) (inst th t) ->
  sol pr_flags th sb' /\ forall m w u, resolve m sb' w = Some u -> same (inst th u) (inst th w).
Proof. exact mgu_main. Qed.
Print Assumptions unify_mgu.

Theorem unify_solution_set : forall n s t sb sb' th, unify n s t sb = Unifier sb' ->
  (sol pr_flags th sb' <-> sol pr_flags th sb /\ same (inst th s) (inst th t)).
Proof. exact result_char. Qed.
Print Assumptions unify_solution_set.

(* 4c. CALLS.  `synth_call n params ins acts` models synthesize_call = type_check_args from {} (each
      closed argument type `a` is unified, from the EMPTY substitution, with the parameter type after ONE
      Substituter pass of the accumulated substitution; failing that a top-level numeric widening is
      accepted; `subst |= s`), then check_all_solved and check_inst (copy/drop bounds of the parameters).
      Hypotheses: parameter types are `plain` (no explicitly stored comptime args below, so that
      `substitute` is the plain homomorphism), argument types are closed, and every quantified
      variable occurs in some parameter type (`covers`; otherwise /repo reports "cannot infer").
      fits th i a  =  `a` is the instantiated parameter type (up to the flags unify ignores) or a
                      numeric widening of it. *)
Theorem call_accepts_when_instance : forall th params ins acts,
  Forall (fun i => plain i = true) ins -> Forall closedt acts -> covers params ins ->
  Forall2 (fun i a => inst th i = a) ins acts ->                    (* an instantiation makes the arguments fit *)
  (forall x, In x params -> bound_ok x (th x) = true) ->             (* and respects the parameter bounds *)
  exists n, forall m, n <= m -> synth_call m params ins acts = CallAccepted (map th params).
Proof. exact call_accept_main. Qed.
Print Assumptions call_accepts_when_instance.

Theorem call_accepted_sound : forall n params ins acts l,
  Forall (fun i => plain i = true) ins -> Forall closedt acts ->
  synth_call n params ins acts = CallAccepted l ->
  exists th, l = map th params /\ Forall2 (fits th) ins acts /\ forall x, In x params -> bound_ok x (th x) = true.
Proof. exact call_sound_main. Qed.
Print Assumptions call_accepted_sound.

Theorem call_rejected_correct : forall n params ins acts th,
  Forall (fun i => plain i = true) ins -> Forall closedt acts -> covers params ins ->
  synth_call n params ins acts = CallRejected ->
  ~ (Forall2 (fun i a => inst th i = a) ins acts /\ forall x, In x params -> bound_ok x (th x) = true).
Proof. exact call_reject_main. Qed.
Print Assumptions call_rejected_correct.

(* the property's last sentence, both directions in one statement *)
Theorem call_iff_instance : forall params ins acts,
  Forall (fun i => plain i = true) ins -> Forall closedt acts -> covers params ins ->
  ((exists th, Forall2 (fun i a => inst th i = a) ins acts /\ forall x, In x params -> bound_ok x (th x) = true) ->
   exists n l, forall m, n <= m -> synth_call m params ins acts = CallAccepted l) /\
  ((exists n l, synth_call n params ins acts = CallAccepted l) ->
   exists th, Forall2 (fits th) ins acts /\ forall x, In x params -> bound_ok x (th x) = true).
Proof.
  intros params ins acts Pi Ca Cv. split.
  - intros [th [F B]]. destruct (call_accept_main th params ins acts Pi Ca Cv F B) as [n H]. eauto.
  - intros [n [l H]]. destruct (call_sound_main n params ins acts l Pi Ca H) as [th [_ [F B]]]. eauto.
Qed.
Print Assumptions call_iff_instance.

(* 5. the code as it was before fix-1.patch is unsound and does not terminate *)
Open Scope N_scope.
Definition A := Ex 14. Definition B := Ex 22.
Theorem unify_coded_sound_refuted :
  exists s t sb', unify_coded 100 s t [] = Unifier sb' /\ forall th, ~ solves th sb'.
Proof.
  exists (TTuple [A; B]), (TTuple [TTuple [B]; TTuple [A]]). eexists. split. vm_compute. reflexivity.
  intros th H. pose proof (H 14 _ eq_refl) as H1. pose proof (H 22 _ eq_refl) as H2.
  apply (f_equal size) in H1. apply (f_equal size) in H2. simpl in H1, H2. lia.
Qed.
Print Assumptions unify_coded_sound_refuted.

Example unify_coded_diverges_witness :
  unify_coded 3000 (TTuple [A; B; A]) (TTuple [TTuple [B]; TTuple [A]; TTuple [A]]) [] = OutOfFuel.
Proof. vm_compute. reflexivity. Qed.
Example unify_coded_const_cycle :   (* unify(m, n, {n: m}) = {m: n, n: m} *)
  unify_coded 100 (Ex 175) (Ex 167) [(167, Ex 175)] = Unifier [(175, Ex 167); (167, Ex 175)].
Proof. vm_compute. reflexivity. Qed.
Example unify_fixed_on_witnesses :
  unify 100 (TTuple [A; B]) (TTuple [TTuple [B]; TTuple [A]]) [] = NoUnifier /\
  unify 100 (TTuple [A; B; A]) (TTuple [TTuple [B]; TTuple [A]; TTuple [A]]) [] = NoUnifier /\
  unify 100 (Ex 175) (Ex 167) [(167, Ex 175)] = Unifier [(167, Ex 175)].
Proof. vm_compute. auto. Qed.

(* 6. the hypotheses are satisfiable on non-trivial instances *)
Example ex_pair :     (* (A, A) ~ (B, int) from {} : triangular answer, closure (int, int) on both sides *)
  unify 100 (TTuple [A; A]) (TTuple [B; TNum KInt]) [] = Unifier [(22, TNum KInt); (14, B)] /\
  app [(22, TNum KInt); (14, B)] (TTuple [A; A]) = TTuple [B; B] /\          (* ONE Substituter pass is not enough *)
  resolve 10 [(22, TNum KInt); (14, B)] (TTuple [A; A]) = Some (TTuple [TNum KInt; TNum KInt]) /\
  resolve 10 [(22, TNum KInt); (14, B)] (TTuple [B; TNum KInt]) = Some (TTuple [TNum KInt; TNum KInt]).
Proof. vm_compute. auto. Qed.

Example ex_wfs_prior : wfs [(22, TNum KInt); (14, B)].
Proof. apply (unify_sound 100 (TTuple [A; A]) (TTuple [B; TNum KInt]) [] _ wfs_nil). vm_compute. reflexivity. Qed.

Example ex_complete_hyp :   (* prior solution {A := B}; B ~ list[int] has the exact unifier below *)
  let sb := [(14, B)] in let th := fun _ : N => TOpaque list_def [argT (TNum KInt)] in
  wfs sb /\ solves th sb /\ inst th B = inst th (TOpaque list_def [argT (TNum KInt)]).
Proof.
  simpl. split; [|split].
  - apply (unify_sound 100 A B [] _ wfs_nil). vm_compute. reflexivity.
  - intros x w. simpl. destruct (N.eqb x 14); [intros [= <-]; reflexivity|discriminate].
  - reflexivity.
Qed.

Example ex_flags :   (* non-copyable inputs (linear qubit, affine array) must agree on flags; copyable ones need not *)
  unify 100 (TFun [(TOpaque qubit_def [], 2)] TNone [] []) (TFun [(TOpaque qubit_def [], 0)] TNone [] []) [] = NoUnifier /\
  unify 100 (TFun [(TOpaque array_def [argT (TNum KInt); argC (CVal 3)], 2)] TNone [] [])
            (TFun [(TOpaque array_def [argT (TNum KInt); argC (CVal 3)], 0)] TNone [] []) [] = NoUnifier /\
  unify 100 (TFun [(TNum KInt, 2)] TNone [] []) (TFun [(TNum KInt, 0)] TNone [] []) [] = Unifier [] /\
  same (TFun [(TNum KInt, 2)] TNone [] []) (TFun [(TNum KInt, 0)] TNone [] []).
Proof. vm_compute. auto. Qed.

(* calls: f(x: T, y: tuple[T, U]) *)
Definition T := 14%N. Definition U := 22%N.
Example ex_call :
  synth_call 100 [T; U] [Ex T; TTuple [Ex T; Ex U]] [TNum KInt; TTuple [TNum KInt; TBool]] = CallAccepted [TNum KInt; TBool] /\
  synth_call 100 [T; U] [Ex T; TTuple [Ex T; Ex U]] [TNum KInt; TTuple [TBool; TBool]] = CallRejected /\
  (* bounds: T is copyable, an array is not *)
  synth_call 100 [T] [Ex T] [TOpaque array_def [argT (TNum KInt); argC (CVal 2)]] = CallRejected /\
  (* widening makes acceptance order dependent: g(x: T, y: T) accepts (float, int) but rejects (int, float) *)
  synth_call 100 [T] [Ex T; Ex T] [TNum KFloat; TNum KInt] = CallAccepted [TNum KFloat] /\
  synth_call 100 [T] [Ex T; Ex T] [TNum KInt; TNum KFloat] = CallRejected.
Proof. vm_compute. repeat split. Qed.
Example ex_call_hyps : covers [T; U] [Ex T; TTuple [Ex T; Ex U]] /\ plain (TTuple [Ex T; Ex U]) = true /\
  closedt (TTuple [TNum KInt; TBool]).
Proof.
  split; [|split; reflexivity]. intros x [<-|[<-|[]]].
  - exists (Ex T). simpl. auto.
  - exists (TTuple [Ex T; Ex U]). simpl. auto.
Qed.
