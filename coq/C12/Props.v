(** C12 — placeholder while the proofs are being written (replaced below). *)
From Coq Require Import ZArith NArith List Bool.
From V.C12 Require Import Ty Unify.
Import ListNotations.
Open Scope N_scope.

(* the pre-patch `_unify_var` returns a cyclic substitution *)
Theorem unify_coded_sound_refuted :
  exists s t sg, unify_coded 100 s t [] = Unifier sg /\ forall n, resolve n sg s = None.
Proof.
  exists (TTuple [Ex 14; Ex 22]), (TTuple [TTuple [Ex 22]; TTuple [Ex 14]]).
  eexists. split. vm_compute. reflexivity.
  induction n as [|n IH]; [reflexivity|].
  destruct n as [|[|[|[|n]]]]; try reflexivity.
Abort.
