(** Executable model of guppylang_internals/tys/ty.py `unify`, `_unify_var`, `_occurs`,
    `_unify_args` and tys/subst.py `Substituter` (with props/C12/fix-1.patch applied).
    Hand-written; tied to /repo by the differential harness of props/C12 (tie X).
    Recursion is by fuel; `OutOfFuel` is a distinguished outcome (Python: RecursionError)
    and `unify_terminates` (Props.v) shows it never happens on acyclic substitutions.
    NO proofs in this file. *)
From Coq Require Import ZArith NArith List Bool.
From V.C12 Require Import Ty.
Import ListNotations.

(** Subst = dict[ExistentialVar, Type | Const]; `{var: t, **subst}` = cons *)
Definition subst := list (N * ty).

Fixpoint lookup (s : subst) (x : N) : option ty :=
  match s with
  | [] => None
  | (y, t) :: s' => if N.eqb x y then Some t else lookup s' x
  end.

Definition dom (s : subst) : list N := map fst s.

(** Substituter: ONE pass (`ty.substitute(subst)` / `transform(Substituter(subst))`).
    Quirk kept: FunctionType.transform rebuilds `FunctionType(inputs, output, params)`, so
    explicitly given comptime_args are dropped (they are recomputed from `params`; the
    parameter codes of this model never denote comptime ConstParams, hence none). *)
Fixpoint app (s : subst) (t : ty) : ty :=
  match t with
  | Ex x => match lookup s x with Some u => u | None => Ex x end
  | Nd h a =>
      match h with
      | HFun f _ =>
          Nd h ((fix go (k : nat) (a : list ty) {struct a} : list ty :=
                   match k, a with
                   | S k', u :: a' => app s u :: go k' a'
                   | _, _ => []
                   end) (S (length f)) a)
      | _ => Nd h (map (app s) a)
      end
  end.

(** The idempotent closure sigma*: substitute until no solved variable is left
    (what repeated `substitute` converges to).  Fuel-indexed; None = out of fuel. *)
Fixpoint opt_list {A} (l : list (option A)) : option (list A) :=
  match l with
  | [] => Some []
  | Some x :: r => option_map (cons x) (opt_list r)
  | None :: _ => None
  end.

Fixpoint resolve (n : nat) (s : subst) (t : ty) : option ty :=
  match n with
  | O => None
  | S n' =>
      match t with
      | Ex x => match lookup s x with Some u => resolve n' s u | None => Some (Ex x) end
      | Nd h a => option_map (Nd h) (opt_list (map (resolve n' s) a))
      end
  end.

Inductive outcome :=
| OutOfFuel
| NoUnifier                 (* Python: None *)
| Unifier (s : subst).      (* Python: the returned dict *)

(** `_occurs(var, t, subst)` over `t.unsolved_vars`:
    any(v == var or (v in subst and _occurs(var, subst[v], subst)) for v in ...) *)
Fixpoint occ (n : nat) (s : subst) (x : N) (vs : list N) : option bool :=
  match n with
  | O => None
  | S n' =>
      match vs with
      | [] => Some false
      | v :: r =>
          if N.eqb v x then Some true
          else match lookup s v with
               | Some w =>
                   match occ n' s x (vars w) with
                   | None => None
                   | Some true => Some true
                   | Some false => occ n' s x r
                   end
               | None => occ n' s x r
               end
      end
  end.

(** the loop of the FunctionType case
      for a, b in zip(s.inputs, t.inputs):
          if not a.ty.copyable and not b.ty.copyable and a.flags != b.flags: return None
    (owned vs borrowed changes the Hugr signature for every non-copyable input type, affine
    ones such as arrays included, not only for linear ones) *)
Fixpoint flags_ok (f1 : list N) (a1 : list ty) (f2 : list N) (a2 : list ty) : bool :=
  match f1, a1, f2, a2 with
  | x :: f1', u :: a1', y :: f2', v :: a2' =>
      negb (negb (copyable u) && negb (copyable v) && negb (N.eqb x y)) && flags_ok f1' a1' f2' a2'
  | _, _, _, _ => true
  end.

(** the head tests of the `match s, t` in `unify` (everything except the recursion on args) *)
Definition compat (h1 : head) (a1 : list ty) (h2 : head) (a2 : list ty) : bool :=
  match h1, h2 with
  | HBoundT i _ _, HBoundT j _ _ => N.eqb i j          (* BoundVar(idx) == BoundVar(idx) *)
  | HCBound i, HCBound j => N.eqb i j
  | HCVal v, HCVal w => Z.eqb v w
  | HNum k, HNum l => numkind_eqb k l
  | HNone, HNone => true
  | HFun f1 p1, HFun f2 p2 =>
      listN_eqb p1 p2 && Nat.eqb (length f1) (length f2) && flags_ok f1 a1 f2 a2
  | HTuple, HTuple => true
  | HOpaque d, HOpaque e => N.eqb d e
  | HStruct d, HStruct e => N.eqb d e
  | HArgT, HArgT => true                               (* case TypeArg, TypeArg *)
  | HArgC, HArgC => true                               (* case ConstArg, ConstArg *)
  | _, _ => false
  end.

Section Step.
  Variable rec : ty -> ty -> subst -> outcome.         (* `unify` with less fuel *)

  (** the loop of `_unify_args` *)
  Fixpoint unify_list (a b : list ty) (s : subst) : outcome :=
    match a, b with
    | [], [] => Unifier s
    | x :: a', y :: b' =>
        match rec x y s with
        | Unifier s' => unify_list a' b' s'
        | r => r
        end
    | _, _ => NoUnifier
    end.

  (** `_unify_args`: length test first *)
  Definition unify_args (a b : list ty) (s : subst) : outcome :=
    if Nat.eqb (length a) (length b) then unify_list a b s else NoUnifier.

  (** `_unify_var` *)
  Definition unify_var (n : nat) (x : N) (t : ty) (s : subst) : outcome :=
    match lookup s x with
    | Some u => rec u t s                                   (* if var in subst *)
    | None =>
        match (match t with Ex y => lookup s y | Nd _ _ => None end) with
        | Some u => rec (Ex x) u s                          (* if t is a solved variable *)
        | None =>
            match occ n s x (vars t) with                   (* if _occurs(var, t, subst) *)
            | None => OutOfFuel
            | Some true => NoUnifier
            | Some false => Unifier ((x, t) :: s)           (* {var: t, **subst} *)
            end
        end
    end.
End Step.

Fixpoint unify (n : nat) (s t : ty) (sb : subst) : outcome :=
  match n with
  | O => OutOfFuel
  | S n' =>
      match s, t with
      | Ex x, Ex y => if N.eqb x y then Unifier sb else unify_var (unify n') n' x t sb
      | Ex x, Nd _ _ => unify_var (unify n') n' x t sb
      | Nd _ _, Ex y => unify_var (unify n') n' y s sb
      | Nd h1 a1, Nd h2 a2 =>
          if compat h1 a1 h2 a2 then unify_args (unify n') a1 a2 sb else NoUnifier
      end
  end.

(** ---- calls to generic functions (checker/expr_checker.py) ------------------------------
    `type_check_args(inputs, func_ty, subst)` with `func_ty = unquantified()` (parameters replaced
    by fresh existential variables):
        for inp, func_inp in zip(inputs, func_ty.inputs):
            a, s = ExprChecker(ctx).check(inp, func_inp.ty.substitute(subst)); subst |= s
    For an argument expression whose type is synthesised (names, calls, ... : `generic_visit`,
    and the `isinstance(ty, ExistentialTypeVar)` shortcut gives the same answer) `check` is
    `check_type_against(act, exp)`: `unify(exp, act, {})` with the CLOSED synthesised type `act`
    and an EMPTY substitution; if that fails, `try_coerce_to` accepts a top-level numeric
    widening (Kind order nat < int < float) with the empty substitution.
    `substitute` is ONE Substituter pass (`app`); `subst |= s` is a dict update (prepend). *)
Definition kind_lt (a b : numkind) : bool :=
  match a, b with KNat, KInt | KNat, KFloat | KInt, KFloat => true | _, _ => false end.
Definition widen (act exp : ty) : bool :=             (* try_coerce_to succeeds *)
  match act, exp with
  | Nd (HNum k1) [], Nd (HNum k2) [] => kind_lt k1 k2
  | _, _ => false
  end.
Definition check_arg (n : nat) (exp act : ty) : outcome :=      (* check_type_against, act closed *)
  match unify n exp act [] with
  | NoUnifier => if widen act exp then Unifier [] else NoUnifier
  | r => r
  end.
Fixpoint check_args (n : nat) (inputs acts : list ty) (sb : subst) : outcome :=
  match inputs, acts with
  | [], [] => Unifier sb
  | i :: inputs', a :: acts' =>
      match check_arg n (app sb i) a with
      | Unifier s' => check_args n inputs' acts' (s' ++ sb)
      | r => r
      end
  | _, _ => NoUnifier                                   (* check_num_args *)
  end.

(** `synthesize_call`: type_check_args from {}, then `check_all_solved` (every quantified
    variable got a solution) and `check_inst` (the solution respects the copy/drop bounds of
    the parameter; the bound is part of the variable id, see Ty.v).  The answer is the
    instantiation `inst` read off the substitution. *)
Definition bound_ok (x : N) (w : ty) : bool :=
  implb (ex_copy x) (copyable w) && implb (ex_drop x) (droppable w).
Inductive call_result := CallOutOfFuel | CallRejected | CallAccepted (inst : list ty).
Fixpoint read_inst (sb : subst) (params : list N) : option (list ty) :=
  match params with
  | [] => Some []
  | x :: r => match lookup sb x, read_inst sb r with
              | Some w, Some l => if bound_ok x w then Some (w :: l) else None
              | _, _ => None
              end
  end.
Definition synth_call (n : nat) (params : list N) (inputs acts : list ty) : call_result :=
  match check_args n inputs acts [] with
  | OutOfFuel => CallOutOfFuel
  | NoUnifier => CallRejected
  | Unifier sb => match read_inst sb params with Some l => CallAccepted l | None => CallRejected end
  end.

(** the pre-patch `_unify_var` (unresolved occurs check, only type variables chased on the
    right), kept to state the refutation of the coded behaviour *)
Section Coded.
  Variable rec : ty -> ty -> subst -> outcome.
  Definition unify_var_coded (x : N) (t : ty) (s : subst) : outcome :=
    match lookup s x with
    | Some u => rec u t s
    | None =>
        match (match t with Ex y => if ex_is_const y then None else lookup s y | Nd _ _ => None end) with
        | Some u => rec (Ex x) u s
        | None => if existsb (N.eqb x) (vars t) then NoUnifier else Unifier ((x, t) :: s)
        end
    end.
End Coded.

Fixpoint unify_coded (n : nat) (s t : ty) (sb : subst) : outcome :=
  match n with
  | O => OutOfFuel
  | S n' =>
      match s, t with
      | Ex x, Ex y => if N.eqb x y then Unifier sb else unify_var_coded (unify_coded n') x t sb
      | Ex x, Nd _ _ => unify_var_coded (unify_coded n') x t sb
      | Nd _ _, Ex y => unify_var_coded (unify_coded n') y s sb
      | Nd h1 a1, Nd h2 a2 =>
          if compat h1 a1 h2 a2 then unify_args (unify_coded n') a1 a2 sb else NoUnifier
      end
  end.

(* ---- serialisation for the differential harness ---------------------------------------- *)
Definition ZN (n : N) : Z := Z.of_N n.
Definition Zb (b : bool) : Z := if b then 1%Z else 0%Z.
Definition ser_head (h : head) : list Z :=
  match h with
  | HNum k => [1; match k with KNat => 0 | KInt => 1 | KFloat => 2 end]%Z
  | HNone => [2]%Z
  | HBoundT i c d => [3%Z; ZN i; Zb c; Zb d]
  | HTuple => [4]%Z
  | HFun f p => [5%Z; Z.of_nat (length f)] ++ map ZN f ++ [Z.of_nat (length p)] ++ map ZN p
  | HOpaque d => [6%Z; ZN d]
  | HStruct d => [7%Z; ZN d]
  | HArgT => [8]%Z
  | HArgC => [9]%Z
  | HCVal v => [10%Z; v]
  | HCBound i => [11%Z; ZN i]
  end.
Fixpoint ser (t : ty) : list Z :=
  match t with
  | Ex x => [0%Z; ZN x]
  | Nd h a => ser_head h ++ [Z.of_nat (length a)] ++ flat_map ser a
  end.
Definition ser_subst (s : subst) : list (Z * list Z) := map (fun p => (ZN (fst p), ser (snd p))) s.
(* (tag, bindings): tag -1 out of fuel, 0 None, 1 dict *)
Definition ser_outcome (o : outcome) : Z * list (Z * list Z) :=
  match o with
  | OutOfFuel => ((-1)%Z, [])
  | NoUnifier => (0%Z, [])
  | Unifier s => (1%Z, ser_subst s)
  end.
Definition ser_call (r : call_result) : Z * list (list Z) :=
  match r with
  | CallOutOfFuel => ((-1)%Z, [])
  | CallRejected => (0%Z, [])
  | CallAccepted l => (1%Z, map ser l)
  end.
Definition ser_opt (o : option ty) : list Z := match o with Some t => ser t | None => [(-1)%Z] end.
