(** Facts about coq/C12/Ty.v: boolean equality decides equality (so `ty` has decidable equality). *)
From Coq Require Import ZArith NArith List Bool.
From V.C12 Require Import Ty.
Import ListNotations.

Lemma numkind_eqb_spec a b : numkind_eqb a b = true <-> a = b.
Proof. destruct a, b; simpl; split; congruence. Qed.

Lemma listN_eqb_spec a : forall b, listN_eqb a b = true <-> a = b.
Proof.
  induction a as [|x a IH]; intros [|y b]; simpl; split; try congruence.
  - intros H. apply andb_true_iff in H. destruct H as [H1 H2]. apply N.eqb_eq in H1. apply IH in H2. congruence.
  - intros [= -> ->]. rewrite N.eqb_refl. apply IH. auto.
Qed.

Lemma head_eqb_spec a b : head_eqb a b = true <-> a = b.
Proof.
  destruct a, b; simpl; split; try congruence; try discriminate; intros H.
  - apply numkind_eqb_spec in H. congruence.
  - injection H as ->. apply numkind_eqb_spec. auto.
  - apply andb_true_iff in H. destruct H as [H H3]. apply andb_true_iff in H. destruct H as [H1 H2].
    apply N.eqb_eq in H1. apply eqb_prop in H2. apply eqb_prop in H3. congruence.
  - injection H as -> -> ->. rewrite N.eqb_refl, !eqb_reflx. auto.
  - apply andb_true_iff in H. destruct H as [H1 H2]. apply listN_eqb_spec in H1. apply listN_eqb_spec in H2. congruence.
  - injection H as -> ->. apply andb_true_iff. split; apply listN_eqb_spec; auto.
  - apply N.eqb_eq in H. congruence.
  - injection H as ->. apply N.eqb_refl.
  - apply N.eqb_eq in H. congruence.
  - injection H as ->. apply N.eqb_refl.
  - apply Z.eqb_eq in H. congruence.
  - injection H as ->. apply Z.eqb_refl.
  - apply N.eqb_eq in H. congruence.
  - injection H as ->. apply N.eqb_refl.
Qed.

Lemma ty_rect' (P : ty -> Prop) :
  (forall x, P (Ex x)) -> (forall h a, Forall P a -> P (Nd h a)) -> forall t, P t.
Proof.
  intros HE HN. fix IH 1. intros [x|h a]. apply HE. apply HN.
  induction a; constructor; auto.
Qed.

Lemma ty_eqb_spec : forall s t, ty_eqb s t = true <-> s = t.
Proof.
  induction s as [x|h a IH] using ty_rect'; intros [y|g b]; simpl; split; try congruence; try discriminate.
  - intros H. apply N.eqb_eq in H. congruence.
  - intros [= ->]. apply N.eqb_refl.
  - intros H. apply andb_true_iff in H. destruct H as [H1 H2]. apply head_eqb_spec in H1. subst g. f_equal.
    revert b H2. induction IH as [|u a Hu _ IHa]; intros [|v b] H2; try discriminate; auto.
    apply andb_true_iff in H2. destruct H2 as [H2 H3]. apply Hu in H2. subst. f_equal. auto.
  - intros [= <- <-]. apply andb_true_iff. split. apply head_eqb_spec; auto.
    induction IH as [|u a Hu _ IHa]; auto. apply andb_true_iff. split; auto. apply Hu. auto.
Qed.

Definition ty_eq_dec (s t : ty) : {s = t} + {s <> t}.
Proof.
  destruct (ty_eqb s t) eqn:E.
  - left. apply ty_eqb_spec. auto.
  - right. intros H. apply ty_eqb_spec in H. congruence.
Defined.
