(** C12 — Part 4: termination (enough fuel always exists on acyclic substitutions). *)
From Coq Require Import ZArith NArith List Bool Lia Arith Wellfounded.
From V.C12 Require Import Ty Unify Proofs Proofs2.
Import ListNotations.

Definition done (r : outcome) : Prop := r <> OutOfFuel.

(* ---------------------------------------------------------------- fuel monotonicity *)
Lemma occ_mono sb x n : forall vs b, occ n sb x vs = Some b -> forall m, n <= m -> occ m sb x vs = Some b.
Proof.
  induction n as [|n IH]; intros vs b; simpl; [discriminate|].
  intros H m Hm. destruct m as [|m]; [lia|]. simpl. destruct vs as [|v r]; auto.
  destruct (N.eqb v x); auto. destruct (lookup sb v) as [w|].
  - destruct (occ n sb x (vars w)) as [[|]|] eqn:O; try discriminate.
    + rewrite (IH _ _ O m) by lia. auto.
    + rewrite (IH _ _ O m) by lia. apply IH; auto. lia.
  - apply IH; auto. lia.
Qed.

Definition mono_spec (rec rec' : ty -> ty -> subst -> outcome) :=
  forall s t sb, done (rec s t sb) -> rec' s t sb = rec s t sb.

Lemma unify_list_mono rec rec' a : mono_spec rec rec' -> forall b sb,
  done (unify_list rec a b sb) -> unify_list rec' a b sb = unify_list rec a b sb.
Proof.
  intros IH. induction a as [|x a IHa]; intros [|y b] sb; simpl; auto.
  intros D. destruct (rec x y sb) as [| |s1] eqn:R.
  - exfalso. apply D. reflexivity.
  - rewrite IH by (rewrite R; unfold done; discriminate). rewrite R. auto.
  - rewrite IH by (rewrite R; unfold done; discriminate). rewrite R. auto.
Qed.

Lemma unify_var_mono rec rec' n m x t sb : mono_spec rec rec' -> n <= m ->
  done (unify_var rec n x t sb) -> unify_var rec' m x t sb = unify_var rec n x t sb.
Proof.
  intros IH Hm. unfold unify_var. destruct (lookup sb x); [apply IH|].
  destruct (match t with Ex y => lookup sb y | Nd _ _ => None end); [apply IH|].
  destruct (occ n sb x (vars t)) as [b|] eqn:O.
  - rewrite (occ_mono _ _ _ _ _ O m Hm). auto.
  - intros D. exfalso. apply D. reflexivity.
Qed.

Lemma unify_mono n : forall m, n <= m -> mono_spec (unify n) (unify m).
Proof.
  induction n as [|n IH]; intros m Hm s t sb; simpl.
  - intros D. exfalso. apply D. reflexivity.
  - destruct m as [|m]; [lia|]. simpl. assert (IH' := IH m ltac:(lia)).
    destruct s as [x|h1 a1], t as [y|h2 a2]; try (apply unify_var_mono; auto; lia).
    + destruct (N.eqb x y); auto. apply unify_var_mono; auto. lia.
    + destruct (compat h1 a1 h2 a2); auto. unfold unify_args.
      destruct (Nat.eqb (length a1) (length a2)); auto. apply unify_list_mono; auto.
Qed.

Lemma unify_mono' n m s t sb : done (unify n s t sb) -> n <= m -> unify m s t sb = unify n s t sb.
Proof. intros. apply unify_mono; auto. Qed.

(* ---------------------------------------------------------------- the occurs check terminates *)
Lemma occ_total sb x : forall vs, (forall v, In v vs -> Acc (dep sb) v) -> exists n b, occ n sb x vs = Some b.
Proof.
  assert (L : forall vs, (forall v, In v vs -> forall w, lookup sb v = Some w -> exists n b, occ n sb x (vars w) = Some b) ->
                         exists n b, occ n sb x vs = Some b).
  { induction vs as [|v r IH]; intros H.
    - exists 1, false. reflexivity.
    - destruct IH as [n2 [b2 H2]]. { intros. eapply H; eauto. right; auto. }
      destruct (N.eqb v x) eqn:E. { exists 1, true. simpl. rewrite E. auto. }
      destruct (lookup sb v) as [w|] eqn:Lv.
      + destruct (H v (or_introl eq_refl) w Lv) as [n1 [b1 H1]].
        exists (S (max n1 n2)). simpl. rewrite E, Lv. rewrite (occ_mono _ _ _ _ _ H1 (max n1 n2)) by lia.
        destruct b1. eauto. rewrite (occ_mono _ _ _ _ _ H2 (max n1 n2)) by lia. eauto.
      + exists (S n2), b2. simpl. rewrite E, Lv. auto. }
  intros vs H. apply L. intros v Hv. specialize (H v Hv). clear Hv. induction H as [v _ IH].
  intros w Lw. apply L. intros v' Hv'. apply IH. exists w; auto.
Qed.

(* ---------------------------------------------------------------- counting unsolved variables of a universe *)
Definition unsolved (U : list N) (sb : subst) : list N :=
  filter (fun v => match lookup sb v with None => true | Some _ => false end) U.
Definition mu U sb := length (unsolved U sb).
Definition inU (U : list N) (t : ty) := forall v, In v (vars t) -> In v U.
Definition closed U (sb : subst) := forall x w, lookup sb x = Some w -> inU U w.

Lemma filter_length_le {A} (f g : A -> bool) l : (forall a, g a = true -> f a = true) ->
  length (filter g l) <= length (filter f l).
Proof.
  intros H. induction l as [|a l IH]; simpl; auto. destruct (g a) eqn:G.
  - rewrite (H _ G). simpl. lia.
  - destruct (f a); simpl; lia.
Qed.
Lemma filter_length_lt {A} (f g : A -> bool) l x : (forall a, g a = true -> f a = true) ->
  In x l -> f x = true -> g x = false -> length (filter g l) < length (filter f l).
Proof.
  intros H. induction l as [|a l IH]; simpl; [intros []|]. intros [->|Hin] F G.
  - rewrite F, G. simpl. pose proof (filter_length_le f g l H). lia.
  - specialize (IH Hin F G). destruct (g a) eqn:Ga. rewrite (H _ Ga). simpl. lia. destruct (f a); simpl; lia.
Qed.

Lemma mu_cons U sb x t : In x U -> lookup sb x = None -> mu U ((x, t) :: sb) < mu U sb.
Proof.
  intros Hin Lx. unfold mu, unsolved. apply filter_length_lt with (x := x); auto.
  - intros a. simpl. destruct (N.eqb a x); [discriminate|auto].
  - rewrite Lx. auto.
  - simpl. rewrite N.eqb_refl. auto.
Qed.

Lemma closed_cons U sb x t : closed U sb -> inU U t -> closed U ((x, t) :: sb).
Proof. intros C Ht z w. simpl. destruct (N.eqb z x). intros [= <-]. auto. apply C. Qed.

Lemma inU_arg U h a u : inU U (Nd h a) -> In u a -> inU U u.
Proof. intros H Hu v Hv. apply H. simpl. apply in_flat_map. eauto. Qed.

Definition ext_spec U (rec : ty -> ty -> subst -> outcome) :=
  forall s t sb sb', rec s t sb = Unifier sb' -> closed U sb -> inU U s -> inU U t ->
    closed U sb' /\ (sb' = sb \/ mu U sb' < mu U sb).

Lemma unify_var_ext U rec n x t sb sb' : ext_spec U rec ->
  unify_var rec n x t sb = Unifier sb' -> closed U sb -> In x U -> inU U t ->
  closed U sb' /\ (sb' = sb \/ mu U sb' < mu U sb).
Proof.
  intros IH. unfold unify_var. destruct (lookup sb x) as [u|] eqn:Lx.
  - intros H C Hx Ht. eapply IH; eauto.
  - destruct (match t with Ex y => lookup sb y | Nd _ _ => None end) as [u|] eqn:Lt.
    + intros H C Hx Ht. destruct t as [y|]; [|discriminate]. eapply IH; eauto. intros v [<-|[]]. auto.
    + destruct (occ n sb x (vars t)) as [[|]|]; try discriminate.
      intros [= <-] C Hx Ht. split. apply closed_cons; auto. right. apply mu_cons; auto.
Qed.

Lemma unify_list_ext U rec a : ext_spec U rec -> forall b sb sb',
  unify_list rec a b sb = Unifier sb' -> closed U sb -> (forall u, In u a -> inU U u) -> (forall u, In u b -> inU U u) ->
  closed U sb' /\ (sb' = sb \/ mu U sb' < mu U sb).
Proof.
  intros IH. induction a as [|x a IHa]; intros [|y b] sb sb'; simpl; try discriminate.
  - intros [= <-]. auto.
  - destruct (rec x y sb) as [| |s1] eqn:R; try discriminate. intros H C Ha Hb.
    destruct (IH _ _ _ _ R C (Ha _ (or_introl eq_refl)) (Hb _ (or_introl eq_refl))) as [C1 M1].
    destruct (IHa _ _ _ H C1) as [C2 M2]; auto.
    split; auto. destruct M1 as [->|M1], M2 as [->|M2]; auto. right. lia.
Qed.

Lemma unify_ext U n : ext_spec U (unify n).
Proof.
  induction n as [|n IH]; intros s t sb sb'; simpl; [discriminate|].
  destruct s as [x|h1 a1], t as [y|h2 a2].
  - destruct (N.eqb x y). intros [= <-]; auto. intros H C Hs Ht. eapply unify_var_ext; eauto. apply Hs. left; auto.
  - intros H C Hs Ht. eapply unify_var_ext; eauto. apply Hs. left; auto.
  - intros H C Hs Ht. eapply unify_var_ext; eauto. apply Ht. left; auto.
  - destruct (compat h1 a1 h2 a2); [|discriminate]. unfold unify_args.
    destruct (Nat.eqb (length a1) (length a2)); [|discriminate].
    intros H C Hs Ht. eapply unify_list_ext; eauto; intros u Hu; [apply (inU_arg U h1 a1 u Hs Hu) | apply (inU_arg U h2 a2 u Ht Hu)].
Qed.

(* ---------------------------------------------------------------- the recursion is well-founded *)
Definition sub (sb : subst) (u' u : ty) : Prop :=
  (exists x, u = Ex x /\ lookup sb x = Some u') \/ (exists h a, u = Nd h a /\ In u' a).

Lemma sub_acc sb : wfs sb -> forall u, Acc (sub sb) u.
Proof.
  intros W.
  assert (G : forall w', (forall y, In y (vars w') -> Acc (sub sb) (Ex y)) -> Acc (sub sb) w').
  { induction w' as [y|h a IHa] using ty_ind'; intros Hv. apply Hv; left; auto.
    constructor. intros u [[x0 [E _]]|[h0 [a0 [E Hin]]]]; [discriminate|]. injection E as <- <-.
    rewrite Forall_forall in IHa. apply IHa; auto. intros y Hy. apply Hv. simpl. apply in_flat_map. eauto. }
  intros u. apply G. intros x _. induction (W x) as [x _ IH].
  constructor. intros w [[x' [E L]]|[h [a [E _]]]]; [|discriminate]. injection E as <-.
  apply G. intros y Hy. apply IH. exists w; auto.
Qed.

Definition T U sb s t := inU U s -> inU U t -> exists n, done (unify n s t sb).

Section Total.
  Variable U : list N.
  Variable sb : subst.
  Hypothesis W : wfs sb.
  Hypothesis C : closed U sb.
  Hypothesis IHk : forall sb', mu U sb' < mu U sb -> wfs sb' -> closed U sb' -> forall s t, T U sb' s t.

  Lemma loop : forall a1 a2, (forall u v, In u a1 -> In v a2 -> T U sb u v) ->
    (forall u, In u a1 -> inU U u) -> (forall v, In v a2 -> inU U v) ->
    forall cur, (cur = sb \/ mu U cur < mu U sb) -> wfs cur -> closed U cur ->
    exists n, done (unify_list (unify n) a1 a2 cur).
  Proof.
    induction a1 as [|u a1 IHa]; intros [|v a2] HT H1 H2 cur Hc Wc Cc; simpl;
      try (exists 0; unfold done; discriminate).
    assert (exists n1, done (unify n1 u v cur)) as [n1 D1].
    { destruct Hc as [->|Hc]; [apply (HT u v (or_introl eq_refl) (or_introl eq_refl)) | apply (IHk cur Hc Wc Cc u v)];
        [apply H1 | apply H2 | apply H1 | apply H2]; left; auto. }
    destruct (unify n1 u v cur) as [| |s1] eqn:R.
    - exfalso. apply D1. reflexivity.
    - exists n1. rewrite R. unfold done. discriminate.
    - destruct (unify_pres n1 _ _ _ _ R Wc) as [W1 _].
      destruct (unify_ext U n1 _ _ _ _ R Cc (H1 u (or_introl eq_refl)) (H2 v (or_introl eq_refl))) as [C1 M1].
      assert (Hc1 : s1 = sb \/ mu U s1 < mu U sb).
      { destruct M1 as [->|M1]; auto. right. destruct Hc as [->|Hc]; lia. }
      destruct (IHa a2 (fun u0 v0 Hu Hv => HT u0 v0 (or_intror Hu) (or_intror Hv))
                  (fun u0 Hu => H1 u0 (or_intror Hu)) (fun v0 Hv => H2 v0 (or_intror Hv)) s1 Hc1 W1 C1) as [n2 D2].
      exists (max n1 n2). rewrite (unify_mono' n1 (max n1 n2)), R by (rewrite ?R; unfold done; try discriminate; lia).
      rewrite (unify_list_mono (unify n2) (unify (max n1 n2))); auto. apply unify_mono. lia.
  Qed.

  Lemma var_total x t : In x U -> inU U t ->
    (forall w, lookup sb x = Some w -> T U sb w t) ->
    (forall y w, t = Ex y -> lookup sb x = None -> lookup sb y = Some w -> T U sb (Ex x) w) ->
    exists n, done (unify_var (unify n) n x t sb).
  Proof.
    intros Hx Ht H1 H2. unfold unify_var. destruct (lookup sb x) as [w|] eqn:Lx.
    - apply (H1 w eq_refl); auto. apply (C _ _ Lx).
    - assert (O : exists n b, occ n sb x (vars t) = Some b) by (apply occ_total; intros; apply W).
      destruct t as [y|h a].
      + destruct (lookup sb y) as [w|] eqn:Ly.
        * apply (H2 y w eq_refl eq_refl Ly). intros v [<-|[]]; auto. apply (C _ _ Ly).
        * destruct O as [n [b O]]. exists n. rewrite O. destruct b; unfold done; discriminate.
      + destruct O as [n [b O]]. exists n. rewrite O. destruct b; unfold done; discriminate.
  Qed.

  Lemma step s t :
    (forall x w, s = Ex x -> lookup sb x = Some w -> T U sb w t) ->
    (forall x y w, s = Ex x -> t = Ex y -> lookup sb x = None -> lookup sb y = Some w -> T U sb (Ex x) w) ->
    (forall y w, t = Ex y -> (exists h a, s = Nd h a) -> lookup sb y = Some w -> T U sb w s) ->
    (forall h1 a1 h2 a2, s = Nd h1 a1 -> t = Nd h2 a2 -> forall u v, In u a1 -> In v a2 -> T U sb u v) ->
    T U sb s t.
  Proof.
    intros H1 H2 H3 H4 Hs Ht. destruct s as [x|h1 a1], t as [y|h2 a2].
    - destruct (N.eqb x y) eqn:E.
      + exists 1. simpl. rewrite E. unfold done. discriminate.
      + assert (Hx : In x U) by (apply Hs; left; auto).
        assert (F2 : forall y' w, Ex y = Ex y' -> lookup sb x = None -> lookup sb y' = Some w -> T U sb (Ex x) w).
        { intros y' w E' Lx Ly. injection E' as <-. apply (H2 x y w); auto. }
        destruct (var_total x (Ex y) Hx Ht (fun w L => H1 x w eq_refl L) F2) as [n D].
        exists (S n). simpl. rewrite E. exact D.
    - assert (Hx : In x U) by (apply Hs; left; auto).
      assert (F2 : forall y' w, Nd h2 a2 = Ex y' -> lookup sb x = None -> lookup sb y' = Some w -> T U sb (Ex x) w).
      { intros y' w E'. discriminate. }
      destruct (var_total x (Nd h2 a2) Hx Ht (fun w L => H1 x w eq_refl L) F2) as [n D].
      exists (S n). exact D.
    - assert (Hy : In y U) by (apply Ht; left; auto).
      assert (F2 : forall y' w, Nd h1 a1 = Ex y' -> lookup sb y = None -> lookup sb y' = Some w -> T U sb (Ex y) w).
      { intros y' w E'. discriminate. }
      assert (F1 : forall w, lookup sb y = Some w -> T U sb w (Nd h1 a1)).
      { intros w L. apply (H3 y w eq_refl); eauto. }
      destruct (var_total y (Nd h1 a1) Hy Hs F1 F2) as [n D].
      exists (S n). exact D.
    - destruct (compat h1 a1 h2 a2) eqn:Cp.
      + destruct (Nat.eqb (length a1) (length a2)) eqn:Ln.
        * destruct (loop a1 a2 (fun u v Hu Hv => H4 h1 a1 h2 a2 eq_refl eq_refl u v Hu Hv)
                      (fun u Hu => inU_arg U h1 a1 u Hs Hu) (fun u Hu => inU_arg U h2 a2 u Ht Hu)
                      sb (or_introl eq_refl) W C) as [n D].
          exists (S n). simpl. rewrite Cp. unfold unify_args. rewrite Ln. exact D.
        * exists 1. simpl. rewrite Cp. unfold unify_args. rewrite Ln. unfold done. discriminate.
      + exists 1. simpl. rewrite Cp. unfold done. discriminate.
  Qed.

  Lemma total_here : forall s t, T U sb s t.
  Proof.
    assert (Q : forall s, Acc (sub sb) s -> forall t, Acc (sub sb) t -> T U sb s t /\ T U sb t s).
    { induction 1 as [s _ IHs]. induction 1 as [t At IHt].
      assert (AT : Acc (sub sb) t) by (constructor; auto).
      split.
      - apply step.
        + intros x w -> L. apply (proj1 (IHs w (or_introl (ex_intro _ x (conj eq_refl L))) t AT)).
        + intros x y w -> -> Lx Ly. apply (proj1 (IHt w (or_introl (ex_intro _ y (conj eq_refl Ly))))).
        + intros y w -> _ L. apply (proj2 (IHt w (or_introl (ex_intro _ y (conj eq_refl L))))).
        + intros h1 a1 h2 a2 -> -> u v Hu Hv.
          apply (proj1 (IHs u (or_intror (ex_intro _ h1 (ex_intro _ a1 (conj eq_refl Hu)))) v (sub_acc sb W v))).
      - apply step.
        + intros y w -> L. apply (proj2 (IHt w (or_introl (ex_intro _ y (conj eq_refl L))))).
        + intros y x w -> -> Ly Lx.
          apply (proj2 (IHs w (or_introl (ex_intro _ x (conj eq_refl Lx))) (Ex y) (sub_acc sb W _))).
        + intros x w -> _ L. apply (proj1 (IHs w (or_introl (ex_intro _ x (conj eq_refl L))) t AT)).
        + intros h2 a2 h1 a1 -> -> v u Hv Hu.
          apply (proj2 (IHs u (or_intror (ex_intro _ h1 (ex_intro _ a1 (conj eq_refl Hu)))) v (sub_acc sb W v))). }
    intros s t. apply Q; apply sub_acc; auto.
  Qed.
End Total.

Theorem total U : forall k sb, mu U sb < k -> wfs sb -> closed U sb -> forall s t, T U sb s t.
Proof.
  induction k as [|k IH]; intros sb Hk W C; [lia|].
  apply total_here; auto. intros sb' Hm W' C'. apply IH; auto. lia.
Qed.

(** every call terminates: some fuel suffices, and then any larger fuel gives the same answer *)
Theorem unify_total sb s t : wfs sb -> exists n r, r <> OutOfFuel /\ forall m, n <= m -> unify m s t sb = r.
Proof.
  intros W. set (U := vars s ++ vars t ++ allvars sb).
  destruct (total U (S (mu U sb)) sb) with (s := s) (t := t) as [n D]; auto.
  - intros x w L v Hv. unfold U. apply in_or_app. right. apply in_or_app. right.
    unfold allvars. apply in_flat_map. exists (x, w). split. apply lookup_in; auto. right; auto.
  - intros v Hv. unfold U. apply in_or_app; auto.
  - intros v Hv. unfold U. apply in_or_app. right. apply in_or_app; auto.
  - exists n, (unify n s t sb). split; auto. intros m Hm. apply unify_mono'; auto.
Qed.
