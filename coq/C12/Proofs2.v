(** C12 — Part 2: acyclic (well-founded) substitutions: preservation by unify, the closure
    sigma* (resolve) is total on them and is itself a solution. *)
From Coq Require Import ZArith NArith List Bool Lia Arith Wellfounded.
From V.C12 Require Import Ty Unify Proofs.
Import ListNotations.

(** y is mentioned by the solution of x *)
Definition dep (sb : subst) (y x : N) : Prop := exists w, lookup sb x = Some w /\ In y (vars w).
(** consistent partial solution: no variable depends on itself, directly or indirectly *)
Definition wfs (sb : subst) : Prop := well_founded (dep sb).

Lemma wfs_nil : wfs [].
Proof. intros x. constructor. intros y [w [H _]]. discriminate. Qed.

(** x is reachable from one of the variables vs through solved variables *)
Inductive Reach (sb : subst) (x : N) : list N -> Prop :=
| reach_here vs : In x vs -> Reach sb x vs
| reach_step vs v w : In v vs -> lookup sb v = Some w -> Reach sb x (vars w) -> Reach sb x vs.

Lemma reach_mono sb x vs vs' : Reach sb x vs -> (forall v, In v vs -> In v vs') -> Reach sb x vs'.
Proof. intros H. revert vs'. induction H; intros vs' Hs. apply reach_here; auto. eapply reach_step; eauto. Qed.

Lemma occ_false_inv sb x n : forall vs, occ n sb x vs = Some false ->
  forall v, In v vs -> v <> x /\ forall w, lookup sb v = Some w -> exists n', occ n' sb x (vars w) = Some false.
Proof.
  induction n as [|n IH]; intros vs; simpl; [discriminate|].
  destruct vs as [|v0 r]; [intros _ v []|].
  destruct (N.eqb_spec v0 x); [discriminate|].
  destruct (lookup sb v0) as [w0|] eqn:L.
  - destruct (occ n sb x (vars w0)) as [[|]|] eqn:O; try discriminate.
    intros H v [<-|Hin]. split; auto. intros w Hw. rewrite L in Hw. injection Hw as <-. eauto.
    apply (IH _ H); auto.
  - intros H v [<-|Hin]. split; auto. intros w Hw. congruence. apply (IH _ H); auto.
Qed.

Lemma occ_false_noreach sb x vs : Reach sb x vs -> forall n, occ n sb x vs = Some false -> False.
Proof.
  induction 1 as [vs Hin|vs v w Hin L _ IH]; intros n O.
  - destruct (occ_false_inv _ _ _ _ O _ Hin). congruence.
  - destruct (occ_false_inv _ _ _ _ O _ Hin) as [_ H]. destruct (H _ L) as [n' O']. eauto.
Qed.

Lemma wfs_cons sb x t : wfs sb -> lookup sb x = None -> ~ Reach sb x (vars t) -> wfs ((x, t) :: sb).
Proof.
  intros W Lx NR.
  assert (A : forall y, Acc (dep sb) y -> ~ Reach sb x [y] -> Acc (dep ((x, t) :: sb)) y).
  { induction 1 as [y _ IH]. intros NRy. constructor. intros y' [w [Hl Hin]].
    assert (y <> x) by (intros ->; apply NRy; apply reach_here; left; auto).
    rewrite lookup_cons_ne in Hl by auto.
    apply IH. exists w; auto.
    intros Hr. apply NRy. eapply reach_step with (v := y); [left; auto|eauto|].
    eapply reach_mono; eauto. intros v [<-|[]]; auto. }
  assert (B : Acc (dep ((x, t) :: sb)) x).
  { constructor. intros y [w [Hl Hin]]. rewrite lookup_cons_eq in Hl. injection Hl as <-.
    apply A. apply W. intros Hr. apply NR. eapply reach_mono; eauto. intros v [<-|[]]; auto. }
  intros z. induction (W z) as [z _ IH]. destruct (N.eq_dec z x) as [->|Hne]; auto.
  constructor. intros y [w [Hl Hin]]. rewrite lookup_cons_ne in Hl by auto. apply IH. exists w; auto.
Qed.

(** unify only adds bindings, and keeps the substitution acyclic *)
Definition pres_spec (rec : ty -> ty -> subst -> outcome) :=
  forall s t sb sb', rec s t sb = Unifier sb' -> wfs sb -> wfs sb' /\ exists d, sb' = d ++ sb.

Lemma unify_var_pres rec n x t sb sb' : pres_spec rec ->
  unify_var rec n x t sb = Unifier sb' -> wfs sb -> wfs sb' /\ exists d, sb' = d ++ sb.
Proof.
  intros IH. unfold unify_var. destruct (lookup sb x) as [u|] eqn:Lx; [apply IH|].
  destruct (match t with Ex y => lookup sb y | Nd _ _ => None end) as [u|]; [apply IH|].
  destruct (occ n sb x (vars t)) as [[|]|] eqn:O; try discriminate.
  intros [= <-] W. split. apply wfs_cons; auto. intros Hr. eapply occ_false_noreach; eauto.
  exists [(x, t)]. reflexivity.
Qed.

Lemma unify_list_pres rec a : pres_spec rec -> forall b sb sb',
  unify_list rec a b sb = Unifier sb' -> wfs sb -> wfs sb' /\ exists d, sb' = d ++ sb.
Proof.
  intros IH. induction a as [|x a IHa]; intros [|y b] sb sb'; simpl; try discriminate.
  - intros [= <-] W. split; auto. exists []. reflexivity.
  - destruct (rec x y sb) as [| |s1] eqn:R; try discriminate. intros H W.
    destruct (IH _ _ _ _ R W) as [W1 [d1 ->]]. destruct (IHa _ _ _ H W1) as [W2 [d2 ->]].
    split; auto. exists (d2 ++ d1). now rewrite app_assoc.
Qed.

Lemma unify_pres n : pres_spec (unify n).
Proof.
  induction n as [|n IH]; intros s t sb sb'; simpl; [discriminate|].
  destruct s as [x|h1 a1], t as [y|h2 a2]; try (apply unify_var_pres; auto).
  - destruct (N.eqb x y). intros [= <-] W. split; auto. exists []. reflexivity. apply unify_var_pres; auto.
  - destruct (compat h1 a1 h2 a2); [|discriminate]. unfold unify_args.
    destruct (Nat.eqb (length a1) (length a2)); [|discriminate]. apply unify_list_pres; auto.
Qed.

(* ---------------------------------------------------------------- resolve *)
Lemma opt_list_some {A B} (f : A -> option B) a l :
  opt_list (map f a) = Some l <-> Forall2 (fun u v => f u = Some v) a l.
Proof.
  revert l. induction a as [|u a IH]; intros l; simpl.
  - split. intros [= <-]. constructor. intros H. inversion H. auto.
  - destruct (f u) as [v|] eqn:F.
    + destruct (opt_list (map f a)) as [r|] eqn:O; simpl.
      * split. intros [= <-]. constructor; auto. apply IH; auto.
        intros H. inversion H; subst. apply IH in H4. congruence.
      * split. discriminate. intros H. inversion H; subst. apply IH in H4. discriminate.
    + split. discriminate. intros H. inversion H; subst. congruence.
Qed.

Lemma Forall2_impl {A B} (P Q : A -> B -> Prop) : (forall a b, P a b -> Q a b) ->
  forall l l', Forall2 P l l' -> Forall2 Q l l'.
Proof. intros H l l' F. induction F; constructor; auto. Qed.

Lemma resolve_mono sb n : forall t v, resolve n sb t = Some v -> forall m, n <= m -> resolve m sb t = Some v.
Proof.
  induction n as [|n IH]; intros t v; simpl; [discriminate|].
  intros H m Hm. destruct m as [|m]; [lia|]. simpl. destruct t as [x|h a].
  - destruct (lookup sb x); auto. apply IH; auto. lia.
  - destruct (opt_list (map (resolve n sb) a)) as [l|] eqn:O; [|discriminate]. simpl in H.
    apply opt_list_some in O.
    assert (O' : opt_list (map (resolve m sb) a) = Some l).
    { apply opt_list_some. eapply Forall2_impl; [|exact O]. simpl. intros u w Hu. apply IH; auto. lia. }
    rewrite O'. auto.
Qed.

Lemma resolve_det sb n m t u v : resolve n sb t = Some u -> resolve m sb t = Some v -> u = v.
Proof.
  intros H1 H2. apply resolve_mono with (m := max n m) in H1; [|lia].
  apply resolve_mono with (m := max n m) in H2; [|lia]. congruence.
Qed.

Lemma resolve_total_term sb : forall w,
  (forall y, In y (vars w) -> exists n v, resolve n sb (Ex y) = Some v) -> exists n v, resolve n sb w = Some v.
Proof.
  induction w as [x|h a IH] using ty_ind'; intros Hv.
  - apply Hv. left; auto.
  - assert (exists n l, opt_list (map (resolve n sb) a) = Some l) as [n [l Hl]].
    { induction IH as [|u a Hu _ IHa].
      - exists 0, []. reflexivity.
      - destruct IHa as [n1 [l1 H1]]. { intros y Hy. apply Hv. simpl. apply in_or_app. auto. }
        destruct Hu as [n2 [v2 H2]]. { intros y Hy. apply Hv. simpl. apply in_or_app. auto. }
        exists (max n1 n2), (v2 :: l1). apply opt_list_some. constructor.
        + eapply resolve_mono; eauto. lia.
        + apply opt_list_some in H1. eapply Forall2_impl; [|exact H1]. simpl. intros. eapply resolve_mono; eauto. lia. }
    exists (S n), (Nd h l). simpl. rewrite Hl. reflexivity.
Qed.

Lemma resolve_total sb : wfs sb -> forall t, exists n v, resolve n sb t = Some v.
Proof.
  intros W t. apply resolve_total_term. intros y _. induction (W y) as [y _ IH].
  destruct (lookup sb y) as [w|] eqn:L.
  - destruct (resolve_total_term sb w) as [n [v H]].
    { intros z Hz. apply IH. exists w; auto. }
    exists (S n), v. simpl. rewrite L. auto.
  - exists 1, (Ex y). simpl. rewrite L. auto.
Qed.

(** the assignment read off sigma* with fuel m *)
Definition star (m : nat) (sb : subst) : asg :=
  fun x => match resolve m sb (Ex x) with Some u => u | None => Ex x end.

Lemma resolve_is_inst sb m k : forall w v, resolve k sb w = Some v ->
  (forall y, In y (vars w) -> resolve m sb (Ex y) <> None) -> v = inst (star m sb) w.
Proof.
  induction k as [|k IH]; intros w v; simpl; [discriminate|].
  destruct w as [x|h a].
  - intros H Hc. specialize (Hc x (or_introl eq_refl)). unfold star. simpl.
    destruct (resolve m sb (Ex x)) as [u|] eqn:R; [|congruence].
    destruct (lookup sb x) as [w|] eqn:L.
    + destruct m; [discriminate|]. simpl in R. rewrite L in R. eapply resolve_det; eauto.
    + destruct m; [discriminate|]. simpl in R. rewrite L in R. congruence.
  - destruct (opt_list (map (resolve k sb) a)) as [l|] eqn:O; [|discriminate].
    simpl. intros [= <-] Hc. f_equal. apply opt_list_some in O.
    revert Hc. induction O as [|u v a l Hu _ IHO]; intros Hc; simpl; auto. f_equal.
    + apply IH; auto. intros y Hy. apply Hc. simpl. apply in_or_app; auto.
    + apply IHO. intros y Hy. apply Hc. simpl. apply in_or_app; auto.
Qed.

Lemma lookup_in (sb : subst) x w : lookup sb x = Some w -> In (x, w) sb.
Proof.
  induction sb as [|[y t] sb IH]; simpl; [discriminate|].
  destruct (N.eqb_spec x y). intros [= <-]. subst. auto. auto.
Qed.

Lemma resolve_cover sb : wfs sb -> forall L : list N, exists m, forall y, In y L -> resolve m sb (Ex y) <> None.
Proof.
  intros W. induction L as [|x L [m Hm]].
  - exists 0. intros y [].
  - destruct (resolve_total sb W (Ex x)) as [n [v Hn]]. exists (max n m). intros y [<-|Hy].
    + rewrite (resolve_mono _ _ _ _ Hn (max n m)) by lia. discriminate.
    + specialize (Hm y Hy). destruct (resolve m sb (Ex y)) eqn:R; [|congruence].
      rewrite (resolve_mono _ _ _ _ R (max n m)) by lia. discriminate.
Qed.

Definition allvars (sb : subst) : list N := flat_map (fun p => fst p :: vars (snd p)) sb.

(** sigma* solves sigma (exactly, hence modulo any projection) *)
Lemma star_sol pr sb m : wfs sb -> (forall y, In y (allvars sb) -> resolve m sb (Ex y) <> None) -> sol pr (star m sb) sb.
Proof.
  intros W Hc x w L. unfold eqv. f_equal. simpl.
  assert (Hin : In (x, w) sb) by (apply lookup_in; auto).
  assert (Hx : In x (allvars sb)). { unfold allvars. apply in_flat_map. exists (x, w). split; auto. left; auto. }
  assert (Hw : forall y, In y (vars w) -> In y (allvars sb)).
  { intros y Hy. unfold allvars. apply in_flat_map. exists (x, w). split; auto. right; auto. }
  unfold star at 1. specialize (Hc x Hx) as Hcx. destruct (resolve m sb (Ex x)) as [u|] eqn:R; [|congruence].
  destruct m; [discriminate|]. simpl in R. rewrite L in R.
  eapply resolve_is_inst; eauto.
Qed.
