(** C05 — executable model of [track_hugr_side_effects] (compiler/core.py) — definitions only.

    The HUGR under construction is a table of nodes; node [i] is the [i]-th node ever added
    (hugr-py hands out fresh indices in insertion order; the harness checks that on every
    log).  Node 0 is the module root and exists before the tracking context is entered.
    What the tracking code looks at:
      - [may_have_side_effect op]                       -> the flag [n_eff] of the inserted node
                                                         (the predicate itself is part 3, GenEffects.v)
      - [hugr[node].parent]                             -> [n_parent]
      - [isinstance(hugr[parent].op, ops.FuncDefn)]     -> [KFuncDefn]
      - [isinstance(hugr[parent].op, Conditional | CFG)]-> [KCond]
      - [hugr.children(parent)[0]] / [[1]] and the asserts that they are Input / Output
      - the dict [prev_node_with_side_effect]           -> [prev] (association list, newest first)
      - [hugr.add_order_link a b]                       -> [(a, b)] pushed on [edges] (newest first)
    A failed assert / IndexError / KeyError of the Python code is [None]. *)
From Coq Require Import List Bool Arith.
Import ListNotations.

Inductive kind :=
| KModule            (* the root *)
| KFuncDefn
| KDf                (* any other dataflow parent: DFG, DataflowBlock, Case, TailLoop *)
| KCond              (* Conditional or CFG: children are Cases / blocks, no order edges inside *)
| KInput | KOutput
| KOp.               (* every other operation *)

Definition kind_eqb (a b : kind) : bool :=
  match a, b with
  | KModule, KModule | KFuncDefn, KFuncDefn | KDf, KDf | KCond, KCond
  | KInput, KInput | KOutput, KOutput | KOp, KOp => true
  | _, _ => false
  end.

Record node := mkNode { n_parent : nat; n_kind : kind; n_eff : bool }.

Record st := mkSt {
  nodes : list node;               (* index = node id; node 0 is the module root *)
  prev : list (nat * nat);         (* prev_node_with_side_effect: parent -> last node *)
  edges : list (nat * nat) }.      (* order edges, newest first *)

Definition init : st := mkSt [mkNode 0 KModule false] [] [].

Fixpoint lookup (k : nat) (l : list (nat * nat)) : option nat :=
  match l with
  | [] => None
  | (a, b) :: r => if Nat.eqb a k then Some b else lookup k r
  end.

Definition parent_of (ns : list node) (n : nat) : option nat :=
  match nth_error ns n with Some x => Some (n_parent x) | None => None end.
Definition kind_of (ns : list node) (n : nat) : option kind :=
  match nth_error ns n with Some x => Some (n_kind x) | None => None end.

(** [hugr.children(p)]: the nodes whose parent is [p], in insertion order (the root is its
    own parent in the table and is not its own child). *)
Definition is_child (ns : list node) (p i : nat) : bool :=
  match nth_error ns i with
  | Some x => Nat.eqb (n_parent x) p && negb (Nat.eqb i 0)
  | None => false
  end.
Definition children (ns : list node) (p : nat) : list nat :=
  filter (is_child ns p) (seq 0 (length ns)).

Definition child_with_kind (ns : list node) (p idx : nat) (k : kind) : option nat :=
  match nth_error (children ns p) idx with
  | Some c => match kind_of ns c with
              | Some k' => if kind_eqb k k' then Some c else None    (* the assert *)
              | None => None
              end
  | None => None                                                    (* IndexError *)
  end.
Definition input_of (ns : list node) (p : nat) := child_with_kind ns p 0 KInput.
Definition output_of (ns : list node) (p : nat) := child_with_kind ns p 1 KOutput.

(** the tail of [handle_side_effect]: add the edge unless it would be a self loop *)
Definition link (q n p : nat) (s : st) : st :=
  if Nat.eqb q n then s
  else mkSt (nodes s) ((p, n) :: prev s) ((q, n) :: edges s).

Definition link_from_input (n p : nat) (s : st) : option st :=
  match input_of (nodes s) p with
  | Some i => Some (link i n p s)
  | None => None
  end.

(** [handle_side_effect(node, hugr)]; the recursion climbs to the parent, whose index is
    smaller, so [fuel = S n] always suffices (lemma in ProofsOrder.v). *)
Fixpoint handle (fuel : nat) (n : nat) (s : st) : option st :=
  match fuel with
  | O => None
  | S f =>
    if Nat.eqb n 0 then None                       (* assert parent is not None *)
    else
    match parent_of (nodes s) n with
    | None => None
    | Some p =>
      match lookup p (prev s) with
      | Some q => Some (link q n p s)
      | None =>
        match kind_of (nodes s) p with
        | None => None
        | Some KFuncDefn => link_from_input n p s
        | Some k =>
          match handle f p s with
          | None => None
          | Some s1 =>
            match k with
            | KCond => Some s1
            | _ => link_from_input n p s1
            end
          end
        end
      end
    end
  end.

(** one call of the patched [Hugr.add_node] *)
Record ins := mkIns { i_parent : nat; i_kind : kind; i_eff : bool }.

Definition add (i : ins) (s : st) : option st :=
  let n := length (nodes s) in
  if Nat.ltb (i_parent i) n then
    let s1 := mkSt (nodes s ++ [mkNode (i_parent i) (i_kind i) (i_eff i)]) (prev s) (edges s) in
    if i_eff i then handle (S n) n s1 else Some s1
  else None.

Fixpoint add_all (l : list ins) (s : st) : option st :=
  match l with
  | [] => Some s
  | i :: r => match add i s with Some s1 => add_all r s1 | None => None end
  end.

(** leaving the context: connect the last node of every tracked parent to its Output *)
Definition final_edge (ns : list node) (pv : list (nat * nat)) (p : nat) : option (list (nat * nat)) :=
  match lookup p pv with
  | None => Some []
  | Some last =>
    match output_of ns p with
    | Some o => if Nat.eqb last o then None else Some [(last, o)]
    | None => None
    end
  end.

Fixpoint final_edges (ns : list node) (pv : list (nat * nat)) (ps : list nat) : option (list (nat * nat)) :=
  match ps with
  | [] => Some []
  | p :: r =>
    match final_edge ns pv p, final_edges ns pv r with
    | Some a, Some b => Some (b ++ a)
    | _, _ => None
    end
  end.

Definition finish (s : st) : option st :=
  match final_edges (nodes s) (prev s) (seq 0 (length (nodes s))) with
  | Some es => Some (mkSt (nodes s) (prev s) (es ++ edges s))
  | None => None
  end.

(** a whole tracking context started on the table [s0] (earlier contexts leave nodes behind,
    but [prev] starts empty) *)
Definition track (s0 : st) (l : list ins) : option st :=
  match add_all l (mkSt (nodes s0) [] (edges s0)) with
  | Some s => finish s
  | None => None
  end.

(** ---------------------------------------------------------------------------------
    Specification side (written from the node table only, no [prev], no recursion of
    [handle]): which child of region [p] carries the side effect of leaf [m]. *)

(** the child of [p] on the ancestor path of [m], provided the path from [m] up to that child
    does not leave a function definition *)
Fixpoint proj (fuel : nat) (ns : list node) (p m : nat) : option nat :=
  match fuel with
  | O => None
  | S f =>
    if Nat.eqb m 0 then None else
    match nth_error ns m with
    | None => None
    | Some x =>
      let q := n_parent x in
      if Nat.eqb q p then Some m
      else match kind_of ns q with
           | Some KFuncDefn => None
           | Some _ => proj f ns p q
           | None => None
           end
    end
  end.

Definition is_eff (ns : list node) (m : nat) : bool :=
  match nth_error ns m with Some x => n_eff x | None => false end.

(** side-effect events of region [p] caused by the effectful leaves with index in
    [start, start+len), in insertion order: for each such leaf below [p] (not across a nested
    function definition) the child of [p] that contains it *)
Definition eff_leaves (ns : list node) (start len : nat) : list nat :=
  filter (is_eff ns) (seq start len).
Definition event_of (ns : list node) (p m : nat) : list nat :=
  match proj (S m) ns p m with Some c => [c] | None => [] end.
Definition events_range (ns : list node) (p start len : nat) : list nat :=
  flat_map (event_of ns p) (eff_leaves ns start len).
Definition events (ns : list node) (p : nat) : list nat := events_range ns p 0 (length ns).

Fixpoint mem (x : nat) (l : list nat) : bool :=
  match l with [] => false | y :: r => Nat.eqb x y || mem x r end.

(** keep the first occurrence of every element *)
Fixpoint nodup_first_acc (seen l : list nat) : list nat :=
  match l with
  | [] => []
  | x :: r => if mem x seen then nodup_first_acc seen r else x :: nodup_first_acc (x :: seen) r
  end.
Definition nodup_first (l : list nat) : list nat := nodup_first_acc [] l.

(** the chain the property asks for: the children of [p] that contain a side effect, ordered by
    the insertion time of their first side-effecting leaf *)
Definition spec_chain (ns : list node) (p : nat) : list nat := nodup_first (events ns p).

Fixpoint pairs (l : list nat) : list (nat * nat) :=
  match l with
  | a :: ((b :: _) as r) => (a, b) :: pairs r
  | _ => []
  end.

(** the order edges whose target lies in region [p], oldest first *)
Definition region_edges (s : st) (p : nat) : list (nat * nat) :=
  filter (fun e => match parent_of (nodes s) (snd e) with
                   | Some q => Nat.eqb q p && negb (Nat.eqb (snd e) 0)
                   | None => false end) (rev (edges s)).

Definition is_region (ns : list node) (p : nat) : bool :=
  match kind_of ns p with Some KFuncDefn | Some KDf => true | _ => false end.

(** building discipline: whenever a region receives an event for a child that already had
    one, that child is the one that had the latest event (nothing with a side effect is added
    elsewhere in the region between two side effects added below the same child).
    Decidable; evaluated on every real insertion log by the harness. *)
Fixpoint discb_acc (seen : list nat) (last : option nat) (l : list nat) : bool :=
  match l with
  | [] => true
  | c :: r =>
    (if mem c seen then match last with Some q => Nat.eqb q c | None => false end else true)
    && discb_acc (c :: seen) (Some c) r
  end.
Definition discb (l : list nat) : bool := discb_acc [] None l.

Definition regions (ns : list node) : list nat := filter (is_region ns) (seq 0 (length ns)).

(** nodes that may have children *)
Definition is_container (ns : list node) (p : nat) : bool :=
  match kind_of ns p with
  | Some KModule | Some KFuncDefn | Some KDf | Some KCond => true
  | _ => false
  end.
Definition containers (ns : list node) : list nat := filter (is_container ns) (seq 0 (length ns)).

(** events of the tracking context that started when the table had [start] nodes *)
Definition ctx_events (ns : list node) (start p : nat) : list nat :=
  events_range ns p start (length ns - start).

Definition disciplined (ns : list node) (start : nat) : bool :=
  forallb (fun p => discb (ctx_events ns start p)) (containers ns).

(** well-formed table: parents precede children, only the root is its own parent, effectful
    nodes are not Input nodes, only containers (module, function definitions, dataflow parents,
    Conditional/CFG) have children *)
Definition wf_node (ns : list node) (i : nat) : bool :=
  match nth_error ns i with
  | None => false
  | Some x =>
    (Nat.eqb i 0 || Nat.ltb (n_parent x) i)
    && negb (n_eff x && kind_eqb (n_kind x) KInput)
    && is_container ns (n_parent x)
  end.
Definition wf (ns : list node) : bool := forallb (wf_node ns) (seq 0 (length ns)).

(** the chain the property asks for in region [p], for the context started at [start]: the
    children of [p] that contain a side effect, ordered by the insertion time of their first
    side-effecting leaf; and the full expected edge list Input -> chain -> Output *)
Definition ctx_chain (ns : list node) (start p : nat) : list nat := nodup_first (ctx_events ns start p).

Definition expected_edges (ns : list node) (start p : nat) : list (nat * nat) :=
  match ctx_chain ns start p, input_of ns p, output_of ns p with
  | [], _, _ => []
  | ch, Some i, Some o => pairs (i :: ch ++ [o])
  | _, _, _ => []
  end.
