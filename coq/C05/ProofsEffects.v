(** C05 part 3 — finite check of the generated table. *)
From Coq Require Import List Bool String Arith.
From V.C05 Require Import ModelEffects GenEffects.
Import ListNotations.

Definition row_ok (r : row) : bool := implb (must_be_ordered r) (may_have_side_effect (r_op r)).

Lemma rows_ok : forallb row_ok std_rows = true.
Proof. vm_compute. reflexivity. Qed.

Lemma effect_classification_all : forall r, In r std_rows ->
  must_be_ordered r = true -> may_have_side_effect (r_op r) = true.
Proof.
  intros r Hin Hm. pose proof (proj1 (forallb_forall row_ok std_rows) rows_ok r Hin) as H.
  unfold row_ok in H. rewrite Hm in H. exact H.
Qed.

(* the table is not vacuous: it contains rows that must be ordered *)
Lemma rows_nontrivial : existsb must_be_ordered std_rows = true.
Proof. vm_compute. reflexivity. Qed.
