(** C05 part 3 — the shape of a HUGR operation as seen by [may_have_side_effect]
    (compiler/core.py) and the property's own notion of "must be ordered" (definitions only).

    [may_have_side_effect] itself and the list [EXTENSION_OPS_WITH_SIDE_EFFECTS] are
    REGENERATED from /repo's core.py into GenEffects.v on every run. *)
From Coq Require Import List Bool String Arith.
Import ListNotations.
Open Scope string_scope.

Inductive op :=
| OExt (qname : string)              (* ops.ExtOp: op_def().qualified_name() *)
| OCustom (ext name : string)        (* ops.Custom(op_name, extension) *)
| OCall | OCallIndirect
| OOther (cls : string).             (* any other ops.* class, by class name *)

Fixpoint mem_str (x : string) (l : list string) : bool :=
  match l with [] => false | y :: r => String.eqb x y || mem_str x r end.

(** One row of the table of operations the standard library emits (read back from real
    compilations of one probe program per std function by props/C05/impl_probe.py):
    the std function, the operation, and how many qubit wires go in / come out (a qubit inside
    an Option counts as one possible qubit). *)
Record row := mkRow { r_fn : string; r_op : op; r_qin : nat; r_qout : nat }.

Definition prefix_of (p s : string) : bool := String.prefix p s.

(** The property's list, written from its text — "function calls, result reports, panics, and
    qubit allocation and measurement" — independently of core.py:
      - every call (direct or indirect),
      - every operation of the result-reporting extension and the state-result debug operation,
      - prelude panic and exit,
      - every quantum operation that changes the number of live qubits (allocation, freeing,
        destructive measurement).  Operations that hand every qubit back (gates, reset,
        non-destructive measurement) are ordered by the linear qubit wire itself. *)
Definition must_be_ordered (r : row) : bool :=
  match r_op r with
  | OCall | OCallIndirect => true
  | OExt q =>
      prefix_of "tket.result." q || String.eqb q "tket.debug.StateResult"
      || String.eqb q "prelude.panic" || String.eqb q "prelude.exit"
      || ((prefix_of "tket.quantum." q || prefix_of "tket.qsystem." q) && negb (Nat.eqb (r_qin r) (r_qout r)))
  | OCustom e n =>
      let q := if String.eqb e "" then n else e ++ "." ++ n in
      prefix_of "tket.result." q || String.eqb q "tket.debug.StateResult"
      || String.eqb q "prelude.panic" || String.eqb q "prelude.exit"
      || ((prefix_of "tket.quantum." q || prefix_of "tket.qsystem." q) && negb (Nat.eqb (r_qin r) (r_qout r)))
  | OOther _ => false
  end.
