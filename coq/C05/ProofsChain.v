(** C05 — boolean hypotheses evaluated by the harness imply the propositions used in
    ProofsOrder.v; membership / no-duplicate facts about the specified chain. *)
From Coq Require Import List Bool Arith Lia.
From V.C05 Require Import ModelOrderEdges ModelRun ProofsLists ProofsTable ProofsOrder.
Import ListNotations.

Lemma wf_nodes : forall ns, wf ns = true -> forall i x, nth_error ns i = Some x ->
     (Nat.eqb i 0 || Nat.ltb (n_parent x) i) = true /\
     (n_eff x && kind_eqb (n_kind x) KInput) = false /\
     is_container ns (n_parent x) = true.
Proof.
  intros ns H i x NX. unfold wf in H. rewrite forallb_forall in H.
  assert (In i (seq 0 (length ns))) by (apply in_seq; apply nth_in_range in NX; lia).
  apply H in H0. unfold wf_node in H0. rewrite NX in H0.
  apply andb_prop in H0. destruct H0 as [H0 C]. apply andb_prop in H0. destruct H0 as [A B].
  apply negb_true_iff in B. auto.
Qed.

Lemma wf_sound : forall ns, wf ns = true -> WF ns.
Proof.
  intros ns H. pose proof (wf_nodes ns H) as N.
  split; [|split].
  - intros i x NX I0. destruct (N i x NX) as (A & _ & _). apply orb_prop in A. destruct A as [A|A].
    + apply Nat.eqb_eq in A. contradiction.
    + apply Nat.ltb_lt in A. exact A.
  - intros i x NX EF K. destruct (N i x NX) as (_ & B & _). rewrite EF, K in B. discriminate.
  - intros i x NX K. destruct (N i x NX) as (_ & _ & C). unfold is_container in C. rewrite K in C. discriminate.
Qed.

Lemma climb_keys_parent : forall ns f x p c, In (p, c) (climb f ns x) ->
  exists j y, nth_error ns j = Some y /\ n_parent y = p.
Proof.
  induction f as [|f IH]; intros x p c H; simpl in H; [tauto|].
  destruct (Nat.eqb x 0); [simpl in H; tauto|].
  destruct (nth_error ns x) as [nd|] eqn:NX; [|simpl in H; tauto].
  destruct H as [H|H]; [inversion H; subst; eauto|].
  destruct (kind_of ns (n_parent nd)) as [k|]; [|simpl in H; tauto].
  destruct k; try (simpl in H; tauto); eauto.
Qed.

Lemma events_container : forall ns start p, wf ns = true -> ctx_events ns start p <> [] -> is_container ns p = true.
Proof.
  intros ns start p H NE. destruct (wf_sound _ H) as (PL & _ & _).
  destruct (ctx_events ns start p) as [|c r] eqn:E; [congruence|].
  assert (Hc : In c (ctx_events ns start p)) by (rewrite E; left; auto).
  unfold ctx_events, events_range, eff_leaves in Hc. apply in_flat_map in Hc. destruct Hc as [m [_ Hc]].
  rewrite event_of_sel in Hc by auto. apply sel_in in Hc.
  apply climb_keys_parent in Hc. destruct Hc as (j & y & NJ & <-).
  apply (wf_nodes ns H j y NJ).
Qed.

Lemma disciplined_sound : forall ns start, wf ns = true -> disciplined ns start = true ->
  forall p, Disc (ctx_events ns start p).
Proof.
  intros ns start W H p. unfold disciplined in H. rewrite forallb_forall in H.
  destruct (ctx_events ns start p) eqn:E; [apply Disc_nil|]. rewrite <- E.
  assert (C : is_container ns p = true) by (apply (events_container ns start); auto; rewrite E; discriminate).
  apply discb_sound, H. unfold containers. apply filter_In. split; auto. apply in_seq.
  unfold is_container, kind_of in C. destruct (nth_error ns p) eqn:NX; [|discriminate]. apply nth_in_range in NX. lia.
Qed.

Lemma local_ok_sound : forall before after, wf (nodes after) = true -> local_ok before after = true ->
  (forall p, ctx_events (nodes after) (length (nodes before)) p <> [] -> region_edges before p = []) /\
  (forall a b, In (a, b) (edges before) -> b < length (nodes before)).
Proof.
  intros before after W H. unfold local_ok in H. apply andb_prop in H. destruct H as [H1 H2].
  rewrite forallb_forall in H1, H2. split.
  - intros p NE.
    assert (C : is_container (nodes after) p = true) by (eapply events_container; eauto).
    assert (In p (containers (nodes after))).
    { unfold containers. apply filter_In. split; auto. apply in_seq.
      unfold is_container, kind_of in C. destruct (nth_error (nodes after) p) eqn:NX; [|discriminate]. apply nth_in_range in NX. lia. }
    apply H1 in H. destruct (ctx_events (nodes after) (length (nodes before)) p); [congruence|].
    destruct (region_edges before p); [reflexivity|discriminate].
  - intros a b Hab. apply H2 in Hab. simpl in Hab. apply Nat.ltb_lt in Hab. exact Hab.
Qed.

Lemma is_region_linkable : forall ns p, is_region ns p = true -> linkable ns p = true.
Proof. intros ns p H. unfold is_region, linkable in *. destruct (kind_of ns p) as [k|]; [|discriminate]. destruct k; auto; discriminate. Qed.

(** the specified chain has no duplicates and contains exactly the children below which an
    effectful leaf of the context lies *)
Lemma nfa_spec : forall l seen a, In a (nodup_first_acc seen l) <-> In a l /\ ~ In a seen.
Proof.
  induction l as [|x r IH]; intros seen a; simpl; [tauto|].
  destruct (mem x seen) eqn:M.
  - rewrite IH. apply mem_In in M. split; [tauto|]. intros [[->|H] N]; [contradiction|tauto].
  - apply mem_false in M. simpl. rewrite IH. simpl. split.
    + intros [->|[H N]]; [tauto|tauto].
    + intros [[->|H] N]; [tauto|]. destruct (Nat.eq_dec x a); [tauto|]. right. split; auto. intros [E|E]; tauto.
Qed.

Lemma nf_in : forall l a, In a (nodup_first l) <-> In a l.
Proof. intros. unfold nodup_first. rewrite nfa_spec. simpl. tauto. Qed.

Lemma nfa_nodup : forall l seen, NoDup (nodup_first_acc seen l).
Proof.
  induction l as [|x r IH]; intros seen; simpl; [constructor|].
  destruct (mem x seen); auto. constructor; auto. rewrite nfa_spec. simpl. tauto.
Qed.

Lemma chain_nodup : forall ns start p, NoDup (ctx_chain ns start p).
Proof. intros. apply nfa_nodup. Qed.

Lemma chain_members : forall ns start p c,
  In c (ctx_chain ns start p) <->
  exists m, start <= m < start + (length ns - start) /\ is_eff ns m = true /\ proj (S m) ns p m = Some c.
Proof.
  intros. unfold ctx_chain. rewrite nf_in. unfold ctx_events, events_range, eff_leaves.
  rewrite in_flat_map. split.
  - intros [m [Hm Hc]]. apply filter_In in Hm. destruct Hm as [Hs He]. apply in_seq in Hs.
    exists m. repeat split; try tauto. unfold event_of in Hc.
    destruct (proj (S m) ns p m); simpl in Hc; [destruct Hc; [subst; auto|tauto]|tauto].
  - intros [m [Hs [He Hp]]]. exists m. split.
    + apply filter_In. split; auto. apply in_seq. exact Hs.
    + unfold event_of. rewrite Hp. left; auto.
Qed.

(** a region (other than a function definition) with a non-empty chain is itself in the chain
    of its parent region (or, through a Conditional/CFG, the Conditional/CFG is) *)
Lemma track_coh : forall s0 l W,
  track s0 l = Some W -> WF (nodes W) ->
  (forall a b, In (a, b) (edges s0) -> b < length (nodes s0)) ->
  (forall p, Disc (ctx_events (nodes W) (length (nodes s0)) p)) ->
  (forall p, ctx_events (nodes W) (length (nodes s0)) p <> [] -> region_edges s0 p = []) ->
  Coh (nodes W) (fun p => ctx_events (nodes W) (length (nodes s0)) p).
Proof.
  intros s0 l W T WFW HE0 HD HL.
  unfold track in T. destruct (add_all l (mkSt (nodes s0) [] (edges s0))) as [s|] eqn:A; [|discriminate].
  unfold finish in T. destruct (final_edges (nodes s) (prev s) (seq 0 (length (nodes s)))) as [es|] eqn:F; [|discriminate].
  inversion T; subst W. simpl in *.
  destruct (add_all_nodes _ _ _ A) as [tl N]. simpl in N.
  assert (G0 : G s0 (mkSt (nodes s0) [] (edges s0))).
  { destruct WFW as (PLW & _ & _). rewrite N in PLW. apply parents_lt_prefix in PLW.
    assert (E0 : forall q, ctx_events (nodes s0) (length (nodes s0)) q = []).
    { intros q. unfold ctx_events, events_range, eff_leaves. rewrite Nat.sub_diag. reflexivity. }
    split; [exact PLW|]. split; [simpl; lia|]. split; [simpl; exact HE0|]. split.
    - intros q. simpl. rewrite E0. split; [reflexivity|]. intros _ Pq. split; [reflexivity|]. split; [exact Pq|congruence].
    - intros r NE. simpl in NE. rewrite E0 in NE. congruence. }
  pose proof (add_all_G s0 _ _ _ A G0 WFW HD HL) as (_ & _ & _ & _ & C). exact C.
Qed.

Lemma region_in_parent_chain : forall s0 l W,
  track s0 l = Some W -> WF (nodes W) ->
  (forall a b, In (a, b) (edges s0) -> b < length (nodes s0)) ->
  (forall p, Disc (ctx_events (nodes W) (length (nodes s0)) p)) ->
  (forall p, ctx_events (nodes W) (length (nodes s0)) p <> [] -> region_edges s0 p = []) ->
  forall r p, ctx_chain (nodes W) (length (nodes s0)) r <> [] ->
    kind_of (nodes W) r <> Some KFuncDefn -> parent_of (nodes W) r = Some p -> r <> 0 ->
    In r (ctx_chain (nodes W) (length (nodes s0)) p).
Proof.
  intros s0 l W T WFW HE0 HD HL r p NE KF PR R0.
  pose proof (track_coh _ _ _ T WFW HE0 HD HL) as C.
  unfold ctx_chain. apply nf_in. apply (C r); auto.
  - intros Z. apply NE. unfold ctx_chain. rewrite Z. reflexivity.
  - unfold parent_of in PR. destruct (nth_error (nodes W) r) as [nd|] eqn:NX; [|discriminate].
    inversion PR; subst p. apply Nat.eqb_neq in R0.
    rewrite (climb_unfold r (nodes W) r nd R0 NX). left. reflexivity.
Qed.
