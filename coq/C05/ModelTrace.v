(** C05 part 1 — what is observed of a run as far as side effects go: the sequence of call
    events (definitions only; the semantics are coq/C03/PySem.v and CfgSem.v). *)
From Coq Require Import ZArith List Bool.
From V.C03 Require Import PyAst PySem Cfg CfgSem Builder Witness.
Import ListNotations.

(** called functions, oldest first *)
Definition fns (st : state) : list nat := map ev_fn (rev (snd st)).

(** call sites of a lift-free expression in Python's evaluation order: operands left to
    right, arguments before the call; every call site exactly once *)
Fixpoint calls (e : expr) : list nat :=
  match e with
  | EConst _ | EName _ => []
  | EUnary _ a => calls a
  | EBin _ a b => calls a ++ calls b
  | ECmp l rest => calls l ++ calls_ctail rest
  | EBool _ _ _ | EIf _ _ _ | EWalrus _ _ => []
  | ECall f args => calls_list args ++ [f]
  | ETuple es => calls_list es
  end
with calls_list (es : exprs) : list nat :=
  match es with ENil => [] | ECons e r => calls e ++ calls_list r end
with calls_ctail (t : ctail) : list nat :=
  match t with CLast _ e => calls e | CMore _ _ _ => [] end.

(** full call events (function, arguments, result), oldest first *)
Definition trace_of (r : res (val * state)) : option (list event) :=
  match r with Done (_, st) => Some (rev (snd st)) | _ => None end.

Definition called (r : res (val * state)) : option (list nat) :=
  match r with Done (_, st) => Some (fns st) | _ => None end.

Definition nats_eqb (a b : list nat) : bool := if list_eq_dec Nat.eq_dec a b then true else false.

(** [trace_refutes p]: the builder accepts p, Python's run from [st0] terminates, and no run of
    the built CFG, whatever the fuel, calls the same functions in the same order *)
Definition trace_refutes (p : stmts) : Prop :=
  exists g s rp, build p true = BOk g s /\
    exec_py test_oracle 50 p st0 = Done rp /\
    forall fuel rc, run_cfg test_oracle g fuel st0 = Done rc -> called (Done rc) <> called (Done rp).

Definition trace_refutes_b (p : stmts) : bool :=
  match build p true with
  | BOk g _ =>
      match exec_py test_oracle 50 p st0, run_cfg test_oracle g 500 st0 with
      | Done rp, Done rc => negb (nats_eqb (fns (snd rc)) (fns (snd rp)))
      | _, _ => false
      end
  | BErr _ => false
  end.

(* v1 = (f0() + (v2 := f2()))    the walrus operand is evaluated before f0() *)
Definition w_walrus_order := one (SAssign (TName (VU 1)) (EBin BAdd (call0 0) (EWalrus 2 (call0 2)))).
