(** C05 — running the model of [track_hugr_side_effects] over a whole compilation
    (several tracking contexts, plain insertions between them) and the executable checks the
    harness evaluates on every real insertion log (definitions only). *)
From Coq Require Import List Bool Arith.
From V.C05 Require Import ModelOrderEdges.
Import ListNotations.

(** a node added while [Hugr.add_node] is NOT patched (outside every tracking context) *)
Definition add_plain (i : ins) (s : st) : option st :=
  if Nat.ltb (i_parent i) (length (nodes s)) then
    Some (mkSt (nodes s ++ [mkNode (i_parent i) (i_kind i) (i_eff i)]) (prev s) (edges s))
  else None.

Fixpoint add_plain_all (l : list ins) (s : st) : option st :=
  match l with
  | [] => Some s
  | i :: r => match add_plain i s with Some s1 => add_plain_all r s1 | None => None end
  end.

Inductive seg := SCtx (l : list ins) | SPlain (l : list ins).

(** a region is used by one context only: whenever a context adds an event to region [p], no
    earlier order edge points into [p] *)
Definition local_ok (before after : st) : bool :=
  let start := length (nodes before) in
  let len := length (nodes after) - start in
  forallb (fun p => match events_range (nodes after) p start len with
                    | [] => true
                    | _ => match region_edges before p with [] => true | _ => false end
                    end) (regions (nodes after)).

(** classified nodes added outside every context are never ordered *)
Definition plain_ok (l : list ins) : bool := forallb (fun i => negb (i_eff i)) l.

Fixpoint run_segs (l : list seg) (s : st) (ok : bool) : option (st * bool) :=
  match l with
  | [] => Some (s, ok)
  | SCtx c :: r =>
      match track s c with
      | Some s1 => run_segs r s1 (ok && local_ok s s1)
      | None => None
      end
  | SPlain c :: r =>
      match add_plain_all c s with
      | Some s1 => run_segs r s1 (ok && plain_ok c)
      | None => None
      end
  end.

(** everything the harness compares, for one compilation:
      model edges (oldest first), per region the edges found by the model and the edges the
      specification asks for, and the flags wf / disciplined / context-local *)
Record report := mkReport {
  rp_edges : list (nat * nat);
  rp_regions : list (nat * (list (nat * nat) * list (nat * nat)));
  rp_wf : bool; rp_disc : bool; rp_local : bool }.

Definition run_report (l : list seg) : option report :=
  match run_segs l init true with
  | None => None
  | Some (s, ok) =>
      let ns := nodes s in
      Some (mkReport (rev (edges s))
                     (map (fun p => (p, (region_edges s p, expected_edges ns p))) (regions ns))
                     (wf ns) (disciplined ns) ok)
  end.

