(** C05 — running the model of [track_hugr_side_effects] over a whole compilation
    (several tracking contexts, plain insertions between them) and the executable checks the
    harness evaluates on every real insertion log (definitions only). *)
From Coq Require Import List Bool Arith.
From V.C05 Require Import ModelOrderEdges.
Import ListNotations.

(** a node added while [Hugr.add_node] is NOT patched (outside every tracking context) *)
Definition add_plain (i : ins) (s : st) : option st :=
  if Nat.ltb (i_parent i) (length (nodes s)) then
    Some (mkSt (nodes s ++ [mkNode (i_parent i) (i_kind i) (i_eff i)]) (prev s) (edges s))
  else None.

Fixpoint add_plain_all (l : list ins) (s : st) : option st :=
  match l with
  | [] => Some s
  | i :: r => match add_plain i s with Some s1 => add_plain_all r s1 | None => None end
  end.

Inductive seg := SCtx (l : list ins) | SPlain (l : list ins).

(** a region is used by one context only: whenever a context adds an event to region [p], no
    earlier order edge points into [p]; and all earlier edges point to existing nodes *)
Definition local_ok (before after : st) : bool :=
  let start := length (nodes before) in
  forallb (fun p => match ctx_events (nodes after) start p with
                    | [] => true
                    | _ => match region_edges before p with [] => true | _ => false end
                    end) (containers (nodes after))
  && forallb (fun e => Nat.ltb (snd e) start) (edges before).

(** the hypotheses of [order_edges_total] for one context *)
Definition ctx_ok (before after : st) : bool * bool * bool :=
  (wf (nodes after), disciplined (nodes after) (length (nodes before)), local_ok before after).

(** classified nodes added outside every context are never ordered *)
Definition plain_ok (l : list ins) : bool := forallb (fun i => negb (i_eff i)) l.

Fixpoint edges_eqb (a b : list (nat * nat)) : bool :=
  match a, b with
  | [], [] => true
  | (x, y) :: a', (u, v) :: b' => Nat.eqb x u && Nat.eqb y v && edges_eqb a' b'
  | _, _ => false
  end.

Definition and3 (a b : bool * bool * bool) : bool * bool * bool :=
  let '(a1, a2, a3) := a in let '(b1, b2, b3) := b in (a1 && b1, a2 && b2, a3 && b3).

(** state, flags (wf, disciplined, local) accumulated over the contexts, no classified node
    outside a context, and per context the theorem's conclusion evaluated on the model *)
Fixpoint run_segs (l : list seg) (s : st) (ok : bool * bool * bool) (plain concl : bool)
  : option (st * (bool * bool * bool) * bool * bool) :=
  match l with
  | [] => Some (s, ok, plain, concl)
  | SCtx c :: r =>
      match track s c with
      | Some s1 =>
          let start := length (nodes s) in
          let c1 := forallb (fun p => match region_edges s p with
                                      | [] => edges_eqb (region_edges s1 p) (expected_edges (nodes s1) start p)
                                      | _ => true end) (regions (nodes s1)) in
          run_segs r s1 (and3 ok (ctx_ok s s1)) plain (concl && c1)
      | None => None
      end
  | SPlain c :: r =>
      match add_plain_all c s with
      | Some s1 => run_segs r s1 ok (plain && plain_ok c) concl
      | None => None
      end
  end.

(** everything the harness compares, for one compilation:
      model edges (oldest first), per region the edges found by the model and the edges the
      specification asks for (all contexts together: start = 0), the flags wf / disciplined /
      context-local, "no classified node outside a context", and the conclusion of
      [order_edges_total] evaluated context by context on the model *)
Record report := mkReport {
  rp_edges : list (nat * nat);
  rp_regions : list (nat * (list (nat * nat) * list (nat * nat)));
  rp_wf : bool; rp_disc : bool; rp_local : bool; rp_plain : bool; rp_concl : bool }.

Definition run_report (l : list seg) : option report :=
  match run_segs l init (true, true, true) true true with
  | None => None
  | Some (s, (w, d, lo), pl, co) =>
      let ns := nodes s in
      Some (mkReport (rev (edges s))
                     (map (fun p => (p, (region_edges s p, expected_edges ns 0 p))) (regions ns))
                     w d lo pl co)
  end.
