(** C05 — list lemmas for the order-edge proof. *)
From Coq Require Import List Bool Arith Lia.
From V.C05 Require Import ModelOrderEdges.
Import ListNotations.

Definition last_opt (l : list nat) : option nat :=
  match rev l with [] => None | x :: _ => Some x end.

Lemma last_opt_snoc : forall l x, last_opt (l ++ [x]) = Some x.
Proof. intros. unfold last_opt. rewrite rev_app_distr. reflexivity. Qed.

Lemma last_opt_nil_inv : forall l, last_opt l = None -> l = [].
Proof.
  intros l H. unfold last_opt in H. destruct (rev l) eqn:E; [|discriminate].
  rewrite <- (rev_involutive l), E. reflexivity.
Qed.

Lemma last_opt_in : forall l x, last_opt l = Some x -> In x l.
Proof.
  intros l x H. unfold last_opt in H. destruct (rev l) eqn:E; [discriminate|]. inversion H; subst.
  apply in_rev. rewrite E. left; reflexivity.
Qed.

Lemma last_opt_split : forall l x, last_opt l = Some x -> exists l', l = l' ++ [x].
Proof.
  intros l x H. unfold last_opt in H. destruct (rev l) eqn:E; [discriminate|]. inversion H; subst.
  exists (rev l0). rewrite <- (rev_involutive l), E. reflexivity.
Qed.

Lemma mem_In : forall x l, mem x l = true <-> In x l.
Proof.
  induction l; simpl; [split; [discriminate|tauto]|].
  rewrite orb_true_iff, Nat.eqb_eq, IHl. split; intros [H|H]; auto.
Qed.

Lemma mem_false : forall x l, mem x l = false <-> ~ In x l.
Proof. intros. rewrite <- mem_In. destruct (mem x l); split; congruence. Qed.

(* nodup_first with an accumulator, snoc *)
Lemma nfa_snoc : forall l seen c,
  nodup_first_acc seen (l ++ [c]) =
  nodup_first_acc seen l ++ (if mem c seen || mem c l then [] else [c]).
Proof.
  induction l as [|x r IH]; intros seen c; simpl.
  - rewrite orb_false_r. destruct (mem c seen); reflexivity.
  - destruct (mem x seen) eqn:M.
    + rewrite IH. f_equal.
      destruct (Nat.eqb c x) eqn:E; simpl; auto.
      apply Nat.eqb_eq in E. subst. rewrite M. reflexivity.
    + simpl. rewrite IH. f_equal. simpl.
      destruct (Nat.eqb c x); simpl; auto. rewrite orb_true_r. reflexivity.
Qed.

Lemma nf_snoc_in : forall l c, In c l -> nodup_first (l ++ [c]) = nodup_first l.
Proof.
  intros. unfold nodup_first. rewrite nfa_snoc. simpl.
  apply mem_In in H. rewrite H. apply app_nil_r.
Qed.

Lemma nf_snoc_notin : forall l c, ~ In c l -> nodup_first (l ++ [c]) = nodup_first l ++ [c].
Proof.
  intros. unfold nodup_first. rewrite nfa_snoc. simpl.
  apply mem_false in H. rewrite H. reflexivity.
Qed.

Lemma nf_app_in : forall l2 l1, (forall a, In a l2 -> In a l1) -> nodup_first (l1 ++ l2) = nodup_first l1.
Proof.
  induction l2 as [|a r IH]; intros l1 H.
  - rewrite app_nil_r. reflexivity.
  - change (l1 ++ a :: r) with (l1 ++ [a] ++ r). rewrite app_assoc.
    rewrite IH.
    + apply nf_snoc_in. apply H. left; reflexivity.
    + intros b Hb. apply in_or_app. left. apply H. right. exact Hb.
Qed.

Lemma nfa_incl : forall l seen a, In a (nodup_first_acc seen l) -> In a l.
Proof.
  induction l; simpl; intros; auto.
  destruct (mem a seen); [right; eauto|].
  destruct H; [left; auto|right; eauto].
Qed.

Lemma nf_incl : forall l a, In a (nodup_first l) -> In a l.
Proof. intros. eapply nfa_incl; eauto. Qed.

Lemma nf_nil_inv : forall l, nodup_first l = [] -> l = [].
Proof. destruct l; auto. unfold nodup_first. simpl. discriminate. Qed.

(** discipline as a proposition *)
Definition Disc (l : list nat) : Prop :=
  forall l' c r, l = l' ++ c :: r -> In c l' -> last_opt l' = Some c.

Lemma Disc_prefix : forall l1 l2, Disc (l1 ++ l2) -> Disc l1.
Proof.
  intros l1 l2 H l' c r E Hin. apply (H l' c (r ++ l2)); auto.
  rewrite E. rewrite <- app_assoc. reflexivity.
Qed.

Lemma Disc_last : forall l c, Disc (l ++ [c]) -> In c l -> last_opt l = Some c.
Proof. intros l c H Hin. apply (H l c []); auto. Qed.

Lemma Disc_nil : Disc [].
Proof. intros l' c r E. destruct l'; discriminate. Qed.

(* under the discipline the last element of the chain is the last event *)
Lemma last_nf : forall l, Disc l -> last_opt (nodup_first l) = last_opt l.
Proof.
  induction l as [|y l' IH] using rev_ind; intros D; [reflexivity|].
  rewrite last_opt_snoc.
  destruct (in_dec Nat.eq_dec y l') as [Hin|Hn].
  - rewrite nf_snoc_in by exact Hin.
    rewrite IH by (eapply Disc_prefix; eauto).
    apply Disc_last; auto.
  - rewrite nf_snoc_notin by exact Hn. apply last_opt_snoc.
Qed.

Lemma pairs_snoc : forall l a x, pairs ((l ++ [a]) ++ [x]) = pairs (l ++ [a]) ++ [(a, x)].
Proof.
  induction l as [|b r IH]; intros a x; simpl; [reflexivity|].
  destruct r as [|c r']; simpl in *.
  - reflexivity.
  - rewrite IH. reflexivity.
Qed.

Lemma pairs_cons_snoc : forall i ch q x, last_opt ch = Some q ->
  pairs (i :: ch ++ [x]) = pairs (i :: ch) ++ [(q, x)].
Proof.
  intros i ch q x H. destruct (last_opt_split _ _ H) as [l' ->].
  change (i :: (l' ++ [q]) ++ [x]) with (((i :: l') ++ [q]) ++ [x]).
  rewrite pairs_snoc. reflexivity.
Qed.

(** the boolean check implies the proposition *)
Lemma discb_acc_sound : forall l pre seen lst,
  (forall x, In x seen <-> In x pre) -> lst = last_opt pre ->
  discb_acc seen lst l = true ->
  forall l' c r, l = l' ++ c :: r -> In c (pre ++ l') -> last_opt (pre ++ l') = Some c.
Proof.
  induction l as [|a t IH]; intros pre seen lst Hs Hl Hb l' c r E Hin.
  - destruct l'; discriminate.
  - simpl in Hb. apply andb_prop in Hb. destruct Hb as [Hb1 Hb2].
    destruct l' as [|b l''].
    + simpl in E. inversion E; subst. rewrite app_nil_r in *.
      assert (M : mem c seen = true) by (apply mem_In, Hs; exact Hin).
      rewrite M in Hb1. destruct (last_opt pre) as [q|]; [|discriminate].
      apply Nat.eqb_eq in Hb1. subst. reflexivity.
    + simpl in E. inversion E; subst.
      specialize (IH (pre ++ [b]) (b :: seen) (Some b)).
      replace (pre ++ b :: l'') with ((pre ++ [b]) ++ l'') in * by (rewrite <- app_assoc; reflexivity).
      eapply IH; eauto.
      * intros x. simpl. rewrite in_app_iff, Hs. simpl. tauto.
      * symmetry. apply last_opt_snoc.
Qed.

Lemma discb_sound : forall l, discb l = true -> Disc l.
Proof.
  intros l H l' c r E Hin.
  apply (discb_acc_sound l [] [] None) with (r := r); auto.
  intros x; tauto.
Qed.
