(** C05 — the order edges inserted by the model of [track_hugr_side_effects] form, in every
    region, the chain Input -> side-effecting children in order of first effect -> Output. *)
From Coq Require Import List Bool Arith Lia.
From V.C05 Require Import ModelOrderEdges ProofsLists ProofsTable.
Import ListNotations.

Definition linkable (ns : list node) (p : nat) : bool :=
  match kind_of ns p with Some k => negb (kind_eqb k KCond) | None => false end.

Definition inp (ns : list node) (p : nat) : nat := match input_of ns p with Some i => i | None => 0 end.

Definition tgt (ns : list node) (p : nat) (e : nat * nat) : bool :=
  match parent_of ns (snd e) with
  | Some q => Nat.eqb q p && negb (Nat.eqb (snd e) 0)
  | None => false
  end.

Lemma region_edges_tgt : forall s p, region_edges s p = filter (tgt (nodes s) p) (rev (edges s)).
Proof. reflexivity. Qed.

Lemma kind_eqb_eq : forall a b, kind_eqb a b = true <-> a = b.
Proof. destruct a, b; simpl; split; congruence. Qed.

Lemma sel_cons_eq : forall p x rest, sel p ((p, x) :: rest) = x :: sel p rest.
Proof. intros. unfold sel. simpl. rewrite Nat.eqb_refl. reflexivity. Qed.

Lemma sel_cons_neq : forall p p' x rest, p' <> p -> sel p' ((p, x) :: rest) = sel p' rest.
Proof. intros. unfold sel. simpl. apply Nat.eqb_neq in H. rewrite Nat.eqb_sym, H. reflexivity. Qed.

Lemma handle_unfold : forall f x s,
  handle (S f) x s =
  if Nat.eqb x 0 then None else
  match parent_of (nodes s) x with
  | None => None
  | Some p =>
    match lookup p (prev s) with
    | Some q => Some (link q x p s)
    | None =>
      match kind_of (nodes s) p with
      | None => None
      | Some k =>
        if kind_eqb k KFuncDefn then link_from_input x p s
        else match handle f p s with
             | None => None
             | Some s1 => if kind_eqb k KCond then Some s1 else link_from_input x p s1
             end
      end
    end
  end.
Proof.
  intros. simpl. destruct (Nat.eqb x 0); auto. destruct (parent_of (nodes s) x); auto.
  destruct (lookup n (prev s)); auto. destruct (kind_of (nodes s) n) as [k|]; auto.
  destruct k; simpl; auto; destruct (handle f n s); auto.
Qed.

Lemma climb_unfold : forall f ns x nd, Nat.eqb x 0 = false -> nth_error ns x = Some nd ->
  climb (S f) ns x = (n_parent nd, x) ::
    match kind_of ns (n_parent nd) with
    | Some k => if kind_eqb k KFuncDefn then [] else climb f ns (n_parent nd)
    | None => []
    end.
Proof.
  intros. simpl. rewrite H, H0. f_equal. destruct (kind_of ns (n_parent nd)) as [k|]; auto. destruct k; auto.
Qed.

Section Inv.
Variable P : nat -> Prop.

Definition INV (s : st) (Ev : nat -> list nat) : Prop :=
  forall p,
    (linkable (nodes s) p = false -> lookup p (prev s) = None) /\
    (linkable (nodes s) p = true -> P p ->
       lookup p (prev s) = last_opt (nodup_first (Ev p)) /\
       region_edges s p = pairs (inp (nodes s) p :: nodup_first (Ev p)) /\
       (Ev p <> [] -> input_of (nodes s) p <> None)).

Definition Coh (ns : list node) (Ev : nat -> list nat) : Prop :=
  forall r, Ev r <> [] -> kind_of ns r <> Some KFuncDefn ->
    forall p c, In (p, c) (climb (S r) ns r) -> In c (Ev p).

Lemma INV_ext_at : forall s Ev Ev', INV s Ev ->
  (forall p, linkable (nodes s) p = true -> Ev p = Ev' p) -> INV s Ev'.
Proof.
  intros s Ev Ev' I H p. destruct (I p) as [A B]. split; auto.
  intros L Pp. rewrite <- (H p L). auto.
Qed.

Lemma nodes_link : forall q x p s, nodes (link q x p s) = nodes s.
Proof. intros. unfold link. destruct (Nat.eqb q x); reflexivity. Qed.

(* state after actually adding the edge (q, x) in region p *)
Definition linked (q x p : nat) (s : st) : st := mkSt (nodes s) ((p, x) :: prev s) ((q, x) :: edges s).

Lemma linked_lookup_eq : forall q x p s, lookup p (prev (linked q x p s)) = Some x.
Proof. intros. simpl. rewrite Nat.eqb_refl. reflexivity. Qed.

Lemma linked_lookup_neq : forall q x p s p', p' <> p -> lookup p' (prev (linked q x p s)) = lookup p' (prev s).
Proof. intros. simpl. apply Nat.eqb_neq in H. rewrite Nat.eqb_sym, H. reflexivity. Qed.

Lemma linked_edges_eq : forall q x p s, parent_of (nodes s) x = Some p -> x <> 0 ->
  region_edges (linked q x p s) p = region_edges s p ++ [(q, x)].
Proof.
  intros. rewrite !region_edges_tgt. simpl. rewrite filter_app. f_equal. simpl.
  unfold tgt. simpl. rewrite H, Nat.eqb_refl. apply Nat.eqb_neq in H0. rewrite H0. reflexivity.
Qed.

Lemma linked_edges_neq : forall q x p s p', parent_of (nodes s) x = Some p -> p' <> p ->
  region_edges (linked q x p s) p' = region_edges s p'.
Proof.
  intros. rewrite !region_edges_tgt. simpl. rewrite filter_app. simpl.
  unfold tgt at 2. simpl. rewrite H. apply Nat.eqb_neq in H0. rewrite Nat.eqb_sym, H0. simpl. apply app_nil_r.
Qed.

Lemma inv_link_prev : forall s Ev p x q rest,
  INV s Ev -> parent_of (nodes s) x = Some p -> x <> 0 ->
  lookup p (prev s) = Some q -> linkable (nodes s) p = true -> P p -> Disc (Ev p ++ [x]) ->
  (forall p', p' <> p -> forall c, In c (sel p' rest) -> In c (Ev p')) ->
  sel p rest = [] ->
  INV (link q x p s) (bump Ev ((p, x) :: rest)).
Proof.
  intros s Ev p x q rest I PX X0 LK L Pp D CO SR p'.
  rewrite nodes_link. unfold bump.
  destruct (Nat.eq_dec p' p) as [->|NE].
  - rewrite sel_cons_eq, SR. destruct (I p) as [_ B]. destruct (B L Pp) as (B1 & B2 & B3).
    rewrite LK in B1.
    assert (NEm : Ev p <> []) by (intros E; rewrite E in B1; discriminate).
    split; [intros; congruence|]. intros _ _.
    unfold link. destruct (Nat.eqb q x) eqn:QX.
    + apply Nat.eqb_eq in QX. subst q.
      assert (In x (Ev p)) by (apply nf_incl, last_opt_in; auto).
      rewrite nf_snoc_in by auto. rewrite LK. repeat split; auto.
    + apply Nat.eqb_neq in QX.
      assert (NI : ~ In x (Ev p)).
      { intros Hin. pose proof (Disc_last _ _ D Hin) as DL.
        rewrite <- last_nf in DL by (eapply Disc_prefix; eauto). congruence. }
      rewrite nf_snoc_notin by auto. fold (linked q x p s).
      rewrite linked_lookup_eq, last_opt_snoc. rewrite linked_edges_eq by auto. rewrite B2.
      repeat split; auto.
      symmetry. apply (pairs_cons_snoc (inp (nodes s) p)). auto.
  - rewrite sel_cons_neq by auto. destruct (I p') as [A B]. 
    assert (NF : nodup_first (Ev p' ++ sel p' rest) = nodup_first (Ev p')) by (apply nf_app_in; auto).
    assert (LKE : lookup p' (prev (link q x p s)) = lookup p' (prev s)).
    { unfold link. destruct (Nat.eqb q x); auto. apply linked_lookup_neq; auto. }
    assert (RE : region_edges (link q x p s) p' = region_edges s p').
    { unfold link. destruct (Nat.eqb q x); auto. apply linked_edges_neq; auto. }
    rewrite LKE, RE, NF. split; auto. intros L' Pp'. destruct (B L' Pp') as (B1 & B2 & B3).
    repeat split; auto. intros NEm. apply B3. intros E. rewrite E in *. simpl in NEm.
    destruct (sel p' rest) eqn:S; [congruence|].
    assert (HI : In n (Ev p')) by (apply (CO p' NE n); rewrite S; left; auto).
    rewrite E in HI. destruct HI.
Qed.

Lemma inv_link_input : forall s Ev p x i,
  INV s Ev -> parent_of (nodes s) x = Some p -> x <> 0 ->
  lookup p (prev s) = None -> linkable (nodes s) p = true -> P p ->
  input_of (nodes s) p = Some i -> i <> x ->
  INV (link i x p s) (bump Ev [(p, x)]).
Proof.
  intros s Ev p x i I PX X0 LK L Pp IN NE p'.
  rewrite nodes_link. unfold bump.
  assert (LE : link i x p s = linked i x p s).
  { unfold link. apply Nat.eqb_neq in NE. rewrite NE. reflexivity. }
  rewrite LE.
  destruct (Nat.eq_dec p' p) as [->|NEp].
  - rewrite sel_cons_eq. destruct (I p) as [_ B]. destruct (B L Pp) as (B1 & B2 & B3).
    rewrite LK in B1. symmetry in B1. apply last_opt_nil_inv, nf_nil_inv in B1.
    rewrite B1 in *. change ([] ++ [x]) with [x]. change (nodup_first [x]) with [x].
    split; [intros; congruence|]. intros _ _.
    rewrite linked_lookup_eq, linked_edges_eq by auto. rewrite B2.
    unfold inp. rewrite IN. repeat split; auto. congruence.
  - rewrite sel_cons_neq by auto. change (sel p' []) with (@nil nat). rewrite app_nil_r.
    rewrite linked_lookup_neq, linked_edges_neq by auto. apply I.
Qed.

Lemma handle_inv : forall f x s s' Ev,
  parents_lt (nodes s) -> x < f ->
  handle f x s = Some s' ->
  INV s Ev -> Coh (nodes s) Ev ->
  (forall p, linkable (nodes s) p = true -> sel p (climb f (nodes s) x) <> [] ->
        P p /\ Disc (Ev p ++ sel p (climb f (nodes s) x))) ->
  (forall p c, In (p, c) (climb f (nodes s) x) -> kind_of (nodes s) c <> Some KInput) ->
  nodes s' = nodes s /\ INV s' (bump Ev (climb f (nodes s) x)).
Proof.
  induction f as [|f IH]; intros x s s' Ev PL XF H I C HD HK; [lia|].
  rewrite handle_unfold in H.
  destruct (Nat.eqb x 0) eqn:X0; [discriminate|].
  unfold parent_of in H. destruct (nth_error (nodes s) x) as [nd|] eqn:NX; [|discriminate].
  assert (PX : parent_of (nodes s) x = Some (n_parent nd)) by (unfold parent_of; rewrite NX; reflexivity).
  rewrite (climb_unfold f (nodes s) x nd X0 NX) in *.
  apply Nat.eqb_neq in X0.
  pose proof (PL x nd NX X0) as PLT.
  set (p := n_parent nd) in *.
  set (rest := match kind_of (nodes s) p with
               | Some k => if kind_eqb k KFuncDefn then [] else climb f (nodes s) p
               | None => [] end) in *.
  assert (RK : forall a b, In (a, b) rest -> a <> p).
  { intros a b Hab. unfold rest in Hab. destruct (kind_of (nodes s) p) as [k|]; [|simpl in Hab; tauto].
    destruct (kind_eqb k KFuncDefn); [simpl in Hab; tauto|].
    apply (climb_keys_lt _ PL) in Hab. lia. }
  assert (SR : sel p rest = []) by (apply sel_nil_keys; auto).
  destruct (lookup p (prev s)) as [q|] eqn:LK.
  - (* the region already has a last side-effecting node *)
    inversion H; subst s'. split; [apply nodes_link|].
    assert (L : linkable (nodes s) p = true).
    { destruct (linkable (nodes s) p) eqn:L; auto. destruct (I p) as [A _]. rewrite (A L) in LK. discriminate. }
    destruct (HD p L) as [Pp D]; [rewrite sel_cons_eq; discriminate|].
    rewrite sel_cons_eq, SR in D.
    apply inv_link_prev; auto.
    intros p' NE c Hc. apply sel_in in Hc.
    destruct (I p) as [_ B]. destruct (B L Pp) as (B1 & _ & _). rewrite LK in B1.
    assert (NEm : Ev p <> []) by (intros E; rewrite E in B1; discriminate).
    unfold rest in Hc. destruct (kind_of (nodes s) p) as [k|] eqn:K; [|simpl in Hc; tauto].
    destruct (kind_eqb k KFuncDefn) eqn:KF; [simpl in Hc; tauto|].
    apply (C p NEm); [intros E; rewrite K in E; inversion E; subst k; simpl in KF; discriminate|].
    rewrite (climb_fuel _ PL (S p) f p) by lia. exact Hc.
  - destruct (kind_of (nodes s) p) as [k|] eqn:K; [|discriminate].
    assert (KX : kind_of (nodes s) x <> Some KInput) by (apply (HK p x); left; reflexivity).
    destruct (kind_eqb k KFuncDefn) eqn:KF.
    + (* parent is a function definition: no recursion *)
      unfold link_from_input in H. destruct (input_of (nodes s) p) as [i|] eqn:IN; [|discriminate].
      inversion H; subst s'. split; [apply nodes_link|].
      assert (L : linkable (nodes s) p = true).
      { unfold linkable. rewrite K. apply kind_eqb_eq in KF. subst. reflexivity. }
      destruct (HD p L) as [Pp _]; [rewrite sel_cons_eq; discriminate|].
      unfold rest. apply inv_link_input; auto.
      intros E. subst i. apply child_with_kind_spec in IN. destruct IN as (_ & _ & _ & KI). congruence.
    + destruct (handle f p s) as [s1|] eqn:HP; [|discriminate].
      assert (RE : rest = climb f (nodes s) p) by reflexivity.
      destruct (IH p s s1 Ev PL ltac:(lia) HP I C) as [N1 I1].
      { intros p' L' S'. assert (p' <> p).
        { intros E. subst p'. rewrite <- RE, SR in S'. congruence. }
        rewrite <- RE. rewrite <- (sel_cons_neq p p' x rest) by auto. apply HD; auto.
        rewrite sel_cons_neq by auto. rewrite RE. exact S'. }
      { intros p' c Hc. apply (HK p' c). right. rewrite RE. exact Hc. }
      rewrite <- RE in I1.
      destruct (kind_eqb k KCond) eqn:KC.
      * (* Conditional / CFG: nothing to do locally *)
        inversion H; subst s'. split; auto.
        apply (INV_ext_at s1 (bump Ev rest)); auto.
        intros p' L'. rewrite N1 in L'. unfold bump. 
        assert (p' <> p). { intros E. subst p'. unfold linkable in L'. rewrite K, KC in L'. discriminate. }
        rewrite sel_cons_neq by auto. reflexivity.
      * unfold link_from_input in H. rewrite N1 in H.
        destruct (input_of (nodes s) p) as [i|] eqn:IN; [|discriminate].
        inversion H; subst s'. split; [rewrite nodes_link; auto|].
        assert (L : linkable (nodes s) p = true) by (unfold linkable; rewrite K, KC; reflexivity).
        destruct (HD p L) as [Pp _]; [rewrite sel_cons_eq; discriminate|].
        destruct (I p) as [_ B]. destruct (B L Pp) as (B1 & _ & _). rewrite LK in B1.
        symmetry in B1. apply last_opt_nil_inv, nf_nil_inv in B1.
        assert (LK1 : lookup p (prev s1) = None).
        { destruct (I1 p) as [_ B']. rewrite N1 in B'. destruct (B' L Pp) as (B1' & _ & _).
          unfold bump in B1'. rewrite B1, SR in B1'. exact B1'. }
        apply (INV_ext_at _ (bump (bump Ev rest) [(p, x)])).
        -- apply inv_link_input; rewrite ?N1; auto.
           intros E. subst i. apply child_with_kind_spec in IN. destruct IN as (_ & _ & _ & KI). congruence.
        -- intros p' _. unfold bump. destruct (Nat.eq_dec p' p) as [->|NE].
           ++ rewrite !sel_cons_eq, SR. unfold sel. simpl. rewrite app_nil_r. reflexivity.
           ++ rewrite !sel_cons_neq by auto. unfold sel at 2. simpl. rewrite app_nil_r. reflexivity.
Qed.

End Inv.

(** ---------------------------------------------------------------- more facts on tables *)
Lemma parents_lt_prefix : forall a b, parents_lt (a ++ b) -> parents_lt a.
Proof.
  intros a b H i x NX I0. apply H; auto. rewrite nth_error_app1; auto. eapply nth_in_range; eauto.
Qed.

Lemma ctx_events_prefix : forall tl ns start p, parents_lt (ns ++ tl) -> start <= length ns ->
  exists X, ctx_events (ns ++ tl) start p = ctx_events ns start p ++ X.
Proof.
  induction tl as [|a tl IH]; intros ns start p PL LE.
  - exists []. rewrite !app_nil_r. reflexivity.
  - replace (ns ++ a :: tl) with ((ns ++ [a]) ++ tl) in * by (rewrite <- app_assoc; reflexivity).
    destruct (IH (ns ++ [a]) start p PL) as [X HX]; [rewrite app_length; simpl; lia|].
    rewrite HX, ctx_events_snoc; auto.
    + rewrite <- app_assoc. eexists. reflexivity.
    + apply parents_lt_prefix in PL. apply parents_lt_prefix in PL. exact PL.
Qed.

Lemma ctx_events_key_range : forall ns start p c, parents_lt ns ->
  In c (ctx_events ns start p) -> p < length ns.
Proof.
  intros ns start p c PL H. unfold ctx_events, events_range, eff_leaves in H.
  apply in_flat_map in H. destruct H as [m [Hm Hc]].
  apply filter_In in Hm. destruct Hm as [Hm _]. apply in_seq in Hm.
  rewrite event_of_sel in Hc by auto. apply sel_in in Hc.
  apply (climb_keys_lt _ PL) in Hc. lia.
Qed.

Lemma ctx_events_out : forall ns start p, parents_lt ns -> length ns <= p -> ctx_events ns start p = [].
Proof.
  intros. destruct (ctx_events ns start p) eqn:E; auto.
  assert (In n (ctx_events ns start p)) by (rewrite E; left; auto).
  apply ctx_events_key_range in H1; auto. lia.
Qed.

Lemma climb_children : forall ns f x p c, In (p, c) (climb f ns x) ->
  c = x \/ exists j y, nth_error ns j = Some y /\ n_parent y = c.
Proof.
  induction f as [|f IH]; intros x p c H; simpl in H; [tauto|].
  destruct (Nat.eqb x 0); [simpl in H; tauto|].
  destruct (nth_error ns x) as [nd|] eqn:NX; [|simpl in H; tauto].
  destruct H as [H|H]; [inversion H; auto|].
  destruct (kind_of ns (n_parent nd)) as [k|]; [|simpl in H; tauto].
  assert (In (p, c) (climb f ns (n_parent nd)) -> c = x \/ exists j y, nth_error ns j = Some y /\ n_parent y = c).
  { intros H'. destruct (IH _ _ _ H') as [->|E]; auto. right. eauto. }
  destruct k; try (simpl in H; tauto); auto.
Qed.

Lemma climb_suffix : forall ns, parents_lt ns -> forall f x r c0, x < f ->
  In (r, c0) (climb f ns x) -> kind_of ns r <> Some KFuncDefn ->
  forall pc, In pc (climb (S r) ns r) -> In pc (climb f ns x).
Proof.
  intros ns PL. induction f as [|f IH]; intros x r c0 XF H KF pc Hpc; [lia|].
  simpl in H. destruct (Nat.eqb x 0) eqn:X0; [simpl in H; tauto|].
  destruct (nth_error ns x) as [nd|] eqn:NX; [|simpl in H; tauto].
  rewrite (climb_unfold f ns x nd X0 NX). apply Nat.eqb_neq in X0.
  pose proof (PL x nd NX X0) as LT. right.
  destruct H as [H|H].
  - inversion H; subst r c0.
    destruct (kind_of ns (n_parent nd)) as [k|] eqn:K.
    + destruct (kind_eqb k KFuncDefn) eqn:E; [apply kind_eqb_eq in E; subst; congruence|].
      rewrite (climb_fuel _ PL f (S (n_parent nd))) by lia. exact Hpc.
    + exfalso. simpl in Hpc. destruct (Nat.eqb (n_parent nd) 0); [simpl in Hpc; tauto|].
      unfold kind_of in K. destruct (nth_error ns (n_parent nd)); [discriminate|simpl in Hpc; tauto].
  - destruct (kind_of ns (n_parent nd)) as [k|] eqn:K; [|simpl in H; tauto].
    destruct (kind_eqb k KFuncDefn) eqn:E.
    + apply kind_eqb_eq in E. subst. simpl in H. tauto.
    + assert (H' : In (r, c0) (climb f ns (n_parent nd))) by (destruct k; simpl in E; try discriminate; exact H).
      eapply IH; eauto. lia.
Qed.

Lemma handle_nodes : forall f x s s', handle f x s = Some s' -> nodes s' = nodes s.
Proof.
  induction f as [|f IH]; intros x s s' H; [discriminate|].
  rewrite handle_unfold in H. destruct (Nat.eqb x 0); [discriminate|].
  destruct (parent_of (nodes s) x) as [p|]; [|discriminate].
  destruct (lookup p (prev s)); [inversion H; apply nodes_link|].
  destruct (kind_of (nodes s) p) as [k|]; [|discriminate].
  unfold link_from_input in H.
  destruct (kind_eqb k KFuncDefn).
  - destruct (input_of (nodes s) p); inversion H. apply nodes_link.
  - destruct (handle f p s) as [s1|] eqn:HP; [|discriminate]. apply IH in HP.
    destruct (kind_eqb k KCond); [inversion H; subst; auto|].
    destruct (input_of (nodes s1) p); inversion H. rewrite nodes_link. auto.
Qed.

Lemma link_edges : forall q x p s a b, In (a, b) (edges (link q x p s)) -> In (a, b) (edges s) \/ b = x.
Proof. intros. unfold link in H. destruct (Nat.eqb q x); auto. simpl in H. destruct H; auto. inversion H; auto. Qed.

Lemma handle_edges : forall f x s s', handle f x s = Some s' -> parents_lt (nodes s) ->
  x < length (nodes s) ->
  (forall a b, In (a, b) (edges s) -> b < length (nodes s)) ->
  forall a b, In (a, b) (edges s') -> b < length (nodes s).
Proof.
  induction f as [|f IH]; intros x s s' H PL XL HE a b Hab; [discriminate|].
  rewrite handle_unfold in H. destruct (Nat.eqb x 0) eqn:X0; [discriminate|]. apply Nat.eqb_neq in X0.
  unfold parent_of in H. destruct (nth_error (nodes s) x) as [nd|] eqn:NX; [|discriminate].
  pose proof (PL x nd NX X0) as LT.
  destruct (lookup (n_parent nd) (prev s)).
  { inversion H; subst. apply link_edges in Hab. destruct Hab; [eauto|lia]. }
  destruct (kind_of (nodes s) (n_parent nd)) as [k|]; [|discriminate].
  unfold link_from_input in H.
  destruct (kind_eqb k KFuncDefn).
  - destruct (input_of (nodes s) (n_parent nd)); inversion H; subst.
    apply link_edges in Hab. destruct Hab; [eauto|lia].
  - destruct (handle f (n_parent nd) s) as [s1|] eqn:HP; [|discriminate].
    pose proof (handle_nodes _ _ _ _ HP) as N1.
    assert (HE1 : forall a b, In (a, b) (edges s1) -> b < length (nodes s)) by (eapply IH; eauto; lia).
    destruct (kind_eqb k KCond); [inversion H; subst; eauto|].
    destruct (input_of (nodes s1) (n_parent nd)); inversion H; subst.
    apply link_edges in Hab. destruct Hab; [eauto|lia].
Qed.

(** ---------------------------------------------------------------- one tracking context *)
Section OneCtx.
Variable s0 : st.
Let start := length (nodes s0).
Let P (p : nat) : Prop := region_edges s0 p = [].
Let E (s : st) (p : nat) : list nat := ctx_events (nodes s) start p.

Definition G (s : st) : Prop :=
  parents_lt (nodes s) /\ start <= length (nodes s) /\
  (forall a b, In (a, b) (edges s) -> b < length (nodes s)) /\
  INV P s (E s) /\ Coh (nodes s) (E s).

Lemma linkable_range : forall ns p, linkable ns p = true -> p < length ns.
Proof.
  intros ns p H. unfold linkable, kind_of in H. destruct (nth_error ns p) eqn:NX; [|discriminate].
  eapply nth_in_range; eauto.
Qed.

Lemma inv_append : forall s nd Ev, INV P s Ev -> parents_lt (nodes s) ->
  n_parent nd < length (nodes s) ->
  (forall a b, In (a, b) (edges s) -> b < length (nodes s)) ->
  (forall p, length (nodes s) <= p -> Ev p = []) ->
  INV P (mkSt (nodes s ++ [nd]) (prev s) (edges s)) Ev.
Proof.
  intros s nd Ev I PL NP HE OUT p. simpl.
  pose proof (parents_lt_app _ _ PL NP) as PL'.
  destruct (Nat.lt_ge_cases p (length (nodes s))) as [LT|GE].
  - assert (LK : linkable (nodes s ++ [nd]) p = linkable (nodes s) p) by (unfold linkable; rewrite kind_app_old; auto).
    assert (RE : region_edges (mkSt (nodes s ++ [nd]) (prev s) (edges s)) p = region_edges s p).
    { rewrite !region_edges_tgt. simpl. apply filter_ext_in'. intros [a b] Hab. apply in_rev in Hab.
      unfold tgt. simpl. rewrite parent_app_old; eauto. }
    rewrite LK, RE. destruct (I p) as [A B]. split; auto.
    intros L Pp. destruct (B L Pp) as (B1 & B2 & B3). split; auto.
    destruct (Ev p) eqn:EV.
    + split; [|congruence]. rewrite B2. reflexivity.
    + destruct (input_of (nodes s) p) as [i|] eqn:IN; [|exfalso; apply B3; congruence].
      assert (IN' : input_of (nodes s ++ [nd]) p = Some i) by (apply child_with_kind_app; auto).
      split; [|congruence]. rewrite B2. unfold inp. rewrite IN, IN'. reflexivity.
  - rewrite (OUT p GE).
    assert (LKN : lookup p (prev s) = None).
    { destruct (I p) as [A _]. apply A. unfold linkable, kind_of.
      destruct (nth_error (nodes s) p) eqn:NX; auto. apply nth_in_range in NX. lia. }
    split; auto. intros _ _. rewrite LKN. split; [reflexivity|]. split; [|congruence].
    change (nodup_first []) with (@nil nat). simpl.
    rewrite region_edges_tgt. simpl.
    rewrite (filter_ext_in' _ _ (fun _ => false)).
    + induction (rev (edges s)); auto.
    + intros [a b] Hab. apply in_rev in Hab. apply HE in Hab. unfold tgt. simpl.
      rewrite parent_app_old by auto. unfold parent_of.
      destruct (nth_error (nodes s) b) as [y|] eqn:NB; auto.
      destruct (Nat.eqb b 0) eqn:B0; [apply andb_false_r|]. apply Nat.eqb_neq in B0.
      pose proof (PL b y NB B0). simpl. rewrite andb_true_r. apply Nat.eqb_neq. lia.
Qed.

Lemma coh_append : forall ns nd Ev, Coh ns Ev -> parents_lt ns ->
  (forall p, length ns <= p -> Ev p = []) -> Coh (ns ++ [nd]) Ev.
Proof.
  intros ns nd Ev C PL OUT r NE KF p c H.
  assert (r < length ns). { destruct (Nat.lt_ge_cases r (length ns)); auto. exfalso. apply NE, OUT; auto. }
  rewrite kind_app_old in KF by auto. rewrite climb_app_old in H by auto. eapply C; eauto.
Qed.

Lemma coh_bump : forall ns Ev x, Coh ns Ev -> parents_lt ns ->
  Coh ns (bump Ev (climb (S x) ns x)).
Proof.
  intros ns Ev x C PL r NE KF p c H. unfold bump in *. apply in_or_app.
  destruct (Ev r) eqn:EV.
  - destruct (sel r (climb (S x) ns x)) eqn:SEL; [exfalso; apply NE; reflexivity|].
    assert (In (r, n) (climb (S x) ns x)) by (apply sel_in; rewrite SEL; left; auto).
    right. apply sel_in. eapply (climb_suffix ns PL (S x) x r n); eauto.
  - left. eapply C; eauto. rewrite EV. discriminate.
Qed.

Lemma Coh_ext : forall ns Ev Ev', Coh ns Ev -> (forall p, Ev p = Ev' p) -> Coh ns Ev'.
Proof. intros ns Ev Ev' C H r NE KF p c Hin. rewrite <- H. eapply C; eauto. rewrite H. auto. Qed.

Lemma add_step : forall i s s' tl,
  G s -> add i s = Some s' ->
  WF (nodes s' ++ tl) ->
  (forall p, Disc (ctx_events (nodes s' ++ tl) start p)) ->
  (forall p, ctx_events (nodes s' ++ tl) start p <> [] -> P p) ->
  G s'.
Proof.
  intros i s s' tl (PL & SL & HE & I & C) A (WFa & WFb & WFc) HD HL.
  unfold add in A. destruct (Nat.ltb (i_parent i) (length (nodes s))) eqn:LT; [|discriminate].
  apply Nat.ltb_lt in LT.
  set (nd := mkNode (i_parent i) (i_kind i) (i_eff i)) in *.
  set (s1 := mkSt (nodes s ++ [nd]) (prev s) (edges s)) in *.
  assert (PL1 : parents_lt (nodes s1)) by (apply parents_lt_app; auto).
  assert (OUT : forall p, length (nodes s) <= p -> E s p = []) by (intros; apply ctx_events_out; auto).
  assert (I1 : INV P s1 (E s)) by (apply inv_append; auto).
  assert (C1 : Coh (nodes s1) (E s)) by (apply coh_append; auto).
  assert (HE1 : forall a b, In (a, b) (edges s1) -> b < length (nodes s1)).
  { intros a b Hab. simpl. rewrite app_length. simpl. apply HE in Hab. lia. }
  assert (SL1 : start <= length (nodes s1)) by (simpl; rewrite app_length; lia).
  assert (EV : forall p, E s1 p = E s p ++ (if i_eff i then event_of (nodes s1) p (length (nodes s)) else [])).
  { intros p. unfold E. simpl. rewrite ctx_events_snoc; auto. }
  destruct (i_eff i) eqn:EF.
  - (* effectful node *)
    pose proof (handle_nodes _ _ _ _ A) as N'.
    assert (EV' : forall p, E s' p = bump (E s) (climb (S (length (nodes s))) (nodes s1) (length (nodes s))) p).
    { intros p. unfold E. rewrite N'. fold (E s1 p). rewrite EV. unfold bump. f_equal. apply event_of_sel; auto. }
    assert (XL : length (nodes s) < length (nodes s1)) by (simpl; rewrite app_length; simpl; lia).
    destruct (handle_inv P _ _ _ _ (E s) PL1 (Nat.lt_succ_diag_r _) A I1 C1) as [_ I'].
    + intros p L SEL. pose proof (EV' p) as EVp. unfold bump in EVp. rewrite <- EVp.
      destruct (ctx_events_prefix tl (nodes s') start p) as [X HX]; [apply WFa| rewrite N'; auto |].
      assert (NE : E s' p <> []). { rewrite EV'. unfold bump. intros Z. apply app_eq_nil in Z. tauto. }
      split.
      * apply HL. rewrite HX. fold (E s' p). intros Z. apply app_eq_nil in Z. tauto.
      * apply (Disc_prefix _ X). fold (E s' p) in HX. rewrite <- HX. apply HD.
    + intros p c Hin. apply climb_children in Hin.
      assert (NTH : forall j y, nth_error (nodes s1) j = Some y -> nth_error (nodes s' ++ tl) j = Some y).
      { intros j y Hj. rewrite N'. rewrite nth_error_app1; auto. eapply nth_in_range; eauto. }
      assert (KO : forall q k, kind_of (nodes s1) q = Some k -> kind_of (nodes s' ++ tl) q = Some k).
      { intros q k Hq. unfold kind_of in *. destruct (nth_error (nodes s1) q) eqn:Nq; [|discriminate].
        rewrite (NTH _ _ Nq). exact Hq. }
      destruct Hin as [->|(j & y & Hj & Hy)].
      * intros K. unfold kind_of in K. simpl in K. rewrite nth_app_new in K. simpl in K.
        apply (WFb (length (nodes s)) nd); [apply NTH; simpl; apply nth_app_new|reflexivity|].
        unfold nd. simpl. inversion K. reflexivity.
      * intros K. apply KO in K. subst c. eapply WFc; eauto.
    + split; [rewrite N'; exact PL1|]. split; [rewrite N'; exact SL1|].
      split. { intros a b Hab. rewrite N'. apply (handle_edges _ _ _ _ A PL1 XL HE1 a b Hab). }
      split.
      { apply (INV_ext_at P s' (bump (E s) (climb (S (length (nodes s))) (nodes s1) (length (nodes s))))); [exact I'|].
        intros p _. symmetry. apply EV'. }
      { rewrite N'. apply (Coh_ext _ (bump (E s) (climb (S (length (nodes s))) (nodes s1) (length (nodes s))))).
        - apply coh_bump; auto.
        - intros p. symmetry. apply EV'. }
  - inversion A; subst s'. split; [exact PL1|]. split; [exact SL1|]. split; [exact HE1|]. split.
    + apply (INV_ext_at P s1 (E s)); [exact I1|]. intros p _. rewrite EV, app_nil_r. reflexivity.
    + apply (Coh_ext _ (E s)); [exact C1|]. intros p. rewrite EV, app_nil_r. reflexivity.
Qed.

Lemma add_nodes : forall i s s', add i s = Some s' -> exists nd, nodes s' = nodes s ++ [nd].
Proof.
  intros i s s' A. unfold add in A. destruct (Nat.ltb (i_parent i) (length (nodes s))); [|discriminate].
  destruct (i_eff i).
  - apply handle_nodes in A. simpl in A. eauto.
  - inversion A. simpl. eauto.
Qed.

Lemma add_all_nodes : forall l s s', add_all l s = Some s' -> exists tl, nodes s' = nodes s ++ tl.
Proof.
  induction l as [|i r IH]; intros s s' A; simpl in A.
  - inversion A. exists []. rewrite app_nil_r. reflexivity.
  - destruct (add i s) as [s1|] eqn:A1; [|discriminate].
    destruct (add_nodes _ _ _ A1) as [nd N1]. destruct (IH _ _ A) as [tl N2].
    exists (nd :: tl). rewrite N2, N1, <- app_assoc. reflexivity.
Qed.

Lemma add_all_G : forall l s s',
  add_all l s = Some s' -> G s ->
  WF (nodes s') ->
  (forall p, Disc (ctx_events (nodes s') start p)) ->
  (forall p, ctx_events (nodes s') start p <> [] -> P p) ->
  G s'.
Proof.
  induction l as [|i r IH]; intros s s' A Gs W HD HL; simpl in A.
  - inversion A; subst; auto.
  - destruct (add i s) as [s1|] eqn:A1; [|discriminate].
    destruct (add_all_nodes _ _ _ A) as [tl N].
    apply (IH s1 s'); auto. apply (add_step i s s1 tl); auto; rewrite <- N; auto.
Qed.

(** ---- leaving the context ---- *)
Definition fe (ns : list node) (pv : list (nat * nat)) (p : nat) : list (nat * nat) :=
  match lookup p pv with
  | None => []
  | Some last => match output_of ns p with Some o => [(last, o)] | None => [] end
  end.

Lemma final_edge_fe : forall ns pv p a, final_edge ns pv p = Some a ->
  a = fe ns pv p /\ (forall last, lookup p pv = Some last -> exists o, output_of ns p = Some o).
Proof.
  intros ns pv p a H. unfold final_edge, fe in *. destruct (lookup p pv) as [last|].
  - destruct (output_of ns p) as [o|]; [|discriminate].
    destruct (Nat.eqb last o); [discriminate|]. inversion H. split; eauto.
  - inversion H. split; auto. intros; discriminate.
Qed.

Lemma filter_fe : forall ns pv p p', filter (tgt ns p) (fe ns pv p') = if Nat.eqb p' p then fe ns pv p' else [].
Proof.
  intros. unfold fe. destruct (lookup p' pv) as [last|]; [|destruct (Nat.eqb p' p); reflexivity].
  destruct (output_of ns p') as [o|] eqn:O; [|destruct (Nat.eqb p' p); reflexivity].
  apply child_with_kind_spec in O. destruct O as (PO & O0 & _ & _).
  simpl. unfold tgt. simpl. rewrite PO. apply Nat.eqb_neq in O0. rewrite O0. simpl. rewrite andb_true_r.
  destruct (Nat.eqb p' p); reflexivity.
Qed.

Lemma final_edges_filter : forall ns pv p ps es, final_edges ns pv ps = Some es -> NoDup ps ->
  filter (tgt ns p) (rev es) = if mem p ps then fe ns pv p else [].
Proof.
  induction ps as [|p' r IH]; intros es H ND; simpl in H.
  - inversion H. reflexivity.
  - destruct (final_edge ns pv p') as [a|] eqn:FE; [|discriminate].
    destruct (final_edges ns pv r) as [b|] eqn:FR; [|discriminate]. inversion H; subst es.
    apply final_edge_fe in FE. destruct FE as [-> _].
    inversion ND; subst. rewrite rev_app_distr, filter_app, (IH b eq_refl H3).
    assert (RV : rev (fe ns pv p') = fe ns pv p').
    { unfold fe. destruct (lookup p' pv); auto. destruct (output_of ns p'); auto. }
    rewrite RV, filter_fe. simpl mem. rewrite (Nat.eqb_sym p p').
    destruct (Nat.eqb p' p) eqn:EQ.
    + apply Nat.eqb_eq in EQ. subst p'. apply mem_false in H2. rewrite H2. simpl. apply app_nil_r.
    + simpl. reflexivity.
Qed.

Lemma final_edges_out : forall ns pv ps es p last, final_edges ns pv ps = Some es -> In p ps ->
  lookup p pv = Some last -> exists o, output_of ns p = Some o.
Proof.
  induction ps as [|p' r IH]; intros es p last H Hin LK; simpl in H; [destruct Hin|].
  destruct (final_edge ns pv p') as [a|] eqn:FE; [|discriminate].
  destruct (final_edges ns pv r) as [b|] eqn:FR; [|discriminate].
  destruct Hin as [->|Hin]; [|eapply IH; eauto].
  apply final_edge_fe in FE. destruct FE as [_ F]. eauto.
Qed.

Theorem order_edges_chain : forall l W,
  track s0 l = Some W ->
  WF (nodes W) ->
  (forall a b, In (a, b) (edges s0) -> b < length (nodes s0)) ->
  (forall p, Disc (ctx_events (nodes W) start p)) ->
  (forall p, ctx_events (nodes W) start p <> [] -> region_edges s0 p = []) ->
  forall p, linkable (nodes W) p = true -> region_edges s0 p = [] ->
    region_edges W p = expected_edges (nodes W) start p.
Proof.
  intros l W T WFW HE0 HD HL p L Pp.
  unfold track in T. destruct (add_all l (mkSt (nodes s0) [] (edges s0))) as [s|] eqn:A; [|discriminate].
  unfold finish in T. destruct (final_edges (nodes s) (prev s) (seq 0 (length (nodes s)))) as [es|] eqn:F; [|discriminate].
  inversion T; subst W. simpl in *.
  destruct (add_all_nodes _ _ _ A) as [tl N]. simpl in N.
  assert (G0 : G (mkSt (nodes s0) [] (edges s0))).
  { destruct WFW as (PLW & _ & _). rewrite N in PLW. apply parents_lt_prefix in PLW.
    assert (E0 : forall q, E (mkSt (nodes s0) [] (edges s0)) q = []).
    { intros q. unfold E, ctx_events, events_range, eff_leaves, start. simpl. rewrite Nat.sub_diag. reflexivity. }
    split; [exact PLW|]. split; [unfold start; simpl; lia|]. split; [simpl; exact HE0|]. split.
    - intros q. rewrite E0. split; [reflexivity|]. intros _ Pq. split; [reflexivity|]. split; [exact Pq|congruence].
    - intros r NE. rewrite E0 in NE. congruence. }
  pose proof (add_all_G _ _ _ A G0 WFW HD HL) as (PL & SL & HE & I & C).
  destruct (I p) as [_ B]. destruct (B L Pp) as (B1 & B2 & B3).
  pose proof (linkable_range _ _ L) as PR.
  rewrite region_edges_tgt. simpl. rewrite rev_app_distr, filter_app.
  rewrite <- region_edges_tgt, B2.
  rewrite (final_edges_filter _ _ p _ _ F (seq_NoDup _ _)).
  assert (Hin : In p (seq 0 (length (nodes s)))) by (apply in_seq; lia).
  rewrite (proj2 (mem_In p _) Hin).
  unfold expected_edges, ctx_chain. fold (E s p).
  destruct (nodup_first (E s p)) as [|c0 ch] eqn:CH.
  - unfold fe. rewrite B1. reflexivity.
  - assert (NE : E s p <> []) by (intros Z; rewrite Z in CH; discriminate).
    destruct (input_of (nodes s) p) as [i|] eqn:IN; [|exfalso; apply B3; auto].
    destruct (last_opt (c0 :: ch)) as [q|] eqn:LQ; [|apply last_opt_nil_inv in LQ; discriminate].
    destruct (final_edges_out _ _ _ _ p q F Hin B1) as [o O].
    unfold fe. rewrite B1, O. unfold inp. rewrite IN.
    symmetry. apply pairs_cons_snoc. exact LQ.
Qed.

End OneCtx.
