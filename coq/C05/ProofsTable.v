(** C05 — facts about node tables: growth by appending, the ancestor path [climb] used to
    describe what [handle] touches, and its relation with the specification's [proj]. *)
From Coq Require Import List Bool Arith Lia.
From V.C05 Require Import ModelOrderEdges ProofsLists.
Import ListNotations.

Definition parents_lt (ns : list node) : Prop :=
  forall i x, nth_error ns i = Some x -> i <> 0 -> n_parent x < i.

Definition WF (ns : list node) : Prop :=
  parents_lt ns /\
  (forall i x, nth_error ns i = Some x -> n_eff x = true -> n_kind x <> KInput) /\
  (forall i x, nth_error ns i = Some x -> kind_of ns (n_parent x) <> Some KInput).

(** ancestor path of [x]: pairs (region, child) up to and including the first function
    definition *)
Fixpoint climb (f : nat) (ns : list node) (x : nat) : list (nat * nat) :=
  match f with
  | O => []
  | S f' =>
    if Nat.eqb x 0 then [] else
    match nth_error ns x with
    | None => []
    | Some nd =>
      let p := n_parent nd in
      (p, x) :: match kind_of ns p with
                | Some KFuncDefn => []
                | Some _ => climb f' ns p
                | None => []
                end
    end
  end.

Definition sel (p : nat) (l : list (nat * nat)) : list nat :=
  map snd (filter (fun pc => Nat.eqb (fst pc) p) l).

Definition bump (Ev : nat -> list nat) (l : list (nat * nat)) (p : nat) : list nat := Ev p ++ sel p l.

Lemma sel_in : forall p l c, In c (sel p l) <-> In (p, c) l.
Proof.
  intros. unfold sel. rewrite in_map_iff. split.
  - intros [[a b] [E H]]. simpl in E. subst. apply filter_In in H. destruct H as [H1 H2].
    simpl in H2. apply Nat.eqb_eq in H2. subst. exact H1.
  - intros H. exists (p, c). split; auto. apply filter_In. split; auto. simpl. apply Nat.eqb_refl.
Qed.

Lemma sel_nil_keys : forall p l, (forall a b, In (a, b) l -> a <> p) -> sel p l = [].
Proof.
  intros p l H. destruct (sel p l) eqn:E; auto.
  assert (In n (sel p l)) by (rewrite E; left; auto).
  apply sel_in in H0. exfalso. eapply H; eauto.
Qed.

Lemma climb_keys_lt : forall ns, parents_lt ns -> forall f x p c, In (p, c) (climb f ns x) -> p < x /\ c <> 0.
Proof.
  intros ns PL. induction f as [|f IH]; intros x p c H; simpl in H; [tauto|].
  destruct (Nat.eqb x 0) eqn:X0; [simpl in H; tauto|]. apply Nat.eqb_neq in X0.
  destruct (nth_error ns x) as [nd|] eqn:NX; [|simpl in H; tauto].
  pose proof (PL x nd NX X0) as LT.
  destruct H as [H|H].
  - inversion H; subst. split; auto.
  - destruct (kind_of ns (n_parent nd)) as [k|]; [|simpl in H; tauto].
    destruct k; try (simpl in H; tauto); apply IH in H; destruct H; split; auto; lia.
Qed.

Lemma climb_fuel : forall ns, parents_lt ns -> forall f g x, x < f -> x < g -> climb f ns x = climb g ns x.
Proof.
  intros ns PL. induction f as [|f IH]; intros g x Hf Hg; [lia|].
  destruct g as [|g]; [lia|]. simpl.
  destruct (Nat.eqb x 0) eqn:X0; auto. apply Nat.eqb_neq in X0.
  destruct (nth_error ns x) as [nd|] eqn:NX; auto.
  pose proof (PL x nd NX X0) as LT. f_equal.
  destruct (kind_of ns (n_parent nd)) as [k|]; auto.
  destruct k; auto; apply IH; lia.
Qed.

(** the specification's [proj] reads the same path *)
Lemma proj_climb : forall ns, parents_lt ns -> forall f p m,
  match proj f ns p m with Some c => [c] | None => [] end = sel p (climb f ns m).
Proof.
  intros ns PL. induction f as [|f IH]; intros p m; simpl; [reflexivity|].
  destruct (Nat.eqb m 0) eqn:M0; [reflexivity|]. apply Nat.eqb_neq in M0.
  destruct (nth_error ns m) as [nd|] eqn:NX; [|reflexivity].
  unfold sel. simpl.
  destruct (Nat.eqb (n_parent nd) p) eqn:QP.
  - apply Nat.eqb_eq in QP. simpl. f_equal.
    symmetry. apply sel_nil_keys. intros a b H.
    destruct (kind_of ns (n_parent nd)) as [k|]; [|simpl in H; tauto].
    destruct k; try (simpl in H; tauto); apply (climb_keys_lt ns PL) in H; lia.
  - destruct (kind_of ns (n_parent nd)) as [k|]; [|reflexivity].
    destruct k; try reflexivity; apply IH.
Qed.

Lemma event_of_sel : forall ns, parents_lt ns -> forall p m, event_of ns p m = sel p (climb (S m) ns m).
Proof. intros. unfold event_of. apply proj_climb; auto. Qed.

(** ---- appending one node ---- *)
Lemma nth_app_old : forall (ns : list node) nd i, i < length ns -> nth_error (ns ++ [nd]) i = nth_error ns i.
Proof. intros. apply nth_error_app1; auto. Qed.

Lemma nth_app_new : forall (ns : list node) nd, nth_error (ns ++ [nd]) (length ns) = Some nd.
Proof. intros. rewrite nth_error_app2 by lia. rewrite Nat.sub_diag. reflexivity. Qed.

Lemma kind_app_old : forall ns nd i, i < length ns -> kind_of (ns ++ [nd]) i = kind_of ns i.
Proof. intros. unfold kind_of. rewrite nth_app_old; auto. Qed.

Lemma parent_app_old : forall ns nd i, i < length ns -> parent_of (ns ++ [nd]) i = parent_of ns i.
Proof. intros. unfold parent_of. rewrite nth_app_old; auto. Qed.

Lemma parents_lt_app : forall ns nd, parents_lt ns -> n_parent nd < length ns -> parents_lt (ns ++ [nd]).
Proof.
  intros ns nd PL H i x NX I0.
  destruct (Nat.lt_ge_cases i (length ns)) as [L|L].
  - rewrite nth_app_old in NX by auto. eauto.
  - assert (i = length ns).
    { assert (i < length (ns ++ [nd])) by (apply nth_error_Some; congruence).
      rewrite app_length in H0. simpl in H0. lia. }
    subst. rewrite nth_app_new in NX. inversion NX; subst. auto.
Qed.

Lemma nth_in_range : forall (ns : list node) i x, nth_error ns i = Some x -> i < length ns.
Proof. intros. apply nth_error_Some. congruence. Qed.

Lemma climb_app_old : forall ns nd, parents_lt ns -> forall f x, x < length ns ->
  climb f (ns ++ [nd]) x = climb f ns x.
Proof.
  intros ns nd PL. induction f as [|f IH]; intros x L; simpl; [reflexivity|].
  destruct (Nat.eqb x 0) eqn:X0; auto. apply Nat.eqb_neq in X0.
  rewrite nth_app_old by auto.
  destruct (nth_error ns x) as [y|] eqn:NX; auto.
  pose proof (PL x y NX X0) as LT.
  rewrite kind_app_old by lia. f_equal.
  destruct (kind_of ns (n_parent y)) as [k|]; auto.
  destruct k; auto; apply IH; lia.
Qed.

Lemma proj_app_old : forall ns nd, parents_lt ns -> forall f p m, m < length ns ->
  proj f (ns ++ [nd]) p m = proj f ns p m.
Proof.
  intros ns nd PL. induction f as [|f IH]; intros p m L; simpl; [reflexivity|].
  destruct (Nat.eqb m 0) eqn:M0; auto. apply Nat.eqb_neq in M0.
  rewrite nth_app_old by auto.
  destruct (nth_error ns m) as [y|] eqn:NX; auto.
  pose proof (PL m y NX M0) as LT.
  rewrite kind_app_old by lia.
  destruct (Nat.eqb (n_parent y) p); auto.
  destruct (kind_of ns (n_parent y)) as [k|]; auto.
  destruct k; auto; apply IH; lia.
Qed.

Lemma is_child_app_old : forall ns nd p i, i < length ns -> is_child (ns ++ [nd]) p i = is_child ns p i.
Proof. intros. unfold is_child. rewrite nth_app_old; auto. Qed.

Lemma filter_ext_in' : forall (A : Type) (f g : A -> bool) l, (forall a, In a l -> f a = g a) -> filter f l = filter g l.
Proof.
  induction l; simpl; intros; auto. rewrite H by (left; auto).
  destruct (g a); [f_equal|]; apply IHl; intros; apply H; right; auto.
Qed.

Lemma flat_map_ext_in' : forall (A B : Type) (f g : A -> list B) l, (forall a, In a l -> f a = g a) -> flat_map f l = flat_map g l.
Proof.
  induction l; simpl; intros; auto. rewrite H by (left; auto). f_equal. apply IHl; intros; apply H; right; auto.
Qed.

Lemma children_app : forall ns nd p,
  children (ns ++ [nd]) p = children ns p ++ (if is_child (ns ++ [nd]) p (length ns) then [length ns] else []).
Proof.
  intros. unfold children. rewrite app_length. simpl. rewrite Nat.add_1_r, seq_S, filter_app. simpl.
  f_equal.
  apply filter_ext_in'. intros a Ha. apply in_seq in Ha. apply is_child_app_old. lia.
Qed.

Lemma children_in : forall ns p c, In c (children ns p) -> parent_of ns c = Some p /\ c <> 0 /\ c < length ns.
Proof.
  intros ns p c H. unfold children in H. apply filter_In in H. destruct H as [H1 H2].
  apply in_seq in H1. unfold is_child in H2. unfold parent_of.
  destruct (nth_error ns c); [|discriminate]. apply andb_prop in H2. destruct H2 as [A B].
  apply Nat.eqb_eq in A. apply negb_true_iff in B. apply Nat.eqb_neq in B. subst. split; auto. split; auto. lia.
Qed.

Lemma child_with_kind_spec : forall ns p idx k c, child_with_kind ns p idx k = Some c ->
  parent_of ns c = Some p /\ c <> 0 /\ c < length ns /\ kind_of ns c = Some k.
Proof.
  intros ns p idx k c H. unfold child_with_kind in H.
  destruct (nth_error (children ns p) idx) as [c'|] eqn:E; [|discriminate].
  destruct (kind_of ns c') as [k'|] eqn:K; [|discriminate].
  destruct (kind_eqb k k') eqn:KE; [|discriminate]. inversion H; subst.
  apply nth_error_In in E. apply children_in in E. destruct E as (A & B & C).
  repeat split; auto. rewrite K. f_equal. destruct k, k'; simpl in KE; congruence.
Qed.

Lemma child_with_kind_app : forall ns nd p idx k c, child_with_kind ns p idx k = Some c ->
  child_with_kind (ns ++ [nd]) p idx k = Some c.
Proof.
  intros ns nd p idx k c H. pose proof (child_with_kind_spec _ _ _ _ _ H) as (_ & _ & L & _).
  unfold child_with_kind in *. rewrite children_app.
  destruct (nth_error (children ns p) idx) as [c'|] eqn:E; [|discriminate].
  rewrite nth_error_app1 by (apply nth_error_Some; congruence). rewrite E.
  assert (c' < length ns) by (apply nth_error_In in E; apply children_in in E; tauto).
  rewrite kind_app_old by auto. exact H.
Qed.

Lemma is_eff_app_old : forall ns nd m, m < length ns -> is_eff (ns ++ [nd]) m = is_eff ns m.
Proof. intros. unfold is_eff. rewrite nth_app_old; auto. Qed.

(** events of a context after appending a node *)
Lemma ctx_events_snoc : forall ns nd start p, parents_lt ns -> start <= length ns ->
  ctx_events (ns ++ [nd]) start p =
  ctx_events ns start p ++ (if n_eff nd then event_of (ns ++ [nd]) p (length ns) else []).
Proof.
  intros ns nd start p PL LE. unfold ctx_events, events_range, eff_leaves.
  rewrite app_length. simpl.
  replace (length ns + 1 - start) with (S (length ns - start)) by lia.
  rewrite seq_S, filter_app, flat_map_app. f_equal.
  - rewrite (filter_ext_in' _ (is_eff (ns ++ [nd])) (is_eff ns)).
    + apply flat_map_ext_in'. intros a Ha. apply filter_In in Ha. destruct Ha as [Ha _].
      apply in_seq in Ha. unfold event_of. rewrite proj_app_old; auto. lia.
    + intros a Ha. apply in_seq in Ha. apply is_eff_app_old. lia.
  - replace (start + (length ns - start)) with (length ns) by lia. simpl.
    unfold is_eff. rewrite nth_app_new. destruct (n_eff nd); simpl; [apply app_nil_r|reflexivity].
Qed.
