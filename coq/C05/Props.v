(** C05 — Side effects happen once each, in Python's evaluation order.  (WIP: part 3 first.) *)
From Coq Require Import List Bool String Arith.
From V.C05 Require Import ModelEffects GenEffects ProofsEffects ModelOrderEdges ModelRun.
Import ListNotations.

(* Part 3.  Every operation the standard library emits (table read back from real compilations,
   regenerated on every run) that reports a result, aborts, is a call, or changes the number of
   live qubits is classified side-effecting by the REGENERATED predicate of core.py. *)
Theorem effect_classification : forall r, In r std_rows ->
  must_be_ordered r = true -> may_have_side_effect (r_op r) = true.
Proof. exact effect_classification_all. Qed.
Print Assumptions effect_classification.
