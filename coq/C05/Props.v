(** C05 — Side effects happen once each, in Python's evaluation order
    (decided on the compiler side: no emulator can run /repo's HUGR).

    The chain from source to HUGR has three links; each has its own theorem here and its own tie
    to /repo (props/C05/check.py):

    1. CFG construction (cfg/builder.py), on the Python fragment and semantics of coq/C03:
       [trace_calls_once_in_order]   a lift-free expression calls every call site exactly once, operands
                                     left to right and arguments before the call, and ExprBuilder hands
                                     it to the basic block unchanged (up to folding -c);
       [trace_branch_partial]        for conditions of C03's fragment [frag_cond] (not / and / or /
                                     conditional expressions over lift-free leaves) the built blocks
                                     produce exactly Python's call trace (short-circuit operands only
                                     when Python evaluates them, in order);
       [trace_equal_refuted_*]       the FULL statement trace_equal (call events of run_cfg (build p) =
                                     call events of exec_py p for every accepted p) is refuted by the
                                     faithful builder model: chained comparison (middle operand called
                                     twice), conditional expression / and-or / walrus lifted before an
                                     earlier call operand.  Replayed on the real CFGBuilder on every run;
                                     listed in props/C05/known_findings.json.
       [trace_equal_partial]         statement level (re-export of C03's build_preserves_partial): for every
                                     body in C03's fragment [frag_stmts] the call events of the built CFG are
                                     exactly Python's, for every oracle, state and fuel.
       NOT proved: lifted expressions in value position (the order_safe fragment beyond frag_stmts is
       searched only), for loops, subscripts.
    2. Order edges (compiler/core.py track_hugr_side_effects), model ModelOrderEdges.v:
       [order_edges_total]           for every table and every sequence of add_node calls of one
                                     tracking context, in every region the inserted order edges are exactly
                                     Input -> c1 -> ... -> cn -> Output where c1..cn are the children of the
                                     region below which a side-effecting node was added, each once, ordered
                                     by their first side-effecting node;
       [order_edges_chain_members], [order_edges_chain_nodup], [order_edges_region_in_parent_chain].
       Hypotheses (decidable, evaluated on every real insertion log): well-formed table, building
       discipline, one context per region.  [order_edges_discipline_needed] shows the discipline
       cannot be dropped (the coded algorithm then produces a cycle).
    3. Classification (compiler/core.py may_have_side_effect, REGENERATED):
       [effect_classification]       every operation the std library emits for calls, result reports,
                                     panic/exit, state results and operations changing the number of live
                                     qubits is classified side-effecting.
    Gap between 1 and 2 (not proved, compared on every run for straight-line programs): the
    expression compiler adds the nodes of a simple statement in its evaluation order. *)
From Coq Require Import ZArith List Bool Arith.
From V.C03 Require Import PyAst PySem Cfg CfgSem Builder Frag Witness ProofsBase ProofsExpr ProofsBranch ProofsBuild.
From V.C05 Require Import ModelEffects GenEffects ProofsEffects ModelOrderEdges ModelRun
  ProofsLists ProofsTable ProofsOrder ProofsChain ModelTrace ProofsTrace.
Import ListNotations.
Close Scope string_scope.
Open Scope list_scope.

(* ------------------------------------------------------------------ part 1: call traces *)

Theorem trace_calls_once_in_order : forall oracle e bb s, lift_free e = true ->
  exists e', build_expr e bb s = BOk (e', bb) s /\
    forall st v st', eval oracle e' st = Done (v, st') ->
      eval oracle e st = Done (v, st') /\ fns st' = fns st ++ calls e.
Proof.
  intros oracle e bb s H. exists (fold_neg e). split; [exact (build_lift_free e H bb s)|].
  intros st v st' E. rewrite fold_neg_eval in E. split; [exact E|]. eapply calls_expr; eauto.
Qed.
Print Assumptions trace_calls_once_in_order.

(* non-trivial instance: g(f(v0) + 1, (f(2), h())) calls f, f, h, g in this order *)
Example trace_calls_example :
  let e := ECall 2 (ECons (EBin BAdd (ECall 0 (ECons (v 0) ENil)) (i 1))
                   (ECons (ETuple (ECons (ECall 0 (ECons (i 2) ENil)) (ECons (call0 1) ENil))) ENil)) in
  lift_free e = true /\ calls e = [0; 0; 1; 2] /\
  exists v st', eval test_oracle e st0 = Done (v, st') /\ fns st' = [0; 0; 1; 2].
Proof.
  split; [reflexivity|]. split; [reflexivity|].
  destruct (eval test_oracle (ECall 2 (ECons (EBin BAdd (ECall 0 (ECons (v 0) ENil)) (i 1))
                   (ECons (ETuple (ECons (ECall 0 (ECons (i 2) ENil)) (ECons (call0 1) ENil))) ENil))) st0) as [[v1 st1]| |] eqn:E.
  - exists v1, st1. split; [reflexivity|]. vm_compute in E. inversion E. vm_compute. reflexivity.
  - vm_compute in E. discriminate.
  - vm_compute in E. discriminate.
Qed.

Theorem trace_branch_partial : forall oracle e, frag_cond e = true ->
  forall bb t f g n s',
  build_branch e bb t f (mkB g n) = BOk tt s' ->
  opn g bb -> bb <> exit_idx -> exit_idx < length g -> t < length g -> f < length g -> t <> bb -> f <> bb ->
  exists g', s' = mkB g' n /\
    forall G, ext g' G -> forall st b st' ret, eval_truth oracle e st = Done (b, st') ->
      exists c', steps oracle G (mkConfig bb (slen g bb) st ret) c' /\
                 c_bb c' = (if b then t else f) /\ c_pos c' = 0 /\ snd (c_st c') = snd st'.
Proof.
  intros oracle e H bb t f g n s' B O1 O2 O3 O4 O5 O6 O7.
  destruct (branch_ok oracle e H bb t f g n s' B O1 O2 O3 O4 O5 O6 O7) as (g' & E & _ & S).
  exists g'. split; auto. intros G X st b st' ret EV.
  eexists. split; [exact (S G X st b st' ret EV)|]. simpl. auto.
Qed.
Print Assumptions trace_branch_partial.

(* Statement level (re-export of C03's build_preserves_partial, stated on call events only).
   [frag_stmts p] (coq/C03/Frag.v, decidable): assignments / augmented assignments / expression
   statements / return with lift-free expressions; if/elif/else, while, break, continue, pass nested
   arbitrarily; conditions in [frag_cond] (not / and / or / conditional expressions over lift-free
   leaves, chained comparisons with lift-free operands and call-free middle operands).
   [trace_of r] = the call events (function, argument values, result) of a finished run, oldest first.
   For every such program the builder accepts, every oracle, start state and fuel on which Python
   terminates: some run of the built CFG terminates with exactly Python's sequence of call events, and
   every terminating run of the CFG has that sequence — each call once, in Python's order, short-circuit
   operands called only when Python evaluates them. *)
Theorem trace_equal_partial : forall oracle p returns_none g s,
  frag_stmts p = true -> build p returns_none = BOk g s ->
  forall fuel st v st', exec_py oracle fuel p st = Done (v, st') ->
  (exists fuel', trace_of (run_cfg oracle g fuel' st) = Some (rev (snd st'))) /\
  (forall fuel' r, run_cfg oracle g fuel' st = Done r ->
     trace_of (Done r) = trace_of (exec_py oracle fuel p st)).
Proof. exact trace_equal_frag. Qed.
Print Assumptions trace_equal_partial.

(* non-trivial instance:
     while v0 < 3:
         if f1(v0) and (f1(v1) or f3(2)):
             v1 = f0(v0) + f2(v1)
         else:
             f0(f2(9))
         v0 += 1
     return f2(v0)                                                   *)
Definition ex_trace_prog : stmts :=
  SCons (SWhile (ECmp (v 0) (CLast CLt (i 3)))
     (SCons (SIf (EBool BoAnd (ECall 1 (ECons (v 0) ENil))
                              (EBool BoOr (ECall 1 (ECons (v 1) ENil)) (ECall 3 (ECons (i 2) ENil))))
                 (one (SAssign (TName (VU 1)) (EBin BAdd (ECall 0 (ECons (v 0) ENil)) (ECall 2 (ECons (v 1) ENil)))))
                 (one (SExpr (ECall 0 (ECons (ECall 2 (ECons (i 9) ENil)) ENil)))))
     (one (SAug 0 BAdd (i 1)))) SNil)
  (one (SReturn (Some (ECall 2 (ECons (v 0) ENil))))).
Example trace_equal_example :
  frag_stmts ex_trace_prog = true /\
  (exists g s, build ex_trace_prog false = BOk g s /\
     called (exec_py test_oracle 40 ex_trace_prog st0) = Some [1; 1; 0; 2; 1; 2; 0; 1; 2; 0; 2] /\
     called (run_cfg test_oracle g 400 st0) = Some [1; 1; 0; 2; 1; 2; 0; 1; 2; 0; 2]).
Proof.
  split; [reflexivity|].
  destruct (build ex_trace_prog false) as [g s|] eqn:B; [|vm_compute in B; discriminate].
  exists g, s. split; [reflexivity|].
  vm_compute in B. inversion B; subst g. split; vm_compute; reflexivity.
Qed.

(* if ((-5) < f0() < 9): ...     Python calls f0 once, the built CFG twice *)
Theorem trace_equal_refuted_chain_dup : trace_refutes w_chain.
Proof. apply trace_refutes_b_sound. vm_compute. reflexivity. Qed.
Print Assumptions trace_equal_refuted_chain_dup.

(* v1 = (f0() + (f2() if v3 else f0(1)))     Python: f0, f2; the built CFG: f2, f0 *)
Theorem trace_equal_refuted_ifexp_order : trace_refutes w_ifexp.
Proof. apply trace_refutes_b_sound. vm_compute. reflexivity. Qed.
Print Assumptions trace_equal_refuted_ifexp_order.

(* v1 = (f0() + (v3 and f1()))     Python: f0, f1; the built CFG: f1, f0 *)
Theorem trace_equal_refuted_boolop_order : trace_refutes w_boolop.
Proof. apply trace_refutes_b_sound. vm_compute. reflexivity. Qed.
Print Assumptions trace_equal_refuted_boolop_order.

(* v1 = (f0() + (v2 := f2()))     Python: f0, f2; the built CFG: f2, f0 *)
Theorem trace_equal_refuted_walrus_order : trace_refutes w_walrus_order.
Proof. apply trace_refutes_b_sound. vm_compute. reflexivity. Qed.
Print Assumptions trace_equal_refuted_walrus_order.

(* ------------------------------------------------------------------ part 2: order edges *)

(* [track s0 l] = the model of one `with track_hugr_side_effects():` block that starts on the node
   table / order edges of s0 and sees the add_node calls l.  [ctx_ok s0 W] = (wf, disciplined,
   local_ok): table well-formed; in every region the side effects added below one child are
   contiguous; regions that receive a side effect in this context had no order edge before and the
   earlier edges point to existing nodes.  [expected_edges ns start p] is written from the table alone:
   [] if no side-effecting node was added below p in this context, else
   pairs (Input :: chain ++ [Output]) with chain = children of p holding such a node, each once, ordered
   by their first such node. *)
Theorem order_edges_total : forall s0 l W,
  track s0 l = Some W ->
  ctx_ok s0 W = (true, true, true) ->
  forall p, is_region (nodes W) p = true -> region_edges s0 p = [] ->
    region_edges W p = expected_edges (nodes W) (length (nodes s0)) p.
Proof.
  intros s0 l W T OK p R P0. unfold ctx_ok in OK.
  assert (Hw : wf (nodes W) = true) by congruence.
  assert (Hd : disciplined (nodes W) (length (nodes s0)) = true) by congruence.
  assert (Hl : local_ok s0 W = true) by congruence.
  pose proof (wf_sound _ Hw) as WFW. destruct WFW as (PL & WB & WC).
  destruct (local_ok_sound _ _ Hw Hl) as [HL HE].
  apply (order_edges_chain s0 l W T (conj PL (conj WB WC)) HE (disciplined_sound _ _ Hw Hd) HL p);
    auto using is_region_linkable.
Qed.
Print Assumptions order_edges_total.

Theorem order_edges_chain_nodup : forall ns start p, NoDup (ctx_chain ns start p).
Proof. exact chain_nodup. Qed.
Print Assumptions order_edges_chain_nodup.

(* c is in the chain of p  <->  some side-effecting node m of the context lies at or below c, c is a
   child of p, and no function definition lies between ([proj] walks the parents of m up to p) *)
Theorem order_edges_chain_members : forall ns start p c,
  In c (ctx_chain ns start p) <->
  exists m, start <= m < start + (length ns - start) /\ is_eff ns m = true /\ proj (S m) ns p m = Some c.
Proof. exact chain_members. Qed.
Print Assumptions order_edges_chain_members.

(* a region with a side effect inside is itself in the chain of its parent *)
Theorem order_edges_region_in_parent_chain : forall s0 l W,
  track s0 l = Some W -> ctx_ok s0 W = (true, true, true) ->
  forall r p, ctx_chain (nodes W) (length (nodes s0)) r <> [] ->
    kind_of (nodes W) r <> Some KFuncDefn -> parent_of (nodes W) r = Some p -> r <> 0 ->
    In r (ctx_chain (nodes W) (length (nodes s0)) p).
Proof.
  intros s0 l W T OK. unfold ctx_ok in OK.
  assert (Hw : wf (nodes W) = true) by congruence.
  assert (Hd : disciplined (nodes W) (length (nodes s0)) = true) by congruence.
  assert (Hl : local_ok s0 W = true) by congruence.
  pose proof (wf_sound _ Hw) as WFW. destruct WFW as (PL & WB & WC).
  destruct (local_ok_sound _ _ Hw Hl) as [HL HE].
  exact (region_in_parent_chain s0 l W T (conj PL (conj WB WC)) HE (disciplined_sound _ _ Hw Hd) HL).
Qed.
Print Assumptions order_edges_region_in_parent_chain.

(* the hypotheses are satisfiable on a non-trivial instance: a function whose block holds
   result; Conditional{Case{panic}; Case{}}; call; and a second block with a call *)
Definition ex_ins : list ins :=
  [mkIns 0 KFuncDefn false; mkIns 1 KInput false; mkIns 1 KOutput false; mkIns 1 KCond false;
   mkIns 4 KDf false; mkIns 5 KInput false; mkIns 5 KOutput false;
   mkIns 5 KOp true;                                   (* 8: result *)
   mkIns 5 KCond false; mkIns 9 KDf false; mkIns 10 KInput false; mkIns 10 KOutput false;
   mkIns 9 KDf false; mkIns 13 KInput false; mkIns 13 KOutput false;
   mkIns 10 KOp false; mkIns 10 KOp true;             (* 17: panic inside the first case *)
   mkIns 5 KOp false; mkIns 5 KOp true;               (* 19: call *)
   mkIns 4 KDf false; mkIns 20 KInput false; mkIns 20 KOutput false; mkIns 20 KOp true].
Example order_edges_example :
  exists W, track init ex_ins = Some W /\ ctx_ok init W = (true, true, true) /\
    region_edges W 5 = [(6, 8); (8, 9); (9, 19); (19, 7)] /\
    region_edges W 10 = [(11, 17); (17, 12)] /\ region_edges W 13 = [] /\
    region_edges W 1 = [(2, 4); (4, 3)] /\ is_region (nodes W) 5 = true.
Proof.
  exists (match track init ex_ins with Some W => W | None => init end).
  split; [vm_compute; reflexivity|]. split; [vm_compute; reflexivity|]. split; [vm_compute; reflexivity|].
  split; [vm_compute; reflexivity|]. split; [vm_compute; reflexivity|]. split; vm_compute; reflexivity.
Qed.

(* without the building discipline the coded algorithm links a Conditional twice: a side effect in
   the first case, one in the enclosing block, one in the second case give 6 -> 9 -> 18 -> 9 *)
Definition bad_ins : list ins :=
  [mkIns 0 KFuncDefn false; mkIns 1 KInput false; mkIns 1 KOutput false; mkIns 1 KCond false;
   mkIns 4 KDf false; mkIns 5 KInput false; mkIns 5 KOutput false;
   mkIns 5 KOp false;
   mkIns 5 KCond false; mkIns 9 KDf false; mkIns 10 KInput false; mkIns 10 KOutput false;
   mkIns 9 KDf false; mkIns 13 KInput false; mkIns 13 KOutput false;
   mkIns 10 KOp false; mkIns 10 KOp true;             (* 17 in the first case *)
   mkIns 5 KOp true;                                  (* 18 in the block *)
   mkIns 13 KOp true].                                (* 19 in the second case *)
Theorem order_edges_discipline_needed :
  exists W, track init bad_ins = Some W /\ ctx_ok init W = (true, false, true) /\
    region_edges W 5 = [(6, 9); (9, 18); (18, 9); (9, 7)] /\
    expected_edges (nodes W) 1 5 = [(6, 9); (9, 18); (18, 7)].
Proof.
  exists (match track init bad_ins with Some W => W | None => init end).
  split; [vm_compute; reflexivity|]. split; [vm_compute; reflexivity|]. split; vm_compute; reflexivity.
Qed.
Print Assumptions order_edges_discipline_needed.

(* ------------------------------------------------------------------ part 3: classification *)

(* [std_rows] (GenEffects.v, regenerated): operations emitted by the std library, read back from real
   compilations; [may_have_side_effect] (GenEffects.v, regenerated from core.py);
   [must_be_ordered] (ModelEffects.v): the property's list. *)
Theorem effect_classification : forall r, In r std_rows ->
  must_be_ordered r = true -> may_have_side_effect (r_op r) = true.
Proof. exact effect_classification_all. Qed.
Print Assumptions effect_classification.

Theorem effect_classification_nontrivial : existsb must_be_ordered std_rows = true.
Proof. exact rows_nontrivial. Qed.
