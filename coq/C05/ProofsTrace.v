(** C05 part 1 — call traces: lift-free expressions call each call site once, left to right,
    arguments before the call; computed refutations lift to every fuel. *)
From Coq Require Import ZArith List Bool Lia.
From V.C03 Require Import PyAst PySem Cfg CfgSem Builder Frag Witness ProofsRefute ProofsExpr ProofsBuild.
From V.C05 Require Import ModelTrace.
Import ListNotations.

Section Eval.
Variable oracle : trace -> nat -> list val -> val.

Lemma calls_all :
  (forall e st v st', lift_free e = true -> eval oracle e st = Done (v, st') -> fns st' = fns st ++ calls e) /\
  (forall es st vs st', lift_free_list es = true -> eval_list oracle es st = Done (vs, st') -> fns st' = fns st ++ calls_list es) /\
  (forall t vl st v st', match t with CLast _ r => lift_free r | CMore _ _ _ => false end = true ->
     eval_ctail oracle vl t st = Done (v, st') -> fns st' = fns st ++ calls_ctail t).
Proof.
  apply expr_mutind.
  - intros c st v st' _ H. simpl in H. inversion H. simpl. rewrite app_nil_r. reflexivity.
  - intros x st v st' _ H. simpl in H. destruct (fst st x); inversion H. simpl. rewrite app_nil_r. reflexivity.
  - intros op e IH st v st' LF H. simpl in LF, H.
    destruct (eval oracle e st) as [[va st1]| |] eqn:Ea; simpl in H; try discriminate.
    destruct (eval_unop op va); inversion H; subst. simpl. eapply IH; eauto.
  - intros op a IHa b IHb st v st' LF H. simpl in LF, H. apply andb_prop in LF. destruct LF as [LA LB].
    destruct (eval oracle a st) as [[va st1]| |] eqn:Ea; simpl in H; try discriminate.
    destruct (eval oracle b st1) as [[vb st2]| |] eqn:Eb; simpl in H; try discriminate.
    destruct (eval_binop op va vb); inversion H; subst. simpl.
    rewrite (IHb _ _ _ LB Eb), (IHa _ _ _ LA Ea), app_assoc. reflexivity.
  - intros l IHl rest IHr st v st' LF H. simpl in H.
    destruct rest as [op r|op m rest']; simpl in LF; [|discriminate].
    apply andb_prop in LF. destruct LF as [LA LB].
    destruct (eval oracle l st) as [[vl st1]| |] eqn:El; simpl in H; try discriminate.
    simpl calls. rewrite (IHr vl st1 v st' LB H), (IHl _ _ _ LA El), app_assoc. reflexivity.
  - intros op a _ b _ st v st' LF. simpl in LF. discriminate.
  - intros c _ a _ b _ st v st' LF. simpl in LF. discriminate.
  - intros x e _ st v st' LF. simpl in LF. discriminate.
  - intros f args IH st v st' LF H. simpl in LF, H.
    destruct (eval_list oracle args st) as [[vs st1]| |] eqn:Ea; simpl in H; try discriminate.
    inversion H; subst. unfold fns. simpl. rewrite map_app. simpl.
    fold (fns st1). rewrite (IH _ _ _ LF Ea), app_assoc. reflexivity.
  - intros es IH st v st' LF H. simpl in LF, H.
    destruct (eval_list oracle es st) as [[vs st1]| |] eqn:Ea; simpl in H; try discriminate.
    inversion H; subst. simpl. eapply IH; eauto.
  - intros st vs st' _ H. simpl in H. inversion H. simpl. rewrite app_nil_r. reflexivity.
  - intros e IHe r IHr st vs st' LF H. simpl in LF, H. apply andb_prop in LF. destruct LF as [LA LB].
    destruct (eval oracle e st) as [[v st1]| |] eqn:Ee; simpl in H; try discriminate.
    destruct (eval_list oracle r st1) as [[vr st2]| |] eqn:Er; simpl in H; try discriminate.
    inversion H; subst. simpl. rewrite (IHr _ _ _ LB Er), (IHe _ _ _ LA Ee), app_assoc. reflexivity.
  - intros op e IH vl st v st' LF H. simpl in H.
    destruct (eval oracle e st) as [[vr st1]| |] eqn:Ee; simpl in H; try discriminate.
    destruct (eval_cmpop op vl vr); inversion H; subst. simpl. eapply IH; eauto.
  - intros op e _ rest _ vl st v st' LF. discriminate.
Qed.

Lemma calls_expr : forall e st v st', lift_free e = true -> eval oracle e st = Done (v, st') ->
  fns st' = fns st ++ calls e.
Proof. apply calls_all. Qed.

Lemma calls_args : forall es st vs st', lift_free_list es = true -> eval_list oracle es st = Done (vs, st') ->
  fns st' = fns st ++ calls_list es.
Proof. apply calls_all. Qed.
End Eval.

Lemma nats_eqb_eq : forall a b, nats_eqb a b = true <-> a = b.
Proof. intros. unfold nats_eqb. destruct (list_eq_dec Nat.eq_dec a b); split; congruence. Qed.

Lemma trace_refutes_b_sound : forall p, trace_refutes_b p = true -> trace_refutes p.
Proof.
  unfold trace_refutes_b, trace_refutes. intros p H.
  destruct (build p true) as [g s|] eqn:B; [|discriminate].
  destruct (exec_py test_oracle 50 p st0) as [rp| |] eqn:E; try discriminate.
  destruct (run_cfg test_oracle g 500 st0) as [rc| |] eqn:R; try discriminate.
  exists g, s, rp. repeat split; auto.
  intros fuel rc' R' Heq.
  assert (rc' = rc) by (eapply run_done_unique; eauto). subst rc'.
  unfold called in Heq. destruct rc as [vc stc], rp as [vp stp]. simpl in *.
  inversion Heq as [Heq']. apply nats_eqb_eq in Heq'. rewrite Heq' in H. discriminate.
Qed.

(** statement level: C03's simulation theorem for [frag_stmts], projected on call events *)
Lemma trace_equal_frag : forall oracle p rn g s,
  frag_stmts p = true -> build p rn = BOk g s ->
  forall fuel st v st', exec_py oracle fuel p st = Done (v, st') ->
  (exists fuel', trace_of (run_cfg oracle g fuel' st) = Some (rev (snd st'))) /\
  (forall fuel' r, run_cfg oracle g fuel' st = Done r ->
     trace_of (Done r) = trace_of (exec_py oracle fuel p st)).
Proof.
  intros oracle p rn g s F B fuel st v st' X.
  destruct (build_preserves_frag oracle p rn g s F B fuel st v st' X) as (f2 & R2).
  split.
  - exists f2. rewrite R2. reflexivity.
  - intros fuel' r R. rewrite X. unfold run_cfg in *.
    assert (r = (v, st')) by (eapply run_done_unique; eauto). subst r. reflexivity.
Qed.
