(** C32 — model of "which front-end code looks at which field of which Python node kind".

    The *data* (CPython's grammar, the scopes found in the front end, the dispatch facts) is
    generated into GenTable.v on every run; this file only fixes the record types, the
    allowlist of legitimately ignored fields (trusted base, each with its reason), and the
    executable decision procedures.  No proofs here. *)
From Coq Require Import String List Bool.
Import ListNotations.
Open Scope string_scope.

Record field := mkField { f_name : string; f_type : string; f_list : bool }.
Record kind_decl := mkKind { k_name : string; k_class : string; k_fields : list field }.

(** A region of front-end code in which a variable holds a node of kind [s_kind].
    [s_pass]   the node is handed on whole to a later stage (it is not consumed here);
    [s_raises] the region unconditionally raises;
    [s_reads]  fields whose content is used;
    [s_guards] fields only tested for presence by an `if ...: raise`. *)
Record scope := mkScope { s_name : string; s_kind : string; s_pass : bool; s_raises : bool;
                          s_reads : list string; s_guards : list string }.

Record table := mkTable {
  t_grammar : list kind_decl;
  t_members : list (string * list string);   (* sum type / product type name -> node kinds *)
  t_scopes : list scope;
  t_stmt_generic_rejects : bool;             (* CFGBuilder.generic_visit always raises *)
  t_expr_generic_rejects : bool;             (* ExprSynthesizer.generic_visit always raises *)
  t_stmt_handlers : list string;             (* kinds K with CFGBuilder.visit_K *)
  t_expr_handlers : list string;             (* kinds K with visit_K in one of the four expression visitors *)
  t_lowering : bool }.                       (* false: front end (builder + checkers); true: lowering (compilers) *)

Definition mem (x : string) (l : list string) : bool := existsb (String.eqb x) l.

(** The allowlist: fields whose content the front end may ignore without changing the meaning
    of the program.  TRUSTED — keep minimal. *)
Definition allowlist : list (string * string * string) := [
  (* kind, field, reason *)
  ("Attribute", "ctx", "Load/Store/Del is determined by the syntactic position, which the front end handles positionally");
  ("Subscript", "ctx", "as above");
  ("Starred", "ctx", "as above");
  ("Name", "ctx", "as above");
  ("List", "ctx", "as above");
  ("Tuple", "ctx", "as above");
  ("FunctionDef", "type_comment", "only filled by ast.parse(type_comments=True); guppylang parses without it, so it is always None");
  ("arg", "type_comment", "as above");
  ("Assign", "type_comment", "as above");
  ("For", "type_comment", "as above");
  ("With", "type_comment", "as above");
  ("Constant", "kind", "the u-prefix of a string literal has no meaning in Python 3");
  ("AnnAssign", "simple", "records whether the target was parenthesised; no run-time meaning inside a function body");
  ("arguments", "kw_defaults", "has one entry per keyword-only parameter; keyword-only parameters are rejected when present")
].

Definition allowed (k f : string) : bool :=
  existsb (fun e => match e with (k', f', _) => String.eqb k k' && String.eqb f f' end) allowlist.

(** Additional allowlist for the lowering stage only (ExprCompiler / StmtCompiler work on checked
    nodes): fields that earlier stages have already consumed.  TRUSTED. *)
Definition lowering_allowlist : list (string * string * string) := [
  ("GlobalName", "id", "display name; the definition is identified by def_id");
  ("GenericParamValue", "id", "display name; the parameter is identified by param");
  ("SubscriptAccessAndDrop", "original_expr", "kept for the linearity checker's diagnostics only");
  ("StateResultExpr", "has_array_input", "set by the checker, never read anywhere (the compiler recomputes it from the argument types)");
  ("AnnAssign", "annotation", "the checker has already checked the value against the annotation and rewrites AnnAssign to Assign")
].

Definition allowed_in (lowering : bool) (k f : string) : bool :=
  allowed k f ||
  (lowering && existsb (fun e => match e with (k', f', _) => String.eqb k k' && String.eqb f f' end) lowering_allowlist).

Definition fields_of (t : table) (k : string) : list field :=
  match find (fun d => String.eqb (k_name d) k) (t_grammar t) with
  | Some d => k_fields d
  | None => []
  end.

Definition class_of (t : table) (k : string) : string :=
  match find (fun d => String.eqb (k_name d) k) (t_grammar t) with
  | Some d => k_class d
  | None => ""
  end.

Definition members_of (t : table) (ty : string) : list string :=
  match find (fun p => String.eqb (fst p) ty) (t_members t) with
  | Some p => snd p
  | None => []
  end.

Definition scopes_of (t : table) (k : string) : list scope :=
  filter (fun s => String.eqb (s_kind s) k) (t_scopes t).

(** field f is looked at inside scope s *)
Definition touched (s : scope) (f : string) : bool := mem f (s_reads s) || mem f (s_guards s).

(** field f of kind k is looked at by some scope of that kind *)
Definition touched_somewhere (t : table) (k f : string) : bool :=
  existsb (fun s => touched s f) (scopes_of t k).

Definition read_somewhere (t : table) (k f : string) : bool :=
  existsb (fun s => mem f (s_reads s)) (scopes_of t k).

(** scope s accounts for field f of its kind *)
Definition accounted (t : table) (s : scope) (f : string) : bool :=
  s_raises s || touched s f || allowed_in (t_lowering t) (s_kind s) f
  || (s_pass s && touched_somewhere t (s_kind s) f).

Definition scope_ok (t : table) (s : scope) : bool :=
  forallb (fun fd => accounted t s (f_name fd)) (fields_of t (s_kind s)).

Definition check_scopes (t : table) : bool := forallb (scope_ok t) (t_scopes t).

(** Kind-level verdict: a statement kind without a CFGBuilder handler falls into
    CFGBuilder.generic_visit, an expression kind without any handler falls (through
    NodeTransformer's recursion and ExprChecker's delegation) into ExprSynthesizer.generic_visit. *)
Definition kind_rejected (t : table) (k : string) : bool :=
  let c := class_of t k in
  if String.eqb c "stmt" then t_stmt_generic_rejects t && negb (mem k (t_stmt_handlers t))
  else if String.eqb c "expr" then t_expr_generic_rejects t && negb (mem k (t_expr_handlers t))
  else false.

Definition has_scope (t : table) (k : string) : bool :=
  match scopes_of t k with [] => false | _ => true end.

(** node kinds that can occur below a node of kind k whose content is read *)
Definition children (t : table) (k : string) : list string :=
  flat_map (fun fd => if read_somewhere t k (f_name fd) then members_of t (f_type fd) else [])
           (fields_of t k).

Definition carries_syntax (t : table) (k : string) : bool :=
  match fields_of t k with [] => false | _ => true end.

(** kinds that need a verdict: those with at least one field (operator / context tokens have
    none and are covered by the operator tables of C04 and by the program matrix) *)
Definition kind_ok (t : table) (k : string) : bool :=
  negb (carries_syntax t k) || kind_rejected t k || has_scope t k.

Fixpoint closure (t : table) (fuel : nat) (seen : list string) (todo : list string) : list string :=
  match fuel with
  | O => seen
  | S n =>
    match todo with
    | [] => seen
    | k :: rest =>
      if mem k seen then closure t n seen rest
      else closure t n (k :: seen) (children t k ++ rest)
    end
  end.

Definition root : string := "FunctionDef".

Definition reach_list (t : table) : list string :=
  closure t (4 * (length (t_grammar t) + 1) * (length (t_grammar t) + 1)) [] [root].

Definition closed (t : table) (l : list string) : bool :=
  mem root l && forallb (fun k => forallb (fun c => mem c l) (children t k)) l.

Definition check_kinds (t : table) : bool :=
  closed t (reach_list t) && forallb (kind_ok t) (reach_list t).

Definition check_all (t : table) : bool := check_scopes t && check_kinds t.

(** Diagnostics for the failing-input search: the (scope, field) pairs not accounted for. *)
Definition unaccounted (t : table) : list (string * string * string) :=
  flat_map (fun s => flat_map (fun fd => if accounted t s (f_name fd) then [] else [(s_name s, s_kind s, f_name fd)])
                              (fields_of t (s_kind s))) (t_scopes t).

Definition unhandled_kinds (t : table) : list string :=
  filter (fun k => negb (kind_ok t k)) (reach_list t).

(** The table with field f of kind k forgotten by every scope (used in Props.v to show that the
    check is not vacuous: forgetting a field that matters makes it fail). *)
Definition forget_field (k f : string) (t : table) : table :=
  let drop := filter (fun x => negb (String.eqb x f)) in
  mkTable (t_grammar t) (t_members t)
    (map (fun s => if String.eqb (s_kind s) k
                   then mkScope (s_name s) (s_kind s) (s_pass s) (s_raises s) (drop (s_reads s)) (drop (s_guards s))
                   else s) (t_scopes t))
    (t_stmt_generic_rejects t) (t_expr_generic_rejects t) (t_stmt_handlers t) (t_expr_handlers t) (t_lowering t).

(** The table in which kind k has lost its handler and its scopes but the generic fallback of
    its class no longer raises: the kind would be accepted and ignored. *)
Definition silent_generic (t : table) : table :=
  mkTable (t_grammar t) (t_members t) (t_scopes t) false false (t_stmt_handlers t) (t_expr_handlers t) (t_lowering t).
