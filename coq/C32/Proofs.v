(** C32 — soundness of the executable checks of ModelDrop.v with respect to a specification
    written with inductive reachability and existential accounting (no booleans, no fuel). *)
From Coq Require Import String List Bool.
From V.C32 Require Import ModelDrop.
Import ListNotations.
Open Scope string_scope.

(** * Specification side *)

(** Node kinds that can occur in a function accepted so far: the function definition itself,
    and every kind that may sit in a field whose content some front-end scope reads. *)
Inductive Reach (t : table) : string -> Prop :=
| R_root : Reach t root
| R_step : forall p fd k,
    Reach t p -> In fd (fields_of t p) -> read_somewhere t p (f_name fd) = true ->
    In k (members_of t (f_type fd)) -> Reach t k.

(** Scope s accounts for field f: it raises, uses or guards the field, the field is on the
    allowlist, or the node is handed on and another scope of the same kind uses or guards it. *)
Definition Accounted (t : table) (s : scope) (f : string) : Prop :=
  s_raises s = true \/ In f (s_reads s) \/ In f (s_guards s) \/ allowed_in (t_lowering t) (s_kind s) f = true \/
  (s_pass s = true /\
   exists s', In s' (t_scopes t) /\ s_kind s' = s_kind s /\ (In f (s_reads s') \/ In f (s_guards s'))).

Definition HasScope (t : table) (k : string) : Prop := exists s, In s (t_scopes t) /\ s_kind s = k.

(** * Lemmas *)

Lemma mem_In : forall x l, mem x l = true <-> In x l.
Proof.
  intros x l. unfold mem. rewrite existsb_exists. split.
  - intros [y [Hy He]]. apply String.eqb_eq in He. subst. exact Hy.
  - intros H. exists x. split; [exact H | apply String.eqb_refl].
Qed.

Lemma scopes_of_In : forall t k s, In s (scopes_of t k) <-> In s (t_scopes t) /\ s_kind s = k.
Proof.
  intros t k s. unfold scopes_of. rewrite filter_In. split.
  - intros [H E]. apply String.eqb_eq in E. auto.
  - intros [H E]. split; [exact H|]. subst. apply String.eqb_refl.
Qed.

Lemma touched_spec : forall s f, touched s f = true -> In f (s_reads s) \/ In f (s_guards s).
Proof.
  intros s f H. unfold touched in H. apply orb_true_iff in H. destruct H as [H|H]; apply mem_In in H; auto.
Qed.

Lemma accounted_sound : forall t s f, accounted t s f = true -> Accounted t s f.
Proof.
  intros t s f H. unfold accounted in H. unfold Accounted.
  apply orb_true_iff in H. destruct H as [H|H].
  - apply orb_true_iff in H. destruct H as [H|H].
    + apply orb_true_iff in H. destruct H as [H|H].
      * left. exact H.
      * apply touched_spec in H. destruct H; auto.
    + right. right. right. left. exact H.
  - apply andb_true_iff in H. destruct H as [Hp Ht].
    right. right. right. right. split; [exact Hp|].
    unfold touched_somewhere in Ht. apply existsb_exists in Ht. destruct Ht as [s' [Hs' Htt]].
    apply scopes_of_In in Hs'. destruct Hs' as [Hin Hk].
    exists s'. split; [exact Hin|]. split; [exact Hk|]. apply touched_spec. exact Htt.
Qed.

Lemma check_scopes_sound : forall t, check_scopes t = true ->
  forall s fd, In s (t_scopes t) -> In fd (fields_of t (s_kind s)) -> Accounted t s (f_name fd).
Proof.
  intros t H s fd Hs Hf. unfold check_scopes in H. rewrite forallb_forall in H.
  specialize (H s Hs). unfold scope_ok in H. rewrite forallb_forall in H.
  apply accounted_sound. apply H. exact Hf.
Qed.

Lemma children_In : forall t p fd k,
  In fd (fields_of t p) -> read_somewhere t p (f_name fd) = true -> In k (members_of t (f_type fd)) ->
  In k (children t p).
Proof.
  intros t p fd k Hf Hr Hk. unfold children. apply in_flat_map. exists fd. split; [exact Hf|].
  rewrite Hr. exact Hk.
Qed.

Lemma closed_reach : forall t l, closed t l = true -> forall k, Reach t k -> In k l.
Proof.
  intros t l H. unfold closed in H. apply andb_true_iff in H. destruct H as [Hr Hc].
  rewrite forallb_forall in Hc.
  intros k R. induction R as [|p fd k R IH Hf Hrd Hk].
  - apply mem_In. exact Hr.
  - specialize (Hc p IH). rewrite forallb_forall in Hc.
    apply mem_In. apply Hc. eapply children_In; eauto.
Qed.

Lemma has_scope_spec : forall t k, has_scope t k = true -> HasScope t k.
Proof.
  intros t k H. unfold has_scope in H. destruct (scopes_of t k) as [|s r] eqn:E; [discriminate|].
  assert (In s (scopes_of t k)) as Hin by (rewrite E; left; reflexivity).
  apply scopes_of_In in Hin. exists s. exact Hin.
Qed.

Lemma check_kinds_sound : forall t, check_kinds t = true ->
  forall k, Reach t k -> fields_of t k <> [] -> kind_rejected t k = true \/ HasScope t k.
Proof.
  intros t H k R Hne. unfold check_kinds in H. apply andb_true_iff in H. destruct H as [Hc Hk].
  pose proof (closed_reach t _ Hc k R) as Hin.
  rewrite forallb_forall in Hk. specialize (Hk k Hin). unfold kind_ok in Hk.
  apply orb_true_iff in Hk. destruct Hk as [Hk|Hk].
  - apply orb_true_iff in Hk. destruct Hk as [Hk|Hk].
    + unfold carries_syntax in Hk. destruct (fields_of t k); [contradiction Hne; reflexivity | discriminate].
    + left. exact Hk.
  - right. apply has_scope_spec. exact Hk.
Qed.

(** The combined statement, for any table that passes the executable check. *)
Theorem check_all_sound : forall t, check_all t = true ->
  forall k fd, Reach t k -> In fd (fields_of t k) ->
    kind_rejected t k = true \/
    (HasScope t k /\ forall s, In s (t_scopes t) -> s_kind s = k -> Accounted t s (f_name fd)).
Proof.
  intros t H k fd R Hf. unfold check_all in H. apply andb_true_iff in H. destruct H as [Hs Hk].
  assert (fields_of t k <> []) as Hne by (intro E; rewrite E in Hf; destruct Hf).
  destruct (check_kinds_sound t Hk k R Hne) as [Hr|Hh].
  - left. exact Hr.
  - right. split; [exact Hh|]. intros s Hin Hkind. subst k.
    apply (check_scopes_sound t Hs s fd Hin Hf).
Qed.

(** Reachability is not vacuous: a field that is read carries its members into Reach. *)
Lemma reach_child : forall t p fd k, Reach t p -> In fd (fields_of t p) ->
  read_somewhere t p (f_name fd) = true -> In k (members_of t (f_type fd)) -> Reach t k.
Proof. intros. eapply R_step; eauto. Qed.
