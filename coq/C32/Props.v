(** C32 — Accepted syntax is never silently ignored.

    Every statement is about [tbl], the table GENERATED on this run from CPython's grammar
    (all node kinds and fields of the `ast` module of the interpreter that runs guppylang) and
    from the front-end sources of the tree under test (cfg/builder.py, checker/func_checker.py,
    checker/stmt_checker.py, checker/expr_checker.py, tys/parsing.py:parse_parameter, nodes.py).
    Bound: the table is finite; [table_checks] is decided by [vm_compute] over exactly that
    table and lifted to the quantified statements by the lemmas of Proofs.v. *)
From Coq Require Import String List Bool.
From V.C32 Require Import ModelDrop GenTable Proofs.
Import ListNotations.
Open Scope string_scope.

(* the executable check succeeds on the generated table (bound: the generated table) *)
Theorem table_checks : check_all tbl = true.
Proof. vm_compute. reflexivity. Qed.
Print Assumptions table_checks.

(* no_silent_drop: for every node kind k that can occur in an accepted function and every field
   f of k in CPython's grammar: k is rejected outright by the generic fallback of its visitor, or
   k has front-end scopes and EVERY one of them accounts for f -- raises, uses f, rejects f when
   present, f is on the stated allowlist, or hands the node on to a scope that does. *)
Theorem no_silent_drop : forall k fd, Reach tbl k -> In fd (fields_of tbl k) ->
  kind_rejected tbl k = true \/
  (HasScope tbl k /\ forall s, In s (t_scopes tbl) -> s_kind s = k -> Accounted tbl s (f_name fd)).
Proof. exact (check_all_sound tbl table_checks). Qed.
Print Assumptions no_silent_drop.

(* the same per scope, also for scopes of kinds outside Reach (assignment targets, type positions) *)
Theorem every_scope_accounts : forall s fd, In s (t_scopes tbl) -> In fd (fields_of tbl (s_kind s)) ->
  Accounted tbl s (f_name fd).
Proof.
  pose proof table_checks as H. unfold check_all in H. apply andb_true_iff in H.
  exact (check_scopes_sound tbl (proj1 H)).
Qed.
Print Assumptions every_scope_accounts.

(* LOWERING stage (compiler/expr_compiler.py, compiler/stmt_compiler.py; node kinds = Guppy's own
   checked nodes with their `_fields` from nodes.py + the Python kinds that survive checking):
   every scope of ExprCompiler / StmtCompiler accounts for every field of its node kind.  This is
   only the per-scope statement (no reachability: the checked-node grammar is not typed). *)
Theorem lowering_scopes_account : forall s fd, In s (t_scopes ltbl) -> In fd (fields_of ltbl (s_kind s)) ->
  Accounted ltbl s (f_name fd).
Proof.
  assert (check_scopes ltbl = true) as H by (vm_compute; reflexivity).
  exact (check_scopes_sound ltbl H).
Qed.
Print Assumptions lowering_scopes_account.

(* hypotheses are satisfiable on non-trivial instances: loops, calls, comprehensions, nested
   function signatures are reachable kinds with fields *)
Example reach_nontrivial :
  Reach tbl "While" /\ Reach tbl "Call" /\ Reach tbl "comprehension" /\ Reach tbl "arguments" /\ Reach tbl "withitem".
Proof.
  assert (Reach tbl "While") as HW.
  { eapply (R_step tbl "FunctionDef" (mkField "body" "stmt" true) "While"); [apply R_root | vm_compute; tauto | vm_compute; reflexivity | vm_compute; tauto]. }
  assert (Reach tbl "Expr") as HE.
  { eapply (R_step tbl "FunctionDef" (mkField "body" "stmt" true) "Expr"); [apply R_root | vm_compute; tauto | vm_compute; reflexivity | vm_compute; tauto]. }
  assert (Reach tbl "With") as HWi.
  { eapply (R_step tbl "FunctionDef" (mkField "body" "stmt" true) "With"); [apply R_root | vm_compute; tauto | vm_compute; reflexivity | vm_compute; tauto]. }
  assert (Reach tbl "Call") as HC.
  { eapply (R_step tbl "Expr" (mkField "value" "expr" false) "Call"); [exact HE | vm_compute; tauto | vm_compute; reflexivity | vm_compute; tauto]. }
  assert (Reach tbl "GeneratorExp") as HG.
  { eapply (R_step tbl "Expr" (mkField "value" "expr" false) "GeneratorExp"); [exact HE | vm_compute; tauto | vm_compute; reflexivity | vm_compute; tauto]. }
  repeat split; try assumption.
  - eapply (R_step tbl "GeneratorExp" (mkField "generators" "comprehension" true) "comprehension"); [exact HG | vm_compute; tauto | vm_compute; reflexivity | vm_compute; tauto].
  - eapply (R_step tbl "FunctionDef" (mkField "args" "arguments" false) "arguments"); [apply R_root | vm_compute; tauto | vm_compute; reflexivity | vm_compute; tauto].
  - eapply (R_step tbl "With" (mkField "items" "withitem" true) "withitem"); [exact HWi | vm_compute; tauto | vm_compute; reflexivity | vm_compute; tauto].
Qed.

(* the check is not vacuous: a front end that forgot one of these fields, or whose generic
   fallbacks stopped raising, does not pass *)
Example forgotten_fields_detected :
  check_all (forget_field "While" "orelse" tbl) = false /\
  check_all (forget_field "For" "orelse" tbl) = false /\
  check_all (forget_field "Call" "keywords" tbl) = false /\
  check_all (forget_field "FunctionDef" "decorator_list" tbl) = false /\
  check_all (forget_field "arguments" "defaults" tbl) = false /\
  check_all (forget_field "withitem" "optional_vars" tbl) = false /\
  check_all (forget_field "Slice" "step" tbl) = true (* Slice is rejected as a kind *) /\
  check_all (silent_generic tbl) = false /\
  check_scopes (forget_field "DesugaredGenerator" "ifs" ltbl) = false /\
  check_scopes (forget_field "DesugaredListComp" "generators" ltbl) = false /\
  check_scopes (forget_field "Assign" "targets" ltbl) = false.
Proof. vm_compute. repeat split; reflexivity. Qed.
