From Coq Require Import ZArith List Bool Lia.
From V.C11 Require Import ModelOrder.
Import ListNotations. Open Scope Z_scope.

(* Well-formed names: a temporary's number directly follows a text run that ends in "%tmp"
   (negative code), and no other digit run does (user identifiers cannot contain '%'). *)
Definition tmp_mark (c : Z) : bool := c <? 0.
Fixpoint wfn (prev : bool) (n : name) : bool :=
  match n with
  | [] => true
  | CText c :: r => wfn (tmp_mark c) r
  | CNum _ :: r => negb prev && wfn false r
  | CTmp _ :: r => prev && wfn false r
  end.
Definition wfvar (v : var) : bool := wfn false (v_name v).

Lemma cmp_nat_shift : forall K a b p, wfn p a = true -> wfn p b = true ->
  cmp_name_nat (inst K a) (inst K b) = cmp_name_nat (inst 0 a) (inst 0 b).
Proof.
  unfold cmp_name_nat. intros K a. induction a as [|x a IH]; intros b p Ha Hb.
  - destruct b; reflexivity.
  - destruct b as [|y b]; [reflexivity|].
    destruct x as [x|x|x], y as [y|y|y]; simpl in *;
      repeat match goal with H : _ && _ = true |- _ => apply andb_prop in H; destruct H end;
      try reflexivity;
      try (destruct p; simpl in *; discriminate).
    + destruct (Z.compare x y) eqn:E; try reflexivity.
      apply Z.compare_eq in E. subst. eauto.
    + destruct (Z.compare x y) eqn:E; try reflexivity. eauto.
    + rewrite !Z.add_compare_mono_l. simpl.
      destruct (Z.compare x y) eqn:E; try reflexivity. eauto.
Qed.

Lemma var_lt_shift : forall K a b, wfvar a = true -> wfvar b = true ->
  var_lt cmp_name_nat K a b = var_lt cmp_name_nat 0 a b.
Proof.
  intros. unfold var_lt. destruct (Bool.compare _ _); try reflexivity.
  rewrite (cmp_nat_shift K _ _ false) by assumption. reflexivity.
Qed.

Lemma insert_by_in : forall lt x l y, In y (insert_by lt x l) <-> y = x \/ In y l.
Proof.
  induction l as [|z l IH]; simpl; intros.
  - intuition.
  - destruct (lt x z); simpl; [intuition|]. rewrite IH. intuition.
Qed.
Lemma sort_by_in : forall lt l y, In y (sort_by lt l) <-> In y l.
Proof.
  induction l as [|z l IH]; simpl; intros; [tauto|].
  rewrite insert_by_in, IH. intuition.
Qed.
Lemma insert_by_ext : forall lt1 lt2 x l,
  (forall y, In y l -> lt1 x y = lt2 x y) -> insert_by lt1 x l = insert_by lt2 x l.
Proof.
  induction l as [|z l IH]; simpl; intros H; [reflexivity|].
  rewrite (H z) by auto. destruct (lt2 x z); [reflexivity|]. f_equal. apply IH. auto.
Qed.
Lemma sort_by_ext : forall lt1 lt2 l,
  (forall x y, In x l -> In y l -> lt1 x y = lt2 x y) -> sort_by lt1 l = sort_by lt2 l.
Proof.
  induction l as [|z l IH]; simpl; intros H; [reflexivity|].
  rewrite IH by auto. apply insert_by_ext. intros y Hy. apply sort_by_in in Hy. auto.
Qed.

(* the repaired order does not see the counter *)
Lemma sort_vars_nat_shift : forall K row, forallb wfvar row = true ->
  sort_vars cmp_name_nat K row = sort_vars cmp_name_nat 0 row.
Proof.
  intros K row H. unfold sort_vars. apply sort_by_ext. intros x y Hx Hy.
  rewrite forallb_forall in H. apply var_lt_shift; auto.
Qed.

(* the original order does: two temporaries (an outer and an inner loop iterator, relative
   numbers 0 and 2) when the counter stands at 0 and at 8 *)
Definition tmpv (i : Z) : var := mkVar false [CText (-1); CTmp i].
Lemma sort_vars_str_depends_on_counter :
  sort_vars cmp_name_str 0 [tmpv 0; tmpv 2] <> sort_vars cmp_name_str 8 [tmpv 0; tmpv 2].
Proof. vm_compute. discriminate. Qed.
Lemma wf_example : forallb wfvar [tmpv 0; tmpv 2; mkVar true [CText 5; CNum 12]] = true.
Proof. reflexivity. Qed.
