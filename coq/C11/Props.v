(* C11 — compiling a definition does not depend on session history.  PARTIAL (level: other):
   the theorems are about ModelEngine.v, an abstraction of check/compile to their effect on
   session state.  They prove that every modelled piece of state is reset, rebuilt, mutated
   idempotently, or only renumbers generated symbols; they do not prove that the real compiler
   has no other state (that is what the generated inventories and the differential replay
   check). *)
From Coq Require Import ZArith List Bool Lia.
From V.C11 Require Import ModelOrder GenInventory ModelEngine ModelInventory ProofsOrder ProofsEngine.
Import ListNotations. Open Scope Z_scope.

(* P is the dependency cone of d: a set of DefIds containing d, every member of which
   resolves in the initial store to a definition whose dependency NAMES are in N; every name in
   N is bound in the initial namespace, to a member of P where a cone definition uses it. *)
Theorem history_independent_partial :
  forall (P N : Z -> Prop) (fuel : nat) (s0 : Sess) (h1 h2 : list op) (d : Z),
    closed P N s0 -> P d ->
    outcome fuel (exec fuel h1 s0) d = outcome fuel (exec fuel h2 s0) d.
Proof. exact history_independent_lemma. Qed.
Print Assumptions history_independent_partial.

(* whatever an operation did -- in particular if it failed half-way, leaving worklists,
   caches and mutated CFGs behind -- later compiles and plain-Python calls behave the same *)
Theorem failed_op_harmless_partial :
  forall (P N : Z -> Prop) (fuel : nat) (s0 : Sess) (o : op) (d : Z),
    closed P N s0 -> P d ->
    outcome fuel (exec_op fuel s0 o) d = outcome fuel s0 d /\
    pycall (exec_op fuel s0 o) = pycall s0.
Proof.
  intros P N fuel s0 o d Hc HP. split.
  - exact (history_independent_lemma P N fuel s0 [o] [] d Hc HP).
  - unfold pycall. destruct (exec_env fuel [o] s0) as [? [? [_ [_ [T _]]]]]. simpl in T. rewrite T. reflexivity.
Qed.
Print Assumptions failed_op_harmless_partial.

Theorem tracing_restored : forall fuel h s, tracing (exec fuel h s) = tracing s.
Proof. intros. destruct (exec_env fuel h s) as [? [? [_ [_ [T _]]]]]. exact T. Qed.
Print Assumptions tracing_restored.

(* without the finally block the flag leaks out of a failed trace *)
Theorem trace_scope_without_finally_refuted :
  exists prev, trace_scope false true prev <> prev.
Proof. exists false. discriminate. Qed.
Print Assumptions trace_scope_without_finally_refuted.

(* the module namespace is session state that reset() does NOT clear; check and compile
   (after fix-3) leave it alone, only registering a definition extends it *)
Theorem namespace_survives_reset_and_is_not_written :
  forall fuel s d, ns (reset s) = ns s /\ ns (fst (check fuel s d)) = ns s /\
                   ns (fst (fst (compile fuel s d))) = ns s.
Proof.
  intros. split; [reflexivity|]. split.
  - destruct (check_env fuel s d) as [_ [_ [_ E]]]. exact E.
  - destruct (compile_env fuel s d) as [_ [_ [_ E]]]. exact E.
Qed.
Print Assumptions namespace_survives_reset_and_is_not_written.

(* binding a nested helper in the frame namespace itself (the code before fix-3) changes what
   a name resolves to for the rest of the session *)
Theorem nested_binding_in_frame_namespace_refuted :
  exists s d x, lookup (bind_nested true s d) x <> lookup (ns s) x.
Proof.
  exists (mkSess [] 9 [] [] [] [] [] 0 0 0 false [] [(1, 1)]),
         (mkDef false [] [1] true false true 0 0 0 0%nat 0%nat 0%nat false [] 0), 1.
  vm_compute. discriminate.
Qed.
Print Assumptions nested_binding_in_frame_namespace_refuted.

Theorem compile_reads_only_reset_state :
  forall fuel s s' d, reset s = reset s' -> compile fuel s d = compile fuel s' d.
Proof. exact compile_reads_only_reset. Qed.
Print Assumptions compile_reads_only_reset_state.

Theorem check_rebuilds_cfgs :
  forall fuel s d, Forall fresh_cfg (checked (fst (check fuel s d))).
Proof. exact check_rebuilds. Qed.
Print Assumptions check_rebuilds_cfgs.

(* all lowerings of one CFG within a compile see the return variables exactly once *)
Theorem return_vars_inserted_once :
  forall id n c, c_exit c = init_exit (c_def c) ->
    Forall (fun f => f_exit f = return_vars (d_rets (c_def c)) ++ init_exit (c_def c))
           (snd (lower n id c)).
Proof. intros. apply lower_exit. left. assumption. Qed.
Print Assumptions return_vars_inserted_once.

Theorem block_order_ignores_tmp_counter :
  forall K row, forallb wfvar row = true ->
    sort_vars compare_var_name_order K row = sort_vars compare_var_name_order 0 row.
Proof. exact sort_shift. Qed.
Print Assumptions block_order_ignores_tmp_counter.

Theorem string_order_depends_on_tmp_counter_refuted :
  exists K row, forallb wfvar row = true /\
    sort_vars cmp_name_str K row <> sort_vars cmp_name_str 0 row.
Proof.
  exists 8, [tmpv 0; tmpv 2]. split; [reflexivity|].
  intro H. apply sort_vars_str_depends_on_counter. symmetry. exact H.
Qed.
Print Assumptions string_order_depends_on_tmp_counter_refuted.

(* ---- the tie: generated inventories vs the model's state components *)
Theorem reset_covers_engine_fields :
  same_set engine_fields (reset_fields ++ engine_config_fields) = true /\
  check_resets_first = true /\ compile_checks_first = true.
Proof. repeat split; vm_compute; reflexivity. Qed.
Theorem global_state_is_modelled :
  same_set global_state (modelled_state ++ constant_state) = true.
Proof. vm_compute. reflexivity. Qed.
Theorem mutation_sites_are_modelled :
  same_set mutation_sites modelled_mutations = true /\
  same_set input_tys_mentions modelled_input_tys_mentions = true.
Proof. split; vm_compute; reflexivity. Qed.
Theorem session_write_sites_are_modelled :
  same_set session_write_sites modelled_write_sites = true /\ nested_writes_namespace = false.
Proof. split; vm_compute; reflexivity. Qed.

Theorem call_compiler_objects_are_stateless :
  same_set call_object_state modelled_call_object_state = true.
Proof. vm_compute. reflexivity. Qed.

(* ---- a non-trivial instance: the hypotheses are satisfiable and the histories differ *)
Definition D (ty : bool) deps ok ct tr ntmp nconst ngen rets insts (rc : bool) row body : Def :=
  mkDef ty deps (if rc then [1] else @nil Z) ok ct tr ntmp 1 nconst ngen rets insts rc row body.
(* names coincide with ids in this instance; definitions 3 and 6 contain a nested recursive
   helper named 1, like the module-level definition 1 *)
Definition row2 : list var := [mkVar true [CText 3]; tmpv 2; tmpv 0; mkVar false [CText 1; CNum 10]].
Definition pool : list (Z * Def) := [
  (0, D true  []        true  false true 0 1 2%nat 0%nat 0%nat false [] 10);        (* struct Pt *)
  (1, D false []        true  false true 2 0 0%nat 1%nat 0%nat false [] 11);        (* plain *)
  (2, D false [1]       false false true 3 0 0%nat 1%nat 0%nat false [] 12);        (* bad_type *)
  (3, D false [1; 0; 4] true  false true 4 0 0%nat 1%nat 1%nat true row2 13);       (* caller *)
  (4, D false []        true  true  false 1 0 0%nat 1%nat 0%nat false [] 14);       (* ct_raises *)
  (5, D false [1; 2]    true  false true 0 0 0%nat 1%nat 0%nat false [] 15);        (* caller_of_bad *)
  (6, D false [0; 1]    true  false true 4 1 0%nat 2%nat 1%nat true row2 16)        (* use_struct *)
].
Definition s_init : Sess :=
  mkSess pool 7 [] [] [] [] [] 0 0 0 false [42] [(0, 0); (1, 1); (2, 2); (3, 3); (4, 4); (5, 5); (6, 6)].
Definition cone6 (id : Z) : Prop := In id [0; 1; 6].
Example cone6_closed : closed cone6 cone6 s_init.
Proof.
  split.
  - intros id [H|[H|[H|[]]]]; subst; eexists; (split; [reflexivity|]); (split; [|reflexivity]);
      repeat (apply Forall_cons;
              [split; [unfold cone6; simpl; tauto|eexists; split; [reflexivity|unfold cone6; simpl; tauto]]|]);
      apply Forall_nil.
  - intros x [H|[H|[H|[]]]]; subst; eexists; reflexivity.
Qed.
Definition hist : list op := [OCheck 5; OCompile 3; OCompile 6; OPyCall 1; OCompile 6].
(* the history really leaves things behind: a failed check with a non-empty worklist, advanced
   counters, a failed trace ... *)
Example history_leaves_state :
  snd (check 50 s_init 5) = Err (CheckErr 2) /\
  to_check (fst (check 50 s_init 5)) <> [] /\
  snd (fst (compile 50 s_init 3)) = Err (TraceErr 4) /\
  const_ctr (exec 50 hist s_init) = 5 /\ tmp_ctr (exec 50 hist s_init) = 22.
Proof. repeat split; vm_compute; try reflexivity; discriminate. Qed.
(* ... and the compile after it is a successful, non-empty package equal up to renumbering *)
Example history_example :
  outcome 50 (exec 50 hist s_init) 6 = outcome 50 s_init 6 /\
  (exists fs e, outcome 50 s_init 6 = (Ok, Some (fs, e)) /\ (length fs >= 3)%nat) /\
  snd (compile 50 (exec 50 hist s_init) 6) <> snd (compile 50 s_init 6).
Proof.
  split; [exact (history_independent_partial cone6 cone6 50 s_init hist [] 6 cone6_closed (or_intror (or_intror (or_introl eq_refl))))|].
  split; [eexists; eexists; split; [vm_compute; reflexivity|simpl; lia]|].
  vm_compute. discriminate.
Qed.
