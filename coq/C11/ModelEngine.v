(* C11 — the interpreter session as a state machine (engine.py: DEF_STORE, CompilationEngine;
   compiler/cfg_compiler.py: compile_cfg guard + insert_return_vars; compiler/func_compiler.py:
   input_tys.append; tracing/state.py: set_tracing_state; the global counters).
   NO proofs in this file.

   What is abstracted: parsing/type checking/lowering of a definition are reduced to what they
   do to SESSION STATE (caches, worklists, counters, the in-place mutations of cached checked
   CFGs, the tracing flag) and to a fragment of output that reads exactly those pieces of
   state.  The content of function bodies is an opaque payload. *)
From Coq Require Import ZArith List Bool Lia.
From V.C11 Require Import ModelOrder GenInventory.
Import ListNotations. Open Scope Z_scope.

Record Def := mkDef {
  d_type : bool;          (* a TypeDef: queued on types_to_check_worklist *)
  d_deps : list Z;        (* NAMES looked up through Globals (frame namespace) while parsing/checking *)
  d_nested : list Z;      (* names of nested non-capturing recursive helpers: registered as global
                             definitions and visible under their name while the body is checked *)
  d_check_ok : bool;      (* false: the checker raises a GuppyError for this definition *)
  d_comptime : bool;      (* lowered by tracing (set_tracing_state) *)
  d_trace_ok : bool;      (* false: the traced Python body raises *)
  d_ntmp : Z;             (* temporaries (%tmpN) a check of it allocates *)
  d_nexvar : Z;           (* existential variables a check of it allocates *)
  d_nconst : Z;           (* GlobalConstIds a check of it allocates (struct constructors ...) *)
  d_ngen : nat;            (* DefIds of generated methods a check of it allocates (structs) *)
  d_rets : nat;           (* number of return values = dummy return variables *)
  d_insts : nat;          (* additional lowerings of its CFG in one compile (monomorphisation) *)
  d_rec_closure : bool;   (* contains a recursive capturing closure (input_tys.append) *)
  d_row : list var;       (* a basic-block signature row, temporaries in relative form *)
  d_body : Z              (* opaque payload *)
}.

(* a checked definition as it sits in ENGINE.checked, with the fields later passes mutate *)
Record Checked := mkChecked {
  c_def : Def;
  c_deps : list Z;        (* the DefIds its names resolved to (GlobalCall nodes carry ids) *)
  c_tmp0 : Z;             (* value of the %tmp counter when its check started *)
  c_const0 : Z;           (* value of the GlobalConstId counter when its ids were drawn *)
  c_exit : list Z;        (* exit-block signature; return variable i is encoded as -1-i *)
  c_input_tys : Z         (* how many types were appended to a nested cfg.input_tys *)
}.

Record Sess := mkSess {
  store : list (Z * Def);       (* DEF_STORE.raw_defs, append-only *)
  next_def : Z;                 (* DefId._ids *)
  parsed : list Z;              (* keys of ENGINE.parsed (values are functions of the store) *)
  checked : list (Z * Checked); (* ENGINE.checked *)
  compiled : list Z;            (* keys of ENGINE.compiled *)
  to_check : list Z;            (* ENGINE.to_check_worklist, head = last inserted (popitem) *)
  types_to_check : list Z;      (* ENGINE.types_to_check_worklist *)
  tmp_ctr : Z;                  (* cfg.builder.tmp_vars *)
  exvar_ctr : Z;                (* ExistentialVar._fresh_id *)
  const_ctr : Z;                (* GlobalConstId._fresh_ids *)
  tracing : bool;               (* tracing.state._STATE is not None *)
  exts : list Z;                (* ENGINE.additional_extensions: configuration, never reset *)
  ns : list (Z * Z)             (* the Python namespace of the defining frame (module __dict__):
                                   name -> DefId.  Lives outside the engine: reset() cannot clear it *)
}.

Inductive err := KeyErr (id : Z) | CheckErr (id : Z) | TraceErr (id : Z) | OutOfFuel.
Inductive res := Ok | Err (e : err).

Definition lookup {A} (l : list (Z * A)) (k : Z) : option A :=
  match find (fun p => Z.eqb (fst p) k) l with Some p => Some (snd p) | None => None end.
Definition memz (k : Z) (l : list Z) : bool := existsb (Z.eqb k) l.

(* ---- CompilationEngine.reset *)
Definition reset (s : Sess) : Sess :=
  mkSess (store s) (next_def s) [] [] [] [] [] (tmp_ctr s) (exvar_ctr s) (const_ctr s)
         (tracing s) (exts s) (ns s).

(* ---- CompilationEngine.get_parsed *)
Definition get_parsed (s : Sess) (id : Z) : Sess * option Def :=
  if memz id (parsed s) then (s, lookup (store s) id)
  else match lookup (store s) id with
       | None => (s, None)
       | Some d =>
         (mkSess (store s) (next_def s) (id :: parsed s) (checked s) (compiled s)
                 (if d_type d then to_check s else id :: to_check s)
                 (if d_type d then id :: types_to_check s else types_to_check s)
                 (tmp_ctr s) (exvar_ctr s) (const_ctr s) (tracing s) (exts s) (ns s), Some d)
       end.

(* Globals lookups made while a definition is parsed and checked *)
Fixpoint visit_deps (s : Sess) (deps : list Z) : Sess * option Z :=
  match deps with
  | [] => (s, None)
  | x :: r => match lookup (ns s) x with
              | None => (s, Some x)                         (* name not defined *)
              | Some id => match get_parsed s id with
                           | (s1, None) => (s1, Some x)
                           | (s1, Some _) => visit_deps s1 r
                           end
              end
  end.
Definition resolve_all (s : Sess) (deps : list Z) : list Z :=
  map (fun x => match lookup (ns s) x with Some id => id | None => -1 end) deps.

(* check_nested_func_def, non-capturing recursive helper: where does its name get bound?
   leak = true: `globals.f_locals[name] = ...` (the frame namespace itself; outlives the check);
   leak = false (fix-3): in a copy that is dropped when the nested body has been checked. *)
Definition bind_nested (leak : bool) (s : Sess) (d : Def) : list (Z * Z) :=
  if leak then map (fun n => (n, next_def s)) (d_nested d) ++ ns s else ns s.

Definition init_exit (d : Def) : list Z := [d_body d mod 2; 7].  (* some non-return places *)

(* ---- CompilationEngine.get_checked *)
Definition get_checked (s : Sess) (id : Z) : Sess * res :=
  if existsb (fun p => Z.eqb (fst p) id) (checked s) then (s, Ok)
  else match get_parsed s id with
       | (s1, None) => (s1, Err (KeyErr id))
       | (s1, Some d) =>
         match visit_deps s1 (d_deps d) with
         | (s2, Some bad) => (s2, Err (KeyErr bad))
         | (s2, None) =>
           let t0 := tmp_ctr s2 in
           let s3 := mkSess (store s2) (next_def s2) (parsed s2) (checked s2) (compiled s2)
                            (to_check s2) (types_to_check s2)
                            (t0 + d_ntmp d) (exvar_ctr s2 + d_nexvar d) (const_ctr s2)
                            (tracing s2) (exts s2) (ns s2) in
           if negb (d_check_ok d) then (s3, Err (CheckErr id))
           else
             let c := mkChecked d (resolve_all s3 (d_deps d)) t0 (const_ctr s3) (init_exit d) 0 in
             (mkSess (store s3) (next_def s3 + Z.of_nat (d_ngen d) + Z.of_nat (length (d_nested d))) (parsed s3) ((id, c) :: checked s3)
                     (compiled s3) (to_check s3) (types_to_check s3)
                     (tmp_ctr s3) (exvar_ctr s3) (const_ctr s3 + d_nconst d)
                     (tracing s3) (exts s3) (bind_nested nested_writes_namespace s3 d), Ok)
         end
       end.

Definition set_worklists (s : Sess) (tc tt : list Z) : Sess :=
  mkSess (store s) (next_def s) (parsed s) (checked s) (compiled s) tc tt
         (tmp_ctr s) (exvar_ctr s) (const_ctr s) (tracing s) (exts s) (ns s).

(* ---- the while loop of CompilationEngine.check: types first, popitem = LIFO *)
Fixpoint check_loop (fuel : nat) (s : Sess) : Sess * res :=
  match fuel with
  | O => (s, Err OutOfFuel)
  | S f =>
    match types_to_check s with
    | id :: r =>
      match get_checked (set_worklists s (to_check s) r) id with
      | (s1, Ok) => check_loop f s1
      | x => x
      end
    | [] =>
      match to_check s with
      | id :: r =>
        match get_checked (set_worklists s r []) id with
        | (s1, Ok) => check_loop f s1
        | x => x
        end
      | [] => (s, Ok)
      end
    end
  end.

(* ---- CompilationEngine.check *)
Definition check (fuel : nat) (s : Sess) (id : Z) : Sess * res :=
  let s0 := reset s in
  match lookup (store s0) id with
  | None => (s0, Err (KeyErr id))
  | Some _ => check_loop fuel (set_worklists s0 [id] [])
  end.

(* ---- lowering one checked CFG: compile_cfg's guard + insert_return_vars, sort_vars,
   compile_local_func_def's input_tys.append *)
Definition is_return_var (v : Z) : bool := v <? 0.
Definition return_vars (n : nat) : list Z := map (fun i => -1 - Z.of_nat i) (seq 0 n).
Definition insert_return_vars (c : Checked) : Checked :=
  mkChecked (c_def c) (c_deps c) (c_tmp0 c) (c_const0 c) (return_vars (d_rets (c_def c)) ++ c_exit c)
            (c_input_tys c).
Definition guarded_insert (c : Checked) : Checked :=
  if negb guard_present || forallb (fun v => negb (is_return_var v)) (c_exit c)
  then insert_return_vars c else c.

Record Frag := mkFrag {
  f_id : Z; f_row : list var; f_exit : list Z; f_syms : list Z; f_body : Z }.

Definition gen_syms (c : Checked) : list Z :=
  map (fun j => c_const0 c + Z.of_nat j) (seq 0 (Z.to_nat (d_nconst (c_def c)))).

Definition lower1 (id : Z) (c : Checked) : Checked * Frag :=
  let c1 := guarded_insert c in
  let c2 := if d_rec_closure (c_def c1)
            then mkChecked (c_def c1) (c_deps c1) (c_tmp0 c1) (c_const0 c1) (c_exit c1) (c_input_tys c1 + 1)
            else c1 in
  (c2, mkFrag id (sort_vars compare_var_name_order (c_tmp0 c) (d_row (c_def c))) (c_exit c1)
              (gen_syms c) (d_body (c_def c))).

Fixpoint lower (n : nat) (id : Z) (c : Checked) : Checked * list Frag :=
  match n with
  | O => let (c', f) := lower1 id c in (c', [f])
  | S m => let (c', f) := lower1 id c in let (c'', fs) := lower m id c' in (c'', f :: fs)
  end.

Fixpoint update {A} (l : list (Z * A)) (k : Z) (v : A) : list (Z * A) :=
  match l with
  | [] => []
  | (k', v') :: r => if Z.eqb k' k then (k, v) :: r else (k', v') :: update r k v
  end.

Definition set_checked (s : Sess) (ch : list (Z * Checked)) : Sess :=
  mkSess (store s) (next_def s) (parsed s) ch (compiled s) (to_check s) (types_to_check s)
         (tmp_ctr s) (exvar_ctr s) (const_ctr s) (tracing s) (exts s) (ns s).
Definition set_compiled (s : Sess) (cp : list Z) : Sess :=
  mkSess (store s) (next_def s) (parsed s) (checked s) cp (to_check s) (types_to_check s)
         (tmp_ctr s) (exvar_ctr s) (const_ctr s) (tracing s) (exts s) (ns s).
Definition set_tracing (s : Sess) (b : bool) : Sess :=
  mkSess (store s) (next_def s) (parsed s) (checked s) (compiled s) (to_check s)
         (types_to_check s) (tmp_ctr s) (exvar_ctr s) (const_ctr s) b (exts s) (ns s).

(* `with set_tracing_state(state): body`: value of the flag after the block *)
Definition trace_scope (has_finally raises prev : bool) : bool :=
  if raises then (if has_finally then prev else true) else prev.

(* ---- CompilerContext.compile: worklist of definitions to lower (popitem = LIFO).
   [comp] is ctx.compiled, a fresh dict per compile.  A comptime definition is lowered inside
   `with set_tracing_state(state)`: the flag is set for the duration of the trace and (after
   fix-1: try/finally) restored to its previous value whether or not the trace raises. *)
Fixpoint compile_loop (fuel : nat) (s : Sess) (wl comp : list Z) (out : list Frag)
  : Sess * res * list Z * list Frag :=
  match fuel with
  | O => (s, Err OutOfFuel, comp, out)
  | S f =>
    match wl with
    | [] => (s, Ok, comp, out)
    | id :: r =>
      if memz id comp then compile_loop f s r comp out
      else match lookup (checked s) id with
           | None => (s, Err (KeyErr id), comp, out)
           | Some c =>
             let prev := tracing s in
             if d_comptime (c_def c) && negb (d_trace_ok (c_def c))
             then (set_tracing s (trace_scope set_tracing_state_has_finally true prev),
                   Err (TraceErr id), id :: comp, out)
             else
               let (c', fs) := lower (d_insts (c_def c)) id c in
               compile_loop f (set_checked s (update (checked s) id c'))
                            (rev (c_deps c) ++ r) (id :: comp) (out ++ fs)
           end
    end
  end.

(* ---- CompilationEngine.compile; the package = fragments + used-extensions metadata *)
Definition compile (fuel : nat) (s : Sess) (id : Z) : Sess * res * option (list Frag * list Z) :=
  match check fuel s id with
  | (s1, Ok) =>
    match compile_loop fuel s1 [id] [] [] with
    | (s2, Ok, comp, out) => (set_compiled s2 comp, Ok, Some (out, exts s2))
    | (s2, e, _, _) => (s2, e, None)
    end
  | (s1, e) => (s1, e, None)
  end.

(* ---- calling a definition object from plain Python (TracingDefMixin.__call__) *)
Inductive pyres := PyComptimeError | PyTracedGarbage.
Definition pycall (s : Sess) : pyres := if tracing s then PyTracedGarbage else PyComptimeError.

(* ---- session operations *)
Inductive op := ORegister (name : Z) (d : Def) | OCheck (id : Z) | OCompile (id : Z) | OPyCall (id : Z).

Definition register (s : Sess) (name : Z) (d : Def) : Sess :=
  mkSess (store s ++ [(next_def s, d)]) (next_def s + 1) (parsed s) (checked s) (compiled s)
         (to_check s) (types_to_check s) (tmp_ctr s) (exvar_ctr s) (const_ctr s)
         (tracing s) (exts s) (ns s ++ [(name, next_def s)]).

Definition exec_op (fuel : nat) (s : Sess) (o : op) : Sess :=
  match o with
  | ORegister n d => register s n d
  | OCheck id => fst (check fuel s id)
  | OCompile id => fst (fst (compile fuel s id))
  | OPyCall _ => s
  end.
Definition exec (fuel : nat) (h : list op) (s : Sess) : Sess := fold_left (exec_op fuel) h s.

(* ---- observation: equality up to the numbering of generated symbols.  Symbols are renumbered
   in order of first occurrence. *)
Fixpoint idx (tbl : list Z) (n : Z) (i : Z) : option Z :=
  match tbl with [] => None | x :: r => if Z.eqb x n then Some i else idx r n (i + 1) end.
Fixpoint canon_syms (tbl : list Z) (l : list Z) : list Z * list Z :=
  match l with
  | [] => (tbl, [])
  | n :: r => match idx tbl n 0 with
              | Some i => let (t, o) := canon_syms tbl r in (t, i :: o)
              | None => let (t, o) := canon_syms (tbl ++ [n]) r in
                        (t, Z.of_nat (length tbl) :: o)
              end
  end.
Fixpoint canon_frags (tbl : list Z) (fs : list Frag) : list Frag :=
  match fs with
  | [] => []
  | f :: r => let (t, o) := canon_syms tbl (f_syms f) in
              mkFrag (f_id f) (f_row f) (f_exit f) o (f_body f) :: canon_frags t r
  end.
Definition canon (p : option (list Frag * list Z)) : option (list Frag * list Z) :=
  match p with None => None | Some (fs, e) => Some (canon_frags [] fs, e) end.

Definition outcome (fuel : nat) (s : Sess) (id : Z) : res * option (list Frag * list Z) :=
  let '(_, r, p) := compile fuel s id in (r, canon p).
