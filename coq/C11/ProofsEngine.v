From Coq Require Import ZArith List Bool Lia.
From V.C11 Require Import ModelOrder GenInventory ModelEngine ProofsOrder.
Import ListNotations. Open Scope Z_scope.

(* ------------------------------------------------------------------ environment preserved *)
Definition same_env (s s1 : Sess) : Prop :=
  store s1 = store s /\ exts s1 = exts s /\ tracing s1 = tracing s /\ ns s1 = ns s.
Lemma same_env_refl s : same_env s s. Proof. repeat split. Qed.
Lemma same_env_trans a b c : same_env a b -> same_env b c -> same_env a c.
Proof. unfold same_env. intuition congruence. Qed.

Lemma get_parsed_env s id : same_env s (fst (get_parsed s id)).
Proof.
  unfold get_parsed. destruct (memz id (parsed s)); [apply same_env_refl|].
  destruct (lookup (store s) id); simpl; repeat split.
Qed.
Lemma visit_deps_env deps : forall s, same_env s (fst (visit_deps s deps)).
Proof.
  induction deps as [|x r IH]; simpl; intros s; [apply same_env_refl|].
  destruct (lookup (ns s) x) as [i|]; [|apply same_env_refl].
  pose proof (get_parsed_env s i) as H. destruct (get_parsed s i) as [s1 [d|]]; simpl in *; auto.
  eapply same_env_trans; eauto.
Qed.
Lemma get_checked_env s id : same_env s (fst (get_checked s id)).
Proof.
  unfold get_checked. destruct (existsb _ _); [apply same_env_refl|].
  pose proof (get_parsed_env s id) as H. destruct (get_parsed s id) as [s1 [d|]]; simpl in *; auto.
  pose proof (visit_deps_env (d_deps d) s1) as H2.
  destruct (visit_deps s1 (d_deps d)) as [s2 [b|]]; simpl in *.
  - eapply same_env_trans; eauto.
  - destruct (d_check_ok d); simpl; (eapply same_env_trans; [eapply same_env_trans; eauto|]);
      repeat split.
Qed.
Lemma check_loop_env f : forall s, same_env s (fst (check_loop f s)).
Proof.
  induction f as [|f IH]; simpl; intros s; [apply same_env_refl|].
  destruct (types_to_check s) as [|id r].
  - destruct (to_check s) as [|id r]; [apply same_env_refl|].
    pose proof (get_checked_env (set_worklists s r []) id) as H.
    destruct (get_checked _ id) as [s1 [|e]]; simpl in *.
    + eapply same_env_trans; [|apply IH]. eapply same_env_trans; [|exact H]. repeat split.
    + eapply same_env_trans; [|exact H]. repeat split.
  - pose proof (get_checked_env (set_worklists s (to_check s) r) id) as H.
    destruct (get_checked _ id) as [s1 [|e]]; simpl in *.
    + eapply same_env_trans; [|apply IH]. eapply same_env_trans; [|exact H]. repeat split.
    + eapply same_env_trans; [|exact H]. repeat split.
Qed.
Lemma check_env f s id : same_env s (fst (check f s id)).
Proof.
  unfold check. simpl. destruct (lookup (store s) id); simpl; [|repeat split].
  eapply same_env_trans; [|apply check_loop_env]. repeat split.
Qed.
Lemma compile_loop_env f : forall s wl comp out,
  same_env s (fst (fst (fst (compile_loop f s wl comp out)))).
Proof.
  induction f as [|f IH]; simpl; intros; [apply same_env_refl|].
  destruct wl as [|id r]; [apply same_env_refl|].
  destruct (memz id comp); [apply IH|].
  destruct (lookup (checked s) id) as [c|]; [|apply same_env_refl].
  destruct (d_comptime (c_def c) && negb (d_trace_ok (c_def c))).
  - simpl. repeat split.
  - destruct (lower _ id c) as [c' fs]. eapply same_env_trans; [|apply IH]. repeat split.
Qed.
Lemma compile_env f s id : same_env s (fst (fst (compile f s id))).
Proof.
  unfold compile. pose proof (check_env f s id) as H.
  destruct (check f s id) as [s1 [|e]]; simpl in *; auto.
  pose proof (compile_loop_env f s1 [id] [] []) as H2.
  destruct (compile_loop f s1 [id] [] []) as [[[s2 r] cp] o]; simpl in *.
  destruct r; simpl; (eapply same_env_trans; [exact H|]); auto.
Qed.

Lemma lookup_app_found {A} (l e : list (Z * A)) id d :
  lookup l id = Some d -> lookup (l ++ e) id = Some d.
Proof.
  unfold lookup. induction l as [|p l IH]; simpl; [discriminate|].
  destruct (fst p =? id); auto.
Qed.

Lemma exec_env f h : forall s,
  exists extra nx, store (exec f h s) = store s ++ extra /\ exts (exec f h s) = exts s /\
                tracing (exec f h s) = tracing s /\ ns (exec f h s) = ns s ++ nx.
Proof.
  unfold exec. induction h as [|o h IH]; simpl; intros s.
  - exists [], []. rewrite !app_nil_r. auto.
  - destruct (IH (exec_op f s o)) as [ex [nx [H1 [H2 [H3 H4]]]]].
    assert (exists e0 n0, store (exec_op f s o) = store s ++ e0 /\ exts (exec_op f s o) = exts s
                       /\ tracing (exec_op f s o) = tracing s /\ ns (exec_op f s o) = ns s ++ n0)
      as [e0 [n0 [G1 [G2 [G3 G4]]]]].
    { destruct o; simpl.
      - eexists; eexists; repeat split.
      - destruct (check_env f s id) as [A [B [C D]]]. exists [], []. rewrite !app_nil_r. auto.
      - destruct (compile_env f s id) as [A [B [C D]]]. exists [], []. rewrite !app_nil_r. auto.
      - exists [], []. rewrite !app_nil_r. auto. }
    exists (e0 ++ ex), (n0 ++ nx). rewrite H1, G1, H4, G4, !app_assoc. repeat split; congruence.
Qed.

(* ------------------------------------------------------------------ canonical renumbering *)
Definition shift_frag (k : Z) (f : Frag) : Frag :=
  mkFrag (f_id f) (f_row f) (f_exit f) (map (Z.add k) (f_syms f)) (f_body f).

Lemma idx_shift k n : forall tbl i, idx (map (Z.add k) tbl) (k + n) i = idx tbl n i.
Proof.
  induction tbl as [|x r IH]; simpl; intros; [reflexivity|].
  destruct (Z.eqb_spec (k + x) (k + n)), (Z.eqb_spec x n); try lia; auto.
Qed.
Lemma canon_syms_shift k : forall l tbl,
  canon_syms (map (Z.add k) tbl) (map (Z.add k) l)
  = (map (Z.add k) (fst (canon_syms tbl l)), snd (canon_syms tbl l)).
Proof.
  induction l as [|n r IH]; simpl; intros; [reflexivity|].
  rewrite idx_shift. destruct (idx tbl n 0).
  - rewrite IH. destruct (canon_syms tbl r). reflexivity.
  - replace (map (Z.add k) tbl ++ [k + n]) with (map (Z.add k) (tbl ++ [n]))
      by (rewrite map_app; reflexivity).
    rewrite IH, map_length. destruct (canon_syms (tbl ++ [n]) r). reflexivity.
Qed.
Lemma canon_frags_shift k : forall fs tbl,
  canon_frags (map (Z.add k) tbl) (map (shift_frag k) fs) = canon_frags tbl fs.
Proof.
  induction fs as [|f r IH]; simpl; intros; [reflexivity|].
  rewrite canon_syms_shift. destruct (canon_syms tbl (f_syms f)) as [t o]. simpl.
  f_equal. apply IH.
Qed.

(* ------------------------------------------------------------------ the simulation *)
Definition crelc (k : Z) (c c' : Checked) : Prop :=
  c_def c = c_def c' /\ c_deps c = c_deps c' /\ c_exit c = c_exit c' /\ c_input_tys c = c_input_tys c' /\
  c_const0 c' = c_const0 c + k /\ forallb wfvar (d_row (c_def c)) = true.
Definition crel (k : Z) (p p' : Z * Checked) : Prop := fst p = fst p' /\ crelc k (snd p) (snd p').

Lemma sort_shift K row : forallb wfvar row = true ->
  sort_vars compare_var_name_order K row = sort_vars compare_var_name_order 0 row.
Proof. exact (sort_vars_nat_shift K row). Qed.

Lemma lower1_sim k id c c' : crelc k c c' ->
  crelc k (fst (lower1 id c)) (fst (lower1 id c')) /\
  snd (lower1 id c') = shift_frag k (snd (lower1 id c)).
Proof.
  intros [Hd [Hdp [He [Hi [Hc Hw]]]]]. unfold lower1, guarded_insert. rewrite <- He.
  assert (Hs : gen_syms c' = map (Z.add k) (gen_syms c)).
  { unfold gen_syms. rewrite <- Hd, Hc, map_map. apply map_ext. intros. lia. }
  assert (Hr : sort_vars compare_var_name_order (c_tmp0 c') (d_row (c_def c))
               = sort_vars compare_var_name_order (c_tmp0 c) (d_row (c_def c))).
  { rewrite (sort_shift (c_tmp0 c')), (sort_shift (c_tmp0 c)); auto. }
  destruct (negb guard_present || forallb (fun v => negb (is_return_var v)) (c_exit c));
    simpl; rewrite <- Hd; destruct (d_rec_closure (c_def c)); simpl;
    (split; [unfold crelc; simpl; rewrite <- ?Hd, <- ?Hdp, <- ?He, <- ?Hi; repeat split; auto
            | unfold shift_frag; simpl; rewrite Hr, Hs, <- ?Hd, <- ?He; reflexivity]).
Qed.

Lemma lower_0 id c : lower 0 id c = (fst (lower1 id c), [snd (lower1 id c)]).
Proof.
  change (lower 0 id c) with (let (c', f) := lower1 id c in (c', [f])).
  destruct (lower1 id c); reflexivity.
Qed.
Lemma lower_S n id c : lower (S n) id c
  = (fst (lower n id (fst (lower1 id c))), snd (lower1 id c) :: snd (lower n id (fst (lower1 id c)))).
Proof.
  change (lower (S n) id c)
    with (let (c', f) := lower1 id c in let (c'', fs) := lower n id c' in (c'', f :: fs)).
  destruct (lower1 id c) as [c1 f]. cbn [fst snd]. destruct (lower n id c1). reflexivity.
Qed.

Lemma lower_sim k id n : forall c c', crelc k c c' ->
  crelc k (fst (lower n id c)) (fst (lower n id c')) /\
  snd (lower n id c') = map (shift_frag k) (snd (lower n id c)).
Proof.
  induction n as [|n IH]; intros c c' H; destruct (lower1_sim k id c c' H) as [A B].
  - rewrite !lower_0. cbn [fst snd map]. rewrite B. auto.
  - rewrite !lower_S. cbn [fst snd map]. destruct (IH _ _ A) as [A2 B2]. rewrite B, B2. auto.
Qed.

(* ------------------------------------------------------------------ return vars inserted once *)
Lemma init_exit_no_ret d : forallb (fun v => negb (is_return_var v)) (init_exit d) = true.
Proof.
  unfold init_exit, is_return_var. simpl.
  pose proof (Z.mod_pos_bound (d_body d) 2 ltac:(lia)).
  destruct (Z.ltb_spec (d_body d mod 2) 0); [lia|reflexivity].
Qed.
Definition final_exit (d : Def) : list Z := return_vars (d_rets d) ++ init_exit d.
Lemma guarded_insert_stable c : c_exit c = final_exit (c_def c) ->
  c_exit (guarded_insert c) = final_exit (c_def c).
Proof.
  intros H. unfold guarded_insert. change (negb guard_present) with false. rewrite orb_false_l.
  destruct (forallb _ (c_exit c)) eqn:G; [|exact H].
  unfold insert_return_vars. cbn [c_exit c_def].
  destruct (d_rets (c_def c)) eqn:E.
  - exact H.
  - exfalso. rewrite H in G. unfold final_exit in G. rewrite E in G. simpl in G. discriminate.
Qed.
Lemma lower1_exit id c :
  c_exit c = init_exit (c_def c) \/ c_exit c = final_exit (c_def c) ->
  c_exit (fst (lower1 id c)) = final_exit (c_def c) /\ c_def (fst (lower1 id c)) = c_def c /\
  f_exit (snd (lower1 id c)) = final_exit (c_def c).
Proof.
  intros H. assert (G : c_exit (guarded_insert c) = final_exit (c_def c)).
  { destruct H as [H|H]; [|apply guarded_insert_stable; exact H].
    unfold guarded_insert. change (negb guard_present) with false. rewrite orb_false_l.
    rewrite H, init_exit_no_ret. unfold insert_return_vars. cbn [c_exit c_def]. rewrite H.
    reflexivity. }
  assert (D : c_def (guarded_insert c) = c_def c).
  { unfold guarded_insert. destruct (_ || _); reflexivity. }
  unfold lower1. rewrite D. destruct (d_rec_closure (c_def c)); simpl; auto.
Qed.
Lemma lower_exit id n : forall c,
  c_exit c = init_exit (c_def c) \/ c_exit c = final_exit (c_def c) ->
  Forall (fun f => f_exit f = final_exit (c_def c)) (snd (lower n id c)).
Proof.
  induction n as [|n IH]; intros c H; destruct (lower1_exit id c H) as [A [B C]].
  - rewrite lower_0. cbn [fst snd]. constructor; auto.
  - rewrite lower_S. cbn [fst snd]. constructor; auto.
    rewrite <- B. apply IH. right. rewrite B. exact A.
Qed.

Arguments lower : simpl never.

Lemma lookup_checked_sim k id : forall l l', Forall2 (crel k) l l' ->
  match lookup l id, lookup l' id with
  | Some c, Some c' => crelc k c c'
  | None, None => True
  | _, _ => False
  end.
Proof.
  unfold lookup. induction 1 as [|p p' l l' [Hf Hc] _ IH]; simpl; [exact I|].
  rewrite <- Hf. destruct (fst p =? id); auto.
Qed.
Lemma update_sim k id c c' : crelc k c c' -> forall l l', Forall2 (crel k) l l' ->
  Forall2 (crel k) (update l id c) (update l' id c').
Proof.
  intros Hc. induction 1 as [|[a b] [a' b'] l l' [Hf Hr] HL IH]; simpl; [constructor|].
  simpl in Hf. subst a'. destruct (a =? id); constructor; auto; split; auto.
Qed.
Lemma checked_mem_sim k id : forall l l', Forall2 (crel k) l l' ->
  existsb (fun p : Z * Checked => fst p =? id) l = existsb (fun p : Z * Checked => fst p =? id) l'.
Proof. induction 1 as [|p p' l l' [Hf _] _ IH]; simpl; [reflexivity|]. rewrite Hf, IH. reflexivity. Qed.

Lemma compile_loop_sim k f : forall s s' wl comp out,
  Forall2 (crel k) (checked s) (checked s') ->
  let x := compile_loop f s wl comp out in
  let x' := compile_loop f s' wl comp (map (shift_frag k) out) in
  snd (fst (fst x)) = snd (fst (fst x')) /\ snd (fst x) = snd (fst x') /\
  snd x' = map (shift_frag k) (snd x) /\
  Forall2 (crel k) (checked (fst (fst (fst x)))) (checked (fst (fst (fst x')))).
Proof.
  induction f as [|f IH]; simpl; intros s s' wl comp out H; [auto|].
  destruct wl as [|id r]; [auto|].
  destruct (memz id comp); [apply IH; auto|].
  pose proof (lookup_checked_sim k id _ _ H) as L.
  destruct (lookup (checked s) id) as [c|], (lookup (checked s') id) as [c'|]; try contradiction;
    [|simpl; auto].
  destruct L as [Hd L]. pose proof (conj Hd L) as Hc. rewrite <- Hd.
  destruct L as [Hdp _]. rewrite <- Hdp.
  destruct (d_comptime (c_def c) && negb (d_trace_ok (c_def c))); [simpl; auto|].
  destruct (lower_sim k id (d_insts (c_def c)) c c' Hc) as [A B].
  destruct (lower (d_insts (c_def c)) id c) as [c1 fs], (lower (d_insts (c_def c)) id c') as [c1' fs'].
  simpl in A, B. subst fs'. rewrite <- map_app. apply IH. simpl. apply update_sim; auto.
Qed.

Section Cone.
Variable P : Z -> Prop.      (* the DefIds of the cone *)
Variable N : Z -> Prop.      (* the names the cone's definitions look up *)

Definition resolves (s : Sess) (x : Z) : Prop :=
  N x /\ exists i, lookup (ns s) x = Some i /\ P i.
Definition def_ok (s : Sess) (d : Def) : Prop :=
  Forall (resolves s) (d_deps d) /\ forallb wfvar (d_row d) = true.
Definition closed (s : Sess) : Prop :=
  (forall id, P id -> exists d, lookup (store s) id = Some d /\ def_ok s d) /\
  (forall x, N x -> exists i, lookup (ns s) x = Some i).
Definition agree (s s' : Sess) : Prop :=
  (forall id, P id -> lookup (store s) id = lookup (store s') id) /\
  (forall x, N x -> lookup (ns s) x = lookup (ns s') x).

Record R (k : Z) (s s' : Sess) : Prop := mkR {
  R_agree : agree s s'; R_closed : closed s;
  R_parsed : parsed s = parsed s';
  R_checked : Forall2 (crel k) (checked s) (checked s');
  R_tc : to_check s = to_check s'; R_tt : types_to_check s = types_to_check s';
  R_P1 : Forall P (to_check s); R_P2 : Forall P (types_to_check s);
  R_const : const_ctr s' = const_ctr s + k }.

Lemma get_parsed_sim k s s' id : R k s s' -> P id ->
  exists d, def_ok s d /\ snd (get_parsed s id) = Some d /\ snd (get_parsed s' id) = Some d /\
            R k (fst (get_parsed s id)) (fst (get_parsed s' id)).
Proof.
  intros H HP. destruct H. destruct (proj1 R_closed0 id HP) as [d [Hl Hok]].
  exists d. split; auto. unfold get_parsed.
  rewrite <- R_parsed0, <- (proj1 R_agree0 id HP), Hl.
  destruct (memz id (parsed s)); simpl.
  - split; [reflexivity|]. split; [reflexivity|]. constructor; auto.
  - split; [reflexivity|]. split; [reflexivity|]. constructor; simpl; auto.
    + destruct (d_type d); congruence.
    + destruct (d_type d); congruence.
    + destruct (d_type d); auto.
    + destruct (d_type d); auto.
Qed.

Lemma def_ok_env s s1 d : same_env s s1 -> def_ok s d -> def_ok s1 d.
Proof.
  intros [_ [_ [_ E]]] [A B]. split; auto. eapply Forall_impl; [|exact A].
  intros x [HN [i [Hi HP]]]. split; auto. exists i. rewrite E. auto.
Qed.

Lemma visit_deps_sim k deps : forall s s', R k s s' -> Forall (resolves s) deps ->
  snd (visit_deps s deps) = None /\ snd (visit_deps s' deps) = None /\
  R k (fst (visit_deps s deps)) (fst (visit_deps s' deps)).
Proof.
  induction deps as [|x r IH]; simpl; intros s s' H HF; [auto|].
  inversion HF as [|? ? [HN [i [Hi HP]]] HF']; subst.
  rewrite <- (proj2 (R_agree _ _ _ H) x HN), Hi.
  destruct (get_parsed_sim k s s' i H HP) as [d [_ [A [B C]]]].
  pose proof (get_parsed_env s i) as E.
  destruct (get_parsed s i) as [s1 o], (get_parsed s' i) as [s1' o']. simpl in *. subst.
  apply IH; auto. eapply Forall_impl; [|exact HF'].
  intros y [HNy [j [Hj HPj]]]. split; auto. exists j. destruct E as [_ [_ [_ E]]]. rewrite E. auto.
Qed.

Lemma resolve_all_sim k s s' deps : R k s s' -> Forall (resolves s) deps ->
  resolve_all s deps = resolve_all s' deps.
Proof.
  intros H HF. unfold resolve_all. apply map_ext_in. intros x Hx.
  rewrite Forall_forall in HF. destruct (HF x Hx) as [HN _].
  rewrite (proj2 (R_agree _ _ _ H) x HN). reflexivity.
Qed.

Lemma get_checked_sim k s s' id : R k s s' -> P id ->
  snd (get_checked s id) = snd (get_checked s' id) /\
  R k (fst (get_checked s id)) (fst (get_checked s' id)).
Proof.
  intros H HP. unfold get_checked.
  rewrite <- (checked_mem_sim k id _ _ (R_checked _ _ _ H)).
  destruct (existsb _ (checked s)); [auto|].
  destruct (get_parsed_sim k s s' id H HP) as [d [Hok [A [B C]]]].
  pose proof (get_parsed_env s id) as E1.
  destruct (get_parsed s id) as [s1 o], (get_parsed s' id) as [s1' o']. simpl in A, B, C, E1. subst.
  destruct (def_ok_env _ _ _ E1 Hok) as [Hdeps Hw].
  destruct (visit_deps_sim k (d_deps d) s1 s1' C Hdeps) as [A2 [B2 C2]].
  pose proof (visit_deps_env (d_deps d) s1) as E2.
  destruct (visit_deps s1 (d_deps d)) as [s2 b], (visit_deps s1' (d_deps d)) as [s2' b'].
  simpl in A2, B2, C2, E2. subst.
  assert (HR : resolve_all s2 (d_deps d) = resolve_all s2' (d_deps d)).
  { apply (resolve_all_sim k); auto. eapply Forall_impl; [|exact Hdeps].
    intros y [HNy [j [Hj HPj]]]. split; auto. exists j. destruct E2 as [_ [_ [_ E]]]. rewrite E. auto. }
  unfold resolve_all in HR. destruct C2 as [[Ag1 Ag2] Cl ? ? ? ? ? ? ?].
  destruct (d_check_ok d); simpl; split; auto; constructor; simpl; auto; try lia;
    try (split; assumption).
  constructor; auto. unfold crel, crelc. simpl. repeat split; auto; lia.
Qed.

Lemma R_set_worklists k s s' tc tt : R k s s' -> Forall P tc -> Forall P tt ->
  R k (set_worklists s tc tt) (set_worklists s' tc tt).
Proof. intros [] ? ?. constructor; simpl; auto. Qed.

Lemma check_loop_sim k f : forall s s', R k s s' ->
  snd (check_loop f s) = snd (check_loop f s') /\
  R k (fst (check_loop f s)) (fst (check_loop f s')).
Proof.
  induction f as [|f IH]; simpl; intros s s' H; [auto|].
  rewrite <- (R_tt _ _ _ H), <- (R_tc _ _ _ H).
  pose proof (R_P1 _ _ _ H) as P1. pose proof (R_P2 _ _ _ H) as P2.
  destruct (types_to_check s) as [|id r].
  - destruct (to_check s) as [|id r]; [auto|].
    inversion P1; subst.
    destruct (get_checked_sim k (set_worklists s r []) (set_worklists s' r []) id) as [A B]; auto.
    { apply R_set_worklists; auto. }
    destruct (get_checked (set_worklists s r []) id) as [s1 r1],
             (get_checked (set_worklists s' r []) id) as [s1' r1']. simpl in A, B. subst.
    destruct r1'; auto.
  - inversion P2; subst.
    destruct (get_checked_sim k (set_worklists s (to_check s) r)
                                (set_worklists s' (to_check s) r) id) as [A B]; auto.
    { apply R_set_worklists; auto. }
    destruct (get_checked (set_worklists s (to_check s) r) id) as [s1 r1],
             (get_checked (set_worklists s' (to_check s) r) id) as [s1' r1']. simpl in A, B. subst.
    destruct r1'; auto.
Qed.

Lemma check_sim f s s' id : agree s s' -> closed s -> P id ->
  snd (check f s id) = snd (check f s' id) /\
  R (const_ctr s' - const_ctr s) (fst (check f s id)) (fst (check f s' id)).
Proof.
  intros Ha Hc HP. unfold check. simpl. rewrite <- (proj1 Ha id HP).
  destruct (proj1 Hc id HP) as [d [Hl _]]. rewrite Hl.
  apply check_loop_sim. constructor; simpl; auto. lia.
Qed.

Lemma compile_sim f s s' id : agree s s' -> closed s -> P id -> exts s = exts s' ->
  outcome f s id = outcome f s' id.
Proof.
  intros Ha Hc HP He. unfold outcome, compile.
  destruct (check_sim f s s' id Ha Hc HP) as [A B].
  pose proof (check_env f s id) as [_ [E1 _]]. pose proof (check_env f s' id) as [_ [E1' _]].
  destruct (check f s id) as [s1 r1], (check f s' id) as [s1' r1']. simpl in *. subst r1'.
  destruct r1; [|reflexivity].
  pose proof (compile_loop_sim (const_ctr s' - const_ctr s) f s1 s1' [id] [] []
                (R_checked _ _ _ B)) as [C1 [C2 [C3 _]]].
  pose proof (compile_loop_env f s1 [id] [] []) as [_ [E2 _]].
  pose proof (compile_loop_env f s1' [id] [] []) as [_ [E2' _]].
  simpl in C1, C2, C3.
  destruct (compile_loop f s1 [id] [] []) as [[[s2 r2] cp] o],
           (compile_loop f s1' [id] [] []) as [[[s2' r2'] cp'] o']. simpl in *. subst.
  destruct r2'; [|reflexivity]. simpl.
  change (@nil Z) with (map (Z.add (const_ctr s' - const_ctr s)) []) at 2.
  rewrite (canon_frags_shift _ o []).
  assert (exts s2 = exts s2') as -> by congruence. reflexivity.
Qed.

(* any two histories from a session whose store and namespace resolve the cone *)
Lemma exec_agree f h s0 : closed s0 -> agree s0 (exec f h s0) /\ closed (exec f h s0).
Proof.
  intros Hc. destruct (exec_env f h s0) as [ex [nx [Hs [_ [_ Hn]]]]].
  assert (HN : forall x i, lookup (ns s0) x = Some i -> lookup (ns (exec f h s0)) x = Some i).
  { intros x i Hx. rewrite Hn. apply lookup_app_found. exact Hx. }
  split; [split|].
  - intros id HP. destruct (proj1 Hc id HP) as [d [Hl _]]. rewrite Hs, Hl.
    symmetry. apply lookup_app_found. exact Hl.
  - intros x Hx. destruct (proj2 Hc x Hx) as [i Hi]. rewrite Hi. symmetry. auto.
  - split.
    + intros id HP. destruct (proj1 Hc id HP) as [d [Hl [Hd Hw]]]. exists d. split.
      * rewrite Hs. apply lookup_app_found. exact Hl.
      * split; auto. eapply Forall_impl; [|exact Hd].
        intros x [HNx [i [Hi HPi]]]. split; auto. exists i. auto.
    + intros x Hx. destruct (proj2 Hc x Hx) as [i Hi]. exists i. auto.
Qed.

Lemma history_independent_lemma f s0 h1 h2 id : closed s0 -> P id ->
  outcome f (exec f h1 s0) id = outcome f (exec f h2 s0) id.
Proof.
  intros Hc HP.
  destruct (exec_agree f h1 s0 Hc) as [[A1 B1] C1]. destruct (exec_agree f h2 s0 Hc) as [[A2 B2] C2].
  destruct (exec_env f h1 s0) as [? [? [_ [E1 _]]]]. destruct (exec_env f h2 s0) as [? [? [_ [E2 _]]]].
  apply compile_sim; auto; [|congruence].
  split.
  - intros y HY. rewrite <- (A1 y HY), <- (A2 y HY). reflexivity.
  - intros y HY. rewrite <- (B1 y HY), <- (B2 y HY). reflexivity.
Qed.
End Cone.

(* ------------------------------------------------------------------ caches are irrelevant *)
Lemma reset_idem s : reset (reset s) = reset s. Proof. reflexivity. Qed.
Lemma compile_reads_only_reset f s s' id : reset s = reset s' -> compile f s id = compile f s' id.
Proof.
  intros H. unfold compile, check.
  change (store (reset s)) with (store s). change (store (reset s')) with (store s').
  assert (store s = store s') as -> by (change (store s) with (store (reset s)); rewrite H; reflexivity).
  rewrite H. reflexivity.
Qed.

(* ------------------------------------------------------------------ check rebuilds the CFGs *)
Definition fresh_cfg (p : Z * Checked) : Prop :=
  c_exit (snd p) = init_exit (c_def (snd p)) /\ c_input_tys (snd p) = 0.
Lemma get_parsed_checked s id : checked (fst (get_parsed s id)) = checked s.
Proof.
  unfold get_parsed. destruct (memz id (parsed s)); [reflexivity|].
  destruct (lookup (store s) id); reflexivity.
Qed.
Lemma visit_deps_checked deps : forall s, checked (fst (visit_deps s deps)) = checked s.
Proof.
  induction deps as [|x r IH]; simpl; intros; [reflexivity|].
  destruct (lookup (ns s) x) as [i|]; [|reflexivity].
  pose proof (get_parsed_checked s i). destruct (get_parsed s i) as [s1 [d|]]; simpl in *; auto.
  rewrite IH. auto.
Qed.
Lemma get_checked_fresh s id : Forall fresh_cfg (checked s) ->
  Forall fresh_cfg (checked (fst (get_checked s id))).
Proof.
  intros H. unfold get_checked. destruct (existsb _ _); [exact H|].
  pose proof (get_parsed_checked s id) as A. destruct (get_parsed s id) as [s1 [d|]]; simpl in *;
    [|rewrite A; exact H].
  pose proof (visit_deps_checked (d_deps d) s1) as B.
  destruct (visit_deps s1 (d_deps d)) as [s2 [b|]]; simpl in *; [rewrite B, A; exact H|].
  destruct (d_check_ok d); simpl; rewrite B, A; auto.
  constructor; auto. split; reflexivity.
Qed.
Lemma check_loop_fresh f : forall s, Forall fresh_cfg (checked s) ->
  Forall fresh_cfg (checked (fst (check_loop f s))).
Proof.
  induction f as [|f IH]; simpl; intros s H; [exact H|].
  destruct (types_to_check s) as [|id r].
  - destruct (to_check s) as [|id r]; [exact H|].
    pose proof (get_checked_fresh (set_worklists s r []) id H) as A.
    destruct (get_checked _ id) as [s1 [|e]]; simpl in *; auto.
  - pose proof (get_checked_fresh (set_worklists s (to_check s) r) id H) as A.
    destruct (get_checked _ id) as [s1 [|e]]; simpl in *; auto.
Qed.
Lemma check_rebuilds f s id : Forall fresh_cfg (checked (fst (check f s id))).
Proof.
  unfold check. simpl. destruct (lookup (store s) id); simpl; [|constructor].
  apply check_loop_fresh. constructor.
Qed.

