(* C11 — model of compiler/cfg_compiler.py: compare_var / sort_vars and of the naming of
   temporaries (cfg/builder.py: tmp_vars = "%tmp{i}" for a process-global counter i).
   NO proofs in this file.

   A variable name is a list of chunks.  A chunk is a run of non-digit characters
   (abstracted to a code in Z, ordered like the strings they stand for), a literal digit run
   written by the user, or the number of a compiler temporary given RELATIVE to the value the
   global counter had when the check of the enclosing definition started.  [inst K] turns the
   relative form into the concrete name the compiler sees after a history that advanced the
   counter to K. *)
From Coq Require Import ZArith List Bool Lia.
Import ListNotations. Open Scope Z_scope.

Inductive chunk := CText (code : Z) | CNum (n : Z) | CTmp (i : Z).
Definition name := list chunk.
Record var := mkVar { v_nondroppable : bool; v_name : name }.

Definition inst_chunk (K : Z) (c : chunk) : chunk :=
  match c with CTmp i => CNum (K + i) | c => c end.
Definition inst (K : Z) (n : name) : name := map (inst_chunk K) n.

(* ---- the order of the repaired compare_var: digit runs compare by value; a text run sorts
   before a digit run in the same position (key (-1, run) < (int(run), "")). *)
Definition cmp_chunk_nat (a b : chunk) : comparison :=
  match a, b with
  | CText x, CText y => Z.compare x y
  | CText _, _ => Lt
  | _, CText _ => Gt
  | CNum x, CNum y => Z.compare x y
  | CNum x, CTmp y => Z.compare x y     (* never used on instantiated names *)
  | CTmp x, CNum y => Z.compare x y
  | CTmp x, CTmp y => Z.compare x y
  end.

Fixpoint cmp_lex {A} (c : A -> A -> comparison) (a b : list A) : comparison :=
  match a, b with
  | [], [] => Eq
  | [], _ => Lt
  | _, [] => Gt
  | x :: a', y :: b' => match c x y with Eq => cmp_lex c a' b' | r => r end
  end.

Definition cmp_name_nat (a b : name) : comparison := cmp_lex cmp_chunk_nat a b.

(* ---- the order of the ORIGINAL compare_var: plain string comparison of the decimal
   rendering.  Digits of a number, most significant first. *)
Fixpoint digits_aux (fuel : nat) (n : Z) (acc : list Z) : list Z :=
  match fuel with
  | O => acc
  | S f => if n <? 10 then n :: acc else digits_aux f (n / 10) (n mod 10 :: acc)
  end.
Definition digits (n : Z) : list Z := digits_aux 40 n [].

(* characters: a text run is one character-like code >= 100 (so it sorts after digits, as
   letters and '%' ... do not; the refutation below only uses digit-vs-digit comparisons) *)
Definition chars (c : chunk) : list Z :=
  match c with CText x => [100 + x] | CNum n => digits n | CTmp n => digits n end.
Definition cmp_name_str (a b : name) : comparison :=
  cmp_lex Z.compare (flat_map chars a) (flat_map chars b).

(* ---- compare_var: (not droppable, name) lexicographically; -1 iff strictly smaller *)
Definition var_lt (cmp : name -> name -> comparison) (K : Z) (a b : var) : bool :=
  match Bool.compare (v_nondroppable a) (v_nondroppable b) with
  | Lt => true
  | Gt => false
  | Eq => match cmp (inst K (v_name a)) (inst K (v_name b)) with Lt => true | _ => false end
  end.

(* sorted(row, key=cmp_to_key(compare_var)): a stable sort; insertion sort is one *)
Fixpoint insert_by (lt : var -> var -> bool) (x : var) (l : list var) : list var :=
  match l with
  | [] => [x]
  | y :: r => if lt x y then x :: y :: r else y :: insert_by lt x r
  end.
Fixpoint sort_by (lt : var -> var -> bool) (l : list var) : list var :=
  match l with [] => [] | x :: r => insert_by lt x (sort_by lt r) end.

Definition sort_vars (cmp : name -> name -> comparison) (K : Z) (row : list var) : list var :=
  sort_by (var_lt cmp K) row.
