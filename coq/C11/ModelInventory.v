(* C11 — which pieces of real session state the Engine model has a component for, and which
   it deliberately treats as constants / configuration.  Compared with the inventory that
   props/C11/tr_inventory.py regenerates from the source on every run (GenInventory.v).
   NO proofs in this file. *)
From Coq Require Import List String Bool.
Import ListNotations. Open Scope string_scope.

(* ENGINE fields: every one must be assigned by reset() or be listed here as configuration *)
Definition engine_config_fields : list string := ["additional_extensions"].   (* Sess.exts *)

(* module-/class-level mutable state with a component in ModelEngine.Sess *)
Definition modelled_state : list string := [
  "internals/cfg/builder.py:tmp_vars:GeneratorExp";                (* tmp_ctr *)
  "internals/compiler/core.py:GlobalConstId._fresh_ids:count";     (* const_ctr *)
  "internals/definition/common.py:DefId._ids:count";               (* next_def *)
  "internals/tys/var.py:ExistentialVar._fresh_id:count";           (* exvar_ctr *)
  "internals/engine.py:DEF_STORE:DefinitionStore";                 (* store *)
  "internals/engine.py:ENGINE:CompilationEngine";                  (* parsed .. types_to_check, exts *)
  "internals/tracing/state.py:_STATE:ContextVar"                   (* tracing *)
].

(* state the model treats as constant tables, write-once caches of constants, session
   configuration switched only by an explicit user call, or ids used only as dictionary keys
   inside one trace *)
Definition constant_state : list string := [
  "internals/checker/core.py:Globals.builtin_defs:cache";
  "internals/checker/expr_checker.py:unary_table:Dict";
  "internals/checker/expr_checker.py:binary_table:Dict";
  "internals/compiler/core.py:EXTENSION_OPS_WITH_SIDE_EFFECTS:List";
  "internals/compiler/core.py:AFFINE_EXTENSION_TYS:List";
  "internals/engine.py:BUILTIN_DEFS_LIST:List";
  "internals/engine.py:BUILTIN_DEFS:DictComp";
  "internals/experimental.py:EXPERIMENTAL_FEATURES_ENABLED:global";
  "internals/std/_internal/compiler/tket_exts.py:TKET_EXTENSIONS:List";
  "internals/tracing/object.py:unary_table:dict";
  "internals/tracing/object.py:binary_table:DictComp";
  "internals/tracing/object.py:reverse_binary_table:DictComp";
  "internals/tracing/object.py:GuppyObjectId._fresh_ids:count";
  "internals/tys/qubit.py:qubit_ty:cache";
  "guppylang/std/either.py:_params:List";
  "guppylang/std/err.py:_params:List";
  "guppylang/std/futures.py:_future_params:List"
].

(* in-place mutations of checked objects performed by lowering, each with a model counterpart:
   insert_return_vars (c_exit), input_tys.append (c_input_tys) *)
Definition modelled_mutations : list string := [
  "internals/compiler/cfg_compiler.py:insert_return_vars:cfg.exit_bb.sig=";
  "internals/compiler/cfg_compiler.py:insert_return_vars:pred.sig=";
  "internals/compiler/func_compiler.py:compile_local_func_def:func.cfg.input_tys.append()"
].
(* the only mention of input_tys inside compiler/ is that append: lowering never reads it,
   which is why Frag has no field depending on c_input_tys *)
Definition modelled_input_tys_mentions : list string :=
  ["internals/compiler/func_compiler.py:compile_local_func_def"].

(* writes of session-global state from outside its owner, each with its model counterpart:
   decorators = ORegister (store, ns); engine.get_checked = generated struct methods (d_ngen);
   check_nested_func_def = a nested helper registered as a global definition (d_nested: a DefId,
   an ENGINE.parsed entry that reset() clears; after fix-3 NO write into the frame namespace);
   mock_builtins = scoped patch of the traced function's globals, undone in a finally block *)
Definition modelled_write_sites : list string := [
  "internals/checker/func_checker.py:check_nested_func_def:DEF_STORE.register_def()";
  "internals/checker/func_checker.py:check_nested_func_def:ENGINE.parsed[def_id]=";
  "internals/decorator.py:custom_function:DEF_STORE.register_def()";
  "internals/decorator.py:custom_type:DEF_STORE.register_def()";
  "internals/decorator.py:custom_type:DEF_STORE.register_impl()";
  "internals/decorator.py:dec:DEF_STORE.register_def()";
  "internals/decorator.py:dec:DEF_STORE.register_impl()";
  "internals/decorator.py:dec:DEF_STORE.register_wasm_function()";
  "internals/decorator.py:ext_module_decorator:DEF_STORE.register_def()";
  "internals/decorator.py:ext_module_decorator:DEF_STORE.register_impl()";
  "internals/decorator.py:ext_module_decorator:DEF_STORE.register_wasm_function()";
  "internals/decorator.py:extend_type:DEF_STORE.register_impl()";
  "internals/decorator.py:fun:DEF_STORE.register_def()";
  "internals/decorator.py:fun:DEF_STORE.register_impl()";
  "internals/decorator.py:fun:DEF_STORE.register_wasm_function()";
  "internals/decorator.py:wasm_helper:DEF_STORE.register_def()";
  "internals/engine.py:get_checked:DEF_STORE.register_def()";
  "internals/engine.py:get_checked:DEF_STORE.register_impl()";
  "internals/tracing/builtins_mock.py:mock_builtins:f.__globals__.update()";
  "internals/tracing/builtins_mock.py:mock_builtins:f.__globals__[x]=";
  "guppylang/decorator.py:__call__:DEF_STORE.register_def()";
  "guppylang/decorator.py:_extern:DEF_STORE.register_def()";
  "guppylang/decorator.py:comptime:DEF_STORE.register_def()";
  "guppylang/decorator.py:const_var:DEF_STORE.register_def()";
  "guppylang/decorator.py:constant:DEF_STORE.register_def()";
  "guppylang/decorator.py:dec:DEF_STORE.register_def()";
  "guppylang/decorator.py:declare:DEF_STORE.register_def()";
  "guppylang/decorator.py:func:DEF_STORE.register_def()";
  "guppylang/decorator.py:load_pytket:DEF_STORE.register_def()";
  "guppylang/decorator.py:nat_var:DEF_STORE.register_def()";
  "guppylang/decorator.py:overload:DEF_STORE.register_def()";
  "guppylang/decorator.py:pytket:DEF_STORE.register_def()";
  "guppylang/decorator.py:struct:DEF_STORE.register_def()";
  "guppylang/decorator.py:struct:DEF_STORE.register_impl()";
  "guppylang/decorator.py:type_var:DEF_STORE.register_def()"
].

(* State on the persistent std-library call-compiler / call-checker objects (created once at
   import, never touched by reset()).  Modelled protocol: __init__ stores construction
   parameters, the base-class `_setup` overwrites every per-call attribute before check/compile
   runs, nothing else is stored -- so these objects contribute NO component to Sess.  The only
   tolerated entries: a class-level constant, and EitherConstructor.compile swapping the rows of
   the FRESH object that the (non-memoising) `either_ty` property builds on every access. *)
Definition modelled_call_object_state : list string := [
  "internals/definition/custom.py:CustomFunctionDef.description:class-attr";      (* dataclass field default "function" *)
  "internals/definition/custom.py:RawCustomFunctionDef.description:class-attr";
  "internals/std/_internal/compiler/platform.py:Hint.message:class-attr";         (* constant f-string *)
  "internals/definition/custom.py:RawCustomFunctionDef.unitary_flags:class-attr";
  "internals/std/_internal/compiler/either.py:EitherConstructor.compile:ty.variant_rows= [ty = self.either_ty]"
].

Definition mem (x : string) (l : list string) : bool := existsb (String.eqb x) l.
Definition subset (a b : list string) : bool := forallb (fun x => mem x b) a.
Definition same_set (a b : list string) : bool := subset a b && subset b a.
