(** C20 — executable model of how the quantum standard library is bound to tket ops.

    Three layers, all parameterised by tables GENERATED from /repo (GenGates.v):
      1. the *wiring language* of the custom call compilers (OpCompiler, RotationCompiler,
         InoutMeasureCompiler, InoutMeasureResetCompiler): a tiny imperative language over
         lists of wires, interpreted by [run_wiring];
      2. the Guppy fragment in which the composite library functions are written
         (calls, assignments, return, for-each over an array, numeric/angle expressions),
         interpreted by [eval_expr]/[exec_stmts];
      3. symbolic IEEE-double expressions [fexp] with an evaluator over Coq primitive floats.

    Qubits are identities ([qid]); a tket gate returns the qubit it received on the same
    port (that is the meaning of the tket ops and is TRUSTED, as are their matrices).
    No proofs in this file. *)
From Coq Require Import List String Bool ZArith PrimFloat.
Import ListNotations.
Open Scope string_scope.

(* ---------------------------------------------------------------- symbolic floats *)
Inductive fexp :=
| FVar (n : nat)                 (* an opaque run-time double (a parameter) *)
| FConst (v : float)
| FAdd (a b : fexp) | FSub (a b : fexp) | FMul (a b : fexp) | FDiv (a b : fexp)
| FNeg (a : fexp).

Fixpoint feval (rho : nat -> float) (e : fexp) : float :=
  match e with
  | FVar n => rho n
  | FConst v => v
  | FAdd a b => PrimFloat.add (feval rho a) (feval rho b)
  | FSub a b => PrimFloat.sub (feval rho a) (feval rho b)
  | FMul a b => PrimFloat.mul (feval rho a) (feval rho b)
  | FDiv a b => PrimFloat.div (feval rho a) (feval rho b)
  | FNeg a => PrimFloat.opp (feval rho a)
  end.

(* constant folding of closed sub-expressions (exact: the same IEEE operation) *)
Fixpoint fnorm (e : fexp) : fexp :=
  match e with
  | FVar n => FVar n
  | FConst v => FConst v
  | FAdd a b => match fnorm a, fnorm b with FConst x, FConst y => FConst (PrimFloat.add x y) | a', b' => FAdd a' b' end
  | FSub a b => match fnorm a, fnorm b with FConst x, FConst y => FConst (PrimFloat.sub x y) | a', b' => FSub a' b' end
  | FMul a b => match fnorm a, fnorm b with FConst x, FConst y => FConst (PrimFloat.mul x y) | a', b' => FMul a' b' end
  | FDiv a b => match fnorm a, fnorm b with FConst x, FConst y => FConst (PrimFloat.div x y) | a', b' => FDiv a' b' end
  | FNeg a => match fnorm a with FConst x => FConst (PrimFloat.opp x) | a' => FNeg a' end
  end.

(* Python's math.pi *)
Definition math_pi : float := 0x1.921fb54442d18p+1%float.

(* ---------------------------------------------------------------- values and events *)
Inductive qid := QIn (n : nat) | QNew (ev : nat).   (* a caller's qubit / allocated by event #ev *)

Inductive bexp := BMeas (ev : nat) | BFeq (a b : fexp).

Inductive value :=
| VQ (q : qid)
| VF (e : fexp)               (* float *)
| VAng (e : fexp)             (* angle, payload = halfturns *)
| VRot (e : fexp)             (* tket.rotation built from this many halfturns *)
| VBit (b : bexp)
| VFut (ev : nat)             (* Future produced by event #ev *)
| VOptQ (q : qid)             (* Option[qubit] produced by TryQAlloc *)
| VTup (vs : list value)
| VArr (vs : list value)
| VStruct (name : string) (vs : list value)
| VUnit.

Inductive pkind := PRot | PFloat.    (* rotation in halfturns / plain float64 operand *)

Record event := mkEv { ev_ext : string; ev_op : string; ev_qs : list qid; ev_ps : list (pkind * fexp) }.

Inductive outcome (A : Type) := Ok (a : A) | Err (msg : string).
Arguments Ok {A} a. Arguments Err {A} msg.

(* ---------------------------------------------------------------- declarations *)
Inductive ty := TQubit | TAngle | TFloat | TBool | TNone | TFuture | TOptQubit
              | TArrQubit | TArrBool | TTuple (ts : list ty) | TStruct (name : string) | TInt.

Record param := mkParam { p_name : string; p_ty : ty; p_owned : bool }.

(* HUGR type rows used by the custom compilers *)
Inductive hty := HQubit | HBool | HOpaqueBool | HRotation | HFloat | HOther.
Inductive rowitem := ROne (t : hty) | RRepeat (t : hty) (over : string).  (* [t for _ in over] *)

Inductive wopkind :=
| OQuantum (ins outs : list rowitem)     (* quantum_op(self.opname, ext=self.ext)(FunctionType(ins, outs), ..) *)
| OSelfOp                                (* the op given to @hugr_op, typed with the function's own type *)
| OUnpackTuple1                          (* ops.UnpackTuple([FLOAT_T]) *)
| OFromHalfturns (opname : string)       (* tket.rotation.<opname> : float -> rotation *)
| OMakeOpaque.                           (* tket.bool.make_opaque *)

Inductive wexp := WVar (x : string) | WStar (x : string).
Inductive wpat := PBracket (xs : list (bool * string))   (* [a, *b, c] = ...   (star?, name) *)
                | PWhole (x : string).                   (* x = ... *)
Inductive wsel := WList (xs : list wexp)                 (* [a, b] *)
                | WAll (x : string)                      (* list(x) *)
                | WTake (x : string)                     (* list(x[:num_returns]) *)
                | WDrop (x : string).                    (* list(x[num_returns:]) *)
Inductive wstmt :=
| WUnpack (p : wpat) (src : string)
| WAddOp (p : wpat) (op : wopkind) (ins : list wexp)
| WReturn (regular inout : wsel).

Inductive binop := OpAdd | OpSub | OpMul | OpDiv.

Inductive expr :=
| EVar (x : string)
| EPi                                    (* the global `pi` of std.angles *)
| ENum (v : float)                       (* numeric literal (ints are converted exactly) *)
| EMathPi                                (* py(math.pi) *)
| ENeg (e : expr)
| EBin (op : binop) (a b : expr)
| EEq (a b : expr)
| EField (e : expr) (f : string)
| EMkAngle (e : expr)                    (* angle(e) *)
| EFloatOf (e : expr)                    (* float(e) *)
| ECall (m f : string) (args : list expr)
| EMapArr (m f : string) (arr : string)  (* array(f(q) for q in arr) *)
| EStruct (name : string) (args : list expr)
| ETuple (es : list expr).

Inductive stmt :=
| SExpr (e : expr)
| SAssign (x : string) (e : expr)
| SReturn (e : expr)
| SFor (x arr : string) (body : list stmt).

Inductive binding :=
| BCustom (compiler : string) (ext opname : string)   (* custom compiler class + the op it was given *)
| BGuppy (body : list stmt)
| BSkipped (why : string).

Record docinfo := mkDoc { d_mathrm : option (string * bool);   (* \mathrm{Name} and whether ^\dagger follows *)
                          d_order : option (list string);       (* "Qubit ordering: [..]" *)
                          d_first : string }.                    (* first line of the docstring *)

Record fn := mkFn { f_mod : string; f_name : string; f_params : list param; f_ret : ty;
                    f_unitary : bool; f_bind : binding; f_doc : docinfo }.

Record compiler := mkCompiler { c_name : string; c_body : list wstmt }.

Record tables := mkTables { t_fns : list fn; t_compilers : list compiler; t_pi_halfturns : float }.

Definition lookup_fn (tb : tables) (m f : string) : option fn :=
  find (fun g => String.eqb g.(f_mod) m && String.eqb g.(f_name) f) tb.(t_fns).
Definition lookup_compiler (tb : tables) (c : string) : option compiler :=
  find (fun g => String.eqb g.(c_name) c) tb.(t_compilers).

(* ---------------------------------------------------------------- wiring interpreter *)
Definition wenv := list (string * list value).
Fixpoint wget (en : wenv) (x : string) : option (list value) :=
  match en with [] => None | (y, v) :: r => if String.eqb x y then Some v else wget r x end.

Fixpoint wins (en : wenv) (xs : list wexp) : outcome (list value) :=
  match xs with
  | [] => Ok []
  | WVar x :: r => match wget en x, wins en r with
                   | Some [v], Ok vs => Ok (v :: vs)
                   | Some _, Ok _ => Err ("not a single wire: " ++ x)
                   | None, _ => Err ("unbound wire " ++ x) | _, Err m => Err m end
  | WStar x :: r => match wget en x, wins en r with
                    | Some l, Ok vs => Ok (app l vs)
                    | None, _ => Err ("unbound wire list " ++ x) | _, Err m => Err m end
  end.

(* bind a pattern to a list of wires; at most one starred name *)
Definition nstar (xs : list (bool * string)) := List.length (filter fst xs).
Fixpoint bind_bracket (xs : list (bool * string)) (vs : list value) (en : wenv) : outcome wenv :=
  match xs with
  | [] => match vs with [] => Ok en | _ => Err "too many values to unpack" end
  | (false, x) :: r => match vs with v :: vs' => bind_bracket r vs' ((x, [v]) :: en) | [] => Err "not enough values to unpack" end
  | (true, x) :: r => let k := (List.length vs - List.length r)%nat in
                      if Nat.ltb (List.length vs) (List.length r) then Err "not enough values to unpack"
                      else bind_bracket r (skipn k vs) ((x, firstn k vs) :: en)
  end.
Definition bind_pat (p : wpat) (vs : list value) (en : wenv) : outcome wenv :=
  match p with
  | PWhole x => Ok ((x, vs) :: en)
  | PBracket xs => if Nat.ltb 1 (nstar xs) then Err "two starred names" else bind_bracket xs vs en
  end.

Definition expand_row (en : wenv) (r : list rowitem) : list hty :=
  flat_map (fun it => match it with ROne t => [t]
                                  | RRepeat t x => match wget en x with Some l => repeat t (List.length l) | None => [] end end) r.

Definition hty_of_value (v : value) : hty :=
  match v with VQ _ => HQubit | VRot _ => HRotation | VF _ => HFloat | VBit _ => HBool | _ => HOther end.
Definition hty_eqb (a b : hty) : bool :=
  match a, b with HQubit, HQubit | HBool, HBool | HOpaqueBool, HOpaqueBool | HRotation, HRotation
                | HFloat, HFloat | HOther, HOther => true | _, _ => false end.
Fixpoint row_eqb (a b : list hty) : bool :=
  match a, b with [] , [] => true | x :: a', y :: b' => hty_eqb x y && row_eqb a' b' | _, _ => false end.

Definition qubits_of (vs : list value) : list qid :=
  flat_map (fun v => match v with VQ q => [q] | _ => [] end) vs.
Definition params_of (vs : list value) : list (pkind * fexp) :=
  flat_map (fun v => match v with VRot e => [(PRot, e)] | VF e => [(PFloat, e)] | _ => [] end) vs.

(* outputs of a quantum op, port by port: qubit ports hand back the input qubits in order
   (fresh ones when the inputs are exhausted), every other port is a result of this event *)
Inductive oty := OQ | OBit | OFut | OOptQ | ONothing.
Fixpoint op_outputs (idx : nat) (qs : list qid) (outs : list oty) : list value :=
  match outs with
  | [] => []
  | OQ :: r => match qs with q :: qs' => VQ q :: op_outputs idx qs' r | [] => VQ (QNew idx) :: op_outputs idx [] r end
  | OBit :: r => VBit (BMeas idx) :: op_outputs idx qs r
  | OFut :: r => VFut idx :: op_outputs idx qs r
  | OOptQ :: r => VOptQ (QNew idx) :: op_outputs idx qs r
  | ONothing :: r => op_outputs idx qs r
  end.

Definition oty_of_hty (t : hty) : oty := match t with HQubit => OQ | HBool | HOpaqueBool => OBit | _ => ONothing end.
Definition oty_of_ty (t : ty) : list oty :=
  match t with TQubit => [OQ] | TBool => [OBit] | TFuture => [OFut] | TOptQubit => [OOptQ] | TNone => [] | _ => [ONothing] end.

(* the HUGR type a @hugr_op function has: inputs = parameters, outputs = returns ++ borrowed parameters *)
Definition borrowed (ps : list param) : list param :=
  filter (fun p => negb p.(p_owned) && match p.(p_ty) with TQubit | TArrQubit => true | _ => false end) ps.
Definition self_outs (f : fn) : list oty :=
  app (oty_of_ty f.(f_ret)) (flat_map (fun p => oty_of_ty p.(p_ty)) (borrowed f.(f_params))).
Definition num_returns (f : fn) : nat := List.length (oty_of_ty f.(f_ret)).

Definition do_op (f : fn) (ext opn : string) (op : wopkind) (en : wenv) (ins : list value) (evs : list event)
  : outcome (list value * list event) :=
  match op with
  | OUnpackTuple1 => match ins with [VAng e] => Ok ([VF e], evs) | _ => Err "UnpackTuple: not an angle" end
  | OFromHalfturns _ => match ins with [VF e] => Ok ([VRot e], evs) | _ => Err "from_halfturns: not a float" end
  | OMakeOpaque => match ins with [VBit b] => Ok ([VBit b], evs) | _ => Err "make_opaque: not a bit" end
  | OQuantum ri ro =>
      if row_eqb (expand_row en ri) (map hty_of_value ins) then
        let idx := List.length evs in
        Ok (op_outputs idx (qubits_of ins) (map oty_of_hty (expand_row en ro)),
            app evs [mkEv ext opn (qubits_of ins) (params_of ins)])
      else Err "op signature does not match the wires passed"
  | OSelfOp =>
      let idx := List.length evs in
      Ok (op_outputs idx (qubits_of ins) (self_outs f), app evs [mkEv ext opn (qubits_of ins) (params_of ins)])
  end.

Definition wselect (f : fn) (en : wenv) (s : wsel) : outcome (list value) :=
  match s with
  | WList xs => wins en xs
  | WAll x => match wget en x with Some l => Ok l | None => Err ("unbound " ++ x) end
  | WTake x => match wget en x with Some l => Ok (firstn (num_returns f) l) | None => Err ("unbound " ++ x) end
  | WDrop x => match wget en x with Some l => Ok (skipn (num_returns f) l) | None => Err ("unbound " ++ x) end
  end.

(* run a compiler body on the argument wires: (regular returns, inout returns, events) *)
Fixpoint run_wiring (f : fn) (ext opn : string) (body : list wstmt) (en : wenv) (evs : list event)
  : outcome (list value * list value * list event) :=
  match body with
  | [] => Err "compiler body fell off the end"
  | WUnpack p src :: r => match wget en src with
                          | Some vs => match bind_pat p vs en with Ok en' => run_wiring f ext opn r en' evs | Err m => Err m end
                          | None => Err ("unbound " ++ src) end
  | WAddOp p op ins :: r =>
      match wins en ins with
      | Err m => Err m
      | Ok vs => match do_op f ext opn op en vs evs with
                 | Err m => Err m
                 | Ok (outs, evs') => match bind_pat p outs en with Ok en' => run_wiring f ext opn r en' evs' | Err m => Err m end
                 end
      end
  | WReturn a b :: _ => match wselect f en a, wselect f en b with
                        | Ok x, Ok y => Ok (x, y, evs) | Err m, _ => Err m | _, Err m => Err m end
  end.

(* ---------------------------------------------------------------- Guppy fragment *)
Definition env := list (string * value).
Fixpoint eget (en : env) (x : string) : option value :=
  match en with [] => None | (y, v) :: r => if String.eqb x y then Some v else eget r x end.
Fixpoint eset (en : env) (x : string) (v : value) : env :=
  match en with [] => [(x, v)] | (y, w) :: r => if String.eqb x y then (y, v) :: r else (y, w) :: eset r x v end.

Definition pack (vs : list value) : value := match vs with [] => VUnit | [v] => v | _ => VTup vs end.

Definition fbin (op : binop) (a b : fexp) : fexp :=
  match op with OpAdd => FAdd a b | OpSub => FSub a b | OpMul => FMul a b | OpDiv => FDiv a b end.

(* Python's operator dispatch on the angle struct: (method name, reflected?) *)
Definition angle_method (op : binop) (reflected : bool) : string :=
  match op, reflected with
  | OpAdd, false => "angle.__add__" | OpSub, false => "angle.__sub__"
  | OpMul, false => "angle.__mul__" | OpMul, true => "angle.__rmul__"
  | OpDiv, false => "angle.__truediv__" | OpDiv, true => "angle.__rtruediv__"
  | OpAdd, true => "angle.__radd__" | OpSub, true => "angle.__rsub__"
  end.

Definition bind_params (ps : list param) (vs : list value) : option env :=
  if Nat.eqb (List.length ps) (List.length vs) then Some (combine (map p_name ps) vs) else None.

(* write the inout returns back to the places (variables) of the borrowed arguments *)
Fixpoint write_back (ps : list param) (args : list expr) (ret : list value) (en : env) : outcome env :=
  match ps, args with
  | [], [] => match ret with [] => Ok en | _ => Err "too many inout returns" end
  | p :: ps', a :: args' =>
      if negb p.(p_owned) && match p.(p_ty) with TQubit | TArrQubit => true | _ => false end then
        match a, ret with
        | EVar x, v :: ret' => write_back ps' args' ret' (eset en x v)
        | EVar _, [] => Err "missing inout return"
        | _, _ => Err "borrowed argument is not a place"
        end
      else write_back ps' args' ret en
  | _, _ => Err "arity"
  end.

Definition type_ok (t : ty) (v : value) : bool :=
  match t, v with
  | TQubit, VQ _ | TAngle, VAng _ | TFloat, VF _ | TBool, VBit _ | TFuture, VFut _ | TArrQubit, VArr _ => true
  | _, _ => false
  end.
Definition args_ok (ps : list param) (vs : list value) : bool :=
  Nat.eqb (List.length ps) (List.length vs) && forallb (fun pv => type_ok (fst pv).(p_ty) (snd pv)) (combine ps vs).

Definition res := outcome (value * env * list event).

(* one call, given the evaluator for Guppy bodies *)
Definition call_with (tb : tables) (exec : env -> list event -> list stmt -> res)
           (m f : string) (args : list expr) (vs : list value) (en : env) (evs : list event) : res :=
  match lookup_fn tb m f with
  | None => Err ("unknown function " ++ m ++ "." ++ f)
  | Some g =>
      if negb (args_ok g.(f_params) vs) then Err ("ill-typed call of " ++ m ++ "." ++ f) else
      match g.(f_bind) with
      | BSkipped w => Err ("call of unmodelled function " ++ f)
      | BCustom c ext opn =>
          match lookup_compiler tb c with
          | None => Err ("unknown compiler " ++ c)
          | Some cc => match run_wiring g ext opn cc.(c_body) [("args", vs)] evs with
                       | Err m => Err m
                       | Ok (reg, io, evs') => match write_back g.(f_params) args io en with
                                               | Err m => Err m | Ok en' => Ok (pack reg, en', evs') end
                       end
          end
      | BGuppy body =>
          match bind_params g.(f_params) vs with
          | None => Err "arity"
          | Some cen =>
              match exec cen evs body with
              | Err m => Err m
              | Ok (rv, cen', evs') =>
                  let io := flat_map (fun p => match eget cen' p.(p_name) with Some v => [v] | None => [] end)
                                     (borrowed g.(f_params)) in
                  match write_back g.(f_params) args io en with
                  | Err m => Err m | Ok en' => Ok (rv, en', evs') end
              end
          end
      end
  end.

(* array(f(q) for q in arr): apply f to the elements in index order *)
Fixpoint map_loop (callf : value -> list event -> res) (vs : list value) (evs : list event)
  : outcome (list value * list event) :=
  match vs with
  | [] => Ok ([], evs)
  | v :: r => match callf v evs with
              | Err m' => Err m'
              | Ok (y, _, evs1) => match map_loop callf r evs1 with
                                   | Err m' => Err m' | Ok (ys, evs2) => Ok (y :: ys, evs2) end
              end
  end.

(* for x in arr: body -- elements in index order *)
Fixpoint for_loop (bodyf : env -> list event -> res) (x : string) (vs : list value) (en : env) (evs : list event)
  : outcome (env * list event) :=
  match vs with
  | [] => Ok (en, evs)
  | v :: r' => match bodyf (eset en x v) evs with
               | Err m => Err m | Ok (_, en1, evs1) => for_loop bodyf x r' en1 evs1 end
  end.

Section Interp.
  Variable tb : tables.

  Fixpoint eval_expr (fuel : nat) (en : env) (evs : list event) (e : expr) {struct fuel} : res :=
    match fuel with O => Err "out of fuel" | S fuel' =>
    let eval_args := fix go (en : env) (evs : list event) (es : list expr) : outcome (list value * env * list event) :=
        match es with
        | [] => Ok ([], en, evs)
        | e :: r => match eval_expr fuel' en evs e with
                    | Err m => Err m
                    | Ok (v, en1, evs1) => match go en1 evs1 r with
                                           | Err m => Err m | Ok (vs, en2, evs2) => Ok (v :: vs, en2, evs2) end
                    end
        end in
    let call := call_with tb (exec_stmts fuel') in
    match e with
    | EVar x => match eget en x with Some v => Ok (v, en, evs) | None => Err ("unbound variable " ++ x) end
    | EPi => Ok (VAng (FConst tb.(t_pi_halfturns)), en, evs)
    | ENum v => Ok (VF (FConst v), en, evs)
    | EMathPi => Ok (VF (FConst math_pi), en, evs)
    | ENeg a => match eval_expr fuel' en evs a with
                | Ok (VF x, en1, evs1) => Ok (VF (FNeg x), en1, evs1)
                | Ok (VAng x, en1, evs1) => call "angles" "angle.__neg__" [a] [VAng x] en1 evs1
                | Ok _ => Err "bad operand for unary -" | Err m => Err m end
    | EBin op a b =>
        match eval_args en evs [a; b] with
        | Ok ([VF x; VF y], en1, evs1) => Ok (VF (fbin op x y), en1, evs1)
        | Ok ([VAng x; v], en1, evs1) => call "angles" (angle_method op false) [a; b] [VAng x; v] en1 evs1
        | Ok ([VF x; VAng y], en1, evs1) => call "angles" (angle_method op true) [b; a] [VAng y; VF x] en1 evs1
        | Ok _ => Err "bad operands for binary operator" | Err m => Err m end
    | EEq a b =>
        match eval_args en evs [a; b] with
        | Ok ([VF x; VF y], en1, evs1) => Ok (VBit (BFeq x y), en1, evs1)
        | Ok ([VAng x; v], en1, evs1) => call "angles" "angle.__eq__" [a; b] [VAng x; v] en1 evs1
        | Ok _ => Err "bad operands for ==" | Err m => Err m end
    | EField a f => match eval_expr fuel' en evs a with
                    | Ok (VAng x, en1, evs1) => if String.eqb f "halfturns" then Ok (VF x, en1, evs1) else Err "unknown field"
                    | Ok _ => Err "field of a non-angle" | Err m => Err m end
    | EMkAngle a => match eval_expr fuel' en evs a with
                    | Ok (VF x, en1, evs1) => Ok (VAng x, en1, evs1)
                    | Ok _ => Err "angle(..) of a non-float" | Err m => Err m end
    | EFloatOf a => match eval_expr fuel' en evs a with
                    | Ok (VF x, en1, evs1) => Ok (VF x, en1, evs1)
                    | Ok (VAng x, en1, evs1) => call "angles" "angle.__float__" [a] [VAng x] en1 evs1
                    | Ok _ => Err "float(..) of a non-number" | Err m => Err m end
    | ECall m f args => match eval_args en evs args with
                        | Err m' => Err m'
                        | Ok (vs, en1, evs1) => call m f args vs en1 evs1 end
    | EMapArr m f arr =>
        match eget en arr with
        | Some (VArr vs) =>
            match map_loop (fun v evs => call m f [EVar "%elem"] [v] [("%elem", v)] evs) vs evs with
            | Err m' => Err m'
            | Ok (ys, evs') => Ok (VArr ys, eset en arr VUnit, evs') end
        | _ => Err "comprehension over a non-array" end
    | EStruct n args => match eval_args en evs args with
                        | Err m' => Err m' | Ok (vs, en1, evs1) => Ok (VStruct n vs, en1, evs1) end
    | ETuple es => match eval_args en evs es with
                   | Err m' => Err m' | Ok (vs, en1, evs1) => Ok (VTup vs, en1, evs1) end
    end end
  with exec_stmts (fuel : nat) (en : env) (evs : list event) (ss : list stmt) {struct fuel} : res :=
    match fuel with O => Err "out of fuel" | S fuel' =>
    (fix go (ss : list stmt) (en : env) (evs : list event) : res :=
    match ss with
    | [] => Ok (VUnit, en, evs)
    | SExpr e :: r => match eval_expr fuel' en evs e with
                      | Err m => Err m | Ok (_, en1, evs1) => go r en1 evs1 end
    | SAssign x e :: r => match eval_expr fuel' en evs e with
                          | Err m => Err m | Ok (v, en1, evs1) => go r (eset en1 x v) evs1 end
    | SReturn e :: _ => eval_expr fuel' en evs e
    | SFor x arr body :: r =>
        match eget en arr with
        | Some (VArr vs) =>
            match for_loop (fun en evs => exec_stmts fuel' en evs body) x vs (eset en arr VUnit) evs with
            | Err m => Err m | Ok (en1, evs1) => go r en1 evs1 end
        | _ => Err "for over a non-array" end
    end) ss en evs end.
End Interp.
