(** C20 — the DOCUMENTED side, written by hand from the library documentation and independent of
    the compiler code: which tket op each Python function denotes, in which order it takes
    its qubits, how angles reach the op, and what the composite functions expand to.
    (No wiring language, no compiler classes here.)  No proofs in this file. *)
From Coq Require Import List String Bool PrimFloat.
From V.C20 Require Import Model.
Import ListNotations.
Open Scope string_scope.

Definition one_halfturn : float := 1%float.
Definition two : float := 2%float.

(* the naming map: (module, python function, extension, tket op) *)
Definition naming : list (string * string * (string * string)) := [
  ("quantum", "qubit.__new__", ("tket.quantum", "QAlloc"));
  ("quantum", "maybe_qubit", ("tket.quantum", "TryQAlloc"));
  ("quantum", "h", ("tket.quantum", "H"));     ("quantum", "x", ("tket.quantum", "X"));
  ("quantum", "y", ("tket.quantum", "Y"));     ("quantum", "z", ("tket.quantum", "Z"));
  ("quantum", "s", ("tket.quantum", "S"));     ("quantum", "t", ("tket.quantum", "T"));
  ("quantum", "v", ("tket.quantum", "V"));     ("quantum", "sdg", ("tket.quantum", "Sdg"));
  ("quantum", "tdg", ("tket.quantum", "Tdg")); ("quantum", "vdg", ("tket.quantum", "Vdg"));
  ("quantum", "cx", ("tket.quantum", "CX"));   ("quantum", "cy", ("tket.quantum", "CY"));
  ("quantum", "cz", ("tket.quantum", "CZ"));   ("quantum", "toffoli", ("tket.quantum", "Toffoli"));
  ("quantum", "rx", ("tket.quantum", "Rx"));   ("quantum", "ry", ("tket.quantum", "Ry"));
  ("quantum", "rz", ("tket.quantum", "Rz"));   ("quantum", "crz", ("tket.quantum", "CRz"));
  ("quantum", "project_z", ("tket.quantum", "Measure"));
  ("quantum", "measure", ("tket.quantum", "MeasureFree"));
  ("quantum", "discard", ("tket.quantum", "QFree"));
  ("quantum", "reset", ("tket.quantum", "Reset"));
  ("qsystem", "measure", ("tket.qsystem", "Measure"));
  ("qsystem", "measure_and_reset", ("tket.qsystem", "MeasureReset"));
  ("qsystem", "reset", ("tket.qsystem", "Reset"));
  ("qsystem", "qfree", ("tket.qsystem", "QFree"));
  ("qsystem", "_measure_leaked", ("tket.qsystem", "LazyMeasureLeaked"));
  ("qsystem", "_phased_x", ("tket.qsystem", "PhasedX"));
  ("qsystem", "_zz_phase", ("tket.qsystem", "ZZPhase"));
  ("qsystem", "_rz", ("tket.qsystem", "Rz")) ].

Definition naming_lookup (m f : string) : option (string * string) :=
  match find (fun e => String.eqb (fst e) m && String.eqb (fst (snd e)) f)
             (map (fun e => (fst (fst e), (snd (fst e), snd e))) naming) with
  | Some (_, (_, r)) => Some r | None => None end.

(* arguments for a call, chosen by parameter type from supplies of qubits and numbers *)
Fixpoint mkargs (ps : list param) (qs : list qid) (xs : list fexp) : list value :=
  match ps with
  | [] => []
  | p :: r => match p.(p_ty) with
              | TQubit => match qs with q :: qs' => VQ q :: mkargs r qs' xs | [] => VUnit :: mkargs r [] xs end
              | TAngle => match xs with x :: xs' => VAng x :: mkargs r qs xs' | [] => VUnit :: mkargs r qs [] end
              | TFloat => match xs with x :: xs' => VF x :: mkargs r qs xs' | [] => VUnit :: mkargs r qs [] end
              | _ => VUnit :: mkargs r qs xs
              end
  end.

(* what the documentation says a primitive call does: ONE op of the documented name on the
   qubit arguments in declaration order, angles as their half-turns (unscaled), floats as given *)
Definition doc_qubits (vs : list value) : list qid := flat_map (fun v => match v with VQ q => [q] | _ => [] end) vs.
Definition doc_params (vs : list value) : list (pkind * fexp) :=
  flat_map (fun v => match v with VAng h => [(PRot, h)] | VF x => [(PFloat, x)] | _ => [] end) vs.
Definition doc_result (t : ty) (idx : nat) : value :=
  match t with TNone => VUnit | TBool => VBit (BMeas idx) | TFuture => VFut idx
             | TQubit => VQ (QNew idx) | TOptQubit => VOptQ (QNew idx) | _ => VUnit end.

(* (value of the call, the argument variables afterwards, the ops emitted) *)
Definition doc_prim (g : fn) (extop : string * string) (vs : list value) : outcome (value * list value * list event) :=
  Ok (doc_result g.(f_ret) 0, vs, [mkEv (fst extop) (snd extop) (doc_qubits vs) (doc_params vs)]).

(* documented expansions of the composite functions (angles after exact constant folding) *)
Definition gate (ext op : string) (qs : list qid) (ps : list (pkind * fexp)) := mkEv ext op qs ps.
Definition radians (h : fexp) : fexp := FMul h (FConst math_pi).

Definition doc_composite (m f : string) (q0 q1 : qid) (a0 a1 : fexp) : option (list value * value * list event) :=
  let Q := "tket.quantum" in let S := "tket.qsystem" in
  if String.eqb m "quantum" && String.eqb f "ch" then
    (* CH = (1 x Ry(pi/4)) CZ (1 x Ry(-pi/4)): first Ry(-1/4 half-turn) on the target *)
    Some ([VQ q0; VQ q1], VUnit,
          [gate Q "Ry" [q1] [(PRot, FConst (-0.25)%float)]; gate Q "CZ" [q0; q1] [];
           gate Q "Ry" [q1] [(PRot, FConst 0.25%float)]])
  else if String.eqb m "qsystem" && String.eqb f "phased_x" then
    Some ([VQ q0; VAng a0; VAng a1], VUnit, [gate S "PhasedX" [q0] [(PFloat, radians a0); (PFloat, radians a1)]])
  else if String.eqb m "qsystem" && String.eqb f "zz_phase" then
    Some ([VQ q0; VQ q1; VAng a0], VUnit, [gate S "ZZPhase" [q0; q1] [(PFloat, radians a0)]])
  else if String.eqb m "qsystem" && String.eqb f "zz_max" then
    (* ZZPhase(pi/2): half a half-turn, in radians *)
    Some ([VQ q0; VQ q1], VUnit, [gate S "ZZPhase" [q0; q1] [(PFloat, FConst (PrimFloat.mul 0.5 math_pi))]])
  else if String.eqb m "qsystem" && String.eqb f "rz" then
    Some ([VQ q0; VAng a0], VUnit, [gate S "Rz" [q0] [(PFloat, radians a0)]])
  else if String.eqb m "quantum" && String.eqb f "qubit.measure" then
    Some ([VQ q0], VBit (BMeas 0), [gate Q "MeasureFree" [q0] []])
  else if String.eqb m "quantum" && String.eqb f "qubit.project_z" then
    Some ([VQ q0], VBit (BMeas 0), [gate Q "Measure" [q0] []])
  else if String.eqb m "quantum" && String.eqb f "qubit.discard" then
    Some ([VQ q0], VUnit, [gate Q "QFree" [q0] []])
  else if String.eqb m "qsystem" && String.eqb f "measure_leaked" then
    Some ([VQ q0], VStruct "MaybeLeaked" [VFut 0], [gate S "LazyMeasureLeaked" [q0] []])
  else None.

Definition norm_event (e : event) : event :=
  mkEv e.(ev_ext) e.(ev_op) e.(ev_qs) (map (fun p => (fst p, fnorm (snd p))) e.(ev_ps)).

(* documentation strings: \mathrm{Name}[^\dagger] must name the op; "Qubit ordering" must list the qubit parameters *)
Definition doc_gate_name (d : string * bool) : string := if snd d then fst d ++ "dg" else fst d.
Definition composite_doc_names : list (string * string * string) :=
  [("quantum", "ch", "CH"); ("qsystem", "phased_x", "PhasedX"); ("qsystem", "zz_max", "ZZMax");
   ("qsystem", "zz_phase", "ZZPhase"); ("qsystem", "rz", "Rz")].
Definition qubit_param_names (ps : list param) : list string :=
  flat_map (fun p => match p.(p_ty) with TQubit => [p.(p_name)] | _ => [] end) ps.
Fixpoint strs_eqb (a b : list string) : bool :=
  match a, b with [], [] => true | x :: a', y :: b' => String.eqb x y && strs_eqb a' b' | _, _ => false end.

Definition doc_consistent (g : fn) : bool :=
  (match g.(f_doc).(d_mathrm), g.(f_bind) with
   | Some d, BCustom _ _ op => String.eqb (doc_gate_name d) op
   | Some d, BGuppy _ => existsb (fun e => String.eqb (fst (fst e)) g.(f_mod) && String.eqb (snd (fst e)) g.(f_name)
                                           && String.eqb (snd e) (doc_gate_name d)) composite_doc_names
   | _, _ => true end)
  && (match g.(f_doc).(d_order) with
      | Some l => strs_eqb l (qubit_param_names g.(f_params))
      | None => true end).

(* running one call from a caller that holds the arguments in variables %0, %1, ... *)
Definition argnames : list string := ["%0"; "%1"; "%2"; "%3"; "%4"; "%5"].
Definition FUEL : nat := 40.
Definition run_call (tb : tables) (m f : string) (vs : list value) : outcome (value * list value * list event) :=
  let names := firstn (List.length vs) argnames in
  match eval_expr tb FUEL (combine names vs) [] (ECall m f (map EVar names)) with
  | Ok (v, en, evs) => Ok (v, map snd en, evs)
  | Err msg => Err msg
  end.
Definition norm_run (r : outcome (value * list value * list event)) :=
  match r with Ok (v, en, evs) => Ok (v, en, map norm_event evs) | Err m => Err m end.

Definition is_functional (m : string) : option string :=
  if String.eqb m "quantum.functional" then Some "quantum"
  else if String.eqb m "qsystem.functional" then Some "qsystem" else None.

(* the functional variant of f: same ops as f on the same arguments; returns the qubits f borrows,
   in declaration order, followed by f's own result (if any) *)
Definition functional_expected (base : fn) (vs : list value) (v : value) : value :=
  let qs := flat_map (fun pv => match (fst pv).(p_ty), (fst pv).(p_owned), snd pv with
                                | TQubit, false, VQ q => [VQ q] | _, _, _ => [] end) (combine base.(f_params) vs) in
  pack (app qs (match v with VUnit => [] | _ => [v] end)).
