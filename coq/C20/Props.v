(** C20 — property theorems (binding half; see props/C20/NOTES.md for what is not claimed). *)
From Coq Require Import List String Bool Floats.
From V.C20 Require Import Model Spec GenGates Proofs.
Import ListNotations.

Theorem binding_table_faithful : forall q0 q1 q2 a0 a1, Forall (prim_ok q0 q1 q2 a0 a1) gen_fns.
Proof. exact prims_faithful. Qed.
Print Assumptions binding_table_faithful.
