(** C20 — Quantum operations implement their documented gates: the BINDING half.

    Every statement is about [gen_fns]/[gen_tables], the tables REGENERATED from /repo's
    std/quantum, std/qsystem, std/angles and the custom call compilers on this run.
    What is NOT here (see props/C20/NOTES.md): the matrices of the tket ops and the emulator —
    "emulated state = product of the documented matrices" cannot be observed in this sandbox.
    Qubits [q0 q1 q2 : qid] and angle/float operands [a0 a1 : fexp] are universally
    quantified: any assignment of qubits to parameters, any (symbolic) angle expression. *)
From Coq Require Import List String Bool.
From Coq Require PrimFloat.
From V.C20 Require Import Model Spec GenGates Proofs.
Import ListNotations.
Open Scope string_scope.
(* [idtac ""] only prints an empty line, so that the Print Assumptions blocks stay separated in the log *)

(* Every function bound to an op (by @hugr_op(quantum_op(N)) or a custom compiler) is in the documented
   naming map and a call emits exactly ONE op, the documented one, on its qubit arguments in
   declaration order, with each angle argument passed as its half-turns unscaled (each float as given);
   afterwards every argument variable still holds the same qubit (borrowed qubits come back in order),
   and the call's value is the op's result.  Bound: the generated table (finite). *)
Theorem binding_table_faithful : forall q0 q1 q2 a0 a1,
  Forall (prim_ok q0 q1 q2 a0 a1) gen_fns /\ naming_covered = true.
Proof. idtac "". intros. split; [apply prims_faithful | exact naming_covered_ok]. Qed.
Print Assumptions binding_table_faithful.

(* The table theorems are not vacuous: as many op-bound functions as naming entries, >= 25 functional
   variants, >= 20 documented gate names. *)
Example tables_nontrivial : n_custom = List.length naming /\ Nat.leb 25 n_functional = true /\ Nat.leb 20 n_documented = true.
Proof. idtac "". exact table_sizes. Qed.

(* ch, phased_x, zz_phase, zz_max, qsystem.rz, the qubit methods and measure_leaked expand to the
   documented op sequence (operands equal as IEEE values for every run-time input), and every
   Guppy-bodied gate function has such a documented expansion (or is one of the two array functions). *)
Theorem composites_expand : forall q0 q1 a0 a1,
  Forall (composite_ok q0 q1 a0 a1) gen_fns /\ composites_all_documented = true.
Proof. idtac "". intros. split; [apply composites_ok | exact composites_all_documented_ok]. Qed.
Print Assumptions composites_expand.

(* Each function of std.quantum.functional / std.qsystem.functional emits the same ops as its
   namesake on the same arguments and returns the borrowed qubits in declaration order, then the result. *)
Theorem functional_variants_agree : forall q0 q1 q2 a0 a1, Forall (functional_ok q0 q1 q2 a0 a1) gen_fns.
Proof. idtac "". exact functional_variants_ok. Qed.
Print Assumptions functional_variants_agree.

(* measure_array / discard_array: for EVERY array length the generated bodies measure / free the
   elements one by one in index order (the loop-level statements; the surrounding call is computed
   for lengths 0..4 in [arrays_small]). *)
Theorem measure_array_any_length :
  body_of "quantum" "measure_array" = Some [SReturn (EMapArr "quantum" "measure" "qubits")] /\
  forall fuel en pre qs, eget en "qubits" = Some (qarr qs) ->
    eval_expr gen_tables (S fuel) en pre (EMapArr "quantum" "measure" "qubits")
    = Ok (VArr (meas_bits (List.length pre) qs), eset en "qubits" VUnit,
          app pre (seq_events "tket.quantum" "MeasureFree" qs)).
Proof. idtac "". split; [exact measure_array_body | exact measure_array_body_any_length]. Qed.
Print Assumptions measure_array_any_length.

Theorem discard_array_any_length :
  body_of "quantum" "discard_array" = Some [SFor "q" "qubits" dbody] /\
  forall k qs pre, exists en',
    for_loop (fun en evs => exec_stmts gen_tables (S (S (S k))) en evs dbody) "q" (map VQ qs) [("qubits", VUnit)] pre
    = Ok (en', app pre (seq_events "tket.quantum" "QFree" qs)).
Proof. idtac "". split; [exact discard_array_body | intros; apply discard_loop; left; reflexivity]. Qed.
Print Assumptions discard_array_any_length.

Theorem array_functions_small : arrays_small_ok = true.
Proof. idtac "". exact arrays_small. Qed.

(* Angle arithmetic is the corresponding IEEE double operation on half-turns; pi is one half-turn;
   float(angle) multiplies by math.pi (radians). *)
Theorem angle_arithmetic_is_ieee : forall a b rho,
  (exists e, angle_call "angle.__add__" [VAng a; VAng b] = Ok (VAng e, [VAng a; VAng b], []) /\
             feval rho e = PrimFloat.add (feval rho a) (feval rho b)) /\
  (exists e, angle_call "angle.__sub__" [VAng a; VAng b] = Ok (VAng e, [VAng a; VAng b], []) /\
             feval rho e = PrimFloat.sub (feval rho a) (feval rho b)) /\
  (exists e, angle_call "angle.__mul__" [VAng a; VF b] = Ok (VAng e, [VAng a; VF b], []) /\
             feval rho e = PrimFloat.mul (feval rho a) (feval rho b)) /\
  (exists e, angle_call "angle.__rmul__" [VAng a; VF b] = Ok (VAng e, [VAng a; VF b], []) /\
             feval rho e = PrimFloat.mul (feval rho a) (feval rho b)) /\
  (exists e, angle_call "angle.__truediv__" [VAng a; VF b] = Ok (VAng e, [VAng a; VF b], []) /\
             feval rho e = PrimFloat.div (feval rho a) (feval rho b)) /\
  (exists e, angle_call "angle.__rtruediv__" [VAng a; VF b] = Ok (VAng e, [VAng a; VF b], []) /\
             feval rho e = PrimFloat.div (feval rho b) (feval rho a)) /\
  (exists e, angle_call "angle.__neg__" [VAng a] = Ok (VAng e, [VAng a], []) /\
             feval rho e = PrimFloat.opp (feval rho a)) /\
  (exists e, angle_call "angle.__float__" [VAng a] = Ok (VF e, [VAng a], []) /\
             feval rho e = PrimFloat.mul (feval rho a) math_pi) /\
  gen_tables.(t_pi_halfturns) = one_halfturn.
Proof. idtac "".
  intros a b rho. destruct (angle_methods a b) as (H1 & H2 & H3 & H4 & H5 & H6 & H7 & H8 & _).
  repeat split; try (eexists; split; [eassumption | reflexivity]).
Qed.
Print Assumptions angle_arithmetic_is_ieee.

(* `+ - * /`, unary minus and float() written in a program reach those methods, reflected forms included *)
Theorem operators_reach_angle_methods : forall a b x,
  let en := [("a", VAng a); ("b", VAng b); ("x", VF x)] in
  eval_closed (EBin OpAdd (EVar "a") (EVar "b")) en = Ok (VAng (FAdd a b), en, []) /\
  eval_closed (EBin OpSub (EVar "a") (EVar "b")) en = Ok (VAng (FSub a b), en, []) /\
  eval_closed (EBin OpMul (EVar "a") (EVar "x")) en = Ok (VAng (FMul a x), en, []) /\
  eval_closed (EBin OpMul (EVar "x") (EVar "a")) en = Ok (VAng (FMul a x), en, []) /\
  eval_closed (EBin OpDiv (EVar "a") (EVar "x")) en = Ok (VAng (FDiv a x), en, []) /\
  eval_closed (EBin OpDiv (EVar "x") (EVar "a")) en = Ok (VAng (FDiv x a), en, []) /\
  eval_closed (ENeg (EVar "a")) en = Ok (VAng (FNeg a), en, []) /\
  eval_closed (EFloatOf (EVar "a")) en = Ok (VF (FMul a (FConst math_pi)), en, []) /\
  eval_closed (EBin OpDiv EPi (ENum two)) en = Ok (VAng (FDiv (FConst one_halfturn) (FConst two)), en, []).
Proof. idtac "". exact operator_dispatch. Qed.
Print Assumptions operators_reach_angle_methods.

(* The docstrings agree with the bindings: \mathrm{Name}[^\dagger] names the bound op (or the documented
   composite) and "Qubit ordering: [...]" lists the qubit parameters in declaration order. *)
Theorem docstrings_agree : forallb doc_consistent gen_fns = true.
Proof. idtac "". exact docs_consistent. Qed.
Print Assumptions docstrings_agree.

(* constant folding used when comparing symbolic angles is exact *)
Theorem fnorm_exact : forall rho e, feval rho (fnorm e) = feval rho e.
Proof. idtac "". exact fnorm_sound. Qed.
Print Assumptions fnorm_exact.
