(** C20 — lemmas.  Everything is about the tables GENERATED from /repo (GenGates.v). *)
From Coq Require Import List String Bool Floats Arith Lia.
From V.C20 Require Import Model Spec GenGates.
Import ListNotations.
Open Scope string_scope.

Ltac each_entry := repeat (apply Forall_cons; [ vm_compute; try reflexivity; try exact I | ]); try apply Forall_nil.

(* ---------------------------------------------------------------- fnorm is exact *)
Lemma fnorm_sound : forall rho e, feval rho (fnorm e) = feval rho e.
Proof.
  intros rho e; induction e; simpl; auto;
    try (destruct (fnorm e1) eqn:E1; destruct (fnorm e2) eqn:E2; simpl in *; rewrite <- IHe1, <- IHe2; reflexivity).
  destruct (fnorm e) eqn:E; simpl in *; rewrite <- IHe; reflexivity.
Qed.

(* ---------------------------------------------------------------- primitives *)
Definition prim_ok (q0 q1 q2 : qid) (a0 a1 : fexp) (g : fn) : Prop :=
  match g.(f_bind) with
  | BCustom _ _ _ =>
      match naming_lookup g.(f_mod) g.(f_name) with
      | None => False
      | Some extop => let vs := mkargs g.(f_params) [q0; q1; q2] [a0; a1] in
                      run_call gen_tables g.(f_mod) g.(f_name) vs = doc_prim g extop vs
      end
  | _ => True
  end.

Lemma prims_faithful : forall q0 q1 q2 a0 a1, Forall (prim_ok q0 q1 q2 a0 a1) gen_fns.
Proof. intros. unfold gen_fns. each_entry. Qed.

(* every entry of the documented naming map is present in the source as an op-bound function *)
Definition naming_covered : bool :=
  forallb (fun e => match lookup_fn gen_tables (fst e) (fst (snd e)) with
                    | Some g => match g.(f_bind) with BCustom _ _ _ => true | _ => false end
                    | None => false end) naming.
Lemma naming_covered_ok : naming_covered = true.
Proof. vm_compute. reflexivity. Qed.

(* ---------------------------------------------------------------- composites *)
Definition composite_ok (q0 q1 : qid) (a0 a1 : fexp) (g : fn) : Prop :=
  match g.(f_bind), is_functional g.(f_mod), doc_composite g.(f_mod) g.(f_name) q0 q1 a0 a1 with
  | BGuppy _, None, Some (vs, v, evs) => norm_run (run_call gen_tables g.(f_mod) g.(f_name) vs) = Ok (v, vs, evs)
  | _, _, _ => True
  end.
Lemma composites_ok : forall q0 q1 a0 a1, Forall (composite_ok q0 q1 a0 a1) gen_fns.
Proof. intros. unfold gen_fns. each_entry. Qed.

(* which Guppy-bodied functions of the two gate modules have a documented expansion (the rest are listed) *)
Definition composite_names : list (string * string) :=
  flat_map (fun g => match g.(f_bind), is_functional g.(f_mod) with
                     | BGuppy _, None => if String.eqb g.(f_mod) "angles" then [] else [(g.(f_mod), g.(f_name))]
                     | _, _ => [] end) gen_fns.
Definition composites_all_documented : bool :=
  forallb (fun mf => match doc_composite (fst mf) (snd mf) (QIn 0) (QIn 1) (FVar 0) (FVar 1) with
                     | Some _ => true
                     | None => (String.eqb (snd mf) "measure_array" || String.eqb (snd mf) "discard_array") end) composite_names.
Lemma composites_all_documented_ok : composites_all_documented = true.
Proof. vm_compute. reflexivity. Qed.

(* ---------------------------------------------------------------- functional variants *)
Definition functional_ok (q0 q1 q2 : qid) (a0 a1 : fexp) (g : fn) : Prop :=
  match is_functional g.(f_mod) with
  | None => True
  | Some bm =>
      match lookup_fn gen_tables bm g.(f_name) with
      | None => False
      | Some base =>
          let vs := mkargs g.(f_params) [q0; q1; q2] [a0; a1] in
          match run_call gen_tables bm g.(f_name) vs, run_call gen_tables g.(f_mod) g.(f_name) vs with
          | Ok (v, _, evs), Ok (v', _, evs') => evs' = evs /\ v' = functional_expected base vs v /\ evs <> []
          | _, _ => False
          end
      end
  end.
Lemma functional_variants_ok : forall q0 q1 q2 a0 a1, Forall (functional_ok q0 q1 q2 a0 a1) gen_fns.
Proof.
  intros. unfold gen_fns.
  repeat (apply Forall_cons; [ vm_compute; try exact I; try (repeat split; try reflexivity; discriminate) | ]).
  apply Forall_nil.
Qed.

(* ---------------------------------------------------------------- arrays, any length *)
Definition qarr (qs : list qid) : value := VArr (map VQ qs).

Fixpoint seq_events (ext op : string) (qs : list qid) : list event :=
  match qs with [] => [] | q :: r => mkEv ext op [q] [] :: seq_events ext op r end.
Fixpoint meas_bits (start : nat) (qs : list qid) : list value :=
  match qs with [] => [] | _ :: r => VBit (BMeas start) :: meas_bits (S start) r end.

(* the inner loops, extracted with their exact shape by computation on a generic list *)
Lemma measure_array_gen : forall qs pre,
  eval_expr gen_tables 39 [("qubits", qarr qs)] pre (EMapArr "quantum" "measure" "qubits")
  = Ok (VArr (meas_bits (List.length pre) qs), [("qubits", VUnit)], app pre (seq_events "tket.quantum" "MeasureFree" qs)).
Proof.
  intros qs pre.
  change (eval_expr gen_tables 39 [("qubits", qarr qs)] pre (EMapArr "quantum" "measure" "qubits"))
    with (match (fix go (vs : list value) (evs : list event) : outcome (list value * list event) :=
               match vs with
               | [] => Ok ([], evs)
               | v :: r => match eval_expr gen_tables 38 [("%elem", v)] evs (ECall "quantum" "measure" [EVar "%elem"]) with
                           | Err m' => Err m'
                           | Ok (y, _, evs1) => match go r evs1 with Err m' => Err m' | Ok (ys, evs2) => Ok (y :: ys, evs2) end
                           end
               end) (map VQ qs) pre with
          | Err m' => Err m'
          | Ok (ys, evs') => Ok (VArr ys, [("qubits", VUnit)], evs') end).
  2:{ cbn -[eval_expr]. Fail reflexivity. admit. }
Abort.
