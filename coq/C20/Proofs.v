(** C20 — lemmas.  Everything is about the tables GENERATED from /repo (GenGates.v). *)
From Coq Require Import List String Bool Floats Arith Lia.
From V.C20 Require Import Model Spec GenGates.
Import ListNotations.
Open Scope string_scope.

Ltac each_entry := repeat (apply Forall_cons; [ vm_compute; try reflexivity; try exact I | ]); try apply Forall_nil.

(* ---------------------------------------------------------------- fnorm is exact *)
Lemma fnorm_sound : forall rho e, feval rho (fnorm e) = feval rho e.
Proof.
  intros rho e; induction e; simpl; auto;
    try (destruct (fnorm e1) eqn:E1; destruct (fnorm e2) eqn:E2; simpl in *; rewrite <- IHe1, <- IHe2; reflexivity).
  destruct (fnorm e) eqn:E; simpl in *; rewrite <- IHe; reflexivity.
Qed.

(* ---------------------------------------------------------------- primitives *)
Definition prim_ok (q0 q1 q2 : qid) (a0 a1 : fexp) (g : fn) : Prop :=
  match g.(f_bind) with
  | BCustom _ _ _ =>
      match naming_lookup g.(f_mod) g.(f_name) with
      | None => False
      | Some extop => let vs := mkargs g.(f_params) [q0; q1; q2] [a0; a1] in
                      run_call gen_tables g.(f_mod) g.(f_name) vs = doc_prim g extop vs
      end
  | _ => True
  end.

Lemma prims_faithful : forall q0 q1 q2 a0 a1, Forall (prim_ok q0 q1 q2 a0 a1) gen_fns.
Proof. intros. unfold gen_fns. each_entry. Qed.

(* every entry of the documented naming map is present in the source as an op-bound function *)
Definition naming_covered : bool :=
  forallb (fun e => match lookup_fn gen_tables (fst (fst e)) (snd (fst e)) with
                    | Some g => match g.(f_bind) with BCustom _ _ _ => true | _ => false end
                    | None => false end) naming.
Lemma naming_covered_ok : naming_covered = true.
Proof. vm_compute. reflexivity. Qed.

(* ---------------------------------------------------------------- composites *)
(* events agree up to the VALUE of their numeric operands (same IEEE result for every run-time input) *)
Definition params_equiv (ps ps' : list (pkind * fexp)) : Prop :=
  Forall2 (fun p p' => fst p = fst p' /\ forall rho, feval rho (snd p) = feval rho (snd p')) ps ps'.
Definition event_equiv (e e' : event) : Prop :=
  e.(ev_ext) = e'.(ev_ext) /\ e.(ev_op) = e'.(ev_op) /\ e.(ev_qs) = e'.(ev_qs) /\ params_equiv e.(ev_ps) e'.(ev_ps).
Definition events_equiv : list event -> list event -> Prop := Forall2 event_equiv.

Definition composite_ok (q0 q1 : qid) (a0 a1 : fexp) (g : fn) : Prop :=
  match g.(f_bind), is_functional g.(f_mod), doc_composite g.(f_mod) g.(f_name) q0 q1 a0 a1 with
  | BGuppy _, None, Some (vs, v, evs) =>
      match run_call gen_tables g.(f_mod) g.(f_name) vs with
      | Ok (v', vs', evs') => v' = v /\ vs' = vs /\ events_equiv evs' evs
      | Err _ => False end
  | _, _, _ => True
  end.
Ltac solve_equiv :=
  vm_compute; try exact I; repeat split; try reflexivity;
  repeat (first [apply Forall2_nil | apply Forall2_cons]; repeat split; try reflexivity;
          try (intros rho; vm_compute; reflexivity)).
Lemma composites_ok : forall q0 q1 a0 a1, Forall (composite_ok q0 q1 a0 a1) gen_fns.
Proof. intros. unfold gen_fns. repeat (apply Forall_cons; [ solve_equiv | ]). apply Forall_nil. Qed.

(* which Guppy-bodied functions of the two gate modules have a documented expansion (the rest are listed) *)
Definition composite_names : list (string * string) :=
  flat_map (fun g => match g.(f_bind), is_functional g.(f_mod) with
                     | BGuppy _, None => if String.eqb g.(f_mod) "angles" then [] else [(g.(f_mod), g.(f_name))]
                     | _, _ => [] end) gen_fns.
Definition composites_all_documented : bool :=
  forallb (fun mf => match doc_composite (fst mf) (snd mf) (QIn 0) (QIn 1) (FVar 0) (FVar 1) with
                     | Some _ => true
                     | None => (String.eqb (snd mf) "measure_array" || String.eqb (snd mf) "discard_array") end) composite_names.
Lemma composites_all_documented_ok : composites_all_documented = true.
Proof. vm_compute. reflexivity. Qed.

(* ---------------------------------------------------------------- functional variants *)
Definition functional_ok (q0 q1 q2 : qid) (a0 a1 : fexp) (g : fn) : Prop :=
  match is_functional g.(f_mod) with
  | None => True
  | Some bm =>
      match lookup_fn gen_tables bm g.(f_name) with
      | None => False
      | Some base =>
          let vs := mkargs g.(f_params) [q0; q1; q2] [a0; a1] in
          match run_call gen_tables bm g.(f_name) vs, run_call gen_tables g.(f_mod) g.(f_name) vs with
          | Ok (v, _, evs), Ok (v', _, evs') => evs' = evs /\ v' = functional_expected base vs v /\ evs <> []
          | _, _ => False
          end
      end
  end.
Lemma functional_variants_ok : forall q0 q1 q2 a0 a1, Forall (functional_ok q0 q1 q2 a0 a1) gen_fns.
Proof.
  intros. unfold gen_fns.
  repeat (apply Forall_cons; [ vm_compute; try exact I; try (repeat split; try reflexivity; discriminate) | ]).
  apply Forall_nil.
Qed.

(* ---------------------------------------------------------------- arrays, any length *)
Definition qarr (qs : list qid) : value := VArr (map VQ qs).

Fixpoint seq_events (ext op : string) (qs : list qid) : list event :=
  match qs with [] => [] | q :: r => mkEv ext op [q] [] :: seq_events ext op r end.
Fixpoint meas_bits (start : nat) (qs : list qid) : list value :=
  match qs with [] => [] | _ :: r => VBit (BMeas start) :: meas_bits (S start) r end.

(* one iteration, for an arbitrary qubit and an arbitrary prefix of events (computed symbolically) *)
Lemma measure_step : forall q pre,
  call_with gen_tables (exec_stmts gen_tables 37) "quantum" "measure" [EVar "%elem"] [VQ q] [("%elem", VQ q)] pre
  = Ok (VBit (BMeas (List.length pre)), [("%elem", VQ q)], app pre [mkEv "tket.quantum" "MeasureFree" [q] []]).
Proof. intros. vm_compute. reflexivity. Qed.

Lemma measure_loop : forall qs pre,
  map_loop (fun v evs => call_with gen_tables (exec_stmts gen_tables 37) "quantum" "measure" [EVar "%elem"] [v] [("%elem", v)] evs)
           (map VQ qs) pre
  = Ok (meas_bits (List.length pre) qs, app pre (seq_events "tket.quantum" "MeasureFree" qs)).
Proof.
  induction qs as [|q r IH]; intros pre; simpl map; unfold map_loop; fold map_loop.
  - simpl. rewrite app_nil_r. reflexivity.
  - rewrite measure_step. rewrite IH. rewrite app_length. simpl List.length.
    replace (List.length pre + 1) with (S (List.length pre)) by lia.
    rewrite <- app_assoc. reflexivity.
Qed.

Lemma measure_array_any_length : forall qs,
  run_call gen_tables "quantum" "measure_array" [qarr qs]
  = Ok (VArr (meas_bits 0 qs), [qarr qs], seq_events "tket.quantum" "MeasureFree" qs).
Proof.
  intros qs. unfold run_call, FUEL.
  change (eval_expr gen_tables 40 (combine (firstn (List.length [qarr qs]) argnames) [qarr qs]) []
            (ECall "quantum" "measure_array" (map EVar (firstn (List.length [qarr qs]) argnames))))
    with (match map_loop (fun v evs => call_with gen_tables (exec_stmts gen_tables 37) "quantum" "measure" [EVar "%elem"] [v] [("%elem", v)] evs)
                         (map VQ qs) [] with
          | Err m' => Err m'
          | Ok (ys, evs') => Ok (VArr ys, [("%0", qarr qs)], evs') end).
  rewrite measure_loop. reflexivity.
Qed.
