(** C20 — lemmas.  Everything is about the tables GENERATED from /repo (GenGates.v). *)
From Coq Require Import List String Bool PrimFloat Arith Lia.
From V.C20 Require Import Model Spec GenGates.
Import ListNotations.
Open Scope string_scope.

Ltac each_entry := repeat (apply Forall_cons; [ vm_compute; try reflexivity; try exact I | ]); try apply Forall_nil.

(* ---------------------------------------------------------------- fnorm is exact *)
Lemma fnorm_sound : forall rho e, feval rho (fnorm e) = feval rho e.
Proof.
  intros rho e; induction e; simpl; auto;
    try (destruct (fnorm e1) eqn:E1; destruct (fnorm e2) eqn:E2; simpl in *; rewrite <- IHe1, <- IHe2; reflexivity).
  destruct (fnorm e) eqn:E; simpl in *; rewrite <- IHe; reflexivity.
Qed.

(* ---------------------------------------------------------------- primitives *)
Definition prim_ok (q0 q1 q2 : qid) (a0 a1 : fexp) (g : fn) : Prop :=
  match g.(f_bind) with
  | BCustom _ _ _ =>
      match naming_lookup g.(f_mod) g.(f_name) with
      | None => False
      | Some extop => let vs := mkargs g.(f_params) [q0; q1; q2] [a0; a1] in
                      run_call gen_tables g.(f_mod) g.(f_name) vs = doc_prim g extop vs
      end
  | _ => True
  end.

Lemma prims_faithful : forall q0 q1 q2 a0 a1, Forall (prim_ok q0 q1 q2 a0 a1) gen_fns.
Proof. intros. unfold gen_fns. each_entry. Qed.

(* every entry of the documented naming map is present in the source as an op-bound function *)
Definition naming_covered : bool :=
  forallb (fun e => match lookup_fn gen_tables (fst (fst e)) (snd (fst e)) with
                    | Some g => match g.(f_bind) with BCustom _ _ _ => true | _ => false end
                    | None => false end) naming.
Lemma naming_covered_ok : naming_covered = true.
Proof. vm_compute. reflexivity. Qed.

(* ---------------------------------------------------------------- composites *)
(* events agree up to the VALUE of their numeric operands (same IEEE result for every run-time input) *)
Definition params_equiv (ps ps' : list (pkind * fexp)) : Prop :=
  Forall2 (fun p p' => fst p = fst p' /\ forall rho, feval rho (snd p) = feval rho (snd p')) ps ps'.
Definition event_equiv (e e' : event) : Prop :=
  e.(ev_ext) = e'.(ev_ext) /\ e.(ev_op) = e'.(ev_op) /\ e.(ev_qs) = e'.(ev_qs) /\ params_equiv e.(ev_ps) e'.(ev_ps).
Definition events_equiv : list event -> list event -> Prop := Forall2 event_equiv.

Definition composite_ok (q0 q1 : qid) (a0 a1 : fexp) (g : fn) : Prop :=
  match g.(f_bind), is_functional g.(f_mod), doc_composite g.(f_mod) g.(f_name) q0 q1 a0 a1 with
  | BGuppy _, None, Some (vs, v, evs) =>
      match run_call gen_tables g.(f_mod) g.(f_name) vs with
      | Ok (v', vs', evs') => v' = v /\ vs' = vs /\ events_equiv evs' evs
      | Err _ => False end
  | _, _, _ => True
  end.
Ltac solve_equiv :=
  vm_compute; try exact I; repeat split; try reflexivity;
  repeat (first [apply Forall2_nil | apply Forall2_cons]; repeat split; try reflexivity;
          try (intros rho; vm_compute; reflexivity)).
Lemma composites_ok : forall q0 q1 a0 a1, Forall (composite_ok q0 q1 a0 a1) gen_fns.
Proof. intros. unfold gen_fns. repeat (apply Forall_cons; [ solve_equiv | ]). apply Forall_nil. Qed.

(* which Guppy-bodied functions of the two gate modules have a documented expansion (the rest are listed) *)
Definition composite_names : list (string * string) :=
  flat_map (fun g => match g.(f_bind), is_functional g.(f_mod) with
                     | BGuppy _, None => if String.eqb g.(f_mod) "angles" then [] else [(g.(f_mod), g.(f_name))]
                     | _, _ => [] end) gen_fns.
Definition composites_all_documented : bool :=
  forallb (fun mf => match doc_composite (fst mf) (snd mf) (QIn 0) (QIn 1) (FVar 0) (FVar 1) with
                     | Some _ => true
                     | None => (String.eqb (snd mf) "measure_array" || String.eqb (snd mf) "discard_array") end) composite_names.
Lemma composites_all_documented_ok : composites_all_documented = true.
Proof. vm_compute. reflexivity. Qed.

(* ---------------------------------------------------------------- functional variants *)
Definition functional_ok (q0 q1 q2 : qid) (a0 a1 : fexp) (g : fn) : Prop :=
  match is_functional g.(f_mod) with
  | None => True
  | Some bm =>
      match lookup_fn gen_tables bm g.(f_name) with
      | None => False
      | Some base =>
          let vs := mkargs g.(f_params) [q0; q1; q2] [a0; a1] in
          match run_call gen_tables bm g.(f_name) vs, run_call gen_tables g.(f_mod) g.(f_name) vs with
          | Ok (v, _, evs), Ok (v', _, evs') => evs' = evs /\ v' = functional_expected base vs v /\ evs <> []
          | _, _ => False
          end
      end
  end.
Lemma functional_variants_ok : forall q0 q1 q2 a0 a1, Forall (functional_ok q0 q1 q2 a0 a1) gen_fns.
Proof.
  intros. unfold gen_fns.
  repeat (apply Forall_cons; [ vm_compute; try exact I; try (repeat split; try reflexivity; discriminate) | ]).
  apply Forall_nil.
Qed.

(* ---------------------------------------------------------------- arrays, any length *)
Definition qarr (qs : list qid) : value := VArr (map VQ qs).

Fixpoint seq_events (ext op : string) (qs : list qid) : list event :=
  match qs with [] => [] | q :: r => mkEv ext op [q] [] :: seq_events ext op r end.
Fixpoint meas_bits (start : nat) (qs : list qid) : list value :=
  match qs with [] => [] | _ :: r => VBit (BMeas start) :: meas_bits (S start) r end.

(* one iteration, for an arbitrary qubit, an arbitrary prefix of events and ANY body evaluator *)
Lemma measure_step : forall exec q pre,
  call_with gen_tables exec "quantum" "measure" [EVar "%elem"] [VQ q] [("%elem", VQ q)] pre
  = Ok (VBit (BMeas (List.length pre)), [("%elem", VQ q)], app pre [mkEv "tket.quantum" "MeasureFree" [q] []]).
Proof. intros. vm_compute. reflexivity. Qed.

Lemma measure_loop : forall exec qs pre,
  map_loop (fun v evs => call_with gen_tables exec "quantum" "measure" [EVar "%elem"] [v] [("%elem", v)] evs)
           (map VQ qs) pre
  = Ok (meas_bits (List.length pre) qs, app pre (seq_events "tket.quantum" "MeasureFree" qs)).
Proof.
  intros exec. induction qs as [|q r IH]; intros pre; simpl map; unfold map_loop; fold map_loop.
  - simpl. rewrite app_nil_r. reflexivity.
  - rewrite measure_step. rewrite IH. rewrite app_length. simpl List.length.
    replace (List.length pre + 1) with (S (List.length pre)) by lia.
    rewrite <- app_assoc. reflexivity.
Qed.

(* unfolding of the comprehension, for every table and every amount of fuel *)
Lemma eval_maparr : forall tb fuel en evs m f arr vs, eget en arr = Some (VArr vs) ->
  eval_expr tb (S fuel) en evs (EMapArr m f arr)
  = match map_loop (fun v evs => call_with tb (exec_stmts tb fuel) m f [EVar "%elem"] [v] [("%elem", v)] evs) vs evs with
    | Err m' => Err m'
    | Ok (ys, evs') => Ok (VArr ys, eset en arr VUnit, evs') end.
Proof. intros. cbn [eval_expr]. rewrite H. reflexivity. Qed.

Lemma measure_array_body_any_length : forall fuel en pre qs, eget en "qubits" = Some (qarr qs) ->
  eval_expr gen_tables (S fuel) en pre (EMapArr "quantum" "measure" "qubits")
  = Ok (VArr (meas_bits (List.length pre) qs), eset en "qubits" VUnit,
        app pre (seq_events "tket.quantum" "MeasureFree" qs)).
Proof. intros. rewrite (eval_maparr _ _ _ _ _ _ _ _ H). rewrite measure_loop. reflexivity. Qed.

Definition body_of (m f : string) : option (list stmt) :=
  match lookup_fn gen_tables m f with Some g => match g.(f_bind) with BGuppy b => Some b | _ => None end | None => None end.
Lemma measure_array_body : body_of "quantum" "measure_array" = Some [SReturn (EMapArr "quantum" "measure" "qubits")].
Proof. vm_compute. reflexivity. Qed.
Lemma discard_array_body :
  body_of "quantum" "discard_array" = Some [SFor "q" "qubits" [SExpr (ECall "quantum" "discard" [EVar "q"])]].
Proof. vm_compute. reflexivity. Qed.

(* discard_array: the loop body on the environments the loop actually runs in *)
Definition dbody := [SExpr (ECall "quantum" "discard" [EVar "q"])].
Lemma discard_step : forall k q pre tail, tail = [] \/ (exists v, tail = [("q", v)]) ->
  exec_stmts gen_tables (S (S (S k))) (eset (("qubits", VUnit) :: tail) "q" (VQ q)) pre dbody
  = Ok (VUnit, [("qubits", VUnit); ("q", VQ q)], app pre [mkEv "tket.quantum" "QFree" [q] []]).
Proof. intros k q pre tail [-> | [v ->]]; vm_compute; reflexivity. Qed.

Lemma discard_loop : forall k qs pre tail, tail = [] \/ (exists v, tail = [("q", v)]) ->
  exists en', for_loop (fun en evs => exec_stmts gen_tables (S (S (S k))) en evs dbody) "q" (map VQ qs)
                       (("qubits", VUnit) :: tail) pre
              = Ok (en', app pre (seq_events "tket.quantum" "QFree" qs)).
Proof.
  intros k. induction qs as [|q r IH]; intros pre tail Ht; simpl map; unfold for_loop; fold for_loop.
  - eexists. simpl. rewrite app_nil_r. reflexivity.
  - rewrite (discard_step k q pre tail Ht).
    destruct (IH (app pre [mkEv "tket.quantum" "QFree" [q] []]) [("q", VQ q)]) as [en' E]; [right; eexists; reflexivity|].
    exists en'. rewrite E. rewrite <- app_assoc. reflexivity.
Qed.

(* the complete calls for the lengths 0..4 (computed) *)
Definition small_arrays : list (list qid) :=
  [[]; [QIn 5]; [QIn 2; QIn 0]; [QIn 1; QIn 0; QIn 2]; [QIn 3; QIn 1; QIn 2; QIn 0]].
Definition arrays_small_ok : bool :=
  forallb (fun qs =>
    match run_call gen_tables "quantum" "measure_array" [qarr qs], run_call gen_tables "quantum" "discard_array" [qarr qs] with
    | Ok (VArr bs, _, evs), Ok (VUnit, _, evs') =>
        Nat.eqb (List.length bs) (List.length qs) && Nat.eqb (List.length evs) (List.length qs)
        && Nat.eqb (List.length evs') (List.length qs)
        && forallb (fun qe => match ev_qs (snd qe) with [q] => match q, fst qe with QIn a, QIn b => Nat.eqb a b | _, _ => false end | _ => false end
                              && String.eqb (ev_op (snd qe)) "MeasureFree") (combine qs evs)
        && forallb (fun qe => match ev_qs (snd qe) with [q] => match q, fst qe with QIn a, QIn b => Nat.eqb a b | _, _ => false end | _ => false end
                              && String.eqb (ev_op (snd qe)) "QFree") (combine qs evs')
    | _, _ => false end) small_arrays.
Lemma arrays_small : arrays_small_ok = true.
Proof. vm_compute. reflexivity. Qed.

(* ---------------------------------------------------------------- angle arithmetic *)
Definition angle_call (f : string) (vs : list value) := run_call gen_tables "angles" f vs.

Lemma angle_methods : forall a b,
  angle_call "angle.__add__" [VAng a; VAng b] = Ok (VAng (FAdd a b), [VAng a; VAng b], []) /\
  angle_call "angle.__sub__" [VAng a; VAng b] = Ok (VAng (FSub a b), [VAng a; VAng b], []) /\
  angle_call "angle.__mul__" [VAng a; VF b] = Ok (VAng (FMul a b), [VAng a; VF b], []) /\
  angle_call "angle.__rmul__" [VAng a; VF b] = Ok (VAng (FMul a b), [VAng a; VF b], []) /\
  angle_call "angle.__truediv__" [VAng a; VF b] = Ok (VAng (FDiv a b), [VAng a; VF b], []) /\
  angle_call "angle.__rtruediv__" [VAng a; VF b] = Ok (VAng (FDiv b a), [VAng a; VF b], []) /\
  angle_call "angle.__neg__" [VAng a] = Ok (VAng (FNeg a), [VAng a], []) /\
  angle_call "angle.__float__" [VAng a] = Ok (VF (FMul a (FConst math_pi)), [VAng a], []) /\
  angle_call "angle.__eq__" [VAng a; VAng b] = Ok (VBit (BFeq a b), [VAng a; VAng b], []).
Proof. intros. repeat split; vm_compute; reflexivity. Qed.

Lemma pi_is_one_halfturn : gen_tables.(t_pi_halfturns) = one_halfturn.
Proof. vm_compute. reflexivity. Qed.

(* operators in expressions reach those methods (Python's dispatch, incl. the reflected forms) *)
Definition eval_closed (e : expr) (en : env) := eval_expr gen_tables FUEL en [] e.
Lemma operator_dispatch : forall a b x,
  let en := [("a", VAng a); ("b", VAng b); ("x", VF x)] in
  eval_closed (EBin OpAdd (EVar "a") (EVar "b")) en = Ok (VAng (FAdd a b), en, []) /\
  eval_closed (EBin OpSub (EVar "a") (EVar "b")) en = Ok (VAng (FSub a b), en, []) /\
  eval_closed (EBin OpMul (EVar "a") (EVar "x")) en = Ok (VAng (FMul a x), en, []) /\
  eval_closed (EBin OpMul (EVar "x") (EVar "a")) en = Ok (VAng (FMul a x), en, []) /\
  eval_closed (EBin OpDiv (EVar "a") (EVar "x")) en = Ok (VAng (FDiv a x), en, []) /\
  eval_closed (EBin OpDiv (EVar "x") (EVar "a")) en = Ok (VAng (FDiv x a), en, []) /\
  eval_closed (ENeg (EVar "a")) en = Ok (VAng (FNeg a), en, []) /\
  eval_closed (EFloatOf (EVar "a")) en = Ok (VF (FMul a (FConst math_pi)), en, []) /\
  eval_closed (EBin OpDiv EPi (ENum two)) en = Ok (VAng (FDiv (FConst one_halfturn) (FConst two)), en, []).
Proof. intros. repeat split; vm_compute; reflexivity. Qed.

(* ---------------------------------------------------------------- documentation strings *)
Lemma docs_consistent : forallb doc_consistent gen_fns = true.
Proof. vm_compute. reflexivity. Qed.

(* non-vacuity: how many entries each table theorem really constrains *)
Definition n_custom := List.length (filter (fun g => match g.(f_bind) with BCustom _ _ _ => true | _ => false end) gen_fns).
Definition n_functional := List.length (filter (fun g => match is_functional g.(f_mod) with Some _ => true | None => false end) gen_fns).
Definition n_documented := List.length (filter (fun g => match g.(f_doc).(d_mathrm) with Some _ => true | None => false end) gen_fns).
Lemma table_sizes : n_custom = List.length naming /\ Nat.leb 25 n_functional = true /\ Nat.leb 20 n_documented = true.
Proof. vm_compute. repeat split; reflexivity. Qed.
