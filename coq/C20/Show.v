(** C20 — serialisation of model results for the differential harness (no proofs).
    Output is JSON with ' instead of the double quote, no blanks, no semicolons. *)
From Coq Require Import List String Bool ZArith PrimFloat SpecFloat FloatOps DecimalString.
From V.C20 Require Import Model Spec GenGates.
Import ListNotations.
Open Scope string_scope.

Definition show_nat (n : nat) : string := NilZero.string_of_uint (Nat.to_uint n).
Definition show_Z (z : Z) : string := NilZero.string_of_int (Z.to_int z).

Fixpoint strip (m : positive) (e : Z) : positive * Z :=
  match m with xO p => strip p (e + 1)%Z | _ => (m, e) end.

(* [sign, odd mantissa, exponent] with value = (-1)^sign * m * 2^e ; zero = [s,0,0] *)
Definition show_float (v : float) : string :=
  match Prim2SF v with
  | S754_zero s => "[" ++ (if s then "1" else "0") ++ ",0,0]"
  | S754_finite s m e => let '(m', e') := strip m e in
      "[" ++ (if s then "1" else "0") ++ "," ++ show_Z (Zpos m') ++ "," ++ show_Z e' ++ "]"
  | S754_infinity s => "['inf'," ++ (if s then "1" else "0") ++ "]"
  | S754_nan => "['nan']"
  end.

Definition sep (l : list string) : string := String.concat "," l.
Definition q (s : string) : string := "'" ++ s ++ "'".

Fixpoint show_fexp (e : fexp) : string :=
  match e with
  | FVar n => "['var'," ++ show_nat n ++ "]"
  | FConst v => "['const'," ++ show_float v ++ "]"
  | FAdd a b => "['add'," ++ show_fexp a ++ "," ++ show_fexp b ++ "]"
  | FSub a b => "['sub'," ++ show_fexp a ++ "," ++ show_fexp b ++ "]"
  | FMul a b => "['mul'," ++ show_fexp a ++ "," ++ show_fexp b ++ "]"
  | FDiv a b => "['div'," ++ show_fexp a ++ "," ++ show_fexp b ++ "]"
  | FNeg a => "['neg'," ++ show_fexp a ++ "]"
  end.

Definition show_qid (x : qid) : string :=
  match x with QIn n => "['in'," ++ show_nat n ++ "]" | QNew n => "['new'," ++ show_nat n ++ "]" end.

(* raw (type-erased) form: what a HUGR wire carries *)
Fixpoint show_value (v : value) : string :=
  match v with
  | VQ x => "['qubit'," ++ show_qid x ++ "]"
  | VF e => "['float'," ++ show_fexp (fnorm e) ++ "]"
  | VAng e => "['tuple',[['float'," ++ show_fexp (fnorm e) ++ "]]]"
  | VRot e => "['rot'," ++ show_fexp e ++ "]"
  | VBit (BMeas n) => "['bit',['meas'," ++ show_nat n ++ "]]"
  | VBit (BFeq a b) => "['bit',['feq'," ++ show_fexp (fnorm a) ++ "," ++ show_fexp (fnorm b) ++ "]]"
  | VFut n => "['fut'," ++ show_nat n ++ "]"
  | VOptQ x => "['optq'," ++ show_qid x ++ "]"
  | VTup vs => "['tuple',[" ++ sep (map show_value vs) ++ "]]"
  | VArr vs => "['array',[" ++ sep (map show_value vs) ++ "]]"
  | VStruct _ vs => "['tuple',[" ++ sep (map show_value vs) ++ "]]"
  | VUnit => "['tuple',[]]"
  end.

Definition show_event (e : event) : string :=
  "[" ++ q e.(ev_ext) ++ "," ++ q e.(ev_op) ++ ",[" ++ sep (map show_qid e.(ev_qs)) ++ "],["
      ++ sep (map (fun p => "[" ++ (match fst p with PRot => "'rot'" | PFloat => "'float'" end) ++ "," ++ show_fexp (snd p) ++ "]") e.(ev_ps))
      ++ "]]".

(* the value as an output row: a top-level tuple is flattened, None is the empty row *)
Definition row_of (t : ty) (v : value) : list value :=
  match t, v with
  | TNone, _ => []
  | TTuple _, VTup vs => vs
  | _, _ => [v]
  end.

Definition show_run (main : fn) (args : list value) : string :=
  let tb := mkTables (main :: gen_fns) gen_compilers gen_tables.(t_pi_halfturns) in
  match run_call tb "main" "main" args with
  | Err m => "{'err':" ++ q m ++ "}"
  | Ok (v, en, evs) =>
      "{'ret':[" ++ sep (map show_value (row_of main.(f_ret) v)) ++ "],'after':[" ++ sep (map show_value en)
       ++ "],'events':[" ++ sep (map (fun e => show_event (norm_event e)) evs) ++ "]}"
  end.

(* the DOCUMENTED ops of one library call (Spec.v only; used by the failing-input search) *)
Definition first_qubits (vs : list value) : list qid := doc_qubits vs.
Definition first_angles (vs : list value) : list fexp := flat_map (fun v => match v with VAng h => [h] | _ => [] end) vs.
Definition doc_events (m f : string) (args : list value) : option (list event) :=
  let bm := match is_functional m with Some b => b | None => m end in
  match lookup_fn gen_tables bm f with
  | None => None
  | Some g =>
      match g.(f_bind), naming_lookup bm f with
      | BCustom _ _ _, Some extop => Some [mkEv (fst extop) (snd extop) (doc_qubits args) (doc_params args)]
      | BGuppy _, _ =>
          match doc_composite bm f (nth 0 (first_qubits args) (QIn 99)) (nth 1 (first_qubits args) (QIn 99))
                              (nth 0 (first_angles args) (FVar 99)) (nth 1 (first_angles args) (FVar 99)) with
          | Some (_, _, evs) => Some evs
          | None => None end
      | _, _ => None
      end
  end.
Definition show_doc (m f : string) (args : list value) : string :=
  match doc_events m f args with
  | Some evs => "{'events':[" ++ sep (map (fun e => show_event (norm_event e)) evs) ++ "]}"
  | None => "{'none':1}"
  end.
