(** C29 — Diagnostic rendering is total and faithful.
    Theorems about the executable model coq/C29/Render.v of DiagnosticsRenderer
    (render_diagnostic / render_snippet / wrap), which is tied to /repo's current source by
    the differential harness props/C29 on every run.  Vocabulary (in_source, common_indent,
    removed, shown, marks, words) is defined in Spec.v independently of the renderer. *)
From Coq Require Import String Ascii ZArith Bool List.
From V.Lib Require Import Outcome.
From V.C29 Require Import Render Spec ProofsBase ProofsSnippet ProofsDiag ProofsWrap ProofsWords.
Import ListNotations.
Open Scope Z_scope.

(** render_total.  Preconditions the code relies on, all explicit in [diag_ok]: when the
    diagnostic has a span, that span and the span of every child lie inside the source
    (lines exist, 0 <= column <= line length, start <= end); labels exist only with a span
    (built into the types).  Nothing is required of titles, labels or messages. *)
Theorem render_total : forall src d, diag_ok src d -> exists out, render_diagnostic src d = Ok out.
Proof. exact render_diagnostic_total. Qed.
Print Assumptions render_total.

Definition ex_src : list str := [s "x = 1"; spaces 16 ++ s "foo(a, b)"; spaces 16 ++ s "bar(c)"].
Definition ex_diag : Diag :=
  mkDiag Error (s "T") (s "f.py") (Some (mkSpan (mkLoc 1 0) (mkLoc 1 1), Some (s "main"))) None
         [mkSub Note (Some (mkSpan (mkLoc 2 3) (mkLoc 3 20), Some (s "sub"))) (Some (s "see also"))].
Example render_total_nonvacuous :
  diag_ok ex_src ex_diag /\
  render_diagnostic ex_src ex_diag =
  Ok (map s ["Error: T (at f.py:1:0)"; "  | "; "1 | x = 1"; "  | ^ main"; "  | ";
             "2 |              foo(a, b)"; "  | ----------------------"; "3 |              bar(c)";
             "  | ----------------- sub"; ""; "Note: see also"]%string).
Proof.
  split; [|vm_compute; reflexivity].
  unfold diag_ok, ex_diag, in_source; simpl. repeat split; try (vm_compute; congruence).
  constructor; [|constructor]. unfold sub_ok, in_source; simpl. repeat split; vm_compute; congruence.
Qed.

(** The precondition matters: a span that leaves the source makes the renderer raise. *)
Example render_raises_outside_source :
  exists e, render_diagnostic [s "x"] (mkDiag Error (s "T") (s "f.py") (Some (mkSpan (mkLoc 1 0) (mkLoc 3 0), None)) None []) = Raise e.
Proof. eexists. vm_compute. reflexivity. Qed.

(** Every range of lines has a common indentation, so the next theorems are never vacuous. *)
Theorem common_indent_defined : forall src lo cnt, (0 < cnt)%nat ->
  exists c, common_indent src lo (lo + Z.of_nat cnt - 1) c.
Proof. exact common_indent_exists. Qed.
Print Assumptions common_indent_defined.

(** Only indentation is cut: [removed] is 0 unless the common indentation exceeds 12, it
    keeps at least 4 columns of it, never reaches into the span, and every cut column of
    every line in the range (shown or elided) holds a whitespace character. *)
Theorem trim_only_indentation : forall src sp_ lo c,
  in_source src sp_ -> common_indent src lo (l_line (s_end sp_)) c ->
  let remove := removed c sp_ in
  0 <= remove <= Z.of_nat c /\ remove <= l_col (s_start sp_) /\ remove <= l_col (s_end sp_) /\
  (Z.of_nat c <= 12 -> remove = 0) /\ (12 < Z.of_nat c -> 4 <= Z.of_nat c - remove) /\
  forall n k, lo <= n <= l_line (s_end sp_) -> (Z.of_nat k < remove) ->
              is_ws (nth k (line_at src n) sp) = true.
Proof.
  intros src sp_ lo c IS CI remove. pose proof IS as (_ & _ & _ & H4 & H5 & _).
  pose proof (removed_bounds c sp_ ltac:(apply H4) ltac:(apply H5)) as (R1 & R2 & R3 & R4 & R5).
  repeat split; try assumption; try apply R1.
  intros n k Hn Hk. apply (common_indent_ws src lo (l_line (s_end sp_)) c); [exact CI | exact Hn |].
  fold remove in R1. apply Nat2Z.inj_lt. apply Z.lt_le_trans with remove; [exact Hk | apply R1].
Qed.
Print Assumptions trim_only_indentation.

(** lines_shown + markers_exact, single-line span.  With p = min(prefix_lines, line - 1)
    context lines: the rows are an empty gutter row, the p context lines and the spanned line
    -- each with its true number and minus [removed] columns --, then the marker row whose
    display column k carries the marker iff source column k + removed lies in
    [start.column, end.column), followed by the label part. *)
Theorem lines_shown_markers_exact_single : forall src sp_ label primary p0 c,
  in_source src sp_ -> 0 <= p0 ->
  let L := l_line (s_start sp_) in let p := Z.min p0 (L - 1) in
  common_indent src (L - p) (l_line (s_end sp_)) c ->
  L = l_line (s_end sp_) ->
  let remove := removed c sp_ in
  exists m tail rest,
    render_snippet_rows src sp_ label primary p0 =
      Ok ([(None, [])] ++ map (shown src remove) (zseq (L - p) (Z.to_nat p))
            ++ [shown src remove L; (None, m ++ tail)] ++ rest)
    /\ marks (if primary then "^"%char else "-"%char) remove (l_col (s_start sp_)) (l_col (s_end sp_)) m
    /\ label_part label (length m) tail rest.
Proof. intros. apply snippet_single_rows; assumption. Qed.
Print Assumptions lines_shown_markers_exact_single.

(** lines_shown + markers_exact, multi-line span: first line marked from start.column to its
    end, an ellipsis row iff lines are elided, last line marked from column 0 to end.column. *)
Theorem lines_shown_markers_exact_multi : forall src sp_ label (primary : bool) p0 c,
  in_source src sp_ -> 0 <= p0 ->
  let L1 := l_line (s_start sp_) in let L2 := l_line (s_end sp_) in let p := Z.min p0 (L1 - 1) in
  common_indent src (L1 - p) L2 c ->
  L1 < L2 ->
  let remove := removed c sp_ in let hc : ascii := if primary then "^"%char else "-"%char in
  exists m1 m2 tail rest,
    render_snippet_rows src sp_ label primary p0 =
      Ok ([(None, [])] ++ map (shown src remove) (zseq (L1 - p) (Z.to_nat p))
            ++ [shown src remove L1; (None, m1)]
            ++ (if L1 + 1 <? L2 then [(@None Z, s "...")] else @nil Row)
            ++ [shown src remove L2; (None, m2 ++ tail)] ++ rest)
    /\ marks hc remove (l_col (s_start sp_)) (Z.of_nat (length (line_at src L1))) m1
    /\ marks hc remove 0 (l_col (s_end sp_)) m2
    /\ label_part label (length m2) tail rest.
Proof. intros. apply snippet_multi_rows; assumption. Qed.
Print Assumptions lines_shown_markers_exact_multi.

(** Rows become buffer lines by prefixing a gutter of constant width, so display column k of
    a marker row sits under display column k of the source row above it. *)
Theorem gutter_constant_width : forall w (r : Row),
  (length (match fst r with None => [] | Some n => dec n end) <= w)%nat ->
  exists g, show_row w r = g ++ snd r /\ length g = (w + 3)%nat.
Proof. exact gutter_aligned. Qed.
Print Assumptions gutter_constant_width.

(** wrap_at_space, full strength, is REFUTED: textwrap's default break_long_words cuts a
    70-character word (finding; same input replayed on the real renderer by the corpus). *)
Theorem wrap_at_space_refuted : exists text,
  forallb printable text = true /\
  flat_map words (wrap_list text MAX_LABEL_LINE_LEN [] []) <> words text.
Proof. exists long_word_text. exact long_word_refutes. Qed.
Print Assumptions wrap_at_space_refuted.

(** wrap_at_space_partial / words_preserved for wrapped text: if every paragraph consists of
    printable characters and none of its words or whitespace runs is longer than the width,
    the words of the produced lines are exactly the words of the text, in order -- no word is
    lost or broken, i.e. lines are broken only at whitespace.  (The model of textwrap is
    validated against the code for text in which no "-" is directly followed by a letter,
    digit or "_"; the hyphen break of other text is the second listed finding.) *)
Theorem wrap_at_space_partial : forall text width ii si,
  Forall (para_ok width) (splitlines text) -> all_spaces ii -> all_spaces si ->
  flat_map words (wrap_list text width ii si) = words text.
Proof. exact wrap_words. Qed.
Print Assumptions wrap_at_space_partial.

Example wrap_at_space_partial_nonvacuous :
  let t := s "Expected argument of type `int`, got `bool` in the call to the function defined above" in
  Forall (para_ok 60) (splitlines t) /\ length (wrap_list t 60 [sp] (spaces 3)) = 2%nat.
Proof. split; [|vm_compute; reflexivity]. repeat constructor; vm_compute; intros; congruence. Qed.

(** words_preserved for labels: the marker-row tail and the continuation rows of a snippet
    carry exactly the words of the label. *)
Theorem label_words_preserved : forall label lbl mlen tail rest,
  nonempty label = Some lbl -> label_part label mlen tail rest ->
  Forall (para_ok MAX_LABEL_LINE_LEN) (splitlines lbl) ->
  flat_map words (tail :: map snd rest) = words lbl.
Proof. exact label_words. Qed.
Print Assumptions label_words_preserved.
