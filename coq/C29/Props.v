From Coq Require Import String Ascii ZArith List.
From V.Lib Require Import Outcome.
From V.C29 Require Import Render.
Import ListNotations. Open Scope Z_scope.
Example smoke : wrap_list (s "a b") 60 [] [] = [s "a b"].
Proof. vm_compute. reflexivity. Qed.
Print Assumptions smoke.
