(** C29 — basic lemmas: Python slicing in range, indentation, minimum, marker banners. *)
From Coq Require Import String Ascii ZArith Bool List Lia ZifyBool.
From V.Lib Require Import Outcome.
From V.C29 Require Import Render Spec.
Import ListNotations.
Open Scope Z_scope.

Lemma lstrip_indent : forall l, indent_of l (lstrip_len l).
Proof.
  induction l as [|c l IH]; simpl.
  - split; [lia|]. split; [intros k H; lia | left; reflexivity].
  - destruct (is_ws c) eqn:E.
    + destruct IH as (A & B & C). split; [simpl; lia|]. split.
      * intros [|k] H; simpl; [exact E | apply B; lia].
      * simpl. destruct C as [C|C]; [left; lia | right; exact C].
    + split; [simpl; lia|]. split; [intros k H; lia | right; exact E].
Qed.

Lemma indent_unique : forall l a b, indent_of l a -> indent_of l b -> a = b.
Proof.
  intros l a b (A1 & A2 & A3) (B1 & B2 & B3).
  destruct (Nat.lt_trichotomy a b) as [H|[H|H]]; [|assumption|].
  - destruct A3 as [A3|A3]; [lia|]. rewrite (B2 a H) in A3. discriminate.
  - destruct B3 as [B3|B3]; [lia|]. rewrite (A2 b H) in B3. discriminate.
Qed.

Lemma fold_min_spec : forall ns n0,
  (fold_left Nat.min ns n0 <= n0)%nat /\
  (forall x, In x ns -> (fold_left Nat.min ns n0 <= x)%nat) /\
  (fold_left Nat.min ns n0 = n0 \/ In (fold_left Nat.min ns n0) ns).
Proof.
  induction ns as [|a ns IH]; intros n0; simpl.
  - split; [lia|]. split; [intros x []| left; reflexivity].
  - destruct (IH (Nat.min n0 a)) as (A & B & C). split; [lia|]. split.
    + intros x [<-|H]; [lia | apply B; exact H].
    + destruct C as [C|C]; [|right; right; exact C].
      destruct (Nat.min_spec n0 a) as [[_ E]|[_ E]]; rewrite E in C; [left | right; left]; congruence.
Qed.

(* ---- Python slicing inside the list ---- *)
Lemma py_slice_range : forall {A} (l : list A) a b,
  0 <= a <= b -> b <= Z.of_nat (length l) ->
  py_slice l a b = firstn (Z.to_nat (b - a)) (skipn (Z.to_nat a) l).
Proof.
  intros A l a b H1 H2. unfold py_slice, clampi.
  destruct (a <? 0) eqn:Ea; [lia|]. destruct (b <? 0) eqn:Eb; [lia|].
  rewrite (Z.min_l a) by lia. rewrite (Z.min_l b) by lia. reflexivity.
Qed.

Lemma py_from_range : forall {A} (l : list A) a,
  0 <= a <= Z.of_nat (length l) -> py_from l a = skipn (Z.to_nat a) l.
Proof.
  intros A l a H. unfold py_from. rewrite py_slice_range by lia.
  apply firstn_all2. rewrite skipn_length. lia.
Qed.

Lemma py_upto_range : forall {A} (l : list A) b,
  0 <= b <= Z.of_nat (length l) -> py_upto l b = firstn (Z.to_nat b) l.
Proof.
  intros A l b H. unfold py_upto. rewrite py_slice_range by lia. simpl. f_equal. lia.
Qed.

Lemma skipn_cons_nth : forall {A} (l : list A) d a, (a < length l)%nat ->
  skipn a l = nth a l d :: skipn (S a) l.
Proof.
  induction l as [|x l IH]; intros d a H; simpl in H; [lia|].
  destruct a as [|a]; [reflexivity|]. simpl. apply IH. lia.
Qed.

Lemma firstn_skipn_nth : forall {A} (l : list A) d n a, (a + n <= length l)%nat ->
  firstn n (skipn a l) = map (fun i => nth (a + i) l d) (seq 0 n).
Proof.
  induction n as [|n IH]; intros a H; [reflexivity|].
  rewrite (skipn_cons_nth l d a) by lia. cbn [firstn seq map]. rewrite Nat.add_0_r. f_equal.
  rewrite IH by lia. rewrite <- seq_shift, map_map. apply map_ext. intros i. f_equal. lia.
Qed.

Lemma zseq_length : forall lo n, length (zseq lo n) = n.
Proof. intros. unfold zseq. rewrite map_length, seq_length. reflexivity. Qed.

Lemma zseq_S : forall lo n, zseq lo (S n) = lo :: zseq (lo + 1) n.
Proof.
  intros. unfold zseq. cbn [seq map]. f_equal; [lia|].
  rewrite <- seq_shift, map_map. apply map_ext. intros. lia.
Qed.

Lemma zseq_app : forall lo a b, zseq lo (a + b) = zseq lo a ++ zseq (lo + Z.of_nat a) b.
Proof.
  intros lo a. revert lo. induction a as [|a IH]; intros lo b.
  - simpl. f_equal. lia.
  - change (S a + b)%nat with (S (a + b)). rewrite !zseq_S, IH. simpl. do 3 f_equal. lia.
Qed.

Lemma zseq_In : forall lo n x, In x (zseq lo n) <-> lo <= x < lo + Z.of_nat n.
Proof.
  intros. unfold zseq. rewrite in_map_iff. split.
  - intros (i & <- & H). apply in_seq in H. lia.
  - intros H. exists (Z.to_nat (x - lo)). split; [lia|]. apply in_seq. lia.
Qed.

Lemma slice_lines : forall src lo hi,
  1 <= lo -> lo <= hi + 1 -> hi <= Z.of_nat (length src) ->
  py_slice src (lo - 1) hi = map (line_at src) (zseq lo (Z.to_nat (hi - lo + 1))).
Proof.
  intros src lo hi H1 H2 H3. rewrite py_slice_range by lia.
  replace (hi - (lo - 1)) with (hi - lo + 1) by lia.
  rewrite (firstn_skipn_nth src []) by lia. unfold zseq. rewrite map_map.
  apply map_ext. intros i. unfold line_at. f_equal. lia.
Qed.

(* ---- marker banners ---- *)
Lemma nth_repeat_lt : forall {A} (x d : A) n k, (k < n)%nat -> nth k (repeat x n) d = x.
Proof.
  induction n as [|n IH]; intros k H; [lia|]. destruct k; simpl; [reflexivity | apply IH; lia].
Qed.

Lemma marks_highlight : forall hc remove a b, 0 <= a <= b ->
  marks hc remove (a + remove) (b + remove) (rep sp a ++ rep hc (b - a)).
Proof.
  intros hc remove a b H. unfold marks, rep. rewrite app_length, !repeat_length. split; [lia|].
  intros k Hk. destruct (Nat.lt_ge_cases k (Z.to_nat a)) as [L|L].
  - rewrite app_nth1 by (rewrite repeat_length; exact L). rewrite nth_repeat_lt by exact L.
    destruct (a + remove <=? Z.of_nat k + remove) eqn:E; [lia | reflexivity].
  - rewrite app_nth2 by (rewrite repeat_length; exact L). rewrite repeat_length.
    rewrite nth_repeat_lt by lia.
    destruct (a + remove <=? Z.of_nat k + remove) eqn:E1; [|lia].
    destruct (Z.of_nat k + remove <? b + remove) eqn:E2; [reflexivity | lia].
Qed.

Lemma marks_lo : forall hc remove lo lo' hi m, lo <= remove -> lo' <= remove ->
  marks hc remove lo hi m -> marks hc remove lo' hi m.
Proof.
  intros hc remove lo lo' hi m H1 H2 (A & B). split; [exact A|]. intros k Hk. rewrite (B k Hk).
  destruct (lo <=? Z.of_nat k + remove) eqn:E1; [|lia].
  destruct (lo' <=? Z.of_nat k + remove) eqn:E2; [reflexivity | lia].
Qed.

Lemma split_last_app : forall {A} (l : list A) x, split_last (l ++ [x]) = Some (l, x).
Proof. intros. unfold split_last. rewrite rev_app_distr. simpl. rewrite rev_involutive. reflexivity. Qed.

Lemma number_from_zseq : forall (f : Z -> list ascii) n lo,
  number_from lo (map f (zseq lo n)) = map (fun k => (Some k, f k)) (zseq lo n).
Proof.
  induction n as [|n IH]; intros lo; [reflexivity|].
  rewrite zseq_S. cbn [map number_from]. f_equal. apply IH.
Qed.
