(** C29 — words of a label survive in the rows that carry it; gutter alignment; witnesses. *)
From Coq Require Import String Ascii ZArith Bool List Lia.
From V.Lib Require Import Outcome.
From V.C29 Require Import Render Spec ProofsBase ProofsSnippet ProofsWrap.
Import ListNotations.

Lemma all_spaces_spaces : forall n, all_spaces (spaces n).
Proof. induction n; [reflexivity|]. unfold all_spaces in *. simpl. exact IHn. Qed.

Lemma label_words : forall label lbl mlen tail rest,
  nonempty label = Some lbl -> label_part label mlen tail rest ->
  Forall (para_ok MAX_LABEL_LINE_LEN) (splitlines lbl) ->
  flat_map words (tail :: map snd rest) = words lbl.
Proof.
  intros label lbl mlen tail rest HN LP HP. unfold label_part in LP. rewrite HN in LP.
  destruct LP as (r & Ew & ->). rewrite map_map. simpl snd. rewrite map_id.
  rewrite <- (wrap_words lbl MAX_LABEL_LINE_LEN [sp] (spaces (mlen + 1)) HP); [| reflexivity | apply all_spaces_spaces].
  unfold wrap_list. rewrite Ew. reflexivity.
Qed.

Lemma gutter_aligned : forall w (r : Row),
  (length (match fst r with None => [] | Some n => dec n end) <= w)%nat ->
  exists g, show_row w r = g ++ snd r /\ length g = (w + 3)%nat.
Proof.
  intros w r H. unfold show_row.
  set (ll := match fst r with None => [] | Some n => dec n end) in *.
  exists (spaces (w - length ll) ++ ll ++ s " | "). split.
  - rewrite <- !app_assoc. reflexivity.
  - rewrite !app_length. unfold spaces. rewrite repeat_length. change (length (s " | ")) with 3%nat. assert (H1 : (length ll <= w)%nat) by exact H. lia.
Qed.

Definition long_word_text : str := repeat "a"%char 70 ++ s " tail".

Lemma long_word_refutes : forallb printable long_word_text = true /\
  flat_map words (wrap_list long_word_text MAX_LABEL_LINE_LEN [] []) <> words long_word_text.
Proof. split; [vm_compute; reflexivity|]. intros H. vm_compute in H. discriminate H. Qed.
