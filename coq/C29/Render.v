(** C29 — executable model of guppylang_internals.diagnostic.DiagnosticsRenderer
    (render_diagnostic, render_snippet, wrap) and of the parts of span.py / CPython it
    uses (Loc.shift_left, Span constructor guard, Span.__len__, SourceMap.span_lines,
    str(int), str.lstrip, str.splitlines, textwrap.wrap with its default options on text
    without hyphen break points).  Hand-written; tied to the code by the differential harness
    props/C29 (X).  Definitions only — no proofs in this file.

    Strings are [list ascii].  The model is meant for ASCII text whose only line-break
    character is "\n" (code 10); other ASCII line-break characters (11,12,13,28,29,30)
    are outside the modelled domain of [splitlines]. *)
From Coq Require Import String Ascii ZArith Bool List.
From V.Lib Require Import Outcome.
Import ListNotations.
Open Scope Z_scope.

Definition str := list ascii.
Definition s (x : string) : str := list_ascii_of_string x.
Definition sp : ascii := " "%char.
Definition spaces (n : nat) : str := repeat sp n.
Definition code (c : ascii) : N := N_of_ascii c.

(** Python [str.isspace] restricted to ASCII: 9-13 and 28-32. *)
Definition is_ws (c : ascii) : bool :=
  let n := code c in ((9 <=? n) && (n <=? 13) || (28 <=? n) && (n <=? 32))%N.
(** [textwrap]'s whitespace set "\t\n\x0b\x0c\r ". *)
Definition is_tw_ws (c : ascii) : bool :=
  let n := code c in ((9 <=? n) && (n <=? 13) || (n =? 32))%N.
Definition is_nl (c : ascii) : bool := (code c =? 10)%N.
Definition is_tab (c : ascii) : bool := (code c =? 9)%N.
Definition is_sp (c : ascii) : bool := (code c =? 32)%N.

(* ------------------------------------------------------------------------------ *)
(** * str(int) *)

Definition digit (d : Z) : ascii := ascii_of_N (48 + Z.to_N d).

Fixpoint dec_aux (fuel : nat) (n : Z) (acc : str) : str :=
  match fuel with
  | O => acc
  | S f => let acc' := digit (n mod 10) :: acc in
           if n <? 10 then acc' else dec_aux f (n / 10) acc'
  end.
Definition dec_nonneg (n : Z) : str := dec_aux (S (Z.to_nat (Z.log2 n))) n [].
(** Python [str(n)] *)
Definition dec (n : Z) : str :=
  if n <? 0 then "-"%char :: dec_nonneg (- n) else dec_nonneg n.

(* ------------------------------------------------------------------------------ *)
(** * Python slicing [l[a:b]] (step 1) with Python's treatment of negative / large indices *)

Definition clampi (len i : Z) : Z := if i <? 0 then Z.max 0 (i + len) else Z.min i len.
Definition py_slice {A} (l : list A) (a b : Z) : list A :=
  let n := Z.of_nat (length l) in
  let a' := clampi n a in let b' := clampi n b in
  firstn (Z.to_nat (b' - a')) (skipn (Z.to_nat a') l).
Definition py_from {A} (l : list A) (a : Z) : list A := py_slice l a (Z.of_nat (length l)).
Definition py_upto {A} (l : list A) (b : Z) : list A := py_slice l 0 b.
(** ["c" * n] : empty for n <= 0 *)
Definition rep (c : ascii) (n : Z) : str := repeat c (Z.to_nat n).

(* ------------------------------------------------------------------------------ *)
(** * span.py *)

Record Loc := mkLoc { l_line : Z; l_col : Z }.
Record Span := mkSpan { s_start : Loc; s_end : Loc }.

(** dataclass(order=True) on (file, line, column), same file *)
Definition loc_le (a b : Loc) : bool :=
  (l_line a <? l_line b) || ((l_line a =? l_line b) && (l_col a <=? l_col b)).
(** [Span(a, b)] : __post_init__ raises when start > end *)
Definition new_span (a b : Loc) : res Span :=
  if loc_le a b then Ok (mkSpan a b) else Raise "InternalGuppyError: Span: Start after end".
(** [Loc.shift_left] : [assert self.column >= cols] *)
Definition loc_shift_left (l : Loc) (cols : Z) : res Loc :=
  if cols <=? l_col l then Ok (mkLoc (l_line l) (l_col l - cols)) else Raise "AssertionError".
Definition span_shift_left (sp : Span) (cols : Z) : res Span :=
  res_bind (loc_shift_left (s_start sp) cols) (fun a =>
  res_bind (loc_shift_left (s_end sp) cols) (fun b => new_span a b)).
Definition is_multiline (sp : Span) : bool := negb (l_line (s_start sp) =? l_line (s_end sp)).
(** [SourceMap.span_lines] *)
Definition span_lines (src : list str) (sp : Span) (prefix : Z) : list str :=
  py_slice src (l_line (s_start sp) - prefix - 1) (l_line (s_end sp)).

(* ------------------------------------------------------------------------------ *)
(** * wrap *)

(** [str.splitlines()] for texts whose only line-break character is "\n" *)
Fixpoint splitlines_aux (cur : str) (t : str) : list str :=
  match t with
  | [] => match cur with [] => [] | _ => [rev cur] end
  | c :: t' => if is_nl c then rev cur :: splitlines_aux [] t' else splitlines_aux (c :: cur) t'
  end.
Definition splitlines (t : str) : list str := splitlines_aux [] t.

(** [str.expandtabs(8)] on a paragraph (no line breaks inside) *)
Fixpoint expandtabs (col : nat) (t : str) : str :=
  match t with
  | [] => []
  | c :: t' => if is_tab c then let n := (8 - Nat.modulo col 8)%nat in spaces n ++ expandtabs (col + n) t'
               else c :: expandtabs (S col) t'
  end.
(** [TextWrapper._munge_whitespace] : expand tabs, then every textwrap-whitespace -> " " *)
Definition munge (t : str) : str :=
  map (fun c => if is_tw_ws c then sp else c) (expandtabs 0 t).

(** [wordsep_simple_re.split] + dropping empty chunks: maximal runs of spaces / non-spaces *)
Fixpoint chunks (t : str) : list str :=
  match t with
  | [] => []
  | c :: t' =>
    match chunks t' with
    | (d :: ch) :: rest => if Bool.eqb (is_sp c) (is_sp d) then (c :: d :: ch) :: rest
                           else [c] :: (d :: ch) :: rest
    | _ => [[c]]
    end
  end.

(** [chunk.strip() == ''] *)
Definition blank (ch : str) : bool := forallb is_ws ch.

(** inner [while chunks: if cur_len + l <= width: ...pop... else break] *)
Fixpoint fill (width cur_len : nat) (chs : list str) : list str * list str :=
  match chs with
  | [] => ([], [])
  | c :: r => if (cur_len + length c <=? width)%nat
              then let '(a, b) := fill width (cur_len + length c) r in (c :: a, b)
              else ([], chs)
  end.

Definition drop_last_blank (cur : list str) : list str :=
  match rev cur with
  | l :: r => if blank l then rev r else cur
  | [] => cur
  end.

(** [TextWrapper._wrap_chunks] with the defaults drop_whitespace=True, break_long_words=True,
    max_lines=None, empty indents.  [first] = "no line emitted so far".  A chunk longer than
    the width is cut by [_handle_long_word] ([chunk[:space_left]] goes on the current line).
    Only faithful for text without hyphen break points (see [tw_wrap]). *)
Fixpoint wrap_chunks (fuel : nat) (width : nat) (first : bool) (chs : list str) : list str :=
  match fuel with
  | O => []
  | S f =>
    match chs with
    | [] => []
    | c0 :: r0 =>
      let chs1 := if negb first && blank c0 then r0 else chs in
      let '(cur, rest) := fill width 0 chs1 in
      let '(cur2, rest2) :=
        match rest with
        | c :: r => if (width <? length c)%nat
                    then let space_left := if (width <? 1)%nat then 1%nat
                                           else (width - length (concat cur))%nat in
                         (cur ++ [firstn space_left c], skipn space_left c :: r)
                    else (cur, rest)
        | [] => (cur, rest)
        end in
      let cur3 := drop_last_blank cur2 in
      match cur3 with
      | [] => wrap_chunks f width first rest2
      | _ => concat cur3 :: wrap_chunks f width false rest2
      end
    end
  end.

(** [textwrap.wrap(paragraph, width)] (all defaults) for paragraphs in which no "-" is
    directly followed by a letter, digit or "_": then [wordsep_re] (break_on_hyphens=True)
    splits exactly like the whitespace-only [wordsep_simple_re], and [_handle_long_word]
    finds no hyphen to break after... unless the long word itself contains "-": the
    modelled domain therefore also requires that words longer than the width contain no "-". *)
Definition tw_wrap (width : nat) (para : str) : list str :=
  let chs := chunks (munge para) in wrap_chunks (S (length (concat chs))) width true chs.

(** [diagnostic.wrap(text, width, initial_indent=ii, subsequent_indent=si)]; the result is
    never empty, so it is returned as (first, rest). *)
Definition wrap_lines (text : str) (width : nat) : list str :=
  flat_map (fun p => match p with [] => [[]] | _ => tw_wrap width p end) (splitlines text).
Definition wrap (text : str) (width : nat) (ii si : str) : str * list str :=
  match wrap_lines text width with
  | [] => (ii, [])
  | f :: r => (ii ++ f, map (fun l => si ++ l) r)
  end.
Definition wrap_list (text : str) (width : nat) (ii si : str) : list str :=
  let '(f, r) := wrap text width ii si in f :: r.

(* ------------------------------------------------------------------------------ *)
(** * render_snippet *)

Definition MAX_LEADING_WHITESPACE : Z := 12.
Definition OPTIMAL_LEADING_WHITESPACE : Z := 4.
Definition MAX_LABEL_LINE_LEN : nat := 60.
Definition MAX_MESSAGE_LINE_LEN : nat := 80.
Definition PREFIX_CONTEXT_LINES : Z := 2.

(** [len(line) - len(line.lstrip())] *)
Fixpoint lstrip_len (l : str) : nat :=
  match l with
  | c :: l' => if is_ws c then S (lstrip_len l') else O
  | [] => O
  end.

(** A rendered row: optional line number in the gutter, and the text right of " | ". *)
Definition Row := (option Z * str)%type.

Definition show_row (ll_length : nat) (r : Row) : str :=
  let ll := match fst r with None => [] | Some n => dec n end in
  spaces (ll_length - length ll) ++ ll ++ s " | " ++ snd r.

Definition split_last {A} (l : list A) : option (list A * A) :=
  match rev l with
  | x :: r => Some (rev r, x)
  | [] => None
  end.

Fixpoint number_from (n : Z) (ls : list str) : list Row :=
  match ls with
  | [] => []
  | l :: r => (Some n, l) :: number_from (n + 1) r
  end.

Definition highlight (hc : ascii) (sp_ : Span) : str :=
  rep sp (l_col (s_start sp_)) ++ rep hc (l_col (s_end sp_) - l_col (s_start sp_)).

Definition nonempty (o : option str) : option str :=
  match o with Some (c :: l) => Some (c :: l) | _ => None end.

(** [min(len(line) - len(line.lstrip()) for line in all_lines)] *)
Definition min_leading (lines : list str) : res Z :=
  match map lstrip_len lines with
  | [] => Raise "ValueError: min() arg is an empty sequence"
  | n0 :: ns => Ok (Z.of_nat (fold_left Nat.min ns n0))
  end.

(** removal of excessive common indentation; the span moves with the text *)
Definition trim (all_lines : list str) (span : Span) (lead : Z) : res (list str * Span) :=
  if MAX_LEADING_WHITESPACE <? lead then
    let remove := Z.min (Z.min (lead - OPTIMAL_LEADING_WHITESPACE) (l_col (s_start span)))
                        (l_col (s_end span)) in
    res_bind (span_shift_left span remove) (fun span' =>
    Ok (map (fun line => py_from line remove) all_lines, span'))
  else Ok (all_lines, span).

(** rows for the first line of a multi-line span (with its banner and the ellipsis), the
    last spanned line and the sub-span that covers it *)
Definition body (hc : ascii) (span : Span) (span_lines : list str) : res (list Row * str * Span) :=
  if is_multiline span then
    match span_lines with
    | first :: rest =>
      match split_last rest with
      | Some (middle, last) =>
        res_bind (new_span (s_start span)
                           (mkLoc (l_line (s_start span)) (Z.of_nat (length first)))) (fun first_span =>
        res_bind (new_span (mkLoc (l_line (s_end span)) 0) (s_end span)) (fun last_span =>
        Ok ([(Some (l_line (s_start span)), first); (None, highlight hc first_span)]
              ++ (match middle with [] => [] | _ => [(None, s "...")] end),
            last, last_span)))
      | None => Raise "ValueError: not enough values to unpack"
      end
    | [] => Raise "ValueError: not enough values to unpack"
    end
  else
    match span_lines with
    | [last] => Ok ([], last, span)
    | _ => Raise "ValueError: wrong number of values to unpack"
    end.

Definition label_rows (label : option str) (last_highlight : str) : list Row :=
  match nonempty label with
  | Some lbl =>
    let '(f, r) := wrap lbl MAX_LABEL_LINE_LEN [sp] (spaces (length last_highlight + 1)) in
    (None, last_highlight ++ f) :: map (fun l => (None, l)) r
  | None => [(None, last_highlight)]
  end.

Definition render_snippet_rows (src : list str) (span : Span) (label : option str)
           (is_primary : bool) (prefix_lines : Z) : res (list Row) :=
  let hc := if is_primary then "^"%char else "-"%char in
  let prefix := Z.min prefix_lines (l_line (s_start span) - 1) in
  let all_lines := span_lines src span prefix in
  res_bind (min_leading all_lines) (fun lead =>
  res_bind (trim all_lines span lead) (fun '(all_lines, span) =>
  let pre_rows := number_from (l_line (s_start span) - prefix) (py_upto all_lines prefix) in
  res_bind (body hc span (py_from all_lines prefix)) (fun '(rows, last, last_span) =>
  Ok ([(None, [])] ++ pre_rows ++ rows ++ [(Some (l_line (s_end span)), last)]
        ++ label_rows label (highlight hc last_span))))).

Definition render_snippet (src : list str) (span : Span) (label : option str) (max_lineno : Z)
           (is_primary : bool) (prefix_lines : Z) : res (list str) :=
  res_bind (render_snippet_rows src span label is_primary prefix_lines) (fun rows =>
  Ok (map (show_row (length (dec max_lineno))) rows)).

(* ------------------------------------------------------------------------------ *)
(** * render_diagnostic *)

Inductive Level := Fatal | Error | Warning | Note | Help.
Definition level_str (l : Level) : str :=
  match l with
  | Fatal => s "Fatal" | Error => s "Error" | Warning => s "Warning" | Note => s "Note" | Help => s "Help"
  end.

(** A span label can only exist together with a span (SubDiagnostic.__post_init__). *)
Record SubDiag := mkSub {
  sd_level : Level;
  sd_span : option (Span * option str);
  sd_message : option str }.
Record Diag := mkDiag {
  d_level : Level;
  d_title : str;
  d_file : str;
  d_span : option (Span * option str);
  d_message : option str;
  d_children : list SubDiag }.

Definition loc_str (file : str) (l : Loc) : str :=
  file ++ s ":" ++ dec (l_line l) ++ s ":" ++ dec (l_col l).

Fixpoint render_subs (src : list str) (max_lineno : Z) (cs : list SubDiag) : res (list str) :=
  match cs with
  | [] => Ok []
  | c :: r =>
    res_bind (match sd_span c with
              | Some (sp_, lbl) => render_snippet src sp_ lbl max_lineno false 0
              | None => Ok []
              end) (fun a =>
    res_bind (render_subs src max_lineno r) (fun b => Ok (a ++ b)))
  end.

Definition sub_messages (cs : list SubDiag) : list str :=
  flat_map (fun c => match nonempty (sd_message c) with
                     | Some m => [] :: wrap_list (level_str (sd_level c) ++ s ": " ++ m) MAX_MESSAGE_LINE_LEN [] []
                     | None => []
                     end) cs.

Definition child_spans (cs : list SubDiag) : list Span :=
  flat_map (fun c => match sd_span c with Some (sp_, _) => [sp_] | None => [] end) cs.

Definition render_diagnostic (src : list str) (d : Diag) : res (list str) :=
  res_bind
    (match d_span d with
     | None =>
       let msg := match nonempty (d_message d) with Some m => m | None => d_title d end in
       Ok (wrap_list (level_str (d_level d) ++ s ": " ++ msg) MAX_MESSAGE_LINE_LEN [] [])
     | Some (span, label) =>
       let max_lineno := fold_left Z.max (map (fun x => l_line (s_end x)) (child_spans (d_children d)))
                                   (l_line (s_end span)) in
       let title_line := level_str (d_level d) ++ s ": " ++ d_title d ++ s " (at "
                                   ++ loc_str (d_file d) (s_start span) ++ s ")" in
       res_bind (render_snippet src span label max_lineno true PREFIX_CONTEXT_LINES) (fun main =>
       res_bind (render_subs src max_lineno (d_children d)) (fun subs =>
       Ok ([title_line] ++ main ++ subs ++
           match nonempty (d_message d) with
           | Some m => [] :: wrap_list m MAX_MESSAGE_LINE_LEN [] []
           | None => []
           end)))
     end)
    (fun out => Ok (out ++ sub_messages (d_children d))).
