(** C29 — helpers for the correspondence harness (no proofs): building case inputs and
    comparing the model's result with the buffer observed on the implementation. *)
From Coq Require Import String Ascii ZArith Bool List.
From V.Lib Require Import Outcome.
From V.C29 Require Import Render.
Import ListNotations.

(** one character given by its code *)
Definition c (n : nat) : str := [ascii_of_nat n].

Fixpoint str_eqb (a b : str) : bool :=
  match a, b with
  | [], [] => true
  | x :: a', y :: b' => Ascii.eqb x y && str_eqb a' b'
  | _, _ => false
  end.
Fixpoint lines_eqb (a b : list str) : bool :=
  match a, b with
  | [], [] => true
  | x :: a', y :: b' => str_eqb x y && lines_eqb a' b'
  | _, _ => false
  end.

(** expected = Some buffer | None (the implementation raised) *)
Definition agree (r : res (list str)) (expected : option (list str)) : bool :=
  match r, expected with
  | Ok l, Some l' => lines_eqb l l'
  | Raise _, None => true
  | _, _ => false
  end.

Definition codes (l : str) : list N := map N_of_ascii l.
(** [1; lines...] for Ok, [0; [message]] for Raise — printed only for disagreeing cases *)
Definition show (r : res (list str)) : list (list N) :=
  match r with
  | Ok l => [1%N] :: map codes l
  | Raise e => [[0%N]; codes (list_ascii_of_string e)]
  end.
