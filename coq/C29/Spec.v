(** C29 — specification-side vocabulary, written from the property text: what it means for
    a span to lie in the source, what the common indentation of a range of lines is, which
    display columns must carry a marker, what the words of a text are.  None of these
    definitions mentions the renderer. *)
From Coq Require Import String Ascii ZArith Bool List.
From V.C29 Require Import Render.
Import ListNotations.
Open Scope Z_scope.

(** Source line number [n] (1-based). *)
Definition line_at (src : list str) (n : Z) : str := nth (Z.to_nat (n - 1)) src [].

(** "The span lies within the registered source": lines exist, columns are positions of
    their lines (end exclusive, so a column may equal the line length), start <= end. *)
Definition in_source (src : list str) (sp_ : Span) : Prop :=
  1 <= l_line (s_start sp_) /\ l_line (s_start sp_) <= l_line (s_end sp_) /\
  l_line (s_end sp_) <= Z.of_nat (length src) /\
  0 <= l_col (s_start sp_) <= Z.of_nat (length (line_at src (l_line (s_start sp_)))) /\
  0 <= l_col (s_end sp_) <= Z.of_nat (length (line_at src (l_line (s_end sp_)))) /\
  (l_line (s_start sp_) = l_line (s_end sp_) -> l_col (s_start sp_) <= l_col (s_end sp_)).

(** [n] is the indentation of [l]: its first [n] characters are whitespace and the next one
    (if any) is not. *)
Definition indent_of (l : str) (n : nat) : Prop :=
  (n <= length l)%nat /\ (forall k, (k < n)%nat -> is_ws (nth k l sp) = true) /\
  (n = length l \/ is_ws (nth n l sp) = false).

(** [c] is the smallest indentation among source lines [lo..hi]. *)
Definition common_indent (src : list str) (lo hi : Z) (c : nat) : Prop :=
  (forall n k, lo <= n <= hi -> indent_of (line_at src n) k -> (c <= k)%nat) /\
  (exists n, lo <= n <= hi /\ indent_of (line_at src n) c).

(** How many leading columns the property allows to be cut: nothing unless the common
    indentation exceeds 12; then all but 4 columns of it, but never a column of the span. *)
Definition removed (c : nat) (sp_ : Span) : Z :=
  if 12 <? Z.of_nat c
  then Z.min (Z.min (Z.of_nat c - 4) (l_col (s_start sp_))) (l_col (s_end sp_))
  else 0.

(** The row showing source line [n] with its true number, minus [remove] leading columns. *)
Definition shown (src : list str) (remove : Z) (n : Z) : Row :=
  (Some n, skipn (Z.to_nat remove) (line_at src n)).
(** lo, lo+1, ..., lo+cnt-1 *)
Definition zseq (lo : Z) (cnt : nat) : list Z := map (fun i => lo + Z.of_nat i) (seq 0 cnt).

(** [m] is a marker banner for source columns [lo, hi) displayed after cutting [remove]
    columns: display column k shows [hc] iff source column k + remove is in [lo, hi), a
    space otherwise, and the banner ends with the last marked column. *)
Definition marks (hc : ascii) (remove lo hi : Z) (m : str) : Prop :=
  Z.of_nat (length m) = Z.max 0 (hi - remove) /\
  forall k, (k < length m)%nat ->
    nth k m sp = if (lo <=? Z.of_nat k + remove) && (Z.of_nat k + remove <? hi) then hc else sp.

(** Whitespace-separated words of a text (Python [str.split()] on ASCII). *)
Definition wcons (c : ascii) (t' : str) (r : list str) : list str :=
  if is_ws c then r else
  match t' with
  | d :: _ => if is_ws d then [c] :: r else match r with w :: ws => (c :: w) :: ws | [] => [[c]] end
  | [] => [[c]]
  end.
Fixpoint words (t : str) : list str :=
  match t with
  | [] => []
  | c :: t' => wcons c t' (words t')
  end.

(** Text domain of the wrapping theorems: printable ASCII and "\n". *)
Definition text_char (c : ascii) : bool :=
  let n := code c in ((32 <=? n) && (n <=? 126) || (n =? 10))%N.
Definition text_ok (t : str) : Prop := forallb text_char t = true.
Definition all_spaces (t : str) : Prop := forallb is_sp t = true.
