(** C29 — render_snippet: the rows it produces for a span inside the source. *)
From Coq Require Import String Ascii ZArith Bool List Lia ZifyBool.
From V.Lib Require Import Outcome.
From V.C29 Require Import Render Spec ProofsBase.
Import ListNotations.
Open Scope Z_scope.

Lemma min_leading_ok : forall src lo cnt c,
  (0 < cnt)%nat -> common_indent src lo (lo + Z.of_nat cnt - 1) c ->
  min_leading (map (line_at src) (zseq lo cnt)) = Ok (Z.of_nat c).
Proof.
  intros src lo cnt c Hc (Hmin & n & Hn & Hind). unfold min_leading.
  destruct (map lstrip_len (map (line_at src) (zseq lo cnt))) as [|n0 ns] eqn:E.
  - apply (f_equal (@length nat)) in E. rewrite !map_length, zseq_length in E. simpl in E. lia.
  - f_equal. f_equal.
    assert (HIn : forall x, In x (n0 :: ns) <-> exists k, lo <= k < lo + Z.of_nat cnt /\ x = lstrip_len (line_at src k)).
    { intros x. rewrite <- E, map_map, in_map_iff. split.
      - intros (k & <- & Hk). exists k. rewrite zseq_In in Hk. auto.
      - intros (k & Hk & ->). exists k. rewrite zseq_In. auto. }
    destruct (fold_min_spec ns n0) as (A & B & C). set (m := fold_left Nat.min ns n0) in *.
    assert (Hm : In m (n0 :: ns)) by (destruct C as [C|C]; [left; auto | right; auto]).
    apply HIn in Hm. destruct Hm as (k & Hk & Em).
    assert (c <= m)%nat. { rewrite Em. apply (Hmin k); [lia | apply lstrip_indent]. }
    assert (m <= c)%nat.
    { assert (In (lstrip_len (line_at src n)) (n0 :: ns)) as H0 by (apply HIn; exists n; split; [lia|reflexivity]).
      rewrite (indent_unique _ _ _ Hind (lstrip_indent _)).
      destruct H0 as [H1|H1]; [rewrite <- H1; exact A | apply B; exact H1]. }
    lia.
Qed.

(** every line of the range is at least [c] long and starts with [c] whitespace characters *)
Lemma common_indent_len : forall src lo hi c n,
  common_indent src lo hi c -> lo <= n <= hi -> (c <= length (line_at src n))%nat.
Proof.
  intros src lo hi c n (Hmin & _) Hn. pose proof (lstrip_indent (line_at src n)) as I.
  pose proof (Hmin n _ Hn I). destruct I as (I & _). lia.
Qed.

Lemma common_indent_ws : forall src lo hi c n k,
  common_indent src lo hi c -> lo <= n <= hi -> (k < c)%nat -> is_ws (nth k (line_at src n) sp) = true.
Proof.
  intros src lo hi c n k (Hmin & _) Hn Hk. pose proof (lstrip_indent (line_at src n)) as I.
  pose proof (Hmin n _ Hn I). destruct I as (_ & I & _). apply I. lia.
Qed.

Lemma removed_bounds : forall c sp_, 0 <= l_col (s_start sp_) -> 0 <= l_col (s_end sp_) ->
  0 <= removed c sp_ <= Z.of_nat c /\ removed c sp_ <= l_col (s_start sp_) /\ removed c sp_ <= l_col (s_end sp_)
  /\ (Z.of_nat c <= 12 -> removed c sp_ = 0) /\ (12 < Z.of_nat c -> 4 <= Z.of_nat c - removed c sp_).
Proof. intros c sp_ H1 H2. unfold removed. destruct (12 <? Z.of_nat c) eqn:E; lia. Qed.

Definition shift (sp_ : Span) (r : Z) : Span :=
  mkSpan (mkLoc (l_line (s_start sp_)) (l_col (s_start sp_) - r)) (mkLoc (l_line (s_end sp_)) (l_col (s_end sp_) - r)).

Lemma trim_ok : forall src lo cnt c sp_,
  in_source src sp_ ->
  (forall n, lo <= n < lo + Z.of_nat cnt -> (c <= length (line_at src n))%nat) ->
  trim (map (line_at src) (zseq lo cnt)) sp_ (Z.of_nat c) =
  Ok (map (fun n => skipn (Z.to_nat (removed c sp_)) (line_at src n)) (zseq lo cnt), shift sp_ (removed c sp_)).
Proof.
  intros src lo cnt c sp_ IS Hlen. destruct IS as (H1 & H2 & H3 & H4 & H5 & H6).
  pose proof (removed_bounds c sp_ ltac:(lia) ltac:(lia)) as (R1 & R2 & R3 & R4 & R5).
  unfold trim, removed in *. unfold MAX_LEADING_WHITESPACE, OPTIMAL_LEADING_WHITESPACE.
  destruct (12 <? Z.of_nat c) eqn:E.
  - set (r := Z.min (Z.min (Z.of_nat c - 4) (l_col (s_start sp_))) (l_col (s_end sp_))) in *.
    unfold span_shift_left, loc_shift_left.
    destruct (r <=? l_col (s_start sp_)) eqn:E1; [|lia].
    destruct (r <=? l_col (s_end sp_)) eqn:E2; [|lia]. cbn [res_bind].
    unfold new_span, loc_le. cbn [l_line l_col].
    destruct ((l_line (s_start sp_) <? l_line (s_end sp_))
              || (l_line (s_start sp_) =? l_line (s_end sp_)) && (l_col (s_start sp_) - r <=? l_col (s_end sp_) - r)) eqn:E3.
    + cbn [res_bind]. f_equal. f_equal. rewrite map_map. apply map_ext_in. intros n Hn.
      apply zseq_In in Hn. apply py_from_range. specialize (Hlen n Hn). lia.
    + exfalso. destruct (l_line (s_start sp_) <? l_line (s_end sp_)) eqn:E4; [discriminate|].
      assert (l_line (s_start sp_) = l_line (s_end sp_)) by lia. specialize (H6 H). lia.
  - f_equal. f_equal.
    unfold shift. destruct sp_ as [[a b] [c' d]]. simpl. rewrite !Z.sub_0_r. reflexivity.
Qed.

(** What the body of a snippet must look like. *)
Lemma body_single : forall hc sp_ l, l_line (s_start sp_) = l_line (s_end sp_) ->
  body hc sp_ [l] = Ok ([], l, sp_).
Proof. intros hc sp_ l H. unfold body, is_multiline. rewrite H, Z.eqb_refl. reflexivity. Qed.

Lemma body_multi : forall hc sp_ first middle last,
  l_line (s_start sp_) < l_line (s_end sp_) ->
  l_col (s_start sp_) <= Z.of_nat (length first) -> 0 <= l_col (s_end sp_) ->
  body hc sp_ (first :: middle ++ [last]) =
  Ok ([(Some (l_line (s_start sp_)), first);
       (None, rep sp (l_col (s_start sp_)) ++ rep hc (Z.of_nat (length first) - l_col (s_start sp_)))]
        ++ (match middle with [] => [] | _ => [(None, s "...")] end),
      last, mkSpan (mkLoc (l_line (s_end sp_)) 0) (s_end sp_)).
Proof.
  intros hc sp_ first middle last H1 H2 H3. unfold body, is_multiline.
  destruct (l_line (s_start sp_) =? l_line (s_end sp_)) eqn:E; [lia|]. cbn [negb].
  rewrite split_last_app. unfold new_span, loc_le. cbn [l_line l_col].
  rewrite Z.ltb_irrefl, Z.eqb_refl. cbn [orb andb].
  destruct (l_col (s_start sp_) <=? Z.of_nat (length first)) eqn:E1; [|lia]. cbn [res_bind].
  destruct (0 <=? l_col (s_end sp_)) eqn:E2; [|lia].
  rewrite Z.ltb_irrefl, Z.eqb_refl. cbn [orb andb res_bind]. reflexivity.
Qed.

(** * The snippet theorem (both shapes) *)

Definition label_part (label : option str) (mlen : nat) (tail : str) (rest : list Row) : Prop :=
  match nonempty label with
  | None => tail = [] /\ rest = []
  | Some lbl => exists r, wrap lbl MAX_LABEL_LINE_LEN [sp] (spaces (mlen + 1)) = (tail, r)
                          /\ rest = map (fun l => (None, l)) r
  end.

Lemma label_rows_part : forall label m, exists tail rest,
  label_rows label m = (None, m ++ tail) :: rest /\ label_part label (length m) tail rest.
Proof.
  intros label m. unfold label_rows, label_part. destruct (nonempty label) as [lbl|].
  - destruct (wrap lbl MAX_LABEL_LINE_LEN [sp] (spaces (length m + 1))) as [f r] eqn:E.
    exists f, (map (fun l => (None, l)) r). split; [reflexivity|]. exists r. auto.
  - exists [], []. rewrite app_nil_r. auto.
Qed.

Section Snippet.
  Variables (src : list str) (sp_ : Span) (label : option str) (primary : bool) (p0 : Z) (c : nat).
  Let L1 := l_line (s_start sp_).
  Let C1 := l_col (s_start sp_).
  Let L2 := l_line (s_end sp_).
  Let C2 := l_col (s_end sp_).
  Let p := Z.min p0 (L1 - 1).
  Let hc := if primary then "^"%char else "-"%char.
  Let remove := removed c sp_.
  Hypothesis IS : in_source src sp_.
  Hypothesis Hp0 : 0 <= p0.
  Hypothesis CI : common_indent src (L1 - p) L2 c.

  Lemma snippet_common :
    exists lines,
      lines = map (fun n => skipn (Z.to_nat remove) (line_at src n)) (zseq (L1 - p) (Z.to_nat (L2 - (L1 - p) + 1))) /\
      render_snippet_rows src sp_ label primary p0 =
      res_bind (body hc (shift sp_ remove) (py_from lines p)) (fun '(rows, last, last_span) =>
        Ok ([(None, [])] ++ number_from (L1 - p) (py_upto lines p) ++ rows ++ [(Some L2, last)]
              ++ label_rows label (highlight hc last_span))).
  Proof.
    destruct IS as (H1 & H2 & H3 & H4 & H5 & H6). fold L1 L2 C1 C2 in H1, H2, H3, H4, H5, H6.
    eexists. split; [reflexivity|]. unfold render_snippet_rows. fold L1 p hc.
    unfold span_lines. fold L1 L2.
    replace (L1 - p - 1) with ((L1 - p) - 1) by lia.
    rewrite slice_lines by lia.
    set (cnt := Z.to_nat (L2 - (L1 - p) + 1)).
    rewrite (min_leading_ok src (L1 - p) cnt c); [| lia | replace (L1 - p + Z.of_nat cnt - 1) with L2 by lia; exact CI].
    cbn [res_bind]. rewrite trim_ok; [| exact IS |].
    - cbn [res_bind]. fold remove. reflexivity.
    - intros n Hn. apply (common_indent_len src (L1 - p) L2); [exact CI | lia].
  Qed.

  Lemma marks_gen : forall lo hi a b, 0 <= a <= b ->
    (a = 0 /\ lo <= remove \/ a + remove = lo) -> b + remove = hi ->
    marks hc remove lo hi (rep sp a ++ rep hc (b - a)).
  Proof.
    intros lo hi a b H [[-> H1]|<-] <-.
    - apply (marks_lo hc remove (0 + remove)); [lia | exact H1 | apply marks_highlight; exact H].
    - apply marks_highlight; exact H.
  Qed.

  Lemma zseq_1 : forall x, zseq x 1 = [x].
  Proof. intros. unfold zseq. simpl. f_equal. lia. Qed.

  Lemma split_lines : forall (f : Z -> list ascii) lo a b,
    py_upto (map f (zseq lo (a + b))) (Z.of_nat a) = map f (zseq lo a) /\
    py_from (map f (zseq lo (a + b))) (Z.of_nat a) = map f (zseq (lo + Z.of_nat a) b).
  Proof.
    intros f lo a b. rewrite zseq_app, map_app.
    assert (E : length (map f (zseq lo a)) = a) by (rewrite map_length; apply zseq_length).
    split.
    - rewrite py_upto_range by (rewrite app_length; lia). rewrite Nat2Z.id.
      rewrite firstn_app, E, Nat.sub_diag. simpl. rewrite app_nil_r.
      apply firstn_all2. lia.
    - rewrite py_from_range by (rewrite app_length; lia). rewrite Nat2Z.id.
      rewrite skipn_app, E, Nat.sub_diag. simpl. rewrite skipn_all2 by lia. reflexivity.
  Qed.

  Lemma snippet_single_eq : L1 = L2 ->
    render_snippet_rows src sp_ label primary p0 =
      Ok ([(None, [])] ++ map (shown src remove) (zseq (L1 - p) (Z.to_nat p))
            ++ [] ++ [shown src remove L1] ++ label_rows label (highlight hc (shift sp_ remove))).
  Proof.
    intros HL. destruct snippet_common as (lines & -> & ->).
    destruct IS as (H1 & H2 & H3 & H4 & H5 & H6). fold L1 L2 C1 C2 in H1, H2, H3, H4, H5, H6.
    assert (Ep : 0 <= p) by (unfold p; lia).
    replace (Z.to_nat (L2 - (L1 - p) + 1)) with (Z.to_nat p + 1)%nat by lia.
    destruct (split_lines (fun n => skipn (Z.to_nat remove) (line_at src n)) (L1 - p) (Z.to_nat p) 1) as (U & F).
    rewrite Z2Nat.id in U, F by lia. rewrite F.
    replace (L1 - p + p) with L1 by lia. rewrite zseq_1. cbn [map].
    rewrite body_single by (simpl; fold L1 L2; lia). cbn [res_bind]. rewrite U.
    rewrite number_from_zseq. rewrite <- HL. reflexivity.
  Qed.

  Theorem snippet_single_rows : L1 = L2 ->
    exists m tail rest,
      render_snippet_rows src sp_ label primary p0 =
        Ok ([(None, [])] ++ map (shown src remove) (zseq (L1 - p) (Z.to_nat p))
              ++ [shown src remove L1; (None, m ++ tail)] ++ rest)
      /\ marks hc remove C1 C2 m /\ label_part label (length m) tail rest.
  Proof.
    intros HL. rewrite (snippet_single_eq HL).
    destruct IS as (H1 & H2 & H3 & H4 & H5 & H6). fold L1 L2 C1 C2 in H1, H2, H3, H4, H5, H6.
    pose proof (removed_bounds c sp_ ltac:(fold C1; lia) ltac:(fold C2; lia)) as (R1 & R2 & R3 & R4 & R5).
    fold remove C1 C2 in R1, R2, R3, R4, R5.
    destruct (label_rows_part label (highlight hc (shift sp_ remove))) as (tail & rest & -> & LP).
    exists (highlight hc (shift sp_ remove)), tail, rest. split; [reflexivity|]. split; [|exact LP].
    unfold highlight, shift. cbn [s_start s_end l_col]. fold C1 C2. apply marks_gen; lia.
  Qed.

  Let f := fun n => skipn (Z.to_nat remove) (line_at src n).

  Lemma snippet_multi_eq : L1 < L2 ->
    render_snippet_rows src sp_ label primary p0 =
      Ok ([(None, [])] ++ map (shown src remove) (zseq (L1 - p) (Z.to_nat p))
            ++ ([shown src remove L1;
                 (None, rep sp (C1 - remove) ++ rep hc (Z.of_nat (length (f L1)) - (C1 - remove)))]
                 ++ (if L1 + 1 <? L2 then [(None, s "...")] else []))
            ++ [shown src remove L2]
            ++ label_rows label (highlight hc (mkSpan (mkLoc L2 0) (mkLoc L2 (C2 - remove))))).
  Proof.
    intros HL. destruct snippet_common as (lines & -> & ->).
    destruct IS as (H1 & H2 & H3 & H4 & H5 & H6). fold L1 L2 C1 C2 in H1, H2, H3, H4, H5, H6.
    pose proof (removed_bounds c sp_ ltac:(fold C1; lia) ltac:(fold C2; lia)) as (R1 & R2 & R3 & R4 & R5).
    fold remove C1 C2 in R1, R2, R3, R4, R5.
    assert (Ep : 0 <= p) by (unfold p; lia).
    remember (Z.to_nat (L2 - L1 - 1)) as k eqn:Hk.
    replace (Z.to_nat (L2 - (L1 - p) + 1)) with (Z.to_nat p + S (k + 1))%nat by lia.
    fold f.
    destruct (split_lines f (L1 - p) (Z.to_nat p) (S (k + 1))) as (U & F).
    rewrite Z2Nat.id in U, F by lia. rewrite F.
    replace (L1 - p + p) with L1 by lia.
    rewrite zseq_S, zseq_app, zseq_1. cbn [map]. rewrite map_app. cbn [map].
    replace (L1 + 1 + Z.of_nat k) with L2 by lia.
    assert (Lf : Z.of_nat (length (f L1)) = Z.of_nat (length (line_at src L1)) - remove).
    { unfold f. rewrite skipn_length. lia. }
    rewrite body_multi; cbn [shift s_start s_end l_line l_col]; fold L1 L2 C1 C2; try lia.
    cbn [res_bind]. rewrite U. rewrite number_from_zseq.
    unfold shown. fold f.
    destruct k as [|k'] eqn:Ek.
    - destruct (L1 + 1 <? L2) eqn:E; [lia|]. reflexivity.
    - destruct (L1 + 1 <? L2) eqn:E; [|lia]. rewrite zseq_S. reflexivity.
  Qed.

  Theorem snippet_multi_rows : L1 < L2 ->
    exists m1 m2 tail rest,
      render_snippet_rows src sp_ label primary p0 =
        Ok ([(None, [])] ++ map (shown src remove) (zseq (L1 - p) (Z.to_nat p))
              ++ [shown src remove L1; (None, m1)]
              ++ (if L1 + 1 <? L2 then [(None, s "...")] else [])
              ++ [shown src remove L2; (None, m2 ++ tail)] ++ rest)
      /\ marks hc remove C1 (Z.of_nat (length (line_at src L1))) m1
      /\ marks hc remove 0 C2 m2 /\ label_part label (length m2) tail rest.
  Proof.
    intros HL. rewrite (snippet_multi_eq HL).
    destruct IS as (H1 & H2 & H3 & H4 & H5 & H6). fold L1 L2 C1 C2 in H1, H2, H3, H4, H5, H6.
    pose proof (removed_bounds c sp_ ltac:(fold C1; lia) ltac:(fold C2; lia)) as (R1 & R2 & R3 & R4 & R5).
    fold remove C1 C2 in R1, R2, R3, R4, R5.
    assert (Lf : Z.of_nat (length (f L1)) = Z.of_nat (length (line_at src L1)) - remove).
    { unfold f. rewrite skipn_length. lia. }
    match goal with |- context [label_rows label ?h] => destruct (label_rows_part label h) as (tail & rest & -> & LP) end.
    eexists _, _, tail, rest. split; [|split; [|split; [|exact LP]]].
    - cbn [app]. rewrite <- ?app_assoc. reflexivity.
    - rewrite Lf. apply marks_gen; lia.
    - unfold highlight. cbn [s_start s_end l_col]. apply marks_gen; lia.
  Qed.
End Snippet.
