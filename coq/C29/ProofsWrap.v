(** C29 — wrap: for text whose words and whitespace runs fit the width, the rendered lines
    consist of exactly the words of the text, in order (lines are broken only at whitespace). *)
From Coq Require Import String Ascii ZArith Bool List Lia.
From V.Lib Require Import Outcome.
From V.C29 Require Import Render Spec.
Import ListNotations.

Definition printable (c : ascii) : bool := let n := code c in ((32 <=? n) && (n <=? 126))%N.

Lemma printable_facts : forall c, printable c = true ->
  is_ws c = is_sp c /\ is_tab c = false /\ (is_tw_ws c = true -> c = sp).
Proof. intros [[] [] [] [] [] [] [] []]; vm_compute; intros H; try discriminate H; repeat split; auto; discriminate. Qed.
Lemma nl_ws : forall c, is_nl c = true -> is_ws c = true.
Proof. intros [[] [] [] [] [] [] [] []]; vm_compute; intros H; try discriminate H; reflexivity. Qed.
Lemma sp_ws : forall c, is_sp c = true -> is_ws c = true.
Proof. intros [[] [] [] [] [] [] [] []]; vm_compute; intros H; try discriminate H; reflexivity. Qed.

(* ---- words ---- *)
Lemma words_ws_head : forall c t, is_ws c = true -> words (c :: t) = words t.
Proof. intros c t H. simpl. unfold wcons. rewrite H. reflexivity. Qed.

Lemma words_nonws_head : forall c t, is_ws c = false -> exists w ws, words (c :: t) = w :: ws.
Proof.
  intros c t H. simpl. unfold wcons. rewrite H. destruct t as [|d t']; [eauto|].
  destruct (is_ws d); [eauto|]. destruct (words (d :: t')); eauto.
Qed.

Lemma words_app_mid : forall a c b, is_ws c = true -> words (a ++ c :: b) = words a ++ words b.
Proof.
  induction a as [|x a IH]; intros c b H.
  - simpl app. apply words_ws_head. exact H.
  - change ((x :: a) ++ c :: b) with (x :: (a ++ c :: b)).
    cbn [words]. rewrite IH by exact H. unfold wcons. destruct (is_ws x) eqn:Ex; [reflexivity|].
    destruct a as [|d a'].
    + simpl. rewrite H. reflexivity.
    + cbn [app]. destruct (is_ws d) eqn:Ed; [reflexivity|].
      destruct (words_nonws_head d a' Ed) as (w & ws & ->). reflexivity.
Qed.

Lemma words_blank_prefix : forall a b, forallb is_ws a = true -> words (a ++ b) = words b.
Proof.
  induction a as [|x a IH]; intros b H; [reflexivity|]. simpl in H. apply andb_prop in H as (H1 & H2).
  change ((x :: a) ++ b) with (x :: (a ++ b)). rewrite words_ws_head by exact H1. apply IH. exact H2.
Qed.

Lemma words_blank : forall a, forallb is_ws a = true -> words a = [].
Proof. intros a H. rewrite <- (app_nil_r a). rewrite words_blank_prefix by exact H. reflexivity. Qed.

Definition nows (c : ascii) : bool := negb (is_ws c).
Lemma words_single : forall w, w <> [] -> forallb nows w = true -> words w = [w].
Proof.
  induction w as [|x w IH]; intros Hn H; [congruence|]. simpl in H. apply andb_prop in H as (H1 & H2).
  unfold nows in H1. apply negb_true_iff in H1. cbn [words]. unfold wcons. rewrite H1.
  destruct w as [|d w']; [reflexivity|].
  assert (Hd : is_ws d = false) by (simpl in H2; apply andb_prop in H2 as (H3 & _); apply negb_true_iff in H3; exact H3).
  rewrite Hd. rewrite IH by (auto; discriminate). reflexivity.
Qed.

(* ---- chunk lists ---- *)
Definition kind_ok (a : str) : Prop := a <> [] /\ (forallb is_ws a = true \/ forallb nows a = true).
Fixpoint alt (l : list str) : Prop :=
  match l with
  | [] => True
  | a :: r => kind_ok a /\ (match r with b :: _ => blank a = negb (blank b) | [] => True end) /\ alt r
  end.
Definition nb (ch : str) : bool := negb (blank ch).
Definition cw (l : list str) : list str := filter nb l.

Lemma kind_blank : forall a, kind_ok a -> (blank a = true /\ forallb is_ws a = true) \/ (blank a = false /\ forallb nows a = true).
Proof.
  intros a (Hn & [H|H]); [left; split; exact H|]. right. split; [|exact H].
  destruct a as [|x a]; [congruence|]. simpl in *. apply andb_prop in H as (H1 & _).
  unfold nows in H1. apply negb_true_iff in H1. unfold blank. simpl. rewrite H1. reflexivity.
Qed.

Lemma words_concat_alt : forall l, alt l -> words (concat l) = cw l.
Proof.
  induction l as [|a r IH]; intros H; [reflexivity|]. destruct H as (K & Adj & Ar). simpl concat.
  unfold cw. cbn [filter]. fold (cw r). unfold nb at 1.
  destruct (kind_blank a K) as [(B & W)|(B & W)]; rewrite B; cbn [negb].
  - rewrite words_blank_prefix by exact W. apply IH. exact Ar.
  - destruct r as [|b r'].
    + simpl. rewrite app_nil_r. apply words_single; [apply K | exact W].
    + rewrite B in Adj. destruct Ar as (Kb & Ar'). pose proof Kb as Kb'.
      destruct (kind_blank b Kb) as [(Bb & Wb)|(Bb & Wb)]; [|rewrite Bb in Adj; discriminate].
      destruct b as [|d b']; [destruct Kb' as (Kb' & _); congruence|].
      assert (Hd : is_ws d = true) by (simpl in Wb; apply andb_prop in Wb as (Wd & _); exact Wd).
      change (concat ((d :: b') :: r')) with (d :: (b' ++ concat r')).
      rewrite words_app_mid by exact Hd.
      rewrite (words_single a) by (apply K || exact W). cbn [app]. f_equal.
      rewrite <- (IH (conj Kb' Ar')).
      change (concat ((d :: b') :: r')) with (d :: (b' ++ concat r')).
      symmetry. apply words_ws_head. exact Hd.
Qed.

Lemma alt_app : forall x y, alt (x ++ y) -> alt x /\ alt y.
Proof.
  induction x as [|a x IH]; intros y H; [split; [exact I | exact H]|].
  destruct H as (K & Adj & A). destruct (IH y A) as (Ax & Ay). split; [|exact Ay].
  split; [exact K|]. split; [|exact Ax]. destruct x as [|b x']; [exact I | exact Adj].
Qed.

Lemma cw_app : forall x y, cw (x ++ y) = cw x ++ cw y.
Proof. intros. unfold cw. apply filter_app. Qed.

Lemma fill_app : forall width n chs cur rest, fill width n chs = (cur, rest) -> chs = cur ++ rest.
Proof.
  intros width n chs. revert n. induction chs as [|c r IH]; intros n cur rest H; simpl in H.
  - inversion H. reflexivity.
  - destruct (n + length c <=? width)%nat.
    + destruct (fill width (n + length c) r) as [a b] eqn:E. inversion H; subst. simpl. f_equal. eapply IH. exact E.
    + inversion H. reflexivity.
Qed.

Lemma fill_first : forall width c r, (length c <= width)%nat -> exists a b, fill width 0 (c :: r) = (c :: a, b).
Proof.
  intros. simpl. destruct (length c <=? width)%nat eqn:E; [|apply Nat.leb_gt in E; lia].
  destruct (fill width (length c) r) as [a b]. eauto.
Qed.

Lemma drop_last_blank_spec : forall cur, drop_last_blank cur = cur \/
  exists x, cur = drop_last_blank cur ++ [x] /\ blank x = true.
Proof.
  intros cur. unfold drop_last_blank. destruct (rev cur) as [|l r] eqn:E; [left; reflexivity|].
  destruct (blank l) eqn:B; [|left; reflexivity]. right. exists l. split; [|exact B].
  rewrite <- (rev_involutive cur), E. reflexivity.
Qed.

Lemma wrap_chunks_nil : forall f w first, wrap_chunks f w first [] = [].
Proof. destruct f; reflexivity. Qed.

Lemma wrap_chunks_words : forall fuel width first chs,
  alt chs -> Forall (fun ch => (length ch <= width)%nat) chs -> (length (concat chs) < fuel)%nat ->
  flat_map words (wrap_chunks fuel width first chs) = cw chs.
Proof.
  induction fuel as [|f IH]; intros width first chs A F L; [lia|].
  destruct chs as [|c0 r0]; [reflexivity|]. cbn [wrap_chunks].
  set (chs1 := if negb first && blank c0 then r0 else c0 :: r0).
  assert (E1 : cw chs1 = cw (c0 :: r0)).
  { unfold chs1. destruct (negb first && blank c0) eqn:E; [|reflexivity].
    apply andb_prop in E as (_ & B). unfold cw. cbn [filter]. unfold nb at 2. rewrite B. reflexivity. }
  assert (A1 : alt chs1) by (unfold chs1; destruct (negb first && blank c0); [apply A | exact A]).
  assert (F1 : Forall (fun ch => (length ch <= width)%nat) chs1)
    by (unfold chs1; destruct (negb first && blank c0); [inversion F; assumption | exact F]).
  assert (L1 : (length (concat chs1) <= length (concat (c0 :: r0)))%nat)
    by (unfold chs1; destruct (negb first && blank c0); [simpl; rewrite app_length; lia | lia]).
  assert (Lc0 : (0 < length c0)%nat) by (destruct A as ((Hn & _) & _); destruct c0; [congruence | simpl; lia]).
  assert (Lf : (0 < f)%nat) by (simpl in L; rewrite app_length in L; lia).
  rewrite <- E1. clearbody chs1. clear E1.
  destruct (fill width 0 chs1) as [cur rest] eqn:EF.
  pose proof (fill_app _ _ _ _ _ EF) as Eapp.
  assert (NoLong : (match rest with
                    | c :: r => if (width <? length c)%nat
                                then let space_left := if (width <? 1)%nat then 1%nat else (width - length (concat cur))%nat in
                                     (cur ++ [firstn space_left c], skipn space_left c :: r)
                                else (cur, rest)
                    | [] => (cur, rest) end) = (cur, rest)).
  { destruct rest as [|c r]; [reflexivity|].
    assert (length c <= width)%nat.
    { rewrite Eapp in F1. apply Forall_app in F1 as (_ & F2). inversion F2; assumption. }
    destruct (width <? length c)%nat eqn:E; [apply Nat.ltb_lt in E; lia | reflexivity]. }
  cbv zeta in NoLong. rewrite NoLong. clear NoLong.
  rewrite Eapp in A1. apply alt_app in A1 as (Acur & Arest).
  assert (Frest : Forall (fun ch => (length ch <= width)%nat) rest)
    by (rewrite Eapp in F1; apply Forall_app in F1 as (_ & F2); exact F2).
  assert (Lrest : (length (concat rest) < f)%nat).
  { destruct chs1 as [|c1 r1].
    - simpl in EF. inversion EF; subst. simpl. exact Lf.
    - assert (length c1 <= width)%nat by (inversion F1; assumption).
      destruct (fill_first width c1 r1 H) as (a & b & E2). pose proof (eq_trans (eq_sym EF) E2) as X. inversion X; subst.
      assert (c1 <> []) by (destruct Acur as ((Hn & _) & _); exact Hn).
      assert (0 < length c1)%nat by (destruct c1; [congruence | simpl; lia]).
      rewrite Eapp in L1. simpl in L1, L. rewrite !app_length in L1. rewrite concat_app, app_length in L1.
      rewrite app_length in L. lia. }
  assert (Ecw : cw (drop_last_blank cur) = cw cur /\ alt (drop_last_blank cur)).
  { remember (drop_last_blank cur) as d eqn:Hd.
    destruct (drop_last_blank_spec cur) as [E|(x & E & B)]; rewrite <- Hd in E.
    - rewrite E. split; [reflexivity | exact Acur].
    - assert (Hx : cw [x] = []) by (unfold cw; simpl; unfold nb; rewrite B; reflexivity).
      split.
      + rewrite E, cw_app, Hx, app_nil_r. reflexivity.
      + rewrite E in Acur. apply alt_app in Acur as (Ac & _). exact Ac. }
  destruct Ecw as (Ecw & Acur3). rewrite Eapp, cw_app, <- Ecw.
  destruct (drop_last_blank cur) as [|x xs] eqn:E3.
  - simpl. apply IH; assumption.
  - cbn [flat_map]. rewrite (IH width false rest Arest Frest Lrest).
    rewrite words_concat_alt by exact Acur3. reflexivity.
Qed.

(* ---- chunks of a paragraph of printable characters ---- *)
Lemma chunks_head : forall t rest, chunks t <> [] :: rest.
Proof.
  intros [|c t] rest; [discriminate|]. cbn [chunks].
  destruct (chunks t) as [|[|d ch] r]; try discriminate. destruct (Bool.eqb (is_sp c) (is_sp d)); discriminate.
Qed.

Lemma chunks_concat : forall t, concat (chunks t) = t.
Proof.
  induction t as [|c t IH]; [reflexivity|]. cbn [chunks].
  destruct (chunks t) as [|[|d ch] rest] eqn:E.
  - simpl in IH. subst t. reflexivity.
  - exfalso. exact (chunks_head _ _ E).
  - destruct (Bool.eqb (is_sp c) (is_sp d)); simpl in *; rewrite <- IH; reflexivity.
Qed.

Lemma chunks_alt : forall t, forallb printable t = true -> alt (chunks t) /\
  (forall d ch rest, chunks t = (d :: ch) :: rest -> blank (d :: ch) = is_ws d /\ printable d = true).
Proof.
  induction t as [|c t IH]; intros H; [split; [exact I | intros; discriminate]|].
  simpl in H. apply andb_prop in H as (Pc & Pt). destruct (IH Pt) as (A & Hd). cbn [chunks].
  destruct (printable_facts c Pc) as (Wc & _ & _).
  assert (K1 : kind_ok [c] /\ blank [c] = is_ws c).
  { unfold kind_ok, blank, nows. simpl. destruct (is_ws c); simpl; (split; [split; [discriminate | auto] | reflexivity]). }
  destruct (chunks t) as [|[|d ch] rest] eqn:E.
  - split; [simpl; split; [apply K1 | auto] | intros d ch rest H; inversion H; subst; split; [apply K1 | exact Pc]].
  - destruct A as ((Hn & _) & _). congruence.
  - destruct (Hd d ch rest eq_refl) as (Bd & Pd). destruct (printable_facts d Pd) as (Wd & _ & _).
    destruct (Bool.eqb (is_sp c) (is_sp d)) eqn:Eq.
    + apply eqb_prop in Eq. assert (Ecd : is_ws c = is_ws d) by congruence.
      assert (Bnew : blank (c :: d :: ch) = is_ws c).
      { unfold blank in *. cbn [forallb] in *. rewrite Ecd. destruct (is_ws d); simpl in *; [exact Bd | reflexivity]. }
      split.
      * destruct A as (K & Adj & Ar). split; [|split; [|exact Ar]].
        -- split; [discriminate|]. destruct (kind_blank _ K) as [(B1 & W1)|(B1 & W1)].
           ++ left. change (blank (c :: d :: ch) = true). rewrite Bnew, Ecd, <- Bd. exact B1.
           ++ right. change (nows c && forallb nows (d :: ch) = true). rewrite W1. unfold nows. rewrite Ecd, <- Bd, B1. reflexivity.
        -- destruct rest as [|b rest']; [exact I|]. rewrite Bnew, Ecd, <- Bd. exact Adj.
      * intros d' ch' rest' H. inversion H; subst. split; [exact Bnew | exact Pc].
    + apply eqb_false_iff in Eq. split.
      * split; [apply K1|]. split; [|exact A]. destruct K1 as (_ & ->). rewrite Bd, Wc, Wd.
        destruct (is_sp c), (is_sp d); simpl; congruence.
      * intros d' ch' rest' H. inversion H; subst. split; [apply K1 | exact Pc].
Qed.

Lemma expandtabs_id : forall t col, forallb printable t = true -> expandtabs col t = t.
Proof.
  induction t as [|c t IH]; intros col H; [reflexivity|]. simpl in H. apply andb_prop in H as (Pc & Pt).
  simpl. destruct (printable_facts c Pc) as (_ & -> & _). f_equal. apply IH. exact Pt.
Qed.

Lemma munge_id : forall t, forallb printable t = true -> munge t = t.
Proof.
  intros t H. unfold munge. rewrite expandtabs_id by exact H.
  induction t as [|c t IH]; [reflexivity|]. simpl in H. apply andb_prop in H as (Pc & Pt). simpl.
  rewrite IH by exact Pt. destruct (printable_facts c Pc) as (_ & _ & Hs).
  destruct (is_tw_ws c) eqn:E; [rewrite (Hs eq_refl)|]; reflexivity.
Qed.

(** a paragraph in the domain of the theorem *)
Definition para_ok (width : nat) (p : str) : Prop :=
  forallb printable p = true /\ Forall (fun ch => (length ch <= width)%nat) (chunks p).

Lemma tw_wrap_words : forall width p, para_ok width p -> flat_map words (tw_wrap width p) = words p.
Proof.
  intros width p (P & F). unfold tw_wrap. rewrite munge_id by exact P.
  rewrite wrap_chunks_words; [| apply chunks_alt; exact P | exact F | lia].
  rewrite <- words_concat_alt by (apply chunks_alt; exact P). rewrite chunks_concat. reflexivity.
Qed.

Lemma splitlines_words : forall t cur, flat_map words (splitlines_aux cur t) = words (rev cur ++ t).
Proof.
  induction t as [|c t IH]; intros cur.
  - simpl. rewrite app_nil_r. destruct cur as [|x cur]; [reflexivity|]. simpl. rewrite app_nil_r. reflexivity.
  - cbn [splitlines_aux]. destruct (is_nl c) eqn:E.
    + cbn [flat_map]. rewrite IH. simpl rev. simpl app. rewrite words_app_mid by (apply nl_ws; exact E). reflexivity.
    + rewrite IH. simpl rev. rewrite <- app_assoc. reflexivity.
Qed.

Lemma words_indent : forall ii l, forallb is_sp ii = true -> words (ii ++ l) = words l.
Proof.
  intros ii l H. apply words_blank_prefix. rewrite forallb_forall in *. intros x Hx. apply sp_ws. apply H. exact Hx.
Qed.

Theorem wrap_words : forall text width ii si,
  Forall (para_ok width) (splitlines text) -> all_spaces ii -> all_spaces si ->
  flat_map words (wrap_list text width ii si) = words text.
Proof.
  intros text width ii si HP Hi Hs. unfold wrap_list, wrap.
  assert (E : flat_map words (wrap_lines text width) = words text).
  { transitivity (flat_map words (splitlines text)).
    - unfold wrap_lines. revert HP. generalize (splitlines text). intros l. induction l as [|p ps IH]; intros HP; [reflexivity|].
      inversion HP; subst. cbn [flat_map]. rewrite flat_map_app. f_equal; [|apply IH; assumption].
      destruct p as [|x p']; [reflexivity|]. apply tw_wrap_words. assumption.
    - unfold splitlines. rewrite splitlines_words. reflexivity. }
  destruct (wrap_lines text width) as [|f r].
  - simpl. rewrite app_nil_r. rewrite <- E. simpl. apply words_blank.
    unfold all_spaces in Hi. rewrite forallb_forall in *. intros x Hx. apply sp_ws. apply Hi. exact Hx.
  - cbn [flat_map] in *. rewrite words_indent by exact Hi. rewrite <- E. f_equal.
    clear E. induction r as [|l r IH]; [reflexivity|]. cbn [map flat_map]. rewrite words_indent by exact Hs. f_equal. apply IH.
Qed.
