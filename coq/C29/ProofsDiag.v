(** C29 — totality of render_snippet / render_diagnostic for spans inside the source. *)
From Coq Require Import String Ascii ZArith Bool List Lia ZifyBool.
From V.Lib Require Import Outcome.
From V.C29 Require Import Render Spec ProofsBase ProofsSnippet.
Import ListNotations.
Open Scope Z_scope.

Lemma common_indent_exists : forall src lo cnt, (0 < cnt)%nat ->
  exists c, common_indent src lo (lo + Z.of_nat cnt - 1) c.
Proof.
  intros src lo cnt Hc.
  destruct (map (fun n => lstrip_len (line_at src n)) (zseq lo cnt)) as [|n0 ns] eqn:E.
  - apply (f_equal (@length nat)) in E. rewrite map_length, zseq_length in E. simpl in E. lia.
  - assert (HIn : forall x, In x (n0 :: ns) <-> exists k, lo <= k < lo + Z.of_nat cnt /\ x = lstrip_len (line_at src k)).
    { intros x. rewrite <- E, in_map_iff. split.
      - intros (k & <- & Hk). exists k. rewrite zseq_In in Hk. auto.
      - intros (k & Hk & ->). exists k. rewrite zseq_In. auto. }
    destruct (fold_min_spec ns n0) as (A & B & C). set (m := fold_left Nat.min ns n0) in *.
    exists m. split.
    + intros n k Hn Hk. rewrite (indent_unique _ _ _ Hk (lstrip_indent _)).
      assert (In (lstrip_len (line_at src n)) (n0 :: ns)) as [H|H] by (apply HIn; exists n; split; [lia|reflexivity]).
      * rewrite <- H. exact A.
      * apply B. exact H.
    + assert (Hm : In m (n0 :: ns)) by (destruct C as [C|C]; [left; auto | right; auto]).
      apply HIn in Hm. destruct Hm as (k & Hk & Em). exists k. split; [lia|]. rewrite Em. apply lstrip_indent.
Qed.

Lemma render_snippet_rows_total : forall src sp_ label primary p0,
  in_source src sp_ -> 0 <= p0 ->
  exists rows, render_snippet_rows src sp_ label primary p0 = Ok rows.
Proof.
  intros src sp_ label primary p0 IS Hp.
  pose proof IS as (H1 & H2 & H3 & _).
  set (p := Z.min p0 (l_line (s_start sp_) - 1)).
  destruct (common_indent_exists src (l_line (s_start sp_) - p) (Z.to_nat (l_line (s_end sp_) - (l_line (s_start sp_) - p) + 1)) ltac:(lia)) as (c & CI).
  replace (l_line (s_start sp_) - p + Z.of_nat (Z.to_nat (l_line (s_end sp_) - (l_line (s_start sp_) - p) + 1)) - 1)
    with (l_line (s_end sp_)) in CI by lia.
  destruct (Z.eq_dec (l_line (s_start sp_)) (l_line (s_end sp_))) as [E|E].
  - destruct (snippet_single_rows src sp_ label primary p0 c IS Hp CI E) as (m & tail & rest & -> & _). eauto.
  - destruct (snippet_multi_rows src sp_ label primary p0 c IS Hp CI ltac:(lia)) as (m1 & m2 & tail & rest & -> & _). eauto.
Qed.

Lemma render_snippet_total : forall src sp_ label mx primary p0,
  in_source src sp_ -> 0 <= p0 -> exists out, render_snippet src sp_ label mx primary p0 = Ok out.
Proof.
  intros. unfold render_snippet.
  destruct (render_snippet_rows_total src sp_ label primary p0) as (rows & ->); auto. simpl. eauto.
Qed.

(** Preconditions of rendering: every span that gets rendered lies inside the source. *)
Definition sub_ok (src : list str) (c : SubDiag) : Prop :=
  match sd_span c with Some (sp_, _) => in_source src sp_ | None => True end.
Definition diag_ok (src : list str) (d : Diag) : Prop :=
  match d_span d with
  | Some (sp_, _) => in_source src sp_ /\ Forall (sub_ok src) (d_children d)
  | None => True
  end.

Lemma render_subs_total : forall src mx cs, Forall (sub_ok src) cs ->
  exists out, render_subs src mx cs = Ok out.
Proof.
  induction cs as [|c cs IH]; intros H; simpl; [eauto|].
  inversion H as [|? ? Hc Hcs]; subst. destruct (IH Hcs) as (b & ->).
  unfold sub_ok in Hc. destruct (sd_span c) as [[sp_ lbl]|].
  - destruct (render_snippet_total src sp_ lbl mx false 0 Hc ltac:(lia)) as (a & ->). simpl. eauto.
  - simpl. eauto.
Qed.

Theorem render_diagnostic_total : forall src d, diag_ok src d ->
  exists out, render_diagnostic src d = Ok out.
Proof.
  intros src d H. unfold render_diagnostic, diag_ok in *.
  destruct (d_span d) as [[sp_ lbl]|]; [|simpl; eauto].
  destruct H as (H1 & H2).
  destruct (render_snippet_total src sp_ lbl
              (fold_left Z.max (map (fun x => l_line (s_end x)) (child_spans (d_children d))) (l_line (s_end sp_)))
              true PREFIX_CONTEXT_LINES H1 ltac:(unfold PREFIX_CONTEXT_LINES; lia)) as (a & ->).
  destruct (render_subs_total src
              (fold_left Z.max (map (fun x => l_line (s_end x)) (child_spans (d_children d))) (l_line (s_end sp_)))
              (d_children d) H2) as (b & ->).
  simpl. eauto.
Qed.
