(** C21 — base vocabulary of the operator-dispatch model (hand-written, no proofs). *)
From Coq Require Import List Bool String.
Import ListNotations.
Open Scope string_scope.

Inductive ty := TInt | TNat | TFloat | TBool.
Definition ty_eqb (a b : ty) : bool :=
  match a, b with TInt, TInt | TNat, TNat | TFloat, TFloat | TBool, TBool => true | _, _ => false end.

(** how an operand reaches the operator: a traced runtime value (GuppyObject) or a Python constant *)
Inductive kind := Traced | Const.

(** decorator on a DunderMixin method *)
Inductive deco := DBinary | DUnary | DNone.

(** one attempt / selection: call method [s_meth] of type [s_ty]; [s_lr] = the call's arguments are
    (source left operand, source right operand) in this order (false: right, left);
    [s_other] = type of the second argument *)
Record sel := mkSel { s_ty : ty; s_meth : string; s_lr : bool; s_other : ty }.

Fixpoint lookup_first {A} (k : string) (t : list (string * A)) : option A :=
  match t with [] => None | (k', v) :: r => if String.eqb k k' then Some v else lookup_first k r end.

(** Python dict built by a comprehension / repeated assignment: the last entry for a key wins *)
Fixpoint lookup_last {A} (k : string) (t : list (string * A)) : option A :=
  match t with
  | [] => None
  | (k', v) :: r => match lookup_last k r with Some x => Some x | None => if String.eqb k k' then Some v else None end
  end.

Definition mem_key {A} (k : string) (t : list (string * A)) : bool := existsb (fun e => String.eqb k (fst e)) t.
Definition mem (k : string) (l : list string) : bool := existsb (String.eqb k) l.

(** Python's data model (language reference 3.3.8 / 3.3.1): operator -> (method tried on the left
    operand, reflected method tried on the right operand).  Keys are the `ast` operator class
    names.  This is the SPECIFICATION side: it is written from the Python reference, not from
    guppylang's tables. *)
Definition py_ops : list (string * (string * string)) :=
  [("Add", ("__add__", "__radd__")); ("Sub", ("__sub__", "__rsub__")); ("Mult", ("__mul__", "__rmul__"));
   ("Div", ("__truediv__", "__rtruediv__")); ("FloorDiv", ("__floordiv__", "__rfloordiv__"));
   ("Mod", ("__mod__", "__rmod__")); ("Pow", ("__pow__", "__rpow__"));
   ("LShift", ("__lshift__", "__rlshift__")); ("RShift", ("__rshift__", "__rrshift__"));
   ("BitOr", ("__or__", "__ror__")); ("BitXor", ("__xor__", "__rxor__")); ("BitAnd", ("__and__", "__rand__"));
   ("MatMult", ("__matmul__", "__rmatmul__"));
   ("Eq", ("__eq__", "__eq__")); ("NotEq", ("__ne__", "__ne__"));
   ("Lt", ("__lt__", "__gt__")); ("LtE", ("__le__", "__ge__")); ("Gt", ("__gt__", "__lt__")); ("GtE", ("__ge__", "__le__"))].

(** every special method name of the Python data model that DunderMixin may define as an
    operator hook (numeric, comparison, conversion) *)
Definition py_const_types : list ty := [TInt; TFloat; TBool].   (* types of Python int / float / bool constants *)
Definition all_types : list ty := [TInt; TNat; TFloat; TBool].
