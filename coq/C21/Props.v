(** C21 — Comptime functions agree with regular Guppy functions (operator dispatch part).
    Every statement is about tables and selection logic GENERATED on this run from
    tracing/object.py, tracing/builtins_mock.py and checker/expr_checker.py (GenTracing.v) and
    about the acceptance table probed from the std library of the repo under test
    (GenAccepts.v).  All domains are finite; the bound of each theorem is the generated table
    it quantifies over ([dunder_methods], [cases] = 19 operators x {traced,const}^2 minus
    const/const x operand types over {int, nat, float, bool} / {int, float, bool}). *)
From Coq Require Import List Bool String.
From V.C21 Require Import ModelBase GenTracing GenAccepts ModelDispatch Proofs.
Import ListNotations.
Open Scope string_scope.

(** every operator method of DunderMixin delegates to the method of the same name *)
Theorem dunder_delegates_self : forall m d k n, In (m, (d, k, n)) dunder_methods -> d = m.
Proof. exact delegates_self. Qed.
Print Assumptions dunder_delegates_self.

(** guppylang's operator table coincides with Python's data model, and every operator method
    it names is a hook of DunderMixin of the right kind (matmul excepted: no numeric type has it) *)
Theorem operator_tables_complete :
  (forall op l r d, In (op, (l, r, d)) binary_table -> lookup_first op py_ops = Some (l, r)) /\
  (forall op, In op (map fst py_ops) -> mem_key op binary_table = true) /\
  (forall op l r d, In (op, (l, r, d)) binary_table -> op <> "MatMult" -> hook l DBinary = true /\ hook r DBinary = true) /\
  (forall op m d, In (op, (m, d)) unary_table -> hook m DUnary = true).
Proof.
  pose proof tables_fin as T. unfold tables_b in T. repeat rewrite andb_true_iff in T. destruct T as [[[A B] C] D].
  rewrite forallb_forall in A, B, C, D. repeat split.
  - intros op l r d H. specialize (A _ H). cbn [fst snd] in A. destruct (lookup_first op py_ops) as [[l' r']|]; [|discriminate].
    apply andb_true_iff in A. destruct A as [A1 A2]. apply String.eqb_eq in A1. apply String.eqb_eq in A2. subst. reflexivity.
  - intros op H. apply in_map_iff in H. destruct H as [[k v] [<- H]]. exact (B _ H).
  - specialize (C _ H). cbn [fst snd] in C. apply orb_true_iff in C. destruct C as [C|C]; [apply String.eqb_eq in C; contradiction | now apply andb_true_iff in C].
  - specialize (C _ H). cbn [fst snd] in C. apply orb_true_iff in C. destruct C as [C|C]; [apply String.eqb_eq in C; contradiction | now apply andb_true_iff in C].
  - intros op m d H. exact (D _ H).
Qed.
Print Assumptions operator_tables_complete.

(** for every operator and every pair of operand kinds/types, the regular path
    (_synthesize_binary) and the tracing path (Python dispatch into binary_operation with its
    reflected fallback) either both reject, or both compute `left OP right` — the operator's own
    method on (left, right) or its reflected method on (right, left) — with the same type's
    implementation *)
Theorem reflected_dispatch_agrees : forall op ka kb a b,
  In op (map fst py_ops) -> In (ka, kb) kind_pairs -> In a (types_of ka) -> In b (types_of kb) ->
  match regular_select op a b, trace_select op ka kb a b with
  | None, None => True
  | Some r, Some t => s_ty r = s_ty t /\ coherent op r = true /\ coherent op t = true
  | _, _ => False
  end.
Proof.
  intros op ka kb a b Hop Hk Ha Hb. pose proof (cases_agree _ (in_cases op ka kb a b Hop Hk Ha Hb)) as H.
  unfold case_agrees, agree in H.
  destruct (regular_select op a b) as [r|], (trace_select op ka kb a b) as [t|]; try discriminate; auto.
  repeat rewrite andb_true_iff in H. destruct H as [[E C1] C2]. repeat split; auto.
  destruct (s_ty r), (s_ty t); simpl in E; congruence.
Qed.
Print Assumptions reflected_dispatch_agrees.

(** non-vacuity: reflected and mixed-type instances really select something *)
Example dispatch_witness :
  trace_select "RShift" Const Traced TInt TInt = Some (mkSel TInt "__rrshift__" false TInt) /\
  regular_select "RShift" TInt TInt = Some (mkSel TInt "__rshift__" true TInt) /\
  trace_select "Sub" Const Traced TInt TFloat = Some (mkSel TFloat "__rsub__" false TInt) /\
  regular_select "Sub" TInt TFloat = Some (mkSel TFloat "__rsub__" false TInt) /\
  trace_select "Lt" Const Traced TInt TNat = Some (mkSel TInt "__lt__" true TNat) /\
  regular_select "LShift" TFloat TInt = None /\ List.length cases = 760.
Proof. vm_compute. repeat split. Qed.

(** the mocked builtins int / float / len call __int__ / __float__ / __len__ on a GuppyObject,
    are the ones installed by mock_builtins, are not shadowed by GuppyObject's own dunders, and
    (where DunderMixin defines the method) reach the instance method of the same name *)
Theorem mocked_builtins_delegate :
  (forall b d, In (b, d) mocked_builtins ->
     d = "__" ++ b ++ "__" /\ In b mock_installed /\ ~ In d guppyobject_own_dunders /\
     forall d' k n, lookup_first d dunder_methods = Some (d', k, n) -> d' = d) /\
  (forall b, In b ["int"; "float"; "len"] -> mem_key b mocked_builtins = true) /\
  (forall b, In b mock_installed -> mem_key b mocked_builtins = true).
Proof.
  pose proof mocks_fin as M. unfold mocks_b in M. repeat rewrite andb_true_iff in M. destruct M as [[A B] C].
  rewrite forallb_forall in A, B, C. split; [|split; [exact B | exact C]].
  intros b d H. specialize (A _ H). cbn [fst snd] in A. repeat rewrite andb_true_iff in A. destruct A as [[[A1 A2] A3] A4].
  split; [now apply String.eqb_eq|]. split.
  - unfold mem in A2. apply existsb_exists in A2. destruct A2 as [x [I E]]. apply String.eqb_eq in E. now subst.
  - split.
    + intro I. apply negb_true_iff in A3. unfold mem in A3.
      assert (existsb (String.eqb d) guppyobject_own_dunders = true) by (apply existsb_exists; exists d; split; [exact I | apply String.eqb_refl]).
      congruence.
    + intros d' k n L. rewrite L in A4. now apply String.eqb_eq in A4.
Qed.
Print Assumptions mocked_builtins_delegate.

(** constants: the scalar case of guppy_object_from_py types, lowers and `builder.load`s a fresh
    constant on every use (the translator fails closed on any other shape, e.g. a memo lookup),
    and the per-trace state has no field in which converted constants could be remembered *)
Theorem scalar_constants_fresh :
  List.last scalar_case_steps "" = "load-fresh" /\ List.last from_py_patterns "" = "v" /\
  forall f, In f tracing_state_fields -> In f ["ctx"; "dfg"; "node"; "unused_undroppable_objs"].
Proof.
  split; [reflexivity|]. split; [reflexivity|].
  assert (F : Forall (fun f => In f ["ctx"; "dfg"; "node"; "unused_undroppable_objs"]) tracing_state_fields)
    by (vm_compute; repeat constructor; simpl; tauto).
  intros f H. rewrite Forall_forall in F. now apply F.
Qed.
Print Assumptions scalar_constants_fresh.
