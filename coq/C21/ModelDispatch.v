(** C21 — the two dispatch paths assembled from the generated pieces, and the specification of
    agreement.  Hand-written; no proofs. *)
From Coq Require Import List Bool String.
From V.C21 Require Import ModelBase GenTracing GenAccepts.
Import ListNotations.
Open Scope string_scope.

(** both code paths try their attempts in order and keep the first one that type-checks *)
Fixpoint first_accepted (l : list sel) : option sel :=
  match l with
  | [] => None
  | a :: r => if accepts (s_ty a) (s_meth a) (s_other a) then Some a else first_accepted r
  end.

(** the prefix of attempts actually made (up to and including the first accepted one) *)
Fixpoint attempts_made (l : list sel) : list sel :=
  match l with
  | [] => []
  | a :: r => if accepts (s_ty a) (s_meth a) (s_other a) then [a] else a :: attempts_made r
  end.

(** regular @guppy function: ExprSynthesizer._synthesize_binary *)
Definition regular_select (op : string) (lt rt : ty) : option sel := first_accepted (regular_attempts op lt rt).

(** @guppy.comptime function: Python evaluates `a OP b`.
    - left operand traced: type(a).__lop__(a, b), i.e. DunderMixin.<lop> (it never returns
      NotImplemented, so Python never tries the reflected method itself);
    - left operand a Python constant, right traced: int/float/bool.__lop__ returns NotImplemented
      for a GuppyObject, so Python calls type(b).__rop__(b, a), i.e. DunderMixin.<rop>. *)
Definition trace_attempts (op : string) (ka kb : kind) (lt rt : ty) : list sel :=
  match lookup_first op py_ops with
  | None => []
  | Some (lop, rop) =>
      match ka, kb with
      | Traced, _ => wrapped_attempts lop lt rt true
      | Const, Traced => wrapped_attempts rop rt lt false
      | Const, Const => []
      end
  end.
Definition trace_select (op : string) (ka kb : kind) (lt rt : ty) : option sel := first_accepted (trace_attempts op ka kb lt rt).

(** SPECIFICATION: a selection computes `left OP right` when it is the operator's own method
    applied to (left, right) or the operator's reflected method applied to (right, left) *)
Definition coherent (op : string) (s : sel) : bool :=
  match lookup_first op py_ops with
  | None => false
  | Some (lop, rop) => (String.eqb (s_meth s) lop && s_lr s) || (String.eqb (s_meth s) rop && negb (s_lr s))
  end.

(** the two paths agree: both reject, or both compute `left OP right` with the same type's implementation *)
Definition agree (op : string) (r t : option sel) : bool :=
  match r, t with
  | None, None => true
  | Some a, Some b => ty_eqb (s_ty a) (s_ty b) && coherent op a && coherent op b
  | _, _ => false
  end.

(** operand-kind combinations with at least one traced operand, with the types each kind can have *)
Definition types_of (k : kind) : list ty := match k with Traced => all_types | Const => py_const_types end.
Definition kind_pairs : list (kind * kind) := [(Traced, Traced); (Traced, Const); (Const, Traced)].

Definition case := (string * (kind * kind) * (ty * ty))%type.
Definition cases : list case :=
  flat_map (fun op => flat_map (fun kk => flat_map (fun a => map (fun b => (op, kk, (a, b))) (types_of (snd kk))) (types_of (fst kk))) kind_pairs)
           (map fst py_ops).

Definition case_agrees (c : case) : bool :=
  let '(op, (ka, kb), (a, b)) := c in agree op (regular_select op a b) (trace_select op ka kb a b).
