(** C21 — finite checks over the generated tables, lifted to universally quantified lemmas. *)
From Coq Require Import List Bool String.
From V.C21 Require Import ModelBase GenTracing GenAccepts ModelDispatch.
Import ListNotations.
Open Scope string_scope.

Lemma string_eqb_true : forall a b, String.eqb a b = true -> a = b.
Proof. intros a b H. now apply String.eqb_eq. Qed.

(* every DunderMixin method passes its own name to _get_method *)
Definition delegates_self_b : bool := forallb (fun e => String.eqb (fst e) (fst (fst (snd e)))) dunder_methods.
Lemma delegates_self_fin : delegates_self_b = true.
Proof. vm_compute. reflexivity. Qed.

Lemma delegates_self : forall m d k n, In (m, (d, k, n)) dunder_methods -> d = m.
Proof.
  intros m d k n H. pose proof delegates_self_fin as F. unfold delegates_self_b in F. rewrite forallb_forall in F.
  apply F in H. simpl in H. symmetry. now apply string_eqb_true.
Qed.

(* guppylang's operator table is Python's, and every method it names (except matmul) is a
   binary_operation hook of DunderMixin; every unary method a unary_operation hook *)
Definition is_deco (d : deco) (k : deco) : bool :=
  match d, k with DBinary, DBinary | DUnary, DUnary | DNone, DNone => true | _, _ => false end.
Definition hook (m : string) (k : deco) : bool :=
  match lookup_first m dunder_methods with Some (_, d, _) => is_deco d k | None => false end.
Definition tables_b : bool :=
  forallb (fun e => match lookup_first (fst e) py_ops with
                    | Some (l, r) => String.eqb l (fst (fst (snd e))) && String.eqb r (snd (fst (snd e)))
                    | None => false end) binary_table
  && forallb (fun e => mem_key (fst e) binary_table) py_ops
  && forallb (fun e => String.eqb (fst e) "MatMult" || (hook (fst (fst (snd e))) DBinary && hook (snd (fst (snd e))) DBinary)) binary_table
  && forallb (fun e => hook (fst (snd e)) DUnary) unary_table.
Lemma tables_fin : tables_b = true.
Proof. vm_compute. reflexivity. Qed.

(* the dispatch agreement over the whole finite domain *)
Lemma cases_agree_fin : forallb case_agrees cases = true.
Proof. vm_compute. reflexivity. Qed.

Lemma cases_agree : forall c, In c cases -> case_agrees c = true.
Proof. apply forallb_forall. exact cases_agree_fin. Qed.

Lemma in_cases : forall op ka kb a b,
  In op (map fst py_ops) -> In (ka, kb) kind_pairs -> In a (types_of ka) -> In b (types_of kb) ->
  In (op, (ka, kb), (a, b)) cases.
Proof.
  intros op ka kb a b Hop Hk Ha Hb. unfold cases. apply in_flat_map. exists op. split; [exact Hop|].
  apply in_flat_map. exists (ka, kb). split; [exact Hk|]. apply in_flat_map. exists a. split; [exact Ha|].
  apply in_map_iff. exists b. split; [reflexivity | exact Hb].
Qed.

(* mocked builtins *)
Definition mocks_b : bool :=
  forallb (fun e => String.eqb (snd e) ("__" ++ fst e ++ "__") && mem (fst e) mock_installed
                    && negb (mem (snd e) guppyobject_own_dunders)
                    && match lookup_first (snd e) dunder_methods with Some (d, _, _) => String.eqb d (snd e) | None => true end) mocked_builtins
  && forallb (fun b => mem_key b mocked_builtins) ["int"; "float"; "len"]
  && forallb (fun b => mem_key b mocked_builtins) mock_installed.
Lemma mocks_fin : mocks_b = true.
Proof. vm_compute. reflexivity. Qed.
