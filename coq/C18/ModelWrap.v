(** Hand-written base for C18: 64-bit machine integers as HUGR's arithmetic.int ops see them
    (values are kept in their SIGNED reading, a Z in [-2^63, 2^63-1]), the Range record,
    and the specification of Python's range.  No proofs here.
    Local on purpose (C04 has its own Int64.v; nothing is shared). *)
From Coq Require Import ZArith Bool List.
Import ListNotations.
Open Scope Z_scope.

Definition in_i64 (z : Z) : Prop := - 2 ^ 63 <= z <= 2 ^ 63 - 1.
Definition in_i64b (z : Z) : bool := (- 2 ^ 63 <=? z) && (z <=? 2 ^ 63 - 1).
Definition in_u64 (z : Z) : Prop := 0 <= z <= 2 ^ 64 - 1.

(* reduce an integer to the signed 64-bit value with the same bit pattern *)
Definition wrap_s (z : Z) : Z := (z + 2 ^ 63) mod 2 ^ 64 - 2 ^ 63.
(* the unsigned reading of a signed value *)
Definition to_u (z : Z) : Z := z mod 2 ^ 64.

(* arithmetic.int ops at width 6 (HUGR specification): iadd/isub wrap modulo 2^64;
   *_s comparisons read two's complement, *_u comparisons read unsigned *)
Definition iadd (a b : Z) : Z := wrap_s (a + b).
Definition isub (a b : Z) : Z := wrap_s (a - b).
Definition ige_s (a b : Z) : bool := b <=? a.
Definition igt_s (a b : Z) : bool := b <? a.
Definition ile_s (a b : Z) : bool := a <=? b.
Definition ilt_s (a b : Z) : bool := a <? b.
Definition ige_u (a b : Z) : bool := to_u b <=? to_u a.
Definition igt_u (a b : Z) : bool := to_u b <? to_u a.
Definition ile_u (a b : Z) : bool := to_u a <=? to_u b.
Definition ilt_u (a b : Z) : bool := to_u a <? to_u b.
(* a `nat` value used where an `int` is expected (generic nat parameter loaded with
   load_nat + ifromusize, then passed to an int field): same 64 bits, signed reading *)
Definition nat_as_int (n : Z) : Z := wrap_s n.

(** Specification: Python's range(start, stop, step) for step <> 0 (CPython's
    compute_range_length, and r[i] = start + i*step). *)
Definition py_range_len (start stop step : Z) : Z :=
  if 0 <? step then (if start <? stop then (stop - start - 1) / step + 1 else 0)
  else if step <? 0 then (if stop <? start then (start - stop - 1) / (- step) + 1 else 0)
  else 0.
Definition py_range (start stop step : Z) : list Z :=
  map (fun i => start + Z.of_nat i * step) (seq 0 (Z.to_nat (py_range_len start stop step))).
