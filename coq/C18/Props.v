(** C18 — range() yields Python's sequence.
    Every statement is about the definitions GENERATED from guppylang/std/iter.py (+ the int
    dunder table of std/num.py) on this run: range_next = Range.__next__, range_iter,
    range1/2/3 = _range1/2/3, range_comptime = _range_comptime.  [iterate] (ModelIter.v) is the
    `for` loop: call __next__ until it returns nothing.  The specification [py_range] /
    [py_range_len] (ModelWrap.v) is CPython's: length formula and r[i] = start + i*step;
    [range_spec_is_python] ties it to the documented membership condition. *)
From Coq Require Import ZArith List Bool Lia.
From V.C18 Require Import ModelWrap GenRange ModelIter Proofs.
Import ListNotations.
Open Scope Z_scope.

(* side condition: every yielded value plus step is still an int64 *)
Definition no_wrap (start stop step : Z) : Prop :=
  forall x, In x (py_range start stop step) -> in_i64 (x + step).

(* three-argument form: for all int64 start/stop/step, step <> 0, under the side condition,
   the loop terminates and yields exactly Python's list (for any sufficient fuel) *)
Theorem range_seq : forall start stop step,
  in_i64 start -> in_i64 stop -> in_i64 step -> step <> 0 -> no_wrap start stop step ->
  forall fuel, (Z.to_nat (py_range_len start stop step) < fuel)%nat ->
  iterate fuel (range_iter (range3 start stop step)) = Some (py_range start stop step).
Proof.
  intros a b s _ _ _ Hs Hno fuel Hf. unfold range_iter, range3.
  apply (iterate_more_fuel (S (Z.to_nat (py_range_len a b s)))); [|lia].
  apply iterate_correct; [exact Hs | pose proof (len_nonneg a b s); lia | exact Hno].
Qed.
Print Assumptions range_seq.

(* the side condition is satisfiable next to the boundary, and is decided by the last element *)
Example range_seq_nontrivial :
  no_wrap (2 ^ 63 - 10) (2 ^ 63 - 1) 3 /\
  iterate 4 (range3 (2 ^ 63 - 10) (2 ^ 63 - 1) 3) = Some [2 ^ 63 - 10; 2 ^ 63 - 7; 2 ^ 63 - 4] /\
  iterate 9 (range3 10 (-10) (-3)) = Some [10; 7; 4; 1; -2; -5; -8].
Proof.
  split; [|split; vm_compute; reflexivity].
  intros x Hx. vm_compute in Hx. unfold in_i64. rewrite p63. destruct Hx as [<-|[<-|[<-|[]]]]; lia.
Qed.
Theorem no_wrap_iff_last : forall start stop step, step <> 0 -> in_i64 start ->
  (no_wrap start stop step <->
   (py_range_len start stop step = 0 \/ in_i64 (start + py_range_len start stop step * step))).
Proof. exact no_overflow_iff_last. Qed.
Print Assumptions no_wrap_iff_last.

(* one- and two-argument forms (step = 1): no side condition is needed *)
Theorem range_seq_forms : forall start stop, in_i64 start -> in_i64 stop ->
  (forall fuel, (Z.to_nat (py_range_len start stop 1) < fuel)%nat ->
     iterate fuel (range_iter (range2 start stop)) = Some (py_range start stop 1)) /\
  (forall fuel, (Z.to_nat (py_range_len 0 stop 1) < fuel)%nat ->
     iterate fuel (range_iter (range1 stop)) = Some (py_range 0 stop 1)) /\
  (forall fuel, (Z.to_nat (py_range_len start stop (-1)) < fuel)%nat ->
     iterate fuel (range_iter (range3 start stop (-1))) = Some (py_range start stop (-1))).
Proof.
  intros a b Ha Hb. assert (H0 : in_i64 0) by (unfold in_i64; rewrite p63; lia).
  repeat split; intros fuel Hf; unfold range_iter, range1, range2, range3.
  - apply (iterate_more_fuel (S (Z.to_nat (py_range_len a b 1)))); [|lia].
    apply iterate_correct; [lia | pose proof (len_nonneg a b 1); lia | apply no_overflow_unit; auto].
  - apply (iterate_more_fuel (S (Z.to_nat (py_range_len 0 b 1)))); [|lia].
    apply iterate_correct; [lia | pose proof (len_nonneg 0 b 1); lia | apply no_overflow_unit; auto].
  - apply (iterate_more_fuel (S (Z.to_nat (py_range_len a b (-1))))); [|lia].
    apply iterate_correct; [lia | pose proof (len_nonneg a b (-1)); lia | apply no_overflow_unit; auto].
Qed.
Print Assumptions range_seq_forms.

(* number of iterations = max(0, ceil((stop - start) / step))   (Z division floors) *)
Theorem range_len : forall start stop step l fuel,
  step <> 0 -> no_wrap start stop step ->
  iterate fuel (range3 start stop step) = Some l ->
  Z.of_nat (length l) = Z.max 0 (- ((start - stop) / step)).
Proof.
  intros a b s l fuel Hs Hno H. rewrite <- len_ceiling by exact Hs. rewrite <- py_range_length.
  assert (E : iterate (S (Z.to_nat (py_range_len a b s))) (mkRange a b s) = Some (py_range a b s)).
  { apply iterate_correct; [exact Hs | pose proof (len_nonneg a b s); lia | exact Hno]. }
  unfold range3 in H.
  destruct (Nat.le_ge_cases fuel (S (Z.to_nat (py_range_len a b s)))) as [L|L].
  - rewrite (iterate_more_fuel _ _ _ H _ L) in E. inversion E. reflexivity.
  - rewrite (iterate_more_fuel _ _ _ E _ L) in H. inversion H. reflexivity.
Qed.
Print Assumptions range_len.

(* the specification really is Python's range: i-th element start + i*step, and i is an
   index exactly when that value is < stop (step > 0) resp. > stop (step < 0) *)
Theorem range_spec_is_python : forall start stop step, step <> 0 ->
  (forall i, (i < length (py_range start stop step))%nat ->
     nth i (py_range start stop step) 0 = start + Z.of_nat i * step) /\
  (forall i, 0 <= i -> (i < Z.of_nat (length (py_range start stop step)) <->
     (if 0 <? step then start + i * step < stop else start + i * step > stop))).
Proof.
  intros a b s Hs. split; [intros i Hi; apply py_range_nth; exact Hi |].
  intros i Hi. rewrite py_range_length. apply py_range_doc; assumption.
Qed.
Print Assumptions range_spec_is_python.

(* WITHOUT the side condition the statement is false in the model of the current code:
   range(2^63-2, 2^63-1, 2) — Python yields [2^63-2]; here next+step wraps to -2^63 < stop
   and the loop goes on (for about 2^62 more iterations) *)
Theorem range_seq_refuted : exists start stop step,
  in_i64 start /\ in_i64 stop /\ in_i64 step /\ step <> 0 /\
  py_range start stop step = [start] /\
  iter_prefix 3 (range_iter (range3 start stop step)) = [start; - 2 ^ 63; - 2 ^ 63 + 2] /\
  forall fuel, iterate fuel (range_iter (range3 start stop step)) <> Some (py_range start stop step).
Proof.
  exists (2 ^ 63 - 2), (2 ^ 63 - 1), 2. unfold in_i64. rewrite p63.
  split; [lia|]. split; [lia|]. split; [lia|]. split; [lia|].
  split; [vm_compute; reflexivity|]. split; [vm_compute; reflexivity|].
  intros fuel H.
  assert (N1 : range_next (range_iter (range3 9223372036854775806 9223372036854775807 2))
               = Some (9223372036854775806, mkRange (-9223372036854775808) 9223372036854775807 2)) by (vm_compute; reflexivity).
  assert (N2 : range_next (mkRange (-9223372036854775808) 9223372036854775807 2)
               = Some (-9223372036854775808, mkRange (-9223372036854775806) 9223372036854775807 2)) by (vm_compute; reflexivity).
  destruct (iterate_two _ _ _ _ _ N1 N2 fuel _ H) as [t Ht].
  assert (P : py_range 9223372036854775806 9223372036854775807 2 = [9223372036854775806]) by (vm_compute; reflexivity).
  change (9223372036854775808 - 2) with 9223372036854775806 in Ht. change (9223372036854775808 - 1) with 9223372036854775807 in Ht.
  rewrite P in Ht. discriminate.
Qed.
Print Assumptions range_seq_refuted.

(* range(n) with comptime n: the type promises n elements; for n <= 2^63-1 the iterator
   yields exactly 0..n-1, i.e. n elements *)
Theorem range_comptime_size : forall n, 0 <= n <= 2 ^ 63 - 1 ->
  snd (range_comptime n) = n /\
  (forall fuel, (Z.to_nat n < fuel)%nat ->
     iterate fuel (range_iter (fst (range_comptime n))) = Some (py_range 0 n 1)) /\
  Z.of_nat (length (py_range 0 n 1)) = n.
Proof.
  intros n Hn. assert (Hi : in_i64 n) by (unfold in_i64; lia).
  assert (L : py_range_len 0 n 1 = n).
  { unfold py_range_len. cbn. destruct (0 <? n) eqn:E; [rewrite Z.div_1_r; lia | lia]. }
  split; [reflexivity | split].
  - intros fuel Hf. unfold range_comptime, range_iter, nat_as_int. cbn [fst]. rewrite (wrap_s_id n Hi).
    apply (iterate_more_fuel (S (Z.to_nat (py_range_len 0 n 1)))); [|lia].
    apply iterate_correct; [lia | rewrite L; lia |].
    apply no_overflow_unit; [left; reflexivity | unfold in_i64; rewrite p63; lia | exact Hi].
  - rewrite py_range_length. exact L.
Qed.
Print Assumptions range_comptime_size.

(* ... but a comptime n in [2^63, 2^64-1] is a legal nat and is accepted: the promised size
   is n while the int field `stop` reads the same bits as a negative number: no iteration *)
Theorem range_comptime_size_refuted : exists n, 0 <= n <= 2 ^ 64 - 1 /\
  snd (range_comptime n) = n /\ iterate 1 (range_iter (fst (range_comptime n))) = Some [] /\ n <> 0.
Proof.
  exists (2 ^ 63). rewrite p63, p64. split; [lia|]. split; [reflexivity|]. split; [vm_compute; reflexivity | lia].
Qed.
Print Assumptions range_comptime_size_refuted.

(* the overload order the dispatch model (ModelIter.call_range) relies on *)
Import String.
Example overload_order :
  range_overload_order = ["_range_comptime"; "_range1"; "_range2"; "_range3"]%string.
Proof. reflexivity. Qed.
