(** Lemmas for C18, about the definitions of GenRange.v regenerated from /repo. *)
From Coq Require Import ZArith List Bool Lia ZifyBool.
From V.C18 Require Import ModelWrap GenRange ModelIter.
Import ListNotations.
Open Scope Z_scope.

Lemma p63 : 2 ^ 63 = 9223372036854775808. Proof. reflexivity. Qed.
Lemma p64 : 2 ^ 64 = 18446744073709551616. Proof. reflexivity. Qed.

Lemma wrap_s_id : forall z, in_i64 z -> wrap_s z = z.
Proof.
  intros z H. unfold wrap_s, in_i64 in *. rewrite p63, p64 in *.
  rewrite Z.mod_small by lia. lia.
Qed.

Lemma wrap_s_range : forall z, in_i64 (wrap_s z).
Proof.
  intros z. unfold wrap_s, in_i64. rewrite p63, p64.
  pose proof (Z.mod_pos_bound (z + 9223372036854775808) 18446744073709551616 ltac:(lia)). lia.
Qed.

(* ---- Python's length formula ---- *)
Lemma len_nonneg : forall a b s, 0 <= py_range_len a b s.
Proof.
  intros a b s. unfold py_range_len.
  destruct (0 <? s) eqn:E1.
  - destruct (a <? b) eqn:E2; [|lia]. pose proof (Z.div_pos (b - a - 1) s ltac:(lia) ltac:(lia)). lia.
  - destruct (s <? 0) eqn:E3; [|lia]. destruct (b <? a) eqn:E2; [|lia].
    pose proof (Z.div_pos (a - b - 1) (- s) ltac:(lia) ltac:(lia)). lia.
Qed.

Lemma len_pos_iff : forall a b s, s <> 0 ->
  (0 < py_range_len a b s <-> (if 0 <? s then a < b else b < a)).
Proof.
  intros a b s Hs. unfold py_range_len.
  destruct (0 <? s) eqn:E1.
  - destruct (a <? b) eqn:E2; [|lia]. pose proof (Z.div_pos (b - a - 1) s ltac:(lia) ltac:(lia)). lia.
  - destruct (s <? 0) eqn:E3; [|lia]. destruct (b <? a) eqn:E2; [|lia].
    pose proof (Z.div_pos (a - b - 1) (- s) ltac:(lia) ltac:(lia)). lia.
Qed.

Lemma len_succ : forall a b s, s <> 0 -> 0 < py_range_len a b s ->
  py_range_len (a + s) b s = py_range_len a b s - 1.
Proof.
  intros a b s Hs Hp. pose proof (proj1 (len_pos_iff a b s Hs) Hp) as Hab. unfold py_range_len in *.
  destruct (0 <? s) eqn:E1.
  - destruct (a <? b) eqn:E2; [|lia].
    destruct (a + s <? b) eqn:E3.
    + replace (b - (a + s) - 1) with ((b - a - 1) + (-1) * s) by lia. rewrite Z.div_add by lia. lia.
    + rewrite (Z.div_small (b - a - 1) s) by lia. lia.
  - destruct (s <? 0) eqn:E4; [|lia]. destruct (b <? a) eqn:E2; [|lia].
    destruct (b <? a + s) eqn:E3.
    + replace (a + s - b - 1) with ((a - b - 1) + (-1) * (- s)) by lia. rewrite Z.div_add by lia. lia.
    + rewrite (Z.div_small (a - b - 1) (- s)) by lia. lia.
Qed.

Lemma py_range_nil : forall a b s, py_range_len a b s = 0 -> py_range a b s = [].
Proof. intros a b s H. unfold py_range. rewrite H. reflexivity. Qed.

Lemma py_range_cons : forall a b s, s <> 0 -> 0 < py_range_len a b s ->
  py_range a b s = a :: py_range (a + s) b s.
Proof.
  intros a b s Hs Hp. unfold py_range. rewrite (len_succ a b s Hs Hp).
  remember (py_range_len a b s) as L. 
  replace (Z.to_nat L) with (S (Z.to_nat (L - 1))) by lia.
  cbn [seq map]. f_equal; [lia|].
  rewrite <- seq_shift, map_map. apply map_ext. intros i. lia.
Qed.

Lemma py_range_length : forall a b s, Z.of_nat (length (py_range a b s)) = py_range_len a b s.
Proof. intros a b s. unfold py_range. rewrite map_length, seq_length. pose proof (len_nonneg a b s). lia. Qed.

Lemma py_range_nth : forall a b s i, (i < length (py_range a b s))%nat ->
  nth i (py_range a b s) 0 = a + Z.of_nat i * s.
Proof.
  intros a b s i H. unfold py_range in *. set (f := fun i : nat => a + Z.of_nat i * s) in *.
  rewrite map_length, seq_length in H.
  rewrite (nth_indep _ 0 (f 0%nat)) by (rewrite map_length, seq_length; exact H).
  rewrite map_nth. rewrite seq_nth by exact H. reflexivity.
Qed.

(* ---- the generated __next__ ---- *)
Lemma next_end : forall a b s, s <> 0 -> py_range_len a b s = 0 ->
  range_next (mkRange a b s) = None.
Proof.
  intros a b s Hs H0. pose proof (len_pos_iff a b s Hs) as P. rewrite H0 in P.
  unfold range_next, ige_s, ile_s, igt_s, ilt_s. cbn [r_next r_stop r_step].
  destruct (0 <? s) eqn:E1; cbv beta iota zeta;
    repeat match goal with
           | |- context [Z.leb ?x ?y] => destruct (Z.leb x y) eqn:?
           | |- context [Z.ltb ?x ?y] => destruct (Z.ltb x y) eqn:?
           end; try reflexivity; lia.
Qed.

Lemma next_step : forall a b s, s <> 0 -> 0 < py_range_len a b s -> in_i64 (a + s) ->
  range_next (mkRange a b s) = Some (a, mkRange (a + s) b s).
Proof.
  intros a b s Hs Hp Hin. pose proof (proj1 (len_pos_iff a b s Hs) Hp) as P.
  unfold range_next, ige_s, ile_s, igt_s, ilt_s, iadd. cbn [r_next r_stop r_step]. rewrite (wrap_s_id _ Hin).
  destruct (0 <? s) eqn:E1; cbv beta iota zeta;
    repeat match goal with
           | |- context [Z.leb ?x ?y] => destruct (Z.leb x y) eqn:?
           | |- context [Z.ltb ?x ?y] => destruct (Z.ltb x y) eqn:?
           end; try reflexivity; lia.
Qed.

(* what __next__ does in general (no side condition): the yielded value is always `next`,
   the new state wraps *)
Lemma next_general : forall a b s x r', range_next (mkRange a b s) = Some (x, r') ->
  x = a /\ r' = mkRange (wrap_s (a + s)) b s.
Proof.
  intros a b s x r'. unfold range_next, iadd. cbn [r_next r_stop r_step].
  match goal with |- context [if ?c then None else _] => destruct c end; [discriminate|].
  intros H; inversion H; split; reflexivity.
Qed.

Definition no_overflow (a b s : Z) : Prop := forall x, In x (py_range a b s) -> in_i64 (x + s).

Lemma iterate_correct : forall n a b s, s <> 0 ->
  py_range_len a b s = Z.of_nat n -> no_overflow a b s ->
  iterate (S n) (mkRange a b s) = Some (py_range a b s).
Proof.
  induction n as [|n IH]; intros a b s Hs Hl Hno.
  - cbn [iterate]. rewrite (next_end a b s Hs) by lia. rewrite py_range_nil by lia. reflexivity.
  - assert (Hp : 0 < py_range_len a b s) by lia.
    pose proof (py_range_cons a b s Hs Hp) as Hc.
    assert (Hin : in_i64 (a + s)) by (apply Hno; rewrite Hc; left; reflexivity).
    change (iterate (S (S n)) (mkRange a b s)) with
      (match range_next (mkRange a b s) with None => Some [] | Some (x, r') => option_map (cons x) (iterate (S n) r') end).
    rewrite (next_step a b s Hs Hp Hin).
    rewrite IH; [rewrite Hc; reflexivity | exact Hs | rewrite len_succ by assumption; lia |].
    intros x Hx. apply Hno. rewrite Hc. right. exact Hx.
Qed.

Lemma iterate_more_fuel : forall n r l, iterate n r = Some l -> forall m, (n <= m)%nat -> iterate m r = Some l.
Proof.
  induction n as [|n IH]; intros r l H m Hm; [discriminate|].
  destruct m as [|m]; [lia|]. cbn [iterate] in *.
  destruct (range_next r) as [[x r']|]; [|exact H].
  destruct (iterate n r') as [l'|] eqn:E; [|discriminate]. rewrite (IH r' l' E m) by lia. exact H.
Qed.

(* step = 1 and step = -1 never overflow *)
Lemma no_overflow_unit : forall a b s, (s = 1 \/ s = -1) -> in_i64 a -> in_i64 b -> no_overflow a b s.
Proof.
  intros a b s Hs Ha Hb x Hx. apply In_nth with (d := 0) in Hx. destruct Hx as [i [Hi Hn]].
  rewrite py_range_nth in Hn by exact Hi.
  assert (Z.of_nat i < py_range_len a b s) by (rewrite <- py_range_length; lia).
  unfold py_range_len in H. unfold in_i64 in *. rewrite p63 in *.
  destruct Hs as [-> | ->]; cbn in H.
  - destruct (a <? b) eqn:E; [|lia]. rewrite Z.div_1_r in H. lia.
  - destruct (b <? a) eqn:E; [|lia]. change (- -1) with 1 in H. rewrite Z.div_1_r in H. lia.
Qed.

(* the ceiling form of the length *)
Lemma len_ceiling : forall a b s, s <> 0 -> py_range_len a b s = Z.max 0 (- ((a - b) / s)).
Proof.
  intros a b s Hs. unfold py_range_len.
  destruct (0 <? s) eqn:E1.
  - destruct (a <? b) eqn:E2.
    + pose proof (Z.div_mod (b - a - 1) s ltac:(lia)) as D. pose proof (Z.mod_pos_bound (b - a - 1) s ltac:(lia)) as M.
      remember ((b - a - 1) / s) as q. remember ((b - a - 1) mod s) as r.
      assert ((a - b) / s = - (q + 1)) as ->.
      { symmetry. apply Z.div_unique with (r := s - 1 - r); [left; lia | nia]. }
      pose proof (Z.div_pos (b - a - 1) s ltac:(lia) ltac:(lia)). lia.
    + assert (0 <= (a - b) / s) by (apply Z.div_pos; lia). lia.
  - destruct (s <? 0) eqn:E3; [|lia]. destruct (b <? a) eqn:E2.
    + pose proof (Z.div_mod (a - b - 1) (- s) ltac:(lia)) as D. pose proof (Z.mod_pos_bound (a - b - 1) (- s) ltac:(lia)) as M.
      remember ((a - b - 1) / (- s)) as q. remember ((a - b - 1) mod (- s)) as r.
      assert ((a - b) / s = - (q + 1)) as ->.
      { symmetry. apply Z.div_unique with (r := - (- s - 1 - r)); [right; lia | nia]. }
      pose proof (Z.div_pos (a - b - 1) (- s) ltac:(lia) ltac:(lia)). lia.
    + assert (0 <= (a - b) / s).
      { rewrite <- (Z.div_opp_opp (a - b) s) by lia. apply Z.div_pos; lia. }
      lia.
Qed.

(* Python's documented contents: r[i] = start + i*step, for exactly those i >= 0 with
   r[i] < stop (step > 0) resp. r[i] > stop (step < 0) *)
Lemma py_range_doc : forall a b s i, s <> 0 -> 0 <= i ->
  (i < py_range_len a b s <-> (if 0 <? s then a + i * s < b else a + i * s > b)).
Proof.
  intros a b s i Hs Hi. unfold py_range_len.
  destruct (0 <? s) eqn:E1.
  - destruct (a <? b) eqn:E2; [|nia].
    pose proof (Z.div_mod (b - a - 1) s ltac:(lia)) as D. pose proof (Z.mod_pos_bound (b - a - 1) s ltac:(lia)) as M.
    remember ((b - a - 1) / s) as q. remember ((b - a - 1) mod s) as r. split; intros H; nia.
  - destruct (s <? 0) eqn:E3; [|lia]. destruct (b <? a) eqn:E2; [|nia].
    pose proof (Z.div_mod (a - b - 1) (- s) ltac:(lia)) as D. pose proof (Z.mod_pos_bound (a - b - 1) (- s) ltac:(lia)) as M.
    remember ((a - b - 1) / (- s)) as q. remember ((a - b - 1) mod (- s)) as r. split; intros H; nia.
Qed.

(* the side condition only concerns the last yielded value *)
Lemma no_overflow_iff_last : forall a b s, s <> 0 -> in_i64 a ->
  (no_overflow a b s <-> (py_range_len a b s = 0 \/ in_i64 (a + py_range_len a b s * s))).
Proof.
  intros a b s Hs Ha. pose proof (len_nonneg a b s) as Hn. split.
  - intros H. destruct (Z.eq_dec (py_range_len a b s) 0) as [E|E]; [left; exact E | right].
    assert (Hi : (Z.to_nat (py_range_len a b s - 1) < length (py_range a b s))%nat).
    { pose proof (py_range_length a b s). lia. }
    pose proof (py_range_nth a b s _ Hi) as Hnth.
    specialize (H _ (nth_In _ 0 Hi)). rewrite Hnth in H.
    rewrite Z2Nat.id in H by lia.
    replace (a + (py_range_len a b s - 1) * s + s) with (a + py_range_len a b s * s) in H by ring. exact H.
  - intros H x Hx. apply In_nth with (d := 0) in Hx. destruct Hx as [i [Hi Hnth]].
    rewrite py_range_nth in Hnth by exact Hi. pose proof (py_range_length a b s) as HL.
    destruct H as [H|H]; [lia|]. unfold in_i64 in *. rewrite p63 in *. subst x.
    assert (0 <= Z.of_nat i < py_range_len a b s) by lia.
    remember (py_range_len a b s) as L. remember (Z.of_nat i + 1) as k.
    replace (a + Z.of_nat i * s + s) with (a + k * s) by (subst k; ring).
    assert (1 <= k <= L) by lia. clear Heqk HeqL H0 HL Hi.
    destruct (Z.lt_trichotomy s 0) as [S|[S|S]]; [| lia |].
    + assert (L * s <= k * s) by (apply Z.mul_le_mono_nonpos_r; lia).
      assert (k * s <= 0) by (apply Z.mul_nonneg_nonpos; lia). lia.
    + assert (k * s <= L * s) by (apply Z.mul_le_mono_nonneg_r; lia).
      assert (0 <= k * s) by (apply Z.mul_nonneg_nonneg; lia). lia.
Qed.

(* two yields in a row force at least two elements *)
Lemma iterate_two : forall r x r' y r'', range_next r = Some (x, r') -> range_next r' = Some (y, r'') ->
  forall fuel l, iterate fuel r = Some l -> exists t, l = x :: y :: t.
Proof.
  intros r x r' y r'' H1 H2 fuel l H.
  destruct fuel as [|[|f]]; cbn [iterate] in H; try discriminate; rewrite H1 in H.
  - cbn in H. discriminate.
  - rewrite H2 in H. destruct (iterate f r'') as [t|]; cbn in H; [|discriminate]. inversion H. eexists; reflexivity.
Qed.
