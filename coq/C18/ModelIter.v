(** Hand-written: how a `for` loop drives an iterator (call __next__ until it returns
    nothing), on top of the GENERATED Range.__next__.  No proofs here. *)
From Coq Require Import ZArith Bool List.
From V.C18 Require Import ModelWrap GenRange.
Import ListNotations.
Open Scope Z_scope.

(* all values yielded before __next__ returns nothing; None = fuel exhausted first *)
Fixpoint iterate (fuel : nat) (r : Range) : option (list Z) :=
  match fuel with
  | O => None
  | S f => match range_next r with
           | None => Some []
           | Some (x, r') => option_map (cons x) (iterate f r')
           end
  end.

(* the first n yielded values (fewer if the iterator ends) *)
Fixpoint iter_prefix (n : nat) (r : Range) : list Z :=
  match n with
  | O => []
  | S f => match range_next r with
           | None => []
           | Some (x, r') => x :: iter_prefix f r'
           end
  end.

(* `range(...)` call forms after overload resolution (OverloadedFunctionDef tries the
   variants in the order of the generated [range_overload_order]):
   one comptime nat argument -> _range_comptime; otherwise by arity *)
Inductive range_call :=
| CallComptime (n : Z)           (* range(<literal or comptime nat n>) *)
| Call1 (stop : Z)               (* range(stop) with a runtime int, or a negative literal *)
| Call2 (start stop : Z)
| Call3 (start stop step : Z).

Definition call_range (c : range_call) : Range :=
  match c with
  | CallComptime n => fst (range_comptime n)
  | Call1 stop => range1 stop
  | Call2 a b => range2 a b
  | Call3 a b s => range3 a b s
  end.
