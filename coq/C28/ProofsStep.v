(** C28 — facts about the GENERATED step functions.  Each proof is one generic script that
    unfolds whatever the translator produced; a method that starts writing to an object
    reachable from another configuration makes [step_frame] fail. *)
From Coq Require Import ZArith List Bool Lia.
From V.C28 Require Import ModelBase GenEmu ProofsHeap.
Import ListNotations.
Local Open Scope nat_scope.

(* every reference held by the configuration points into the heap *)
Definition wf (h : heap) (c : inst) : Prop := Forall (fun r => r < length h) (inst_refs c).

Ltac wf_hyps :=
  unfold wf in *; autounfold with emu in *;
  repeat match goal with
         | H : Forall _ (_ :: _) |- _ => apply Forall_cons_iff in H; destruct H
         | H : Forall _ [] |- _ => clear H
         end.
Ltac wf_goal := repeat (apply Forall_cons; [ len; cbn; lia | ]); try apply Forall_nil.

Lemma wf_frame : forall h h' c, wf h c -> frame h h' -> wf h' c.
Proof.
  intros h h' c W [L _]. unfold wf in *. eapply Forall_impl; [ | exact W ]. cbv beta. intros. lia.
Qed.

Lemma content_frame : forall h h' c, wf h c -> frame h h' -> content h' c = content h c.
Proof.
  intros h h' c W [_ F]. wf_hyps. repeat rewrite F by assumption. reflexivity.
Qed.

Lemma mk_root_ok : forall h i n,
  frame h (fst (mk_root h i n)) /\ wf (fst (mk_root h i n)) (snd (mk_root h i n)).
Proof.
  intros. autounfold with emu. cbn [fst snd]. split; [ split | ].
  - len. lia.
  - intros. hs. reflexivity.
  - unfold wf. autounfold with emu. cbn. wf_goal.
Qed.

(** One derivation never changes an object that already existed, and yields a well-formed
    configuration. *)
Lemma step_frame : forall m ra h c,
  wf h c -> (meth_uses_ref m = true -> ra < length h) ->
  frame h (fst (step m ra h c)) /\ wf (fst (step m ra h c)) (snd (step m ra h c)).
Proof.
  intros m ra h c W A. wf_hyps.
  destruct m; cbn [meth_uses_ref] in A; try specialize (A eq_refl);
    cbn [fst snd]; (split; [ split | ]).
  all: try (len; lia).
  all: try (intros; hs; reflexivity).
  all: cbn; wf_goal.
Qed.

(** Two runs of the same method from configurations with equal content, in unrelated
    heaps, yield configurations with equal content: a derivation depends only on the fields
    of the configuration it starts from and of the object passed, not on anything else in
    the heap. *)
Lemma step_sim : forall m ra1 ra2 h1 h2 c1 c2,
  wf h1 c1 -> wf h2 c2 -> content h1 c1 = content h2 c2 ->
  (meth_uses_ref m = true -> ra1 < length h1 /\ ra2 < length h2 /\ hget h1 ra1 = hget h2 ra2) ->
  content (fst (step m ra1 h1 c1)) (snd (step m ra1 h1 c1)) =
  content (fst (step m ra2 h2 c2)) (snd (step m ra2 h2 c2)).
Proof.
  intros m ra1 ra2 h1 h2 [i1 n1 o1] [i2 n2 o2] W1 W2 C A.
  destruct o1, o2. wf_hyps. cbn in *. injection C as ?. subst.
  destruct m; cbn [meth_uses_ref] in A; try (destruct (A eq_refl) as (? & ? & ?));
    cbn [fst snd]; cbn; hs; congruence.
Qed.

Lemma run_args_content : forall h1 h2 c1 c2,
  content h1 c1 = content h2 c2 -> run_args h1 c1 = run_args h2 c2.
Proof.
  intros h1 h2 [i1 n1 o1] [i2 n2 o2] C. destruct o1, o2.
  autounfold with emu in *. cbn in *. injection C as ?. subst. congruence.
Qed.
