(** C28 — histories of emulator-configuration programs (hand-written, executable, no proofs).

    A history is any list of the following user actions; its execution is a left fold.
    Every step function used here ([mk_root], [step], [run_args]) is GENERATED from
    instance.py. *)
From Coq Require Import ZArith List Bool String.
From V.C28 Require Import ModelBase GenEmu.
Import ListNotations.
Open Scope Z_scope.
Open Scope list_scope.

(* where the component object passed to with_simulator/with_runtime/... comes from *)
Inductive argsrc :=
| ANone                       (* the method takes no component object *)
| AUser (k : nat)             (* the k-th object the user constructed (OAlloc) *)
| AField (cfg j : nat).       (* the j-th component held by configuration cfg, e.g. `a.simulator` *)

Inductive op :=
| OAlloc (o : obj)                            (* user constructs a component object, e.g. Coinflip(random_seed=3) *)
| ONew (instance n_qubits : Z)                (* EmulatorInstance(_instance=.., _n_qubits=..)  (what EmulatorBuilder.build returns) *)
| ODerive (src : nat) (m : meth) (a : argsrc) (* configurations[src].m(arg): a new configuration *)
| ORun (src : nat).                           (* configurations[src].run() *)

(* a derivation chain, by value: how one configuration was obtained from its root *)
Inductive vop :=
| VNew (instance n_qubits : Z)
| VStep (m : meth) (ao : obj).   (* ao = the fields of the component object passed (dflt_obj if none) *)

Record world := mkW {
  w_heap : heap;
  w_env : list inst;             (* configurations in order of creation *)
  w_user : list ref;             (* objects constructed by the user, in order *)
  w_log : list (nat * obs);      (* what each run() handed to the backend *)
  w_chain : list (list vop)      (* ghost: derivation chain of each configuration *)
}.
Definition w0 : world := mkW [] [] [] [] [].

Definition resolve_arg (w : world) (a : argsrc) : option ref :=
  match a with
  | ANone => None
  | AUser k => nth_error (w_user w) k
  | AField cfg j => match nth_error (w_env w) cfg with
                    | Some c => nth_error (inst_refs c) j
                    | None => None
                    end
  end.

Definition exec_op (w : world) (o : op) : world :=
  match o with
  | OAlloc ob => mkW (halloc_h (w_heap w) ob) (w_env w) (w_user w ++ [halloc_r (w_heap w)]) (w_log w) (w_chain w)
  | ONew i n => let p := mk_root (w_heap w) i n in
                mkW (fst p) (w_env w ++ [snd p]) (w_user w) (w_log w) (w_chain w ++ [[VNew i n]])
  | ODerive src m a =>
      match nth_error (w_env w) src, nth_error (w_chain w) src with
      | Some c, Some ch =>
          match meth_uses_ref m, resolve_arg w a with
          | true, Some ra => let p := step m ra (w_heap w) c in
                             mkW (fst p) (w_env w ++ [snd p]) (w_user w) (w_log w)
                                 (w_chain w ++ [ch ++ [VStep m (hget (w_heap w) ra)]])
          | false, _ => let p := step m O (w_heap w) c in
                        mkW (fst p) (w_env w ++ [snd p]) (w_user w) (w_log w)
                            (w_chain w ++ [ch ++ [VStep m dflt_obj]])
          | true, None => w        (* ill-formed action: nothing happens *)
          end
      | _, _ => w
      end
  | ORun src =>
      match nth_error (w_env w) src with
      | Some c => mkW (w_heap w) (w_env w) (w_user w) (w_log w ++ [(src, run_args (w_heap w) c)]) (w_chain w)
      | None => w
      end
  end.

Definition exec (ops : list op) (w : world) : world := fold_left exec_op ops w.

(* what configuration number i would hand to the backend if run now *)
Definition observe (w : world) (i : nat) : option obs :=
  option_map (run_args (w_heap w)) (nth_error (w_env w) i).

(** Replaying one derivation chain in isolation: a fresh heap, nothing else derived or run.
    The component object passed to a step is constructed just before the step. *)
Definition replay_op (st : option (heap * inst)) (v : vop) : option (heap * inst) :=
  match v, st with
  | VNew i n, _ => Some (mk_root [] i n)
  | VStep m ao, Some (h, c) => Some (step m (halloc_r h) (halloc_h h ao) c)
  | VStep _ _, None => None
  end.
Definition replay (ch : list vop) : option (heap * inst) := fold_left replay_op ch None.
Definition chain_obs (ch : list vop) : option obs :=
  option_map (fun st => run_args (fst st) (snd st)) (replay ch).

(* for the correspondence harness: log + final observation of every configuration *)
Definition enc_world (w : world) : list (list Z) * list (list Z) :=
  (map (fun p => Z.of_nat (fst p) :: enc_obs (snd p)) (w_log w),
   map (fun c => enc_obs (run_args (w_heap w) c)) (w_env w)).
Definition enc_chains (w : world) : list (list Z) := map (fun ch => match chain_obs ch with Some o => enc_obs o | None => [] end) (w_chain w).
