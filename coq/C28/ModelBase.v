(** C28 — hand-written base of the emulator-configuration model (no proofs here).

    Python objects that [EmulatorInstance] only holds by reference (simulator, runtime,
    error model, event hook) live in a heap; a reference is an index into it.  Such an
    object has a class/parameter code (never written by guppylang) and the one field
    guppylang does write, [random_seed].  Configurations ([_Options], [EmulatorInstance])
    are frozen dataclasses: immutable records holding scalars and references; they are
    GENERATED from instance.py (GenEmu.v) together with one step function per method. *)
From Coq Require Import ZArith List Bool String.
Import ListNotations.
Open Scope Z_scope.

Definition ref := nat.
Record obj := mkObj { o_cls : Z; o_seed : option Z }.
Definition dflt_obj : obj := mkObj 0 None.
Definition heap := list obj.

Definition hget (h : heap) (r : ref) : obj := nth r h dflt_obj.
Fixpoint upd (h : heap) (r : nat) (f : obj -> obj) : heap :=
  match h, r with
  | [], _ => []
  | o :: t, O => f o :: t
  | o :: t, S r' => o :: upd t r' f
  end.
(* Python `<obj>.random_seed = s` *)
Definition hset_seed (h : heap) (r : ref) (s : option Z) : heap :=
  upd h r (fun o => mkObj (o_cls o) s).
(* allocation of a new object: it gets the next index *)
Definition halloc_h (h : heap) (o : obj) : heap := (h ++ [o])%list.
Definition halloc_r (h : heap) : ref := List.length h.
(* `copy.copy(x)` / `dataclasses.replace(x)` of a heap object: a new object with equal fields *)
Definition obj_with_seed (o : obj) (s : option Z) : obj := mkObj (o_cls o) s.

(** What is observable of a run: the values handed to the backend; a referenced object is
    observed by its fields at the time of the call, not by its identity. *)
(* Python dict with opaque keys/values (EmulatorBuilder._custom_args): insertion-ordered *)
Definition dict := list (Z * Z).
Fixpoint dict_set (d : dict) (k v : Z) : dict :=
  match d with
  | [] => [(k, v)]
  | (k', v') :: t => if Z.eqb k k' then (k, v) :: t else (k', v') :: dict_set t k v
  end.
(* `a | b` on dicts: a new dict *)
Definition dict_or (a b : dict) : dict := fold_left (fun d kv => dict_set d (fst kv) (snd kv)) b a.

Inductive oval := VZ (z : Z) | VOptZ (o : option Z) | VBool (b : bool) | VObj (o : obj) | VDict (d : dict).
Definition obs := list (string * oval).

(* numeric encoding used only by the correspondence harness *)
Definition enc_opt (o : option Z) : list Z := match o with None => [0; 0] | Some z => [1; z] end.
Definition enc_oval (v : oval) : list Z :=
  match v with
  | VZ z => [z]
  | VOptZ o => enc_opt o
  | VBool b => [if b then 1 else 0]
  | VObj o => o_cls o :: enc_opt (o_seed o)
  | VDict d => Z.of_nat (List.length d) :: flat_map (fun kv => [fst kv; snd kv]) d
  end.
Definition enc_obs (o : obs) : list Z := flat_map (fun p => enc_oval (snd p)) o.

(* checksum of a table of integers: the harness compares checksums and asks for the full
   table only when they differ (printing large terms is the slow part of an evaluation) *)
Definition ck_M : Z := 2305843009213693951.   (* 2^61 - 1, used as a bit mask *)
Definition cksum_row (acc : Z) (row : list Z) : Z :=
  fold_left (fun a z => Z.land (a * 8191 + z + 7) ck_M) row (Z.land (acc * 31 + 1) ck_M).
Definition cksum (l : list (list Z)) : Z := fold_left cksum_row l 17.
