(** C28 — histories over EmulatorBuilder configurations (hand-written, no proofs).
    [bstep], [b_default], [build_args] are GENERATED from builder.py.  A builder holds only
    values (the translator refuses any code that writes into the build-argument dict), so a
    world is just the list of builders created so far. *)
From Coq Require Import ZArith List Bool String.
From V.C28 Require Import ModelBase GenBuilder.
Import ListNotations.
Open Scope Z_scope.

Inductive bop :=
| BNew                              (* EmulatorBuilder() *)
| BDerive (src : nat) (m : bmeth)   (* builders[src].with_...(...) *)
| BBuild (src : nat) (package : Z). (* builders[src].build(package, n) : what selene_sim.build receives *)

Record bworld := mkBW { bw_env : list bcfg; bw_chain : list (list bmeth); bw_log : list (nat * obs) }.
Definition bw0 : bworld := mkBW [] [] [].

Definition bexec_op (w : bworld) (o : bop) : bworld :=
  match o with
  | BNew => mkBW (bw_env w ++ [b_default]) (bw_chain w ++ [[]]) (bw_log w)
  | BDerive src m =>
      match nth_error (bw_env w) src, nth_error (bw_chain w) src with
      | Some b, Some ch => mkBW (bw_env w ++ [bstep m b]) (bw_chain w ++ [ch ++ [m]]) (bw_log w)
      | _, _ => w
      end
  | BBuild src p =>
      match nth_error (bw_env w) src with
      | Some b => mkBW (bw_env w) (bw_chain w) (bw_log w ++ [(src, build_args b p)])
      | None => w
      end
  end.
Definition bexec (ops : list bop) (w : bworld) : bworld := fold_left bexec_op ops w.
Definition bobserve (w : bworld) (i : nat) (p : Z) : option obs :=
  option_map (fun b => build_args b p) (nth_error (bw_env w) i).
(* a chain replayed on its own *)
Definition bchain_obs (ch : list bmeth) (p : Z) : obs :=
  build_args (fold_left (fun b m => bstep m b) ch b_default) p.

Definition enc_bworld (w : bworld) : list (list Z) * list (list Z) :=
  (map (fun q => Z.of_nat (fst q) :: enc_obs (snd q)) (bw_log w),
   map (fun b => enc_obs (build_args b 0)) (bw_env w)).
