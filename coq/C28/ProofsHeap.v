(** C28 — heap lemmas (independent of the generated code). *)
From Coq Require Import ZArith List Bool Lia.
From V.C28 Require Import ModelBase.
Import ListNotations.
Local Open Scope nat_scope.

Lemma upd_length : forall h r f, length (upd h r f) = length h.
Proof. induction h; destruct r; simpl; intros; auto. Qed.

Lemma hset_length : forall h r s, length (hset_seed h r s) = length h.
Proof. intros. apply upd_length. Qed.

Lemma halloc_length : forall h o, length (halloc_h h o) = S (length h).
Proof. intros. unfold halloc_h. rewrite app_length. simpl. lia. Qed.

Lemma hget_alloc_old : forall h o r, r < length h -> hget (halloc_h h o) r = hget h r.
Proof. intros. unfold hget, halloc_h. apply app_nth1. assumption. Qed.

Lemma hget_alloc_new : forall h o r, r = length h -> hget (halloc_h h o) r = o.
Proof. intros. subst. unfold hget, halloc_h. rewrite app_nth2 by lia. rewrite Nat.sub_diag. reflexivity. Qed.

Lemma nth_upd_other : forall h r r' f, r <> r' -> nth r (upd h r' f) dflt_obj = nth r h dflt_obj.
Proof.
  induction h; intros; simpl.
  - destruct r'; reflexivity.
  - destruct r', r; simpl; auto; try congruence.
Qed.

Lemma nth_upd_same : forall h r f, r < length h -> nth r (upd h r f) dflt_obj = f (nth r h dflt_obj).
Proof.
  induction h; intros; simpl in *.
  - lia.
  - destruct r; simpl; auto. apply IHh. lia.
Qed.

Lemma hget_set_other : forall h r r' s, r <> r' -> hget (hset_seed h r' s) r = hget h r.
Proof. intros. apply nth_upd_other. assumption. Qed.

Lemma hget_set_same : forall h r r' s, r = r' -> r < length h ->
  hget (hset_seed h r' s) r = obj_with_seed (hget h r) s.
Proof. intros. subst. unfold hget, hset_seed. rewrite nth_upd_same by assumption. reflexivity. Qed.

(** h' extends h: nothing that existed has changed *)
Definition frame (h h' : heap) : Prop :=
  length h <= length h' /\ forall r, r < length h -> hget h' r = hget h r.

Lemma frame_refl : forall h, frame h h.
Proof. split; auto. Qed.

Lemma frame_trans : forall a b c, frame a b -> frame b c -> frame a c.
Proof.
  intros a b c [L1 F1] [L2 F2]. split. lia.
  intros. rewrite F2 by lia. apply F1. assumption.
Qed.

Lemma frame_alloc : forall h o, frame h (halloc_h h o).
Proof. intros. split. rewrite halloc_length. lia. intros. apply hget_alloc_old. assumption. Qed.

Ltac len := unfold halloc_r in *; repeat rewrite ?hset_length, ?halloc_length in *.
Ltac hs :=
  repeat first
    [ rewrite hget_alloc_new by (len; lia)
    | rewrite hget_alloc_old by (len; lia)
    | rewrite hget_set_other by (len; lia)
    | rewrite hget_set_same by (len; lia) ].
