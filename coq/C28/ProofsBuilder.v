(** C28 — EmulatorBuilder histories. *)
From Coq Require Import ZArith List Bool Lia.
From V.C28 Require Import ModelBase GenBuilder ModelBuilder.
Import ListNotations.
Local Open Scope nat_scope.

Record binv (w : bworld) : Prop := mkBInv {
  binv_len : length (bw_chain w) = length (bw_env w);
  binv_chain : forall i b ch, nth_error (bw_env w) i = Some b -> nth_error (bw_chain w) i = Some ch ->
                              b = fold_left (fun b m => bstep m b) ch b_default;
  binv_log : forall i o, In (i, o) (bw_log w) ->
             exists ch p, nth_error (bw_chain w) i = Some ch /\ o = bchain_obs ch p
}.

Definition bextends (w w' : bworld) : Prop :=
  (exists l, bw_env w' = bw_env w ++ l) /\ (exists l, bw_chain w' = bw_chain w ++ l).

Lemma snoc_cases : forall A (l : list A) (x : A) i y,
  nth_error (l ++ [x]) i = Some y ->
  (i < length l /\ nth_error l i = Some y) \/ (i = length l /\ y = x).
Proof.
  intros A l x i y H. destruct (Nat.lt_ge_cases i (length l)) as [L | L].
  - left. split; auto. rewrite nth_error_app1 in H by assumption. assumption.
  - right. rewrite nth_error_app2 in H by assumption.
    destruct (i - length l) eqn:E.
    + simpl in H. inversion H. split; auto. lia.
    + simpl in H. destruct n; discriminate.
Qed.

Lemma bexec_op_inv : forall w o, binv w -> binv (bexec_op w o) /\ bextends w (bexec_op w o).
Proof.
  intros w o I.
  assert (R : bextends w w) by (split; exists []; rewrite app_nil_r; reflexivity).
  assert (LOG : forall l, (forall i o, In (i, o) (bw_log w) ->
             exists ch p, nth_error (bw_chain w ++ l) i = Some ch /\ o = bchain_obs ch p)).
  { intros l i o0 H. destruct (binv_log w I _ _ H) as (ch & p & N & E). exists ch, p. split; auto.
    rewrite nth_error_app1; auto. apply nth_error_Some. congruence. }
  destruct o as [ | src m | src p ]; cbn [bexec_op].
  - split; [ | split; eexists; reflexivity ].
    constructor; cbn [bw_env bw_chain bw_log].
    + rewrite !app_length, (binv_len w I). reflexivity.
    + intros i b ch H1 H2. apply snoc_cases in H1. apply snoc_cases in H2. rewrite (binv_len w I) in H2.
      destruct H1 as [[L1 H1] | [L1 H1]], H2 as [[L2 H2] | [L2 H2]]; try lia.
      * eapply binv_chain; eauto.
      * subst. reflexivity.
    + apply LOG.
  - destruct (nth_error (bw_env w) src) as [b | ] eqn:Eb; [ | split; auto ].
    destruct (nth_error (bw_chain w) src) as [ch | ] eqn:Ec; [ | split; auto ].
    split; [ | split; eexists; reflexivity ].
    constructor; cbn [bw_env bw_chain bw_log].
    + rewrite !app_length, (binv_len w I). reflexivity.
    + intros i b0 ch0 H1 H2. apply snoc_cases in H1. apply snoc_cases in H2. rewrite (binv_len w I) in H2.
      destruct H1 as [[L1 H1] | [L1 H1]], H2 as [[L2 H2] | [L2 H2]]; try lia.
      * eapply binv_chain; eauto.
      * subst. rewrite fold_left_app. cbn [fold_left]. f_equal. eapply binv_chain; eauto.
    + apply LOG.
  - destruct (nth_error (bw_env w) src) as [b | ] eqn:Eb; [ | split; auto ].
    split; [ | exact R ].
    constructor; cbn [bw_env bw_chain bw_log]; try apply I.
    intros i o H. apply in_app_or in H. destruct H as [H | [H | []]].
    + apply (binv_log w I _ _ H).
    + inversion H; subst i o.
      assert (exists ch, nth_error (bw_chain w) src = Some ch) as [ch Ech].
      { destruct (nth_error (bw_chain w) src) eqn:E; eauto.
        apply nth_error_None in E. rewrite (binv_len w I) in E.
        assert (src < length (bw_env w)) by (apply nth_error_Some; congruence). lia. }
      exists ch, p. split; auto. unfold bchain_obs. f_equal. eapply binv_chain; eauto.
Qed.

Lemma bexec_inv : forall ops w, binv w -> binv (bexec ops w) /\ bextends w (bexec ops w).
Proof.
  induction ops as [ | o ops IH ]; intros w I; cbn [bexec fold_left].
  - split; auto. split; exists []; rewrite app_nil_r; reflexivity.
  - destruct (bexec_op_inv w o I) as [I1 [(e1 & E1) (c1 & C1)]].
    destruct (IH _ I1) as [I2 [(e2 & E2) (c2 & C2)]]. split; auto.
    unfold bexec in *. split.
    + exists (e1 ++ e2). rewrite E2, E1, app_assoc. reflexivity.
    + exists (c1 ++ c2). rewrite C2, C1, app_assoc. reflexivity.
Qed.

Lemma binv_bw0 : binv bw0.
Proof.
  constructor; cbn; intros; try reflexivity; try (destruct i; discriminate); contradiction.
Qed.

Lemma builder_pure_lem : forall before after i p o,
  bobserve (bexec before bw0) i p = Some o -> bobserve (bexec after (bexec before bw0)) i p = Some o.
Proof.
  intros before after i p o H.
  assert (I : binv (bexec before bw0)) by (apply bexec_inv; apply binv_bw0).
  destruct (bexec_inv after _ I) as [_ [(l & E) _]].
  unfold bobserve in *. destruct (nth_error (bw_env (bexec before bw0)) i) eqn:Eb; [ | discriminate ].
  rewrite E, nth_error_app1 by (apply nth_error_Some; congruence). rewrite Eb. exact H.
Qed.

Lemma builder_reproducible_lem : forall ops i ch p,
  nth_error (bw_chain (bexec ops bw0)) i = Some ch ->
  forall more, bobserve (bexec more (bexec ops bw0)) i p = Some (bchain_obs ch p).
Proof.
  intros ops i ch p H more.
  assert (I : binv (bexec ops bw0)) by (apply bexec_inv; apply binv_bw0).
  destruct (bexec_inv more _ I) as [I2 [(l & E) (l2 & E2)]].
  assert (exists b, nth_error (bw_env (bexec ops bw0)) i = Some b) as [b Eb].
  { destruct (nth_error (bw_env (bexec ops bw0)) i) eqn:E0; eauto.
    apply nth_error_None in E0. rewrite <- (binv_len _ I) in E0.
    assert (i < length (bw_chain (bexec ops bw0))) by (apply nth_error_Some; congruence). lia. }
  unfold bobserve. rewrite E, nth_error_app1 by (apply nth_error_Some; congruence). rewrite Eb.
  cbn [option_map]. unfold bchain_obs. do 2 f_equal. exact (binv_chain _ I _ _ _ Eb H).
Qed.
