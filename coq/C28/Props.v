(** C28 — Emulator configurations are immutable and reproducible.

    Every statement is about the step functions GENERATED from
    guppylang/emulator/instance.py on this run (GenEmu.v: [mk_root], [step], [run_args]) and
    quantifies over ALL histories (lists of user actions: construct a component object,
    create an instance, derive with any with_*/..._sim method from any existing
    configuration with any argument — including objects held by other configurations —,
    run any configuration), executed by [exec] = fold_left.

    [observe w i] = the values configuration i hands to the backend if run in world w;
    component objects (simulator, runtime, error model, event hook) are observed by their
    fields AT THE TIME OF THE CALL, so a write to a shared object is visible. *)
From Coq Require Import ZArith List Bool String.
From V.C28 Require Import ModelBase GenEmu ModelHist ProofsHeap ProofsStep ProofsHist.
Import ListNotations.
Open Scope Z_scope.

(* Deriving, constructing or running anything later never changes what an existing
   configuration does: for every history [before], every configuration i that exists after
   it, and every continuation [after]. *)
Theorem derive_pure : forall (before after : list op) (i : nat) (o : obs),
  observe (exec before w0) i = Some o ->
  observe (exec after (exec before w0)) i = Some o.
Proof. exact derive_pure_lem. Qed.
Print Assumptions derive_pure.

(* What a configuration hands to the backend — now, after any continuation, and in every
   run() of it recorded in the log — equals [chain_obs ch], a function of its own derivation
   chain ch alone (the chain replayed in an empty heap with nothing else derived or run). *)
Theorem run_reproducible : forall (ops : list op) (i : nat) (ch : list vop),
  nth_error (w_chain (exec ops w0)) i = Some ch ->
  (forall more, observe (exec more (exec ops w0)) i = chain_obs ch) /\
  (forall more o, In (i, o) (w_log (exec more (exec ops w0))) -> chain_obs ch = Some o).
Proof. exact run_reproducible_lem. Qed.
Print Assumptions run_reproducible.

(* Two runs of the same configuration anywhere in a history hand identical values to the
   backend (with a fixed seed these determine the results). *)
Theorem run_same_every_time : forall (ops : list op) (i : nat) (o1 o2 : obs),
  In (i, o1) (w_log (exec ops w0)) -> In (i, o2) (w_log (exec ops w0)) -> o1 = o2.
Proof. exact run_same_lem. Qed.
Print Assumptions run_same_every_time.

(* The ghost chain is the configuration's own derivation: deriving with method m from
   configuration src extends src's chain by exactly that step. *)
Theorem chain_is_own_derivation : forall w src m a c ch,
  nth_error (w_env w) src = Some c -> nth_error (w_chain w) src = Some ch ->
  List.length (w_chain w) = List.length (w_env w) ->
  (meth_uses_ref m = true -> resolve_arg w a <> None) ->
  exists ao, nth_error (w_chain (exec_op w (ODerive src m a))) (List.length (w_env w)) = Some (ch ++ [VStep m ao]).
Proof. exact chain_of_derived. Qed.
Print Assumptions chain_is_own_derivation.

(** Non-vacuity: the history that exposed the defect in the unrepaired code
      e = EmulatorInstance(..); a = e.with_seed(1); b = a.with_seed(2); a.run()
    Configuration a (number 1) exists, and both before and after deriving b its simulator
    is seeded with 1; b's with 2; a user-supplied simulator shared by two configurations is
    not written by with_seed either. *)
Definition h_before : list op := [ONew 7 2; ODerive 0 (M_with_seed (Some 1)) ANone].
Definition h_after : list op := [ODerive 1 (M_with_seed (Some 2)) ANone; ORun 1; ORun 2].
Definition sim_seed (o : option obs) : option (option Z) :=
  match o with
  | Some l => match find (fun p => String.eqb (fst p) "simulator") l with
              | Some (_, VObj ob) => Some (o_seed ob)
              | _ => None
              end
  | None => None
  end.
Example witness_before : sim_seed (observe (exec h_before w0) 1) = Some (Some 1).
Proof. vm_compute. reflexivity. Qed.
Example witness_after : sim_seed (observe (exec h_after (exec h_before w0)) 1) = Some (Some 1)
  /\ sim_seed (observe (exec h_after (exec h_before w0)) 2) = Some (Some 2)
  /\ map (fun p => (fst p, sim_seed (Some (snd p)))) (w_log (exec h_after (exec h_before w0)))
     = [(1%nat, Some (Some 1)); (2%nat, Some (Some 2))].
Proof. vm_compute. repeat split. Qed.
Example witness_chain : nth_error (w_chain (exec (h_before ++ h_after) w0)) 2
  = Some [VNew 7 2; VStep (M_with_seed (Some 1)) dflt_obj; VStep (M_with_seed (Some 2)) dflt_obj].
Proof. vm_compute. reflexivity. Qed.
Definition h_shared : list op :=
  [OAlloc (mkObj 3 (Some 5)); ONew 1 1; ODerive 0 M_with_simulator (AUser 0);
   ODerive 0 M_with_simulator (AField 1 0); ODerive 2 (M_with_seed (Some 9)) ANone].
Example witness_shared :
  map (fun i => sim_seed (observe (exec h_shared w0) i)) [0; 1; 2; 3]%nat
  = [Some None; Some (Some 5); Some (Some 5); Some (Some 9)].
Proof. vm_compute. reflexivity. Qed.

(** EmulatorBuilder (builder.py): the same two statements for builder configurations;
    [bobserve w i p] = what selene_sim.build receives from builders[i].build(p, _). *)
From V.C28 Require Import GenBuilder ModelBuilder ProofsBuilder.
Theorem builder_derive_pure : forall (before after : list bop) (i : nat) (p : Z) (o : obs),
  bobserve (bexec before bw0) i p = Some o -> bobserve (bexec after (bexec before bw0)) i p = Some o.
Proof. exact builder_pure_lem. Qed.
Print Assumptions builder_derive_pure.

Theorem builder_reproducible : forall (ops : list bop) (i : nat) (ch : list bmeth) (p : Z),
  nth_error (bw_chain (bexec ops bw0)) i = Some ch ->
  forall more, bobserve (bexec more (bexec ops bw0)) i p = Some (bchain_obs ch p).
Proof. exact builder_reproducible_lem. Qed.
Print Assumptions builder_reproducible.

Example builder_witness :
  let w := bexec [BNew; BDerive 0 (B_with_build_arg 1 10); BDerive 1 (B_with_build_arg 2 20);
                  BDerive 1 (B_with_build_arg 1 11); BBuild 1 5] bw0 in
  map (fun i => option_map (fun o => nth 10 o (""%string, VZ 0)) (bobserve w i 5)) [1; 2; 3]%nat
  = [Some ("**"%string, VDict [(1, 10)]); Some ("**"%string, VDict [(1, 10); (2, 20)]); Some ("**"%string, VDict [(1, 11)])].
Proof. vm_compute. reflexivity. Qed.
