(** C28 — induction over histories. *)
From Coq Require Import ZArith List Bool Lia.
From V.C28 Require Import ModelBase GenEmu ModelHist ProofsHeap ProofsStep.
Import ListNotations.
Local Open Scope nat_scope.

(* the isolated replay of chain ch ends in a configuration with the same content as c in h *)
Definition replays_to (ch : list vop) (h : heap) (c : inst) : Prop :=
  exists h' c', replay ch = Some (h', c') /\ wf h' c' /\ content h' c' = content h c.

Record inv (w : world) : Prop := mkInv {
  inv_len : length (w_chain w) = length (w_env w);
  inv_wf : forall i c, nth_error (w_env w) i = Some c -> wf (w_heap w) c;
  inv_user : forall k r, nth_error (w_user w) k = Some r -> r < length (w_heap w);
  inv_chain : forall i c ch, nth_error (w_env w) i = Some c -> nth_error (w_chain w) i = Some ch ->
                             replays_to ch (w_heap w) c;
  inv_log : forall i o, In (i, o) (w_log w) ->
                        exists ch, nth_error (w_chain w) i = Some ch /\ chain_obs ch = Some o
}.

Lemma inv_w0 : inv w0.
Proof.
  constructor; simpl; intros; try reflexivity;
    try (destruct i; discriminate); try (destruct k; discriminate); contradiction.
Qed.

(* w' extends w: same configurations and chains at the old positions, old objects unchanged *)
Definition extends (w w' : world) : Prop :=
  frame (w_heap w) (w_heap w') /\
  (exists l, w_env w' = w_env w ++ l) /\
  (exists l, w_chain w' = w_chain w ++ l) /\
  (exists l, w_log w' = w_log w ++ l).

Lemma extends_refl : forall w, extends w w.
Proof.
  intros. split; [ apply frame_refl | ].
  repeat split; exists []; rewrite app_nil_r; reflexivity.
Qed.

Lemma extends_trans : forall a b c, extends a b -> extends b c -> extends a c.
Proof.
  intros a b c (F1 & (e1 & E1) & (c1 & C1) & (l1 & L1)) (F2 & (e2 & E2) & (c2 & C2) & (l2 & L2)).
  split; [ eapply frame_trans; eauto | ].
  repeat split.
  - exists (e1 ++ e2). rewrite E2, E1, app_assoc. reflexivity.
  - exists (c1 ++ c2). rewrite C2, C1, app_assoc. reflexivity.
  - exists (l1 ++ l2). rewrite L2, L1, app_assoc. reflexivity.
Qed.

Lemma nth_error_snoc : forall A (l : list A) (x : A) i y,
  nth_error (l ++ [x]) i = Some y ->
  (i < length l /\ nth_error l i = Some y) \/ (i = length l /\ y = x).
Proof.
  intros A l x i y H. destruct (Nat.lt_ge_cases i (length l)) as [L | L].
  - left. split; auto. rewrite nth_error_app1 in H by assumption. assumption.
  - right. rewrite nth_error_app2 in H by assumption.
    destruct (i - length l) eqn:E.
    + simpl in H. inversion H. split; auto. lia.
    + simpl in H. destruct n; discriminate.
Qed.

Lemma replays_to_frame : forall ch h h' c,
  wf h c -> frame h h' -> replays_to ch h c -> replays_to ch h' c.
Proof.
  intros ch h h' c W F (h1 & c1 & R & W1 & C). exists h1, c1. repeat split; auto.
  rewrite (content_frame h h' c W F). assumption.
Qed.

Lemma resolve_arg_bound : forall w a r, inv w -> resolve_arg w a = Some r -> r < length (w_heap w).
Proof.
  intros w a r I H. destruct a; simpl in H.
  - discriminate.
  - eapply inv_user; eauto.
  - destruct (nth_error (w_env w) cfg) eqn:E; try discriminate.
    pose proof (inv_wf w I _ _ E) as W. unfold wf in W. rewrite Forall_forall in W.
    apply W. eapply nth_error_In; eauto.
Qed.

(* the common part of the two ODerive cases *)
Lemma derive_inv : forall w c ch m ra ao src,
  inv w -> nth_error (w_env w) src = Some c -> nth_error (w_chain w) src = Some ch ->
  (meth_uses_ref m = true -> ra < length (w_heap w) /\ ao = hget (w_heap w) ra) ->
  let p := step m ra (w_heap w) c in
  let w' := mkW (fst p) (w_env w ++ [snd p]) (w_user w) (w_log w) (w_chain w ++ [ch ++ [VStep m ao]]) in
  inv w' /\ extends w w'.
Proof.
  intros w c ch m ra ao src I Ec Ech A p w'.
  pose proof (inv_wf w I _ _ Ec) as W.
  assert (A' : meth_uses_ref m = true -> ra < length (w_heap w)) by (intro U; apply A; exact U).
  destruct (step_frame m ra (w_heap w) c W A') as [F W'].
  fold p in F, W'.
  assert (X : extends w w').
  { split; [ exact F | ]. repeat split; simpl; eauto. exists []. rewrite app_nil_r. reflexivity. }
  split; [ | exact X ].
  constructor; simpl.
  - rewrite !app_length, (inv_len w I). reflexivity.
  - intros i c0 H. apply nth_error_snoc in H. destruct H as [[_ H] | [_ H]].
    + eapply wf_frame; [ eapply inv_wf; eauto | exact F ].
    + subst. exact W'.
  - intros k r H. pose proof (inv_user w I _ _ H). destruct F. lia.
  - intros i c0 ch0 H1 H2.
    apply nth_error_snoc in H1. apply nth_error_snoc in H2.
    rewrite (inv_len w I) in H2.
    destruct H1 as [[L1 H1] | [L1 H1]], H2 as [[L2 H2] | [L2 H2]]; try lia.
    + eapply replays_to_frame; [ eapply inv_wf; eauto | exact F | eapply inv_chain; eauto ].
    + subst c0 ch0.
      destruct (inv_chain w I _ _ _ Ec Ech) as (h1 & c1 & R & W1 & C).
      unfold replays_to, replay. rewrite fold_left_app. fold (replay ch). rewrite R. simpl.
      pose proof (frame_alloc h1 ao) as Fa.
      assert (Wa : wf (halloc_h h1 ao) c1) by (eapply wf_frame; eauto).
      assert (Ca : content (halloc_h h1 ao) c1 = content (w_heap w) c)
        by (rewrite (content_frame _ _ _ W1 Fa); exact C).
      assert (Aa : meth_uses_ref m = true -> halloc_r h1 < length (halloc_h h1 ao))
        by (intros _; len; lia).
      destruct (step_frame m (halloc_r h1) (halloc_h h1 ao) c1 Wa Aa) as [_ W2].
      exists (fst (step m (halloc_r h1) (halloc_h h1 ao) c1)), (snd (step m (halloc_r h1) (halloc_h h1 ao) c1)).
      split; [ f_equal; apply surjective_pairing | ]. split; [ exact W2 | ].
      apply step_sim; auto.
      intro U. destruct (A U) as [B E]. split; [ len; lia | ]. split; [ exact B | ].
      rewrite hget_alloc_new by reflexivity. exact E.
  - intros i o H. destruct (inv_log w I _ _ H) as (ch0 & N & O). exists ch0. split; auto.
    rewrite nth_error_app1; auto. apply nth_error_Some. congruence.
Qed.

Ltac wsimp := cbn [w_heap w_env w_user w_log w_chain exec_op].

Lemma exec_op_inv : forall w o, inv w -> inv (exec_op w o) /\ extends w (exec_op w o).
Proof.
  intros w o I. destruct o as [ob | i n | src m a | src]; wsimp.
  - (* OAlloc *)
    pose proof (frame_alloc (w_heap w) ob) as F.
    split.
    + constructor; wsimp.
      * apply (inv_len w I).
      * intros. eapply wf_frame; [ eapply inv_wf; eauto | exact F ].
      * intros k r H. apply nth_error_snoc in H. destruct H as [[_ H] | [_ H]].
        -- pose proof (inv_user w I _ _ H). len. lia.
        -- subst. len. lia.
      * intros. eapply replays_to_frame; [ eapply inv_wf; eauto | exact F | eapply inv_chain; eauto ].
      * apply (inv_log w I).
    + split; [ exact F | ]. repeat split; exists []; rewrite app_nil_r; reflexivity.
  - (* ONew *)
    destruct (mk_root_ok (w_heap w) i n) as [F W'].
    split.
    + constructor; wsimp.
      * rewrite !app_length, (inv_len w I). reflexivity.
      * intros j c H. apply nth_error_snoc in H. destruct H as [[_ H] | [_ H]].
        -- eapply wf_frame; [ eapply inv_wf; eauto | exact F ].
        -- subst. exact W'.
      * intros k r H. pose proof (inv_user w I _ _ H). destruct F. lia.
      * intros j c ch H1 H2.
        apply nth_error_snoc in H1. apply nth_error_snoc in H2. rewrite (inv_len w I) in H2.
        destruct H1 as [[L1 H1] | [L1 H1]], H2 as [[L2 H2] | [L2 H2]]; try lia.
        -- eapply replays_to_frame; [ eapply inv_wf; eauto | exact F | eapply inv_chain; eauto ].
        -- subst c ch. destruct (mk_root_ok [] i n) as [_ W0].
           exists (fst (mk_root [] i n)), (snd (mk_root [] i n)).
           split; [ unfold replay; cbn [fold_left replay_op]; f_equal; apply surjective_pairing | ].
           split; [ exact W0 | ].
           clear. autounfold with emu. cbn [fst snd]. cbn. hs. reflexivity.
      * intros j o H. destruct (inv_log w I _ _ H) as (ch0 & N & O). exists ch0. split; auto.
        rewrite nth_error_app1; auto. apply nth_error_Some. congruence.
    + split; [ exact F | ]. repeat split; wsimp; eauto. exists []. rewrite app_nil_r. reflexivity.
  - (* ODerive *)
    destruct (nth_error (w_env w) src) as [c | ] eqn:Ec; [ | split; [ exact I | apply extends_refl ] ].
    destruct (nth_error (w_chain w) src) as [ch | ] eqn:Ech; [ | split; [ exact I | apply extends_refl ] ].
    destruct (meth_uses_ref m) eqn:U.
    + destruct (resolve_arg w a) as [ra | ] eqn:Ra; [ | split; [ exact I | apply extends_refl ] ].
      eapply derive_inv; eauto.
      intros _. split; [ eapply resolve_arg_bound; eauto | reflexivity ].
    + eapply derive_inv; eauto. rewrite U. discriminate.
  - (* ORun *)
    destruct (nth_error (w_env w) src) as [c | ] eqn:Ec; [ | split; [ exact I | apply extends_refl ] ].
    split.
    + constructor; wsimp; try apply I.
      intros i o H. apply in_app_or in H. destruct H as [H | [H | []]].
      * apply (inv_log w I _ _ H).
      * inversion H; subst i o.
        assert (exists ch, nth_error (w_chain w) src = Some ch) as [ch Ech].
        { destruct (nth_error (w_chain w) src) eqn:E; eauto.
          apply nth_error_None in E. rewrite (inv_len w I) in E.
          assert (src < length (w_env w)) by (apply nth_error_Some; congruence). lia. }
        exists ch. split; auto.
        destruct (inv_chain w I _ _ _ Ec Ech) as (h1 & c1 & R & _ & C).
        unfold chain_obs. rewrite R. simpl. f_equal. apply run_args_content. exact C.
    + split; [ apply frame_refl | ]. repeat split; wsimp; eauto; exists []; rewrite app_nil_r; reflexivity.
Qed.

Lemma exec_inv : forall ops w, inv w -> inv (exec ops w) /\ extends w (exec ops w).
Proof.
  induction ops as [ | o ops IH ]; intros w I; simpl.
  - split; [ exact I | apply extends_refl ].
  - destruct (exec_op_inv w o I) as [I1 X1]. destruct (IH _ I1) as [I2 X2].
    split; [ exact I2 | eapply extends_trans; eauto ].
Qed.

(** Whatever is derived, constructed or run later, an existing configuration keeps its
    position and hands the same values to the backend. *)
Lemma observe_stable : forall w ops i o, inv w ->
  observe w i = Some o -> observe (exec ops w) i = Some o.
Proof.
  intros w ops i o I H. destruct (exec_inv ops w I) as [_ (F & (l & E) & _)].
  unfold observe in *. destruct (nth_error (w_env w) i) as [c | ] eqn:Ec; [ | discriminate ].
  rewrite E, nth_error_app1 by (apply nth_error_Some; congruence). rewrite Ec. simpl in *.
  inversion H. f_equal. apply run_args_content. apply content_frame; auto.
  eapply inv_wf; eauto.
Qed.

Lemma observe_is_chain_obs : forall w i ch, inv w ->
  nth_error (w_chain w) i = Some ch -> observe w i = chain_obs ch.
Proof.
  intros w i ch I Ech.
  assert (exists c, nth_error (w_env w) i = Some c) as [c Ec].
  { destruct (nth_error (w_env w) i) eqn:E; eauto.
    apply nth_error_None in E. rewrite <- (inv_len w I) in E.
    assert (i < length (w_chain w)) by (apply nth_error_Some; congruence). lia. }
  destruct (inv_chain w I _ _ _ Ec Ech) as (h1 & c1 & R & _ & C).
  unfold observe, chain_obs. rewrite Ec, R. simpl. f_equal. symmetry. apply run_args_content. exact C.
Qed.

Lemma chain_stable : forall w ops i ch, inv w ->
  nth_error (w_chain w) i = Some ch -> nth_error (w_chain (exec ops w)) i = Some ch.
Proof.
  intros w ops i ch I H. destruct (exec_inv ops w I) as [_ (_ & _ & (l & E) & _)].
  rewrite E, nth_error_app1 by (apply nth_error_Some; congruence). exact H.
Qed.

(** The statements used by Props.v *)
Lemma derive_pure_lem : forall (before after : list op) (i : nat) (o : obs),
  observe (exec before w0) i = Some o ->
  observe (exec after (exec before w0)) i = Some o.
Proof.
  intros. apply observe_stable; auto. apply exec_inv. apply inv_w0.
Qed.

Lemma run_reproducible_lem : forall (ops : list op) (i : nat) (ch : list vop),
  nth_error (w_chain (exec ops w0)) i = Some ch ->
  (forall more, observe (exec more (exec ops w0)) i = chain_obs ch) /\
  (forall more o, In (i, o) (w_log (exec more (exec ops w0))) -> chain_obs ch = Some o).
Proof.
  intros ops i ch H.
  assert (I : inv (exec ops w0)) by (apply exec_inv; apply inv_w0).
  split.
  - intros more. apply observe_is_chain_obs.
    + apply exec_inv. exact I.
    + apply chain_stable; auto.
  - intros more o L.
    assert (I2 : inv (exec more (exec ops w0))) by (apply exec_inv; exact I).
    destruct (inv_log _ I2 _ _ L) as (ch' & N & O).
    rewrite (chain_stable _ more _ _ I H) in N. inversion N. subst. exact O.
Qed.

Lemma run_same_lem : forall (ops : list op) (i : nat) (o1 o2 : obs),
  In (i, o1) (w_log (exec ops w0)) -> In (i, o2) (w_log (exec ops w0)) -> o1 = o2.
Proof.
  intros ops i o1 o2 H1 H2.
  assert (I : inv (exec ops w0)) by (apply exec_inv; apply inv_w0).
  destruct (inv_log _ I _ _ H1) as (c1 & N1 & O1).
  destruct (inv_log _ I _ _ H2) as (c2 & N2 & O2).
  congruence.
Qed.

(* a chain is really the configuration's own derivation: it only mentions the methods and
   argument objects on the path from its root *)
Lemma chain_of_derived : forall w src m a c ch, 
  nth_error (w_env w) src = Some c -> nth_error (w_chain w) src = Some ch ->
  length (w_chain w) = length (w_env w) ->
  (meth_uses_ref m = true -> resolve_arg w a <> None) ->
  exists ao, nth_error (w_chain (exec_op w (ODerive src m a))) (length (w_env w)) = Some (ch ++ [VStep m ao]).
Proof.
  intros w src m a c ch Ec Ech L A. cbn [exec_op]. rewrite Ec, Ech.
  destruct (meth_uses_ref m).
  - destruct (resolve_arg w a) as [ra | ]; [ | exfalso; apply A; reflexivity ].
    eexists. cbn [w_chain]. rewrite nth_error_app2 by lia. rewrite L, Nat.sub_diag. reflexivity.
  - eexists. cbn [w_chain]. rewrite nth_error_app2 by lia. rewrite L, Nat.sub_diag. reflexivity.
Qed.
