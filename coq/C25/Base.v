(** C25 — vocabulary shared by the generated constants and the model. *)
From Coq Require Import ZArith List Bool.
Import ListNotations.

(** the three modifier kinds *)
Inductive kind := KDagger | KPower | KControl.

Definition kind_eqb (a b : kind) : bool :=
  match a, b with
  | KDagger, KDagger | KPower, KPower | KControl, KControl => true
  | _, _ => false
  end.

(** `control(a)` with a an array place of n qubits, or `control(q1, ..., qk)` *)
Inductive ctl := CArr (place : Z) (n : N) | CQs (places : list Z).

(** one item of a `with` statement; power carries (an identifier of) its exponent expression *)
Inductive modifier := MDagger | MControl (c : ctl) | MPower (e : Z).

Definition kind_of (m : modifier) : kind :=
  match m with MDagger => KDagger | MControl _ => KControl | MPower _ => KPower end.

(** number of control qubits of a control(...) *)
Definition arity (c : ctl) : N :=
  match c with CArr _ n => n | CQs l => N.of_nat (length l) end.

(** a variable of the enclosing scope used by the block body: name, lowered type, copyable? *)
Record cap := mkCap { cap_id : Z; cap_ty : Z; cap_copy : bool }.

(** HUGR-level types that occur in the type arguments: standard array of n qubits, or the
    lowered type of a captured variable *)
Inductive hty := HArr (n : N) | HTy (t : Z).

(** emitted modifier operations with their type arguments
    (in_out list, other_in list; control additionally its arity) *)
Inductive op :=
| ODagger (io oth : list hty)
| OPower (e : Z) (io oth : list hty)
| OControl (n : N) (io oth : list hty).

(** what is wired to an input port of the indirect call / what an output port is assigned to *)
Inductive arg := ACtl (c : ctl) | ACap (c : cap).
