(** C25 — executable model of CFGBuilder.visit_With / ModifiedBlock.push_modifier (grouping)
    and compiler/modifier_compiler.py:compile_modified_block (emission + call wiring).
    Parameterised by the constants of GenOrder.v, which are regenerated from the source. *)
From Coq Require Import ZArith List Bool.
From V.C25 Require Import Base GenOrder.
Import ListNotations.

(** ModifiedBlock: three lists, filled by push_modifier in source order *)
Record grouped := mkG { g_dagger : list modifier; g_control : list modifier; g_power : list modifier }.

Definition push (g : grouped) (m : modifier) : grouped :=
  match gen_push (kind_of m) with
  | KDagger => mkG (g_dagger g ++ [m]) (g_control g) (g_power g)
  | KControl => mkG (g_dagger g) (g_control g ++ [m]) (g_power g)
  | KPower => mkG (g_dagger g) (g_control g) (g_power g ++ [m])
  end.

(** visit_With: `for item in node.items: new_node.push_modifier(...)` *)
Definition group (s : list modifier) : grouped := fold_left push s (mkG [] [] []).

Definition ctl_of (m : modifier) : option ctl := match m with MControl c => Some c | _ => None end.
Definition exp_of (m : modifier) : option Z := match m with MPower e => Some e | _ => None end.

(** reading `.ctrl` / `.iter` of every element of a list: fails (None = Python exception) on a
    node of the wrong class *)
Fixpoint all_some {A B} (f : A -> option B) (l : list A) : option (list B) :=
  match l with
  | [] => Some []
  | x :: r => match f x, all_some f r with Some y, Some ys => Some (y :: ys) | _, _ => None end
  end.

Definition linear (c : cap) : bool := negb (cap_copy c).
Definition capty (c : cap) : hty := HTy (cap_ty c).

(** non_copyable_front_others_back *)
Definition sort_caps (cs : list cap) : list cap :=
  if gen_linear_first then filter linear cs ++ filter cap_copy cs
  else filter cap_copy cs ++ filter linear cs.

(** the control loop: each op sees the in_out list extended by the arrays of the controls
    emitted before it *)
Fixpoint emit_controls (cs : list ctl) (io oth : list hty) : list op * list hty :=
  match cs with
  | [] => ([], io)
  | c :: r => let '(o, io') := emit_controls r (HArr (arity c) :: io) oth in
              (OControl (arity c) io oth :: o, io')
  end.

Definition emit_group (k : kind) (g : grouped) (io oth : list hty) : option (list op * list hty) :=
  match k with
  | KDagger => Some (if gen_has_dagger (length (g_dagger g)) then [ODagger io oth] else [], io)
  | KPower => match all_some exp_of (g_power g) with
              | Some es => Some (map (fun e => OPower e io oth) es, io)
              | None => None
              end
  | KControl => match all_some ctl_of (g_control g) with
                | Some cs => Some (emit_controls cs io oth)
                | None => None
                end
  end.

Fixpoint emit_groups (order : list kind) (g : grouped) (io oth : list hty) : option (list op * list hty) :=
  match order with
  | [] => Some ([], io)
  | k :: r =>
    match emit_group k g io oth with
    | None => None
    | Some (o1, io1) =>
      match emit_groups r g io1 oth with
      | None => None
      | Some (o2, io2) => Some (o1 ++ o2, io2)
      end
    end
  end.

(** result: inputs of the function made from the body (= sorted captured variables), the chain
    of modifier ops applied to the loaded function (innermost first), the values wired to the
    CallIndirect after the function, and the places its outputs are assigned to *)
Record compiled := mkC { c_fn_inputs : list cap; c_ops : list op; c_args : list arg; c_rets : list arg }.

Definition compile_with (order : list kind) (s : list modifier) (caps : list cap) : option compiled :=
  let g := group s in
  let sorted := sort_caps caps in
  let io := map capty (filter linear sorted) in
  let oth := map capty (filter cap_copy sorted) in
  match emit_groups order g io oth, all_some ctl_of (g_control g) with
  | Some (ops, _), Some cs =>
    let ca := map ACtl cs in
    Some (mkC sorted ops
              ((if gen_call_ctrl_rev then rev ca else ca) ++ map ACap sorted)
              ((if gen_unpack_ctrl_rev then rev ca else ca) ++ map ACap (filter linear sorted)))
  | _, _ => None
  end.

Definition compile := compile_with gen_emit_order.

(** observations used by the correspondence harness *)
Definition op_kind (o : op) : kind :=
  match o with ODagger _ _ => KDagger | OPower _ _ _ => KPower | OControl _ _ _ => KControl end.
