(** C25 — lemmas. *)
From Coq Require Import ZArith List Bool Arith Lia Permutation.
From V.C25 Require Import Base GenOrder Model Spec.
Import ListNotations.

(** ---------- facts about the generated constants ---------- *)
Lemma gen_push_id : forall k, gen_push k = k.
Proof. destruct k; reflexivity. Qed.

Lemma ghd_SS : forall n, gen_has_dagger (S (S n)) = gen_has_dagger n.
Proof.
  intro n. unfold gen_has_dagger.
  replace (S (S n)) with (n + 1 * 2) by lia. rewrite Nat.mod_add by lia. reflexivity.
Qed.

Lemma ghd_S : forall n, gen_has_dagger (S n) = negb (gen_has_dagger n).
Proof.
  assert (H : forall n, gen_has_dagger (S n) = negb (gen_has_dagger n) /\
                        gen_has_dagger (S (S n)) = negb (gen_has_dagger (S n))).
  { induction n as [|n [IH1 IH2]].
    - split; reflexivity.
    - split; [exact IH2|]. rewrite ghd_SS, IH2. rewrite negb_involutive. reflexivity. }
  intro n. apply H.
Qed.

Lemma ghd_0 : gen_has_dagger 0 = false.
Proof. reflexivity. Qed.

Lemma call_rev_true : gen_call_ctrl_rev = true.
Proof. reflexivity. Qed.
Lemma unpack_rev_true : gen_unpack_ctrl_rev = true.
Proof. reflexivity. Qed.
Lemma linear_first_true : gen_linear_first = true.
Proof. reflexivity. Qed.
Lemma gen_order_perm3 : perm3 gen_emit_order.
Proof. unfold perm3, gen_emit_order. simpl. tauto. Qed.

(** ---------- grouping ---------- *)
Definition isk (k : kind) (m : modifier) : bool := kind_eqb (kind_of m) k.

Lemma fold_push : forall s g,
  fold_left push s g =
  mkG (g_dagger g ++ filter (isk KDagger) s) (g_control g ++ filter (isk KControl) s)
      (g_power g ++ filter (isk KPower) s).
Proof.
  induction s as [|m s IH]; intro g.
  - simpl. rewrite !app_nil_r. destruct g; reflexivity.
  - simpl. rewrite IH. unfold push. rewrite gen_push_id.
    destruct m; simpl; rewrite <- ?app_assoc; reflexivity.
Qed.

Lemma group_spec : forall s,
  group s = mkG (filter (isk KDagger) s) (filter (isk KControl) s) (filter (isk KPower) s).
Proof. intro s. unfold group. rewrite fold_push. reflexivity. Qed.

Lemma all_ctl : forall s, all_some ctl_of (filter (isk KControl) s) = Some (ctls_src s).
Proof.
  induction s as [|m s IH]; [reflexivity|]. destruct m; simpl; try exact IH. rewrite IH. reflexivity.
Qed.

Lemma all_exp : forall s, all_some exp_of (filter (isk KPower) s) = Some (exps_src s).
Proof.
  induction s as [|m s IH]; [reflexivity|]. destruct m; simpl; try exact IH. rewrite IH. reflexivity.
Qed.

Lemma dagger_count : forall s, gen_has_dagger (length (filter (isk KDagger) s)) = dpar s.
Proof.
  induction s as [|m s IH]; [reflexivity|]. destruct m; simpl; try exact IH.
  rewrite ghd_S, IH. reflexivity.
Qed.

(** ---------- the three groups in closed form ---------- *)
Definition dops (s : list modifier) (io oth : list hty) : list op :=
  if dpar s then [ODagger io oth] else [].
Definition pops (s : list modifier) (io oth : list hty) : list op :=
  map (fun e => OPower e io oth) (exps_src s).
Definition cops (s : list modifier) (io oth : list hty) : list op :=
  fst (emit_controls (ctls_src s) io oth).
Definition carrs (cs : list ctl) : list hty := map (fun c => HArr (arity c)) cs.

Lemma emit_controls_io : forall cs io oth, snd (emit_controls cs io oth) = rev (carrs cs) ++ io.
Proof.
  induction cs as [|c cs IH]; intros io oth; [reflexivity|].
  simpl. specialize (IH (HArr (arity c) :: io) oth).
  destruct (emit_controls cs (HArr (arity c) :: io) oth) as [o io'] eqn:E. simpl in *.
  rewrite IH. rewrite <- app_assoc. reflexivity.
Qed.

Lemma emit_group_spec : forall k s io oth,
  emit_group k (group s) io oth =
  Some (match k with
        | KDagger => (dops s io oth, io)
        | KPower => (pops s io oth, io)
        | KControl => (cops s io oth, rev (carrs (ctls_src s)) ++ io)
        end).
Proof.
  intros k s io oth. rewrite group_spec. destruct k; simpl.
  - rewrite dagger_count. reflexivity.
  - rewrite all_exp. reflexivity.
  - rewrite all_ctl. unfold cops.
    rewrite (surjective_pairing (emit_controls (ctls_src s) io oth)) at 1.
    rewrite emit_controls_io. reflexivity.
Qed.

(** ---------- typing ---------- *)
Lemma chain_app : forall a b f1 f2 f3, chain_typed a f1 f2 -> chain_typed b f2 f3 -> chain_typed (a ++ b) f1 f3.
Proof.
  induction a as [|o a IH]; intros b f1 f2 f3 H1 H2.
  - inversion H1; subst. exact H2.
  - inversion H1; subst. simpl. econstructor; [eassumption|]. eapply IH; eassumption.
Qed.

Lemma cops_typed : forall cs io oth,
  chain_typed (fst (emit_controls cs io oth)) (io ++ oth, io)
              ((rev (carrs cs) ++ io) ++ oth, rev (carrs cs) ++ io).
Proof.
  induction cs as [|c cs IH]; intros io oth.
  - simpl. constructor.
  - simpl. specialize (IH (HArr (arity c) :: io) oth).
    destruct (emit_controls cs (HArr (arity c) :: io) oth) as [o io'] eqn:E. simpl in *.
    econstructor; [apply T_control|].
    rewrite <- !app_assoc. simpl. rewrite <- !app_assoc in IH. exact IH.
Qed.

Lemma dops_typed : forall s io oth, chain_typed (dops s io oth) (io ++ oth, io) (io ++ oth, io).
Proof. intros. unfold dops. destruct (dpar s); repeat econstructor. Qed.

Lemma pops_typed : forall s io oth, chain_typed (pops s io oth) (io ++ oth, io) (io ++ oth, io).
Proof. intros. unfold pops. induction (exps_src s); simpl; repeat econstructor. assumption. Qed.

(** ---------- emit_groups / compile in closed form ---------- *)
Definition group_out (k : kind) (s : list modifier) (io oth : list hty) : list op * list hty :=
  match k with
  | KDagger => (dops s io oth, io)
  | KPower => (pops s io oth, io)
  | KControl => (cops s io oth, rev (carrs (ctls_src s)) ++ io)
  end.

Fixpoint ops_for (order : list kind) (s : list modifier) (io oth : list hty) : list op * list hty :=
  match order with
  | [] => ([], io)
  | k :: r => let o1 := group_out k s io oth in
              let o2 := ops_for r s (snd o1) oth in (fst o1 ++ fst o2, snd o2)
  end.

Lemma emit_groups_spec : forall order s io oth,
  emit_groups order (group s) io oth = Some (ops_for order s io oth).
Proof.
  induction order as [|k r IH]; intros s io oth; [reflexivity|].
  simpl. rewrite emit_group_spec. fold (group_out k s io oth).
  destruct (group_out k s io oth) as [o1 io1]. simpl. rewrite IH.
  destruct (ops_for r s io1 oth). reflexivity.
Qed.

Definition sorted_caps (caps : list cap) := filter linear caps ++ filter cap_copy caps.
Definition io_of (caps : list cap) := map capty (filter linear (sorted_caps caps)).
Definition oth_of (caps : list cap) := map capty (filter cap_copy (sorted_caps caps)).

Lemma compile_with_spec : forall order s caps,
  compile_with order s caps =
  Some (mkC (sorted_caps caps) (fst (ops_for order s (io_of caps) (oth_of caps)))
            (rev (map ACtl (ctls_src s)) ++ map ACap (sorted_caps caps))
            (rev (map ACtl (ctls_src s)) ++ map ACap (filter linear (sorted_caps caps)))).
Proof.
  intros. unfold compile_with, sort_caps. rewrite linear_first_true, call_rev_true, unpack_rev_true.
  fold (sorted_caps caps). fold (io_of caps). fold (oth_of caps).
  rewrite emit_groups_spec.
  destruct (ops_for order s (io_of caps) (oth_of caps)) as [o io'] eqn:E.
  rewrite group_spec. simpl. rewrite all_ctl. reflexivity.
Qed.

Lemma ops_for_typed : forall order s io oth,
  chain_typed (fst (ops_for order s io oth)) (io ++ oth, io)
              (snd (ops_for order s io oth) ++ oth, snd (ops_for order s io oth)).
Proof.
  induction order as [|k r IH]; intros s io oth; simpl; [constructor|].
  eapply chain_app; [|apply IH].
  destruct k; simpl.
  - apply dops_typed.
  - apply pops_typed.
  - unfold cops. apply cops_typed.
Qed.

Lemma ops_for_io : forall order s io oth, perm3 order ->
  snd (ops_for order s io oth) = rev (carrs (ctls_src s)) ++ io.
Proof.
  intros order s io oth H. unfold perm3 in H. simpl in H.
  repeat (destruct H as [<-|H]; [reflexivity|]). contradiction.
Qed.

(** filters of the sorted captured variables *)
Lemma filter_filter_neg : forall (l : list cap), filter cap_copy (filter linear l) = [].
Proof.
  induction l as [|c l IH]; [reflexivity|]. simpl. unfold linear at 1.
  destruct (cap_copy c) eqn:E; simpl; [exact IH|]. rewrite E. exact IH.
Qed.
Lemma filter_filter_neg' : forall (l : list cap), filter linear (filter cap_copy l) = [].
Proof.
  induction l as [|c l IH]; [reflexivity|]. simpl.
  destruct (cap_copy c) eqn:E; simpl; [|exact IH]. unfold linear at 1. rewrite E. exact IH.
Qed.
Lemma filter_idem : forall (f : cap -> bool) l, filter f (filter f l) = filter f l.
Proof.
  induction l as [|c l IH]; [reflexivity|]. simpl. destruct (f c) eqn:E; simpl; [rewrite E, IH; reflexivity|exact IH].
Qed.

Lemma sorted_linear : forall caps, filter linear (sorted_caps caps) = filter linear caps.
Proof. intro. unfold sorted_caps. rewrite filter_app, filter_idem, filter_filter_neg', app_nil_r. reflexivity. Qed.
Lemma sorted_copy : forall caps, filter cap_copy (sorted_caps caps) = filter cap_copy caps.
Proof. intro. unfold sorted_caps. rewrite filter_app, filter_idem, filter_filter_neg. reflexivity. Qed.

Lemma sorted_perm : forall caps, Permutation caps (sorted_caps caps).
Proof.
  induction caps as [|c l IH]; [constructor|]. unfold sorted_caps in *. simpl. unfold linear at 1.
  destruct (cap_copy c); simpl.
  - apply Permutation_cons_app. exact IH.
  - constructor. exact IH.
Qed.

(** ---------- well-typedness of the compiled fragment ---------- *)
Lemma map_arg_ty_ctl : forall cs, map arg_ty (rev (map ACtl cs)) = rev (carrs cs).
Proof. intro cs. rewrite <- map_rev, map_map. unfold carrs. rewrite <- map_rev. reflexivity. Qed.

Lemma compile_well_typed : forall order s caps c, perm3 order ->
  compile_with order s caps = Some c -> well_typed c.
Proof.
  intros order s caps c Hp H. rewrite compile_with_spec in H. inversion H; subst; clear H.
  unfold well_typed. simpl.
  pose proof (ops_for_typed order s (io_of caps) (oth_of caps)) as T.
  rewrite (ops_for_io order s _ _ Hp) in T.
  eexists. split.
  - unfold body_fty.
    replace (map (fun c => HTy (cap_ty c)) (sorted_caps caps)) with (io_of caps ++ oth_of caps).
    2:{ unfold io_of, oth_of. rewrite sorted_linear, sorted_copy. unfold sorted_caps. rewrite map_app. reflexivity. }
    replace (map (fun c => HTy (cap_ty c)) (filter (fun c => negb (cap_copy c)) (sorted_caps caps))) with (io_of caps) by reflexivity.
    exact T.
  - simpl. split.
    + rewrite map_app, map_arg_ty_ctl, map_map. simpl. rewrite <- app_assoc. f_equal.
      unfold io_of, oth_of. rewrite sorted_linear, sorted_copy. unfold sorted_caps. rewrite map_app. reflexivity.
    + rewrite map_app, map_arg_ty_ctl, map_map. reflexivity.
Qed.

(** ---------- threading ---------- *)
Lemma filter_arg_linear_ctl : forall l, filter arg_linear (rev (map ACtl l)) = rev (map ACtl l).
Proof.
  intro l. rewrite <- map_rev. induction (rev l) as [|c r IH]; [reflexivity|]. simpl. rewrite IH. reflexivity.
Qed.
Lemma filter_arg_linear_cap : forall l, filter arg_linear (map ACap l) = map ACap (filter linear l).
Proof.
  induction l as [|c r IH]; [reflexivity|]. simpl. unfold linear at 1. destruct (negb (cap_copy c)); simpl; rewrite IH; reflexivity.
Qed.

Lemma compile_threading : forall order s caps c,
  compile_with order s caps = Some c ->
  c_rets c = filter arg_linear (c_args c) /\
  Permutation (c_args c) (map ACtl (ctls_src s) ++ map ACap caps) /\
  c_fn_inputs c = filter linear caps ++ filter cap_copy caps.
Proof.
  intros order s caps c H. rewrite compile_with_spec in H. inversion H; subst; clear H. simpl.
  split; [|split].
  - rewrite filter_app, filter_arg_linear_ctl, filter_arg_linear_cap. reflexivity.
  - apply Permutation_app.
    + apply Permutation_sym, Permutation_rev.
    + apply Permutation_map, Permutation_sym, sorted_perm.
  - reflexivity.
Qed.

(** ---------- the algebra ---------- *)
Lemma me_cons : forall x a b, mequiv a b -> mequiv (x :: a) (x :: b).
Proof.
  intros x a b H. induction H.
  - apply me_refl.
  - apply me_sym; assumption.
  - eapply me_trans; eassumption.
  - rewrite !app_comm_cons. apply me_swap.
  - rewrite !app_comm_cons. apply me_dd.
Qed.

Lemma me_app_l : forall l a b, mequiv a b -> mequiv (l ++ a) (l ++ b).
Proof. induction l; intros; simpl; [assumption|]. apply me_cons. auto. Qed.

Lemma me_app_r : forall l a b, mequiv a b -> mequiv (a ++ l) (b ++ l).
Proof.
  intros l a b H. induction H.
  - apply me_refl.
  - apply me_sym; assumption.
  - eapply me_trans; eassumption.
  - rewrite <- !app_assoc. simpl. apply me_swap.
  - rewrite <- !app_assoc. simpl. apply me_dd.
Qed.

Lemma me_move : forall x l r, mequiv (x :: l ++ r) (l ++ x :: r).
Proof.
  intros x l r. induction l as [|a l IH]; simpl; [apply me_refl|].
  eapply me_trans; [apply (me_swap x a [] (l ++ r))|]. simpl. apply me_cons. exact IH.
Qed.

Lemma me_comm : forall a b, mequiv (a ++ b) (b ++ a).
Proof.
  induction a as [|x a IH]; intro b; simpl.
  - rewrite app_nil_r. apply me_refl.
  - eapply me_trans; [apply me_cons, IH|]. apply me_move.
Qed.

Lemma sdpar_app : forall a b, sdpar (a ++ b) = xorb (sdpar a) (sdpar b).
Proof.
  induction a as [|x a IH]; intro b; simpl; [destruct (sdpar b); reflexivity|].
  destruct x; rewrite ?IH; try reflexivity. destruct (sdpar a), (sdpar b); reflexivity.
Qed.

Lemma mequiv_sound : forall a b, mequiv a b ->
  sdpar a = sdpar b /\ Permutation (filter nondagger a) (filter nondagger b).
Proof.
  intros a b H. induction H.
  - split; [reflexivity|apply Permutation_refl].
  - destruct IHmequiv. split; [congruence|apply Permutation_sym; assumption].
  - destruct IHmequiv1, IHmequiv2. split; [congruence|eapply Permutation_trans; eassumption].
  - split.
    + rewrite !sdpar_app. f_equal. destruct x, y; simpl; try reflexivity.
    + rewrite !filter_app. apply Permutation_app_head. simpl.
      destruct (nondagger x), (nondagger y); try apply Permutation_refl. apply perm_swap.
  - split.
    + rewrite !sdpar_app. simpl. rewrite negb_involutive. reflexivity.
    + rewrite !filter_app. simpl. apply Permutation_refl.
Qed.

(** the three groups as stacks *)
Definition sD (s : list modifier) : list smod := if dpar s then [SDagger] else [].
Definition sP (s : list modifier) : list smod := map SPower (exps_src s).
Definition sC (s : list modifier) : list smod := map SControl (ctls_src s).

Lemma norm_equiv : forall s, mequiv (map den_src s) (sD s ++ sP s ++ sC s).
Proof.
  induction s as [|m s IH]; [apply me_refl|].
  simpl map. eapply me_trans; [apply me_cons, IH|].
  destruct m; unfold sD, sP, sC; simpl.
  - destruct (dpar s); simpl.
    + apply (me_dd [] _).
    + apply me_refl.
  - rewrite app_assoc.
    eapply me_trans; [apply me_move|]. rewrite <- app_assoc. apply me_refl.
  - apply me_move.
Qed.

(** denotation of the groups *)
Lemma den_app_nc : forall a b bound l,
  (forall o, In o a -> op_kind o <> KControl) ->
  den_ops b bound = Some l ->
  den_ops (a ++ b) bound =
  Some (map (fun o => match o with OPower e _ _ => SPower e | _ => SDagger end) a ++ l).
Proof.
  induction a as [|o a IH]; intros b bound l Hnc Hb; simpl; [exact Hb|].
  assert (Ha : forall o', In o' a -> op_kind o' <> KControl) by (intros; apply Hnc; right; assumption).
  destruct o; simpl.
  - rewrite (IH b bound l Ha Hb). reflexivity.
  - rewrite (IH b bound l Ha Hb). reflexivity.
  - exfalso. apply (Hnc (OControl n io oth)); [left; reflexivity|reflexivity].
Qed.

Lemma den_cops : forall cs io oth b bound l,
  den_ops b bound = Some l ->
  den_ops (fst (emit_controls cs io oth) ++ b) (cs ++ bound) = Some (map SControl cs ++ l).
Proof.
  induction cs as [|c cs IH]; intros io oth b bound l Hb; simpl; [exact Hb|].
  specialize (IH (HArr (arity c) :: io) oth b bound l Hb).
  destruct (emit_controls cs (HArr (arity c) :: io) oth) as [o io'] eqn:E. simpl in *.
  rewrite N.eqb_refl, IH. reflexivity.
Qed.

Lemma den_dops : forall s io oth b bound l, den_ops b bound = Some l ->
  den_ops (dops s io oth ++ b) bound = Some (sD s ++ l).
Proof.
  intros. unfold dops, sD. destruct (dpar s); simpl; [rewrite H; reflexivity|exact H].
Qed.

Lemma den_pops : forall s io oth b bound l, den_ops b bound = Some l ->
  den_ops (pops s io oth ++ b) bound = Some (sP s ++ l).
Proof.
  intros. unfold pops, sP. induction (exps_src s) as [|e r IH]; simpl; [exact H|]. rewrite IH. reflexivity.
Qed.

Lemma den_group : forall k s io oth b bound l, den_ops b bound = Some l ->
  den_ops (fst (group_out k s io oth) ++ b) (match k with KControl => ctls_src s ++ bound | _ => bound end) =
  Some (match k with KDagger => sD s | KPower => sP s | KControl => sC s end ++ l).
Proof.
  intros. destruct k; simpl.
  - apply den_dops; assumption.
  - apply den_pops; assumption.
  - unfold cops, sC. apply den_cops; assumption.
Qed.

Lemma den_nil : den_ops [] [] = Some [].
Proof. reflexivity. Qed.

Lemma ops_semantic_with : forall order s caps c, perm3 order ->
  compile_with order s caps = Some c ->
  exists l, den_compiled c = Some l /\ mequiv (map den_src s) l.
Proof.
  intros order s caps c Hp H. rewrite compile_with_spec in H. inversion H; subst; clear H.
  unfold den_compiled. simpl.
  assert (Hb : rev (ctl_args (rev (map ACtl (ctls_src s)) ++ map ACap (sorted_caps caps))) = ctls_src s).
  { assert (A : forall l r, ctl_args (map ACtl l ++ map ACap r) = l).
    { induction l as [|x l IH]; intro r; simpl.
      - induction r; simpl; auto.
      - rewrite IH. reflexivity. }
    rewrite <- map_rev, A, rev_involutive. reflexivity. }
  rewrite Hb. clear Hb.
  set (io := io_of caps). set (oth := oth_of caps). clearbody io oth.
  pose proof (norm_equiv s) as N.
  unfold perm3 in Hp. simpl in Hp.
  destruct Hp as [<-|[<-|[<-|[<-|[<-|[<-|[]]]]]]]; simpl ops_for; unfold fst, snd;
    rewrite ?app_nil_r.
  - (* D P C *)
    eexists. split.
    + apply den_dops. apply den_pops.
      rewrite <- (app_nil_r (cops s io oth)), <- (app_nil_r (ctls_src s)). apply den_cops. apply den_nil.
    + rewrite app_nil_r. exact N.
  - (* D C P *)
    eexists. split.
    + apply den_dops. rewrite <- (app_nil_r (ctls_src s)). unfold cops. apply den_cops.
      rewrite <- (app_nil_r (pops _ _ _)). apply den_pops. apply den_nil.
    + rewrite app_nil_r. eapply me_trans; [exact N|]. apply me_app_l. apply me_comm.
  - (* P D C *)
    eexists. split.
    + apply den_pops. apply den_dops.
      rewrite <- (app_nil_r (cops s io oth)), <- (app_nil_r (ctls_src s)). apply den_cops. apply den_nil.
    + rewrite app_nil_r. eapply me_trans; [exact N|]. rewrite !app_assoc. apply me_app_r. apply me_comm.
  - (* P C D *)
    eexists. split.
    + apply den_pops. rewrite <- (app_nil_r (ctls_src s)). unfold cops. apply den_cops.
      rewrite <- (app_nil_r (dops _ _ _)). apply den_dops. apply den_nil.
    + rewrite app_nil_r. eapply me_trans; [exact N|]. rewrite (app_assoc (sP s)). apply me_comm.
  - (* C D P *)
    eexists. split.
    + rewrite <- (app_nil_r (ctls_src s)). unfold cops. apply den_cops. apply den_dops.
      rewrite <- (app_nil_r (pops _ _ _)). apply den_pops. apply den_nil.
    + rewrite app_nil_r. eapply me_trans; [exact N|]. rewrite app_assoc. apply me_comm.
  - (* C P D *)
    eexists. split.
    + rewrite <- (app_nil_r (ctls_src s)). unfold cops. apply den_cops. apply den_pops.
      rewrite <- (app_nil_r (dops _ _ _)). apply den_dops. apply den_nil.
    + rewrite app_nil_r. eapply me_trans; [exact N|].
      eapply me_trans; [apply me_comm|]. change (map SControl (ctls_src s)) with (sC s).
      rewrite (app_assoc (sC s)). apply me_app_r. apply me_comm.
Qed.

(** ---------- arities, exponents, kinds, counts ---------- *)
Lemma op_arities_app : forall a b, op_arities (a ++ b) = op_arities a ++ op_arities b.
Proof. induction a as [|o a IH]; intro b; [reflexivity|]. destruct o; simpl; rewrite IH; reflexivity. Qed.
Lemma op_exps_app : forall a b, op_exps (a ++ b) = op_exps a ++ op_exps b.
Proof. induction a as [|o a IH]; intro b; [reflexivity|]. destruct o; simpl; rewrite IH; reflexivity. Qed.

Lemma arities_cops : forall cs io oth, op_arities (fst (emit_controls cs io oth)) = map arity cs.
Proof.
  induction cs as [|c cs IH]; intros io oth; [reflexivity|]. simpl.
  specialize (IH (HArr (arity c) :: io) oth).
  destruct (emit_controls cs (HArr (arity c) :: io) oth). simpl in *. rewrite IH. reflexivity.
Qed.
Lemma exps_cops : forall cs io oth, op_exps (fst (emit_controls cs io oth)) = [].
Proof.
  induction cs as [|c cs IH]; intros io oth; [reflexivity|]. simpl.
  specialize (IH (HArr (arity c) :: io) oth).
  destruct (emit_controls cs (HArr (arity c) :: io) oth). simpl in *. exact IH.
Qed.
Lemma kinds_cops : forall cs io oth, map op_kind (fst (emit_controls cs io oth)) = map (fun _ => KControl) cs.
Proof.
  induction cs as [|c cs IH]; intros io oth; [reflexivity|]. simpl.
  specialize (IH (HArr (arity c) :: io) oth).
  destruct (emit_controls cs (HArr (arity c) :: io) oth). simpl in *. rewrite IH. reflexivity.
Qed.

Lemma arities_group : forall k s io oth,
  op_arities (fst (group_out k s io oth)) = match k with KControl => map arity (ctls_src s) | _ => [] end.
Proof.
  intros. destruct k; simpl.
  - unfold dops. destruct (dpar s); reflexivity.
  - unfold pops. induction (exps_src s); simpl; auto.
  - apply arities_cops.
Qed.
Lemma exps_group : forall k s io oth,
  op_exps (fst (group_out k s io oth)) = match k with KPower => exps_src s | _ => [] end.
Proof.
  intros. destruct k; simpl.
  - unfold dops. destruct (dpar s); reflexivity.
  - unfold pops. induction (exps_src s); simpl; [reflexivity|]. rewrite IHl. reflexivity.
  - apply exps_cops.
Qed.

Lemma kinds_filter_ctl : forall s, filter (kind_eqb KControl) (map kind_of s) = map (fun _ => KControl) (ctls_src s).
Proof. induction s as [|m s IH]; [reflexivity|]. destruct m; simpl; rewrite ?IH; reflexivity. Qed.
Lemma kinds_filter_pow : forall s, filter (kind_eqb KPower) (map kind_of s) = map (fun _ => KPower) (exps_src s).
Proof. induction s as [|m s IH]; [reflexivity|]. destruct m; simpl; rewrite ?IH; reflexivity. Qed.

Lemma kinds_group : forall k s io oth,
  map op_kind (fst (group_out k s io oth)) =
  match k with KDagger => if dpar s then [KDagger] else [] | _ => filter (kind_eqb k) (map kind_of s) end.
Proof.
  intros. destruct k; simpl.
  - unfold dops. destruct (dpar s); reflexivity.
  - rewrite kinds_filter_pow. unfold pops. rewrite map_map. reflexivity.
  - rewrite kinds_filter_ctl. apply kinds_cops.
Qed.

Lemma kinds_ops_for : forall order s io oth,
  map op_kind (fst (ops_for order s io oth)) = grouped_kinds order s.
Proof.
  induction order as [|k r IH]; intros; [reflexivity|].
  simpl. rewrite map_app, kinds_group, IH. reflexivity.
Qed.

Lemma arities_ops_for_gen : forall order s io oth,
  op_arities (fst (ops_for order s io oth)) =
  flat_map (fun k => match k with KControl => map arity (ctls_src s) | _ => [] end) order.
Proof.
  induction order as [|k r IH]; intros; [reflexivity|].
  simpl. rewrite op_arities_app, arities_group, IH. reflexivity.
Qed.

Lemma exps_ops_for_gen : forall order s io oth,
  op_exps (fst (ops_for order s io oth)) =
  flat_map (fun k => match k with KPower => exps_src s | _ => [] end) order.
Proof.
  induction order as [|k r IH]; intros; [reflexivity|].
  simpl. rewrite op_exps_app, exps_group, IH. reflexivity.
Qed.

Lemma arities_ops_for : forall order s io oth, perm3 order ->
  op_arities (fst (ops_for order s io oth)) = map arity (ctls_src s).
Proof.
  intros order s io oth H. rewrite arities_ops_for_gen. unfold perm3 in H. simpl in H.
  destruct H as [<-|[<-|[<-|[<-|[<-|[<-|[]]]]]]]; simpl; rewrite ?app_nil_r; reflexivity.
Qed.

Lemma exps_ops_for : forall order s io oth, perm3 order ->
  op_exps (fst (ops_for order s io oth)) = exps_src s.
Proof.
  intros order s io oth H. rewrite exps_ops_for_gen. unfold perm3 in H. simpl in H.
  destruct H as [<-|[<-|[<-|[<-|[<-|[<-|[]]]]]]]; simpl; rewrite ?app_nil_r; reflexivity.
Qed.

Lemma grouped_kinds_length : forall order s, perm3 order ->
  length (grouped_kinds order s) =
  (if dpar s then 1 else 0) + length (exps_src s) + length (ctls_src s).
Proof.
  intros order s H. unfold perm3 in H. simpl in H.
  destruct H as [<-|[<-|[<-|[<-|[<-|[<-|[]]]]]]]; unfold grouped_kinds; simpl;
    rewrite ?app_nil_r, !app_length, kinds_filter_ctl, kinds_filter_pow, !map_length;
    destruct (dpar s); simpl; lia.
Qed.

Lemma compile_ops : forall order s caps c, compile_with order s caps = Some c ->
  c_ops c = fst (ops_for order s (io_of caps) (oth_of caps)).
Proof. intros order s caps c H. rewrite compile_with_spec in H. injection H as <-. reflexivity. Qed.
