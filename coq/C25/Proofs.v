(** C25 — lemmas. *)
From Coq Require Import ZArith List Bool Arith Lia Permutation.
From V.C25 Require Import Base GenOrder Model Spec.
Import ListNotations.

(** ---------- facts about the generated constants ---------- *)
Lemma gen_push_id : forall k, gen_push k = k.
Proof. destruct k; reflexivity. Qed.

Lemma ghd_SS : forall n, gen_has_dagger (S (S n)) = gen_has_dagger n.
Proof.
  intro n. unfold gen_has_dagger.
  replace (S (S n)) with (n + 1 * 2) by lia. rewrite Nat.mod_add by lia. reflexivity.
Qed.

Lemma ghd_S : forall n, gen_has_dagger (S n) = negb (gen_has_dagger n).
Proof.
  assert (H : forall n, gen_has_dagger (S n) = negb (gen_has_dagger n) /\
                        gen_has_dagger (S (S n)) = negb (gen_has_dagger (S n))).
  { induction n as [|n [IH1 IH2]].
    - split; reflexivity.
    - split; [exact IH2|]. rewrite ghd_SS, IH2. rewrite negb_involutive. reflexivity. }
  intro n. apply H.
Qed.

Lemma ghd_0 : gen_has_dagger 0 = false.
Proof. reflexivity. Qed.

Lemma call_rev_true : gen_call_ctrl_rev = true.
Proof. reflexivity. Qed.
Lemma unpack_rev_true : gen_unpack_ctrl_rev = true.
Proof. reflexivity. Qed.
Lemma linear_first_true : gen_linear_first = true.
Proof. reflexivity. Qed.
Lemma gen_order_perm3 : perm3 gen_emit_order.
Proof. unfold perm3, gen_emit_order. simpl. tauto. Qed.

(** ---------- grouping ---------- *)
Definition isk (k : kind) (m : modifier) : bool := kind_eqb (kind_of m) k.

Lemma fold_push : forall s g,
  fold_left push s g =
  mkG (g_dagger g ++ filter (isk KDagger) s) (g_control g ++ filter (isk KControl) s)
      (g_power g ++ filter (isk KPower) s).
Proof.
  induction s as [|m s IH]; intro g.
  - simpl. rewrite !app_nil_r. destruct g; reflexivity.
  - simpl. rewrite IH. unfold push. rewrite gen_push_id.
    destruct m; simpl; rewrite <- ?app_assoc; reflexivity.
Qed.

Lemma group_spec : forall s,
  group s = mkG (filter (isk KDagger) s) (filter (isk KControl) s) (filter (isk KPower) s).
Proof. intro s. unfold group. rewrite fold_push. reflexivity. Qed.

Lemma all_ctl : forall s, all_some ctl_of (filter (isk KControl) s) = Some (ctls_src s).
Proof.
  induction s as [|m s IH]; [reflexivity|]. destruct m; simpl; try exact IH. rewrite IH. reflexivity.
Qed.

Lemma all_exp : forall s, all_some exp_of (filter (isk KPower) s) = Some (exps_src s).
Proof.
  induction s as [|m s IH]; [reflexivity|]. destruct m; simpl; try exact IH. rewrite IH. reflexivity.
Qed.

Lemma dagger_count : forall s, gen_has_dagger (length (filter (isk KDagger) s)) = dpar s.
Proof.
  induction s as [|m s IH]; [reflexivity|]. destruct m; simpl; try exact IH.
  rewrite ghd_S, IH. reflexivity.
Qed.

(** ---------- the three groups in closed form ---------- *)
Definition dops (s : list modifier) (io oth : list hty) : list op :=
  if dpar s then [ODagger io oth] else [].
Definition pops (s : list modifier) (io oth : list hty) : list op :=
  map (fun e => OPower e io oth) (exps_src s).
Definition cops (s : list modifier) (io oth : list hty) : list op :=
  fst (emit_controls (ctls_src s) io oth).
Definition carrs (cs : list ctl) : list hty := map (fun c => HArr (arity c)) cs.

Lemma emit_controls_io : forall cs io oth, snd (emit_controls cs io oth) = rev (carrs cs) ++ io.
Proof.
  induction cs as [|c cs IH]; intros io oth; [reflexivity|].
  simpl. specialize (IH (HArr (arity c) :: io) oth).
  destruct (emit_controls cs (HArr (arity c) :: io) oth) as [o io'] eqn:E. simpl in *.
  rewrite IH. rewrite <- app_assoc. reflexivity.
Qed.

Lemma emit_group_spec : forall k s io oth,
  emit_group k (group s) io oth =
  Some (match k with
        | KDagger => (dops s io oth, io)
        | KPower => (pops s io oth, io)
        | KControl => (cops s io oth, rev (carrs (ctls_src s)) ++ io)
        end).
Proof.
  intros k s io oth. rewrite group_spec. destruct k; simpl.
  - rewrite dagger_count. reflexivity.
  - rewrite all_exp. reflexivity.
  - rewrite all_ctl. unfold cops.
    rewrite (surjective_pairing (emit_controls (ctls_src s) io oth)) at 1.
    rewrite emit_controls_io. reflexivity.
Qed.

(** ---------- typing ---------- *)
Lemma chain_app : forall a b f1 f2 f3, chain_typed a f1 f2 -> chain_typed b f2 f3 -> chain_typed (a ++ b) f1 f3.
Proof.
  induction a as [|o a IH]; intros b f1 f2 f3 H1 H2.
  - inversion H1; subst. exact H2.
  - inversion H1; subst. simpl. econstructor; [eassumption|]. eapply IH; eassumption.
Qed.

Lemma cops_typed : forall cs io oth,
  chain_typed (fst (emit_controls cs io oth)) (io ++ oth, io)
              ((rev (carrs cs) ++ io) ++ oth, rev (carrs cs) ++ io).
Proof.
  induction cs as [|c cs IH]; intros io oth.
  - simpl. constructor.
  - simpl. specialize (IH (HArr (arity c) :: io) oth).
    destruct (emit_controls cs (HArr (arity c) :: io) oth) as [o io'] eqn:E. simpl in *.
    econstructor; [apply T_control|].
    rewrite <- !app_assoc. simpl. rewrite <- !app_assoc in IH. exact IH.
Qed.

Lemma dops_typed : forall s io oth, chain_typed (dops s io oth) (io ++ oth, io) (io ++ oth, io).
Proof. intros. unfold dops. destruct (dpar s); repeat econstructor. Qed.

Lemma pops_typed : forall s io oth, chain_typed (pops s io oth) (io ++ oth, io) (io ++ oth, io).
Proof. intros. unfold pops. induction (exps_src s); simpl; repeat econstructor. assumption. Qed.
