(** C25 — Modifier blocks lower to the matching modifier operations.
    `compile` is the model of visit_With/push_modifier + compile_modified_block instantiated
    with the constants regenerated from /repo's source on this run (GenOrder.v).
    A stack is the list of `with` items in source order; `caps` the captured variables. *)
From Coq Require Import ZArith List Bool Permutation.
From V.C25 Require Import Base GenOrder Model Spec Proofs.
Import ListNotations.
Open Scope Z_scope.

(* compilation never fails on a well-formed stack *)
Theorem compile_total : forall s caps, exists c, compile s caps = Some c.
Proof. intros. unfold compile. rewrite compile_with_spec. eexists; reflexivity. Qed.
Print Assumptions compile_total.

(* each ControlModifier carries exactly the number of control qubits of its control(...),
   in source order of the control(...) items *)
Theorem control_arity : forall s caps c, compile s caps = Some c ->
  op_arities (c_ops c) = map arity (ctls_src s).
Proof.
  intros s caps c H. rewrite (compile_ops _ _ _ _ H). apply arities_ops_for, gen_order_perm3.
Qed.
Print Assumptions control_arity.

(* each PowerModifier takes the exponent of its power(...), in source order of the power items *)
Theorem power_exponents : forall s caps c, compile s caps = Some c ->
  op_exps (c_ops c) = exps_src s.
Proof.
  intros s caps c H. rewrite (compile_ops _ _ _ _ H). apply exps_ops_for, gen_order_perm3.
Qed.
Print Assumptions power_exponents.

(* threading: the fragment is well typed (the op chain produces a function whose inputs and
   outputs are exactly what the call passes / what is taken from it); every control and every
   captured variable is passed exactly once; every borrowed one is assigned back from the
   output port matching the input port it was passed on; the body function takes the
   non-copyable captured variables first *)
Theorem threading : forall s caps c, compile s caps = Some c ->
  well_typed c /\
  c_rets c = filter arg_linear (c_args c) /\
  Permutation (c_args c) (map ACtl (ctls_src s) ++ map ACap caps) /\
  c_fn_inputs c = filter (fun x => negb (cap_copy x)) caps ++ filter cap_copy caps.
Proof.
  intros s caps c H. split.
  - exact (compile_well_typed _ _ _ _ gen_order_perm3 H).
  - exact (compile_threading _ _ _ _ H).
Qed.
Print Assumptions threading.

(* the emitted chain, with each control op acting on the array the call binds to it, denotes
   the same transformer as the source stack in the algebra dagger.dagger = id + commutation *)
Theorem ops_semantic : forall s caps c, compile s caps = Some c ->
  exists l, den_compiled c = Some l /\ mequiv (map den_src s) l.
Proof. intros s caps c H. exact (ops_semantic_with _ _ _ _ gen_order_perm3 H). Qed.
Print Assumptions ops_semantic.

(* the algebra is not degenerate: equivalent stacks have the same dagger parity and the same
   multiset of powers and controls *)
Theorem mequiv_invariant : forall a b, mequiv a b ->
  sdpar a = sdpar b /\ Permutation (filter nondagger a) (filter nondagger b).
Proof. exact mequiv_sound. Qed.
Print Assumptions mequiv_invariant.

Example dagger_is_not_identity : ~ mequiv [SDagger] [].
Proof. intro H. apply mequiv_invariant in H. destruct H as [H _]. discriminate H. Qed.

(* what is emitted, exactly: per group (in the order of the compiler's `if has_X` statements)
   one Dagger iff the number of daggers is odd, one Power per power(...), one Control per
   control(...), each group in source order *)
Theorem ops_grouped : forall s caps c, compile s caps = Some c ->
  map op_kind (c_ops c) = grouped_kinds gen_emit_order s /\
  length (c_ops c) = ((if dpar s then 1 else 0) + length (exps_src s) + length (ctls_src s))%nat.
Proof.
  intros s caps c H. rewrite (compile_ops _ _ _ _ H).
  split; [apply kinds_ops_for|].
  rewrite <- (map_length op_kind), kinds_ops_for. apply grouped_kinds_length, gen_order_perm3.
Qed.
Print Assumptions ops_grouped.

(* the property's literal claim holds for stacks that are already grouped *)
Theorem ops_per_modifier_partial : forall s caps c, compile s caps = Some c ->
  map kind_of s = grouped_kinds gen_emit_order s ->
  map op_kind (c_ops c) = map kind_of s.
Proof. intros s caps c H G. rewrite G. exact (proj1 (ops_grouped s caps c H)). Qed.
Print Assumptions ops_per_modifier_partial.

Example grouped_stack_satisfiable :
  let s := flat_map (fun k => match k with
                              | KDagger => [MDagger]
                              | KPower => [MPower 7; MPower 8]
                              | KControl => [MControl (CArr 1 3); MControl (CQs [2; 3])]
                              end) gen_emit_order in
  length s = 5%nat /\ map kind_of s = grouped_kinds gen_emit_order s /\
  option_map (fun c => map op_kind (c_ops c)) (compile s [mkCap 10 0 false; mkCap 11 1 true]) = Some (map kind_of s).
Proof. vm_compute. repeat split; reflexivity. Qed.

(* ... and is refuted in general: one op per modifier, in source order *)
Theorem ops_per_modifier_refuted :
  (exists s caps c, compile s caps = Some c /\ length (c_ops c) <> length s) /\
  (exists s caps c, compile s caps = Some c /\ length (c_ops c) = length s /\
                    map op_kind (c_ops c) <> map kind_of s) /\
  (exists s caps c, compile s caps = Some c /\ length (c_ops c) = length s /\
                    map op_kind (c_ops c) <> rev (map kind_of s)).
Proof.
  split; [|split].
  - exists [MDagger; MDagger], [mkCap 10 0 false]. eexists. split; [vm_compute; reflexivity|]. vm_compute. discriminate.
  - first
      [ solve [ exists [MControl (CQs [1]); MDagger], [mkCap 10 0 false]; eexists; split; [vm_compute; reflexivity|];
                split; [reflexivity|]; vm_compute; discriminate ]
      | solve [ exists [MDagger; MControl (CQs [1])], [mkCap 10 0 false]; eexists; split; [vm_compute; reflexivity|];
                split; [reflexivity|]; vm_compute; discriminate ] ].
  - first
      [ solve [ exists [MDagger; MControl (CQs [1])], [mkCap 10 0 false]; eexists; split; [vm_compute; reflexivity|];
                split; [reflexivity|]; vm_compute; discriminate ]
      | solve [ exists [MControl (CQs [1]); MDagger], [mkCap 10 0 false]; eexists; split; [vm_compute; reflexivity|];
                split; [reflexivity|]; vm_compute; discriminate ] ].
Qed.
Print Assumptions ops_per_modifier_refuted.

(* a non-trivial instance of everything at once: two controls of different sizes *)
Example mixed_controls :
  option_map (fun c => (op_arities (c_ops c), map arg_ty (c_args c)))
             (compile [MControl (CArr 1 3); MDagger; MControl (CQs [2; 4])] [mkCap 10 0 false; mkCap 11 1 true])
  = Some ([3%N; 2%N], [HArr 2; HArr 3; HTy 0; HTy 1]).
Proof. vm_compute. reflexivity. Qed.
