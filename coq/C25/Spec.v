(** C25 — specification side, written independently of the compiler model:
    (1) the typing discipline of the tket.modifier operations (from the extension's
        signatures) and of the indirect call,
    (2) the algebra of modifiers (dagger.dagger = id, modifiers commute) as an equational
        theory on stacks, and the denotation of a source stack / an emitted chain,
    (3) source-level readings of a stack (its controls, exponents, dagger parity). *)
From Coq Require Import ZArith List Bool Permutation.
From V.C25 Require Import Base Model.
Import ListNotations.

(** ---- (1) typing ---- *)
Definition fty := (list hty * list hty)%type.   (* inputs, outputs of a function value *)

(** tket.modifier signatures:
    DaggerModifier<io,oth>   : (io,oth -> io) -> (io,oth -> io)
    PowerModifier<io,oth>    : (io,oth -> io), int -> (io,oth -> io)
    ControlModifier<n,io,oth>: (io,oth -> io) -> (array<n,qubit>,io,oth -> array<n,qubit>,io) *)
Inductive op_typed : op -> fty -> fty -> Prop :=
| T_dagger io oth : op_typed (ODagger io oth) (io ++ oth, io) (io ++ oth, io)
| T_power e io oth : op_typed (OPower e io oth) (io ++ oth, io) (io ++ oth, io)
| T_control n io oth : op_typed (OControl n io oth) (io ++ oth, io) (HArr n :: io ++ oth, HArr n :: io).

Inductive chain_typed : list op -> fty -> fty -> Prop :=
| CT_nil f : chain_typed [] f f
| CT_cons o r f1 f2 f3 : op_typed o f1 f2 -> chain_typed r f2 f3 -> chain_typed (o :: r) f1 f3.

Definition arg_ty (a : arg) : hty :=
  match a with ACtl c => HArr (arity c) | ACap c => HTy (cap_ty c) end.
Definition arg_linear (a : arg) : bool :=
  match a with ACtl _ => true | ACap c => negb (cap_copy c) end.

(** the function made from the body takes the captured variables and returns the borrowed
    (non-copyable) ones *)
Definition body_fty (inputs : list cap) : fty :=
  (map (fun c => HTy (cap_ty c)) inputs,
   map (fun c => HTy (cap_ty c)) (filter (fun c => negb (cap_copy c)) inputs)).

(** the HUGR fragment is well typed: the chain of ops turns the body function into a function
    whose inputs/outputs are exactly the types wired to / taken from the CallIndirect *)
Definition well_typed (c : compiled) : Prop :=
  exists f, chain_typed (c_ops c) (body_fty (c_fn_inputs c)) f /\
            map arg_ty (c_args c) = fst f /\ map arg_ty (c_rets c) = snd f.

(** ---- (2) algebra ---- *)
Inductive smod := SDagger | SPower (e : Z) | SControl (c : ctl).

Inductive mequiv : list smod -> list smod -> Prop :=
| me_refl l : mequiv l l
| me_sym a b : mequiv a b -> mequiv b a
| me_trans a b c : mequiv a b -> mequiv b c -> mequiv a c
| me_swap x y l1 l2 : mequiv (l1 ++ x :: y :: l2) (l1 ++ y :: x :: l2)
| me_dd l1 l2 : mequiv (l1 ++ SDagger :: SDagger :: l2) (l1 ++ l2).

Definition den_src (m : modifier) : smod :=
  match m with MDagger => SDagger | MControl c => SControl c | MPower e => SPower e end.

(** denotation of an emitted chain: the i-th ControlModifier op (innermost first) acts with the
    control array it is *bound to by the call*: each control op prepends its array to the
    inputs, so the i-th of m control ops is bound to the call's control argument m-1-i.
    None = the op's arity differs from the size of the array bound to it. *)
Fixpoint den_ops (ops : list op) (bound : list ctl) : option (list smod) :=
  match ops with
  | [] => match bound with [] => Some [] | _ => None end
  | ODagger _ _ :: r => option_map (cons SDagger) (den_ops r bound)
  | OPower e _ _ :: r => option_map (cons (SPower e)) (den_ops r bound)
  | OControl n _ _ :: r =>
    match bound with
    | c :: b => if N.eqb n (arity c) then option_map (cons (SControl c)) (den_ops r b) else None
    | [] => None
    end
  end.

Fixpoint ctl_args (l : list arg) : list ctl :=
  match l with [] => [] | ACtl c :: r => c :: ctl_args r | ACap _ :: r => ctl_args r end.

Definition den_compiled (c : compiled) : option (list smod) :=
  den_ops (c_ops c) (rev (ctl_args (c_args c))).

(** an invariant separating stacks: dagger parity and the multiset of the other modifiers *)
Fixpoint sdpar (l : list smod) : bool :=
  match l with [] => false | SDagger :: r => negb (sdpar r) | _ :: r => sdpar r end.
Definition nondagger (m : smod) : bool := match m with SDagger => false | _ => true end.

(** ---- (3) source-level readings ---- *)
Fixpoint ctls_src (s : list modifier) : list ctl :=
  match s with [] => [] | MControl c :: r => c :: ctls_src r | _ :: r => ctls_src r end.
Fixpoint exps_src (s : list modifier) : list Z :=
  match s with [] => [] | MPower e :: r => e :: exps_src r | _ :: r => exps_src r end.
Fixpoint dpar (s : list modifier) : bool :=
  match s with [] => false | MDagger :: r => negb (dpar r) | _ :: r => dpar r end.

Fixpoint op_arities (l : list op) : list N :=
  match l with [] => [] | OControl n _ _ :: r => n :: op_arities r | _ :: r => op_arities r end.
Fixpoint op_exps (l : list op) : list Z :=
  match l with [] => [] | OPower e _ _ :: r => e :: op_exps r | _ :: r => op_exps r end.

(** the kinds of the ops one expects from grouping: per group of `order`, the surviving dagger
    (if the number of daggers is odd) resp. the stack's modifiers of that kind in source order *)
Definition grouped_kinds (order : list kind) (s : list modifier) : list kind :=
  flat_map (fun k => match k with
                     | KDagger => if dpar s then [KDagger] else []
                     | _ => filter (kind_eqb k) (map kind_of s)
                     end) order.

Definition perm3 (o : list kind) : Prop :=
  In o [[KDagger; KPower; KControl]; [KDagger; KControl; KPower]; [KPower; KDagger; KControl];
        [KPower; KControl; KDagger]; [KControl; KDagger; KPower]; [KControl; KPower; KDagger]].
