(** Result type shared by the models: a Python call either returns or raises. *)
From Coq Require Import String.
Inductive res (A : Type) : Type :=
| Ok (a : A)
| Raise (e : string).
Arguments Ok {A} a.
Arguments Raise {A} e.

Definition res_bind {A B} (r : res A) (f : A -> res B) : res B :=
  match r with Ok a => f a | Raise e => Raise e end.
Definition is_ok {A} (r : res A) : bool := match r with Ok _ => true | Raise _ => false end.
