(** V.C06.ProofsFlatten — the event lists produced from the checked AST ([flat_map ev_stmt]) have
    the structure assumed by the completeness theorem ([shadow_wf], [reassign_wf]). *)
From Coq Require Import List Bool Arith Lia.
From V.C09 Require Import Analysis SetLemmas.
From V.C06 Require Import Linearity Token ProofsBlock ProofsFlow ProofsSound ProofsComplete.
Import ListNotations.

(** induction over the nested type [expr] *)
Fixpoint expr_rect' (P : expr -> Prop)
  (HP : forall p, P (XPlace p))
  (HC : forall fl args, Forall P args -> P (XCall fl args))
  (HN : forall cs, Forall P cs -> P (XNode cs))
  (HD : forall e ok, P e -> P (XDrop e ok)) (e : expr) : P e :=
  match e with
  | XPlace p => HP p
  | XCall fl args =>
      HC fl args ((fix go (l : list expr) : Forall P l :=
                     match l with
                     | [] => Forall_nil P
                     | a :: r => Forall_cons a (expr_rect' P HP HC HN HD a) (go r)
                     end) args)
  | XNode cs =>
      HN cs ((fix go (l : list expr) : Forall P l :=
                match l with
                | [] => Forall_nil P
                | a :: r => Forall_cons a (expr_rect' P HP HC HN HD a) (go r)
                end) cs)
  | XDrop e0 ok => HD e0 ok (expr_rect' P HP HC HN HD e0)
  end.

Fixpoint args_use (az : list expr) (fs : list (bool * bool)) : list event :=
  match az, fs with
  | a :: ar, f :: fr =>
      match a with
      | XPlace p => [EUse p (if fst f then UBorrow else UConsume)]
      | _ => ev_expr a
      end ++ args_use ar fr
  | _, _ => []
  end.
Fixpoint nodes_ev (cs : list expr) : list event :=
  match cs with [] => [] | c :: r => ev_expr c ++ nodes_ev r end.

Lemma ev_call : forall fl args, ev_expr (XCall fl args) = args_use args fl ++ args_back fl args.
Proof.
  intros fl args. reflexivity.
Qed.
Lemma ev_node : forall cs, ev_expr (XNode cs) = nodes_ev cs.
Proof. intros cs. simpl. induction cs as [|a r IH]; [reflexivity|]. simpl. rewrite IH. reflexivity. Qed.

(** * no assignment events inside expressions *)
Definition no_assign (es : list event) : Prop :=
  forall ev, In ev es -> match ev with EAssign _ => False | _ => True end.

Lemma no_assign_app : forall a b, no_assign a -> no_assign b -> no_assign (a ++ b).
Proof. intros a b A B ev H. apply in_app_or in H. destruct H as [H | H]; [apply A | apply B]; exact H. Qed.

Lemma args_back_no_assign : forall fl args, no_assign (args_back fl args).
Proof.
  induction fl as [|f fr IH]; intros args; simpl; [intros ev []|].
  destruct args as [|a ar]; [intros ev []|]. apply no_assign_app; [|apply IH].
  unfold arg_back. destruct (fst f); [|intros ev []].
  destruct a; try destruct (snd f); intros ev H; simpl in H;
    repeat (destruct H as [H | H]; [subst ev; exact I|]); destruct H.
Qed.

Lemma ev_expr_no_assign : forall e, no_assign (ev_expr e).
Proof.
  apply (expr_rect' (fun e => no_assign (ev_expr e))).
  - intros p ev H. destruct H as [H | []]. subst. exact I.
  - intros fl args HF. rewrite ev_call. apply no_assign_app; [|apply args_back_no_assign].
    revert fl. induction HF as [|a r Ha HF IH]; intros fl; simpl; [intros ev []|].
    destruct fl as [|f fr]; [intros ev []|]. apply no_assign_app; [|apply IH].
    destruct a; auto. intros ev H. destruct H as [H | []]. subst. exact I.
  - intros cs HF. rewrite ev_node. induction HF as [|a r Ha HF IH]; simpl; [intros ev []|].
    apply no_assign_app; auto.
  - intros e ok He. simpl. apply no_assign_app; auto. destruct ok; intros ev H; [destruct H|].
    destruct H as [H | []]. subst. exact I.
Qed.

Lemma shadow_wf_app : forall a b, no_assign a -> shadow_wf b -> shadow_wf (a ++ b).
Proof.
  induction a as [|e r IH]; intros b A B; simpl; auto. split.
  - pose proof (A e (or_introl eq_refl)) as H. destruct e; auto. destruct H.
  - apply IH; auto. intros ev H. apply A. simpl. auto.
Qed.

Lemma shadow_wf_assigns : forall tg tg' rest, incl tg tg' -> shadow_wf rest ->
  shadow_wf (map EAssign tg ++ map EShadow tg' ++ rest).
Proof.
  induction tg as [|p r IH]; intros tg' rest Hi Hr; simpl.
  - apply shadow_wf_app; auto. intros ev H. apply in_map_iff in H. destruct H as [p [E _]]. subst. exact I.
  - split.
    + exists p. split; auto. apply in_or_app. right. apply in_or_app. left. apply in_map. apply Hi. simpl. auto.
    + apply IH; auto. intros q Hq. apply Hi. simpl. auto.
Qed.

Lemma ev_stmt_shadow : forall st rest, shadow_wf rest -> shadow_wf (ev_stmt st ++ rest).
Proof.
  intros st rest Hr. destruct st as [tg v | e d | es | e]; simpl.
  - rewrite <- app_assoc. apply shadow_wf_app; [apply ev_expr_no_assign|].
    rewrite <- app_assoc. apply shadow_wf_assigns; auto. apply incl_refl.
  - rewrite <- app_assoc. apply shadow_wf_app; [apply ev_expr_no_assign|].
    destruct d; simpl; auto.
  - apply shadow_wf_app; auto. induction es as [|a r IH]; simpl; [intros ev []|].
    apply no_assign_app; auto. destruct a; try apply ev_expr_no_assign.
    intros ev H. destruct H as [H | []]. subst. exact I.
  - apply shadow_wf_app; auto. apply ev_expr_no_assign.
Qed.

Lemma flatten_shadow_wf : forall sts, shadow_wf (flat_map ev_stmt sts).
Proof. induction sts as [|st r IH]; simpl; auto. apply ev_stmt_shadow. exact IH. Qed.

(** * hand-backs follow their borrows *)
Lemma reassign_wf_mono : forall es B B', incl B B' -> reassign_wf B es -> reassign_wf B' es.
Proof.
  induction es as [|e r IH]; intros B B' Hi H; simpl in *; auto.
  destruct e as [p k | p | p | p | e]; try (eapply IH; eauto; fail).
  - destruct k; try (eapply IH; eauto; fail).
    eapply IH; [|exact H]. apply incl_app; [apply incl_appl, incl_refl | apply incl_appr; exact Hi].
  - destruct H as [A C]. split; [intros l Hl; apply Hi; auto | eapply IH; eauto].
Qed.

Lemma reassign_wf_app : forall es1 es2 B, reassign_wf B es1 ->
  (forall B', incl B B' -> reassign_wf B' es2) -> reassign_wf B (es1 ++ es2).
Proof.
  induction es1 as [|e r IH]; intros es2 B H1 H2; simpl in *.
  - apply H2. apply incl_refl.
  - destruct e as [p k | p | p | p | e]; try (apply IH; auto; fail).
    + destruct k; try (apply IH; auto; fail).
      apply IH; auto. intros B' Hi. apply H2. intros y Hy. apply Hi. apply in_or_app. auto.
    + destruct H1 as [A C]. split; auto.
Qed.

Definition Q (es : list event) : Prop := forall B, reassign_wf B es.

Lemma Q_app : forall a b, Q a -> Q b -> Q (a ++ b).
Proof. intros a b A B0 B. apply reassign_wf_app; auto. Qed.

Lemma call_wf : forall args, Forall (fun e => Q (ev_expr e)) args -> forall flags B mid,
  (forall B', incl B B' -> reassign_wf B' mid) ->
  reassign_wf B (args_use args flags ++ mid ++ args_back flags args).
Proof.
  intros args HF. induction HF as [|a r Ha HF IH]; intros flags B mid Hmid.
  - simpl. destruct flags; simpl; rewrite app_nil_r; apply Hmid; apply incl_refl.
  - destruct flags as [|f fr].
    + simpl. rewrite app_nil_r. apply Hmid. apply incl_refl.
    + simpl args_use. simpl args_back. rewrite <- app_assoc.
      assert (Hre : forall X, mid ++ arg_back f a ++ X = (mid ++ arg_back f a) ++ X) by (intros; rewrite app_assoc; reflexivity).
      rewrite Hre.
      assert (Hmid' : forall B0, incl B B0 -> forall B', incl B0 B' -> (forall l p, a = XPlace p -> fst f = true -> In l (leaves (p_tree p)) -> In (l_id l) B0) ->
                reassign_wf B' (mid ++ arg_back f a)).
      { intros B0 Hi0 B' Hi Hids. apply reassign_wf_app.
        - apply Hmid. eapply incl_tran; eauto.
        - intros B'' Hi'. unfold arg_back. destruct (fst f) eqn:Ef; simpl; auto.
          destruct a; try (destruct (snd f); simpl; auto; fail).
          simpl. split; auto. intros l Hl. apply Hi', Hi. eapply Hids; eauto. }
      destruct a as [p | fl az | cs | e0 ok0].
      * destruct (fst f) eqn:Ef.
        -- simpl. apply IH. intros B' Hi. apply (Hmid' (map l_id (leaves (p_tree p)) ++ B)); auto.
           ++ apply incl_appr, incl_refl.
           ++ intros l p0 E _ Hl. inversion E; subst p0. apply in_or_app. left. apply in_map. exact Hl.
        -- simpl. apply IH. intros B' Hi. apply (Hmid' B); auto. apply incl_refl. intros l p0 _ Hf. discriminate.
      * apply reassign_wf_app; [apply Ha|]. intros B0 Hi0. apply IH. intros B' Hi.
        apply (Hmid' B0); auto. intros l p0 E. discriminate.
      * apply reassign_wf_app; [apply Ha|]. intros B0 Hi0. apply IH. intros B' Hi.
        apply (Hmid' B0); auto. intros l p0 E. discriminate.
      * apply reassign_wf_app; [apply Ha|]. intros B0 Hi0. apply IH. intros B' Hi.
        apply (Hmid' B0); auto. intros l p0 E. discriminate.
Qed.

Lemma ev_expr_Q : forall e, Q (ev_expr e).
Proof.
  apply (expr_rect' (fun e => Q (ev_expr e))).
  - intros p B. simpl. exact I.
  - intros fl args HF B. rewrite ev_call.
    pose proof (call_wf args HF fl B [] (fun B' _ => I)) as H. simpl in H. exact H.
  - intros cs HF. rewrite ev_node. induction HF as [|a r Ha HF IH]; simpl; [intros B; exact I|].
    apply Q_app; auto.
  - intros e ok He. simpl. apply Q_app; auto. destruct ok; intros B; simpl; auto.
Qed.

Lemma ev_stmt_Q : forall st, Q (ev_stmt st).
Proof.
  intros st. destruct st as [tg v | e d | es | e]; simpl.
  - apply Q_app; [apply ev_expr_Q|]. apply Q_app.
    + intros B. induction tg as [|p r IH]; simpl; auto.
    + intros B. induction tg as [|p r IH]; simpl; auto.
  - apply Q_app; [apply ev_expr_Q|]. destruct d; intros B; simpl; auto.
  - induction es as [|a r IH]; simpl; [intros B; exact I|]. apply Q_app; auto.
    destruct a; try apply ev_expr_Q. intros B. simpl. exact I.
  - apply ev_expr_Q.
Qed.

Lemma flatten_reassign_wf : forall sts, Q (flat_map ev_stmt sts).
Proof. induction sts as [|st r IH]; simpl; [intros B; exact I|]. apply Q_app; auto. apply ev_stmt_Q. Qed.

Lemma flatten_events_wf : forall bs entry exit_ reach fin,
  events_wf (mkLC (map flatten_block bs) entry exit_ reach fin).
Proof.
  intros bs entry exit_ reach fin blk Hb. simpl in Hb. apply in_map_iff in Hb.
  destruct Hb as [ab [E _]]. subst blk. simpl. split; [apply flatten_shadow_wf | apply flatten_reassign_wf].
Qed.
