(** V.C06.ProofsSoundG — soundness for CFGs in which names are re-bound at other kinds. *)
From Coq Require Import List Bool Arith Lia.
From V.C09 Require Import Analysis SetLemmas ProofsLive.
From V.C06 Require Import Linearity Token TokenG ProofsBlock ProofsBlockG ProofsFlow ProofsSound.
Import ListNotations.

Section SoundG.
Variable fx : bool.
Variable c : lcfg.
Variable sched : list nat.
Variables ss0 ss : list scope.
Hypothesis HW : wf_shape c.
Hypothesis HT : typed c.
Hypothesis HE : edges_ok c.
Hypothesis HX : exit_row_ok c.
Hypothesis H1 : check_blocks (c_inputs c) (c_entry c) 0 (c_blocks c) = inl ss0.
Hypothesis H2 : exit_used c ss0 = Some ss.
Hypothesis H3 : wf_cfg (stats_cfg c ss) = true.
Hypothesis H4 : c_exit c < length (c_blocks c).
Hypothesis H5 : c_entry c < length (c_blocks c).
Hypothesis H6 : check_dataflow fx c ss (live_of c ss sched) 0 (c_blocks c) = Accept.

Notation fin := (c_inputs c).
Notation N := (length (c_blocks c)).
Notation L := (live_of c ss sched).
Notation evs b := (lb_events (nth_block c b)).
Notation succs b := (lb_succ (nth_block c b)).

Lemma g_nth_ss : forall b, b <> c_exit c -> nth_scope ss b = nth_scope ss0 b.
Proof. intros. eapply nth_ss; eauto. Qed.
Lemma g_block_run : forall b, b < N -> run_events fin (block_init c b) (evs b) = Ok (nth_scope ss0 b).
Proof. intros. unfold block_init. eapply block_run; eauto. Qed.
Lemma g_dataflow : forall b, b < N ->
  check1 (nth_scope ss b) L (succs b) = Some [] /\
  check2 fx (nth_scope ss b) L b (succs b) = [] /\
  row_ok c (nth_scope ss b) L b = true.
Proof. intros. eapply dataflow; eauto. Qed.
Lemma g_succ_lt : forall b n, b < N -> In n (succs b) -> n < N.
Proof. intros. eapply succ_lt; eauto. Qed.
Lemma g_live_eq : forall b x, b < N ->
  (In x (getv L b) <->
   In x (s_up (nth_scope ss b)) \/
   (~ In x (map l_id (s_vars (nth_scope ss b))) /\ exists n, In n (succs b) /\ In x (getv L n))).
Proof. intros. eapply live_eq'; eauto. Qed.
Lemma g_exit_up : forall x, In x (s_up (nth_scope ss (c_exit c))) <-> In x (borrowed_ids c).
Proof. intros. eapply exit_up; eauto. Qed.

(* the input row of a block as its scope sees it *)
Lemma pvars_of : forall b, b < N -> b <> c_entry c -> s_pvars (nth_scope ss0 b) = row_leaves c b.
Proof.
  intros b Hb Hne. pose proof (g_block_run b Hb) as Hrun.
  destruct (run_events_ext fin _ _ _ Hrun) as [_ [_ [_ [_ E]]]]. rewrite E.
  unfold block_init, row_leaves. apply Nat.eqb_neq in Hne. rewrite Hne. reflexivity.
Qed.

(** * the invariant at block boundaries *)
Definition GJ (b : nat) (t : gstate) : Prop :=
  (forall x l, find_leaf x (row_leaves c b) = Some l -> is_copy (l_kind l) = false ->
     In x (getv L b) -> t x = l_kind l) /\
  (forall x, t x = KLinear -> In x (getv L b)) /\
  (forall x l, find_leaf x (row_leaves c b) = Some l -> is_copy (l_kind l) = true -> t x = KCopy).
Definition GJb (b : nat) (t : gstate) : Prop :=
  if Nat.eqb b (c_entry c) then (forall x, t x = KCopy) else GJ b t.

Lemma gblock_step : forall b t, b < N -> GJb b t ->
  exists t', gsem_events fin (gblock_start c b t) (evs b) = GFine t' /\
    forall n, In n (succs b) -> n < N /\ GJb n t'.
Proof.
  intros b t Hb HJ.
  destruct (Nat.eq_dec b (c_exit c)) as [Hex | Hex].
  { subst b. destruct HW as [We [Ws _]]. rewrite We, Ws. simpl. eexists. split; [reflexivity|]. intros n []. }
  pose proof (g_block_run b Hb) as Hrun. set (sf := nth_scope ss0 b) in *.
  assert (Hsf : nth_scope ss b = sf) by (apply g_nth_ss; exact Hex).
  set (row := flat_map leaves (lb_in (nth_block c b))) in *.
  (* the starting point *)
  assert (Hstart : RG t (block_init c b) (gblock_start c b t) /\ inv2 (block_init c b)).
  { assert (R0 : RG t e0 t) by (intros x; reflexivity).
    unfold gblock_start, block_init. destruct (Nat.eqb b (c_entry c)) eqn:Ee.
    - rewrite init_scope_entry. fold row. split; [apply assign_leaves_RG; exact R0|].
      apply assign_leaves_inv2. split; reflexivity.
    - unfold init_scope. split; [intros x; reflexivity|]. split; [reflexivity | discriminate]. }
  destruct Hstart as [HR0 HI0].
  pose proof (run_events_ext fin _ _ _ Hrun) as Hext.
  pose proof (run_events_inv2 fin _ _ _ Hrun HI0) as [Iup Ient].
  assert (Hentry_sf : s_entry sf = Nat.eqb b (c_entry c)).
  { destruct Hext as [_ [_ [_ [E _]]]]. rewrite E. unfold block_init, init_scope. destruct (Nat.eqb b (c_entry c)); reflexivity. }
  assert (Hpv : Nat.eqb b (c_entry c) = false -> s_pvars sf = row_leaves c b).
  { intros Ee. apply pvars_of; auto. apply Nat.eqb_neq. exact Ee. }
  assert (HU : GHup t sf).
  { intros x l0 Hx Hf Hc. unfold GJb in HJ. destruct (Nat.eqb b (c_entry c)) eqn:Ee.
    - rewrite (Ient Hentry_sf) in Hx. destruct Hx.
    - rewrite (Hpv eq_refl) in Hf. apply (proj1 HJ x l0 Hf Hc).
      apply (g_live_eq b x Hb). left. rewrite Hsf, Iup. exact Hx. }
  assert (HD : GHdef t sf).
  { intros x Tx Hv. unfold GJb in HJ. destruct (Nat.eqb b (c_entry c)) eqn:Ee.
    - rewrite HJ in Tx. discriminate.
    - pose proof (proj1 (proj2 HJ) x Tx) as Hl. apply (g_live_eq b x Hb) in Hl. rewrite Hsf in Hl.
      destruct Hl as [Hl | [Hl _]]; [rewrite <- Iup; exact Hl|]. exfalso. apply Hl.
      apply has_leaf_true in Hv. destruct Hv as [l [A B]]. apply in_map_iff. exists l. auto. }
  assert (HC : GHcopy t sf).
  { intros x l0 Hf Hc. unfold GJb in HJ. destruct (Nat.eqb b (c_entry c)) eqn:Ee.
    - apply HJ.
    - rewrite (Hpv eq_refl) in Hf. apply (proj2 (proj2 HJ) x l0 Hf Hc). }
  destruct (run_events_simG fin (evs b) t _ sf (gblock_start c b t) Hrun HU HD HC (HT b Hb) HR0) as [t' [Hsem HR]].
  exists t'. split; [exact Hsem|]. intros n Hn.
  assert (Hn' : n < N) by (eapply g_succ_lt; eauto). split; [exact Hn'|].
  assert (Nent : Nat.eqb n (c_entry c) = false).
  { apply Nat.eqb_neq. intros E. subst n. destruct HW as [_ [_ [_ W]]]. apply (W b). exact Hn. }
  unfold GJb. rewrite Nent.
  destruct (g_dataflow b Hb) as [C1 [C2 C3]]. rewrite Hsf in C1, C2, C3.
  unfold check1 in C1.
  destruct (forallb (fun x => match lookup sf x with Some _ => true | None => false end)
                    (flat_map (getv L) (succs b))) eqn:Hall; [|discriminate].
  inversion C1 as [C1']. clear C1. rewrite forallb_forall in Hall.
  assert (Hlive : forall x, In x (getv L n) -> In x (flat_map (getv L) (succs b))).
  { intros x Hx. apply in_flat_map. exists n. auto. }
  (* the state after the block, place by place *)
  assert (Hstate : forall x l0, lookup sf x = Some l0 ->
            (used sf x = Some false -> t' x = l_kind l0 \/
               (has_leaf x (s_vars sf) = false /\ s_entry sf = false /\ find_leaf x (s_pvars sf) = Some l0 /\ t' x = t x)) /\
            (is_copy (l_kind l0) = true -> t' x = KCopy)).
  { intros x l0 Hlk. pose proof (HR x) as HRx. unfold lookup in Hlk. unfold used. rewrite !has_leaf_find_iff.
    destruct (find_leaf x (s_vars sf)) as [lv|] eqn:Hv.
    - inversion Hlk; subst lv. split.
      + intros Hu. inversion Hu as [Hm]. rewrite Hm in HRx. left. exact HRx.
      + intros Hc. rewrite HRx, (copy_kind _ Hc). destruct (memb x (s_ul sf)); reflexivity.
    - destruct (s_entry sf) eqn:Hent; [discriminate|]. rewrite Hlk. split.
      + intros Hu. inversion Hu as [Hm]. rewrite Hm in HRx. right. auto.
      + intros Hc. rewrite HRx. destruct (memb x (s_pul sf)); auto. apply (HC x l0 Hlk Hc). }
  assert (Hbne : s_entry sf = false -> GJ b t).
  { intros He. unfold GJb in HJ. rewrite <- Hentry_sf, He in HJ. exact HJ. }
  split; [|split].
  - (* live in the successor at a non-copyable kind: the token is there, at that kind *)
    intros x l Hf Hc Hx. destruct (HE b n sf Hb Hn Hrun x l Hf) as [l0 [Hlk Hk]].
    pose proof (filter_nil_false _ _ _ x C1' (Hlive x Hx)) as Hp. simpl in Hp. rewrite Hlk in Hp.
    destruct (lookup_cases sf x l0 Hlk) as [[Hv [Hin [Hid Hu]]] | [Hv [He [Hin [Hid Hu]]]]]; rewrite Hu in Hp.
    + assert (Hm : memb x (s_ul sf) = false).
      { destruct (memb x (s_ul sf)); auto. rewrite Hk, Hc in Hp. discriminate. }
      rewrite Hm in Hu. destruct (proj1 (Hstate x l0 Hlk) Hu) as [A | [A _]]; [congruence | congruence].
    + assert (Hm : memb x (s_pul sf) = false).
      { destruct (memb x (s_pul sf)); auto. rewrite Hk, Hc in Hp. discriminate. }
      rewrite Hm in Hu. destruct (proj1 (Hstate x l0 Hlk) Hu) as [A | [_ [_ [Hfp A]]]]; [congruence|].
      rewrite A, <- Hk. assert (Ee : Nat.eqb b (c_entry c) = false) by (rewrite <- Hentry_sf; exact He).
      rewrite (Hpv Ee) in Hfp. apply (proj1 (Hbne He) x l0 Hfp); [rewrite Hk; exact Hc|].
      apply (g_live_eq b x Hb). right. rewrite Hsf. split.
      * intros Hd. apply in_map_iff in Hd. destruct Hd as [l' [A' B']].
        assert (has_leaf x (s_vars sf) = true) by (apply has_leaf_true; eauto). congruence.
      * exists n. auto.
  - (* a linear token is live in the successor *)
    intros x Tx. destruct (in_dec Nat.eq_dec x (getv L n)) as [Hin | Hnin]; [exact Hin|]. exfalso.
    assert (Hnf : negb (forallb (fun c0 => memb x (getv L c0)) (succs b)) = true).
    { rewrite (forallb_false_intro _ _ _ n Hn); auto. apply memb_false. exact Hnin. }
    pose proof (HR x) as HRx.
    destruct (find_leaf x (s_vars sf)) as [lv|] eqn:Hv.
    + destruct (memb x (s_ul sf)) eqn:Hm; [rewrite HRx in Tx; discriminate|]. rewrite HRx in Tx.
      destruct (find_leaf_some _ _ _ Hv) as [Hl Hid].
      assert (In (l_id lv) (check2 fx sf L b (succs b))).
      { unfold check2. apply in_map. apply filter_In. split.
        - unfold scope_entries. apply in_or_app. left. exact Hl.
        - rewrite Hid. rewrite has_leaf_find_iff, Hv. rewrite orb_true_r. simpl. rewrite Tx. simpl.
          unfold used. rewrite has_leaf_find_iff, Hv, Hm. simpl. exact Hnf. }
      rewrite C2 in H. destruct H.
    + destruct (memb x (s_pul sf)) eqn:Hm; [rewrite HRx in Tx; discriminate|]. rewrite HRx in Tx.
      unfold GJb in HJ. destruct (Nat.eqb b (c_entry c)) eqn:Ee; [rewrite HJ in Tx; discriminate|].
      destruct HJ as [J1 [J2 J3]]. pose proof (J2 x Tx) as Hlb.
      unfold row_ok in C3. rewrite Ee in C3. assert (Nat.eqb b (c_exit c) = false) by (apply Nat.eqb_neq; auto).
      rewrite H in C3. simpl in C3. rewrite forallb_forall in C3. pose proof (C3 x Hlb) as Hp.
      destruct (has_leaf_find _ _ Hp) as [l Hf]. destruct (find_leaf_some _ _ _ Hf) as [Hl Hid].
      assert (Hfr : find_leaf x (row_leaves c b) = Some l) by (rewrite <- (Hpv eq_refl); exact Hf).
      destruct (is_copy (l_kind l)) eqn:Hc.
      * rewrite (J3 x l Hfr Hc) in Tx. discriminate.
      * pose proof (J1 x l Hfr Hc Hlb) as Hk. rewrite Tx in Hk.
        assert (In (l_id l) (check2 fx sf L b (succs b))).
        { unfold check2. apply in_map. apply filter_In. split.
          - unfold scope_entries. apply in_or_app. right. destruct fx; auto.
            apply filter_In. split; auto. rewrite Hid, has_leaf_find_iff, Hv. reflexivity.
          - rewrite Hid. rewrite (proj2 (memb_In x (getv L b)) Hlb). simpl. rewrite <- Hk. simpl.
            unfold used. rewrite has_leaf_find_iff, Hv, Hentry_sf, Hp, Hm. simpl. exact Hnf. }
        rewrite C2 in H0. destruct H0.
  - (* a copyable binding in the successor's row: no token *)
    intros x l Hf Hc. destruct (HE b n sf Hb Hn Hrun x l Hf) as [l0 [Hlk Hk]].
    apply (proj2 (Hstate x l0 Hlk)). rewrite Hk. exact Hc.
Qed.

Lemma GJb_entry : GJb (c_entry c) g_empty.
Proof. unfold GJb. rewrite Nat.eqb_refl. reflexivity. Qed.

Lemma gpath_safe : forall rest b t k, b < N -> GJb b t -> is_walk c b rest ->
  exists t', grun_path c t b rest k = GFine t'.
Proof.
  induction rest as [|n r IH]; intros b t k Hb HJ Hw; simpl.
  - destruct (gblock_step b t Hb HJ) as [t' [A _]]. eapply gsem_events_prefix; eauto.
  - destruct (gblock_step b t Hb HJ) as [t' [A B]]. rewrite A. destruct Hw as [Hn Hw].
    destruct (B n Hn) as [Hn' HJ']. apply IH; auto.
Qed.

Lemma gpath_final : forall rest b t k t', b < N -> GJb b t -> is_walk c b rest ->
  last rest b = c_exit c -> grun_path c t b rest k = GFine t' -> gfinal_ok c t'.
Proof.
  induction rest as [|n r IH]; intros b t k t' Hb HJ Hw Hlast Hrun.
  - simpl in *. subst b. destruct HW as [We [Ws [Wn _]]]. rewrite We in Hrun. rewrite firstn_nil in Hrun. simpl in Hrun.
    unfold gblock_start in Hrun. assert (Nat.eqb (c_exit c) (c_entry c) = false) by (apply Nat.eqb_neq; auto).
    rewrite H in Hrun. inversion Hrun; subst t'. unfold GJb in HJ. rewrite H in HJ.
    destruct HJ as [J1 [J2 J3]]. split.
    + intros l Hl Hc. destruct (HX l Hl) as [l' [Hf Hk]]. rewrite <- Hk. apply (J1 _ l' Hf).
      * rewrite Hk. exact Hc.
      * apply (g_live_eq _ _ H4). left. apply g_exit_up. unfold borrowed_ids. apply in_map. exact Hl.
    + intros x Tx. pose proof (J2 x Tx) as Hl. apply (g_live_eq _ x H4) in Hl.
      destruct Hl as [Hl | [_ [m [Hm _]]]]; [apply g_exit_up; exact Hl|]. rewrite Ws in Hm. destruct Hm.
  - rewrite last_cons_default in Hlast. simpl in Hrun, Hw.
    destruct (gblock_step b t Hb HJ) as [t1 [A B]]. rewrite A in Hrun. destruct Hw as [Hn Hw].
    destruct (B n Hn) as [Hn' HJ']. apply (IH n t1 k t'); auto.
Qed.

End SoundG.
