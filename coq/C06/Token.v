(** V.C06.Token — the specification side: the token discipline of DESIGN appendix A.3, written
    independently of the checker's scopes and of liveness.  Definitions only.

    A token state says, for every leaf place id, whether the place currently holds a value
    that cannot be copied ("full").  Events are interpreted along a control-flow path:

    * use (MOVE / CONSUME / RETURN / BORROW) of a place: every non-copyable leaf must be full
      ([VUseEmpty] otherwise: use after consumption / duplication) and becomes empty (a
      borrowed place is unavailable until it is handed back); a borrowed parameter itself may
      only be used by BORROW ([VNotOwned]);
    * assignment of a place: a leaf that is full and linear (not droppable) would be
      overwritten ([VOverwrite]: silently discarded); afterwards the leaf is full;
    * an assignment statement whose target is a borrowed parameter: [VAssignBorrowed];
    * hand-back after a borrowing call: the leaf is full again;
    * an unnamed non-droppable value that is dropped: [VDropped].
    The function arguments are received at the start of the entry block.  At the exit every
    linear leaf must be empty except the leaves of borrowed parameters, and every
    non-copyable leaf of a borrowed parameter must be full ([final_ok]). *)
From Coq Require Import List Bool Arith.
From V.C09 Require Import Analysis.
From V.C06 Require Import Linearity.
Import ListNotations.

Definition tstate := nat -> bool.
Definition empty_tokens : tstate := fun _ => false.
Definition upd (t : tstate) (x : nat) (v : bool) : tstate :=
  fun y => if Nat.eqb y x then v else t y.

Inductive viol :=
| VUseEmpty (x : nat) | VOverwrite (x : nat) | VNotOwned (p : nat) | VAssignBorrowed (p : nat)
| VDropped.

Inductive outcome := Fine (t : tstate) | Bad (v : viol).

Fixpoint sem_use (t : tstate) (ls : list leaf) : outcome :=
  match ls with
  | [] => Fine t
  | l :: r =>
      if is_copy (l_kind l) then sem_use t r
      else if t (l_id l) then sem_use (upd t (l_id l) false) r
      else Bad (VUseEmpty (l_id l))
  end.

Fixpoint sem_assign (t : tstate) (ls : list leaf) : outcome :=
  match ls with
  | [] => Fine t
  | l :: r =>
      if is_copy (l_kind l) then sem_assign t r
      else if t (l_id l) && is_linear (l_kind l) then Bad (VOverwrite (l_id l))
      else sem_assign (upd t (l_id l) true) r
  end.

Fixpoint sem_fill (t : tstate) (ls : list leaf) : tstate :=
  match ls with
  | [] => t
  | l :: r => sem_fill (if is_copy (l_kind l) then t else upd t (l_id l) true) r
  end.

Definition sem_event (fin : finputs) (t : tstate) (e : event) : outcome :=
  match e with
  | EUse p k =>
      if p_inout p && negb (is_borrow k) then Bad (VNotOwned (p_id p))
      else sem_use t (leaves (p_tree p))
  | EAssign p => sem_assign t (leaves (p_tree p))
  | EShadow p => if input_is_borrowed fin (p_id p) then Bad (VAssignBorrowed (p_id p)) else Fine t
  | EReassign p => Fine (sem_fill t (leaves (p_tree p)))
  | EFail _ => Bad VDropped
  end.

Fixpoint sem_events (fin : finputs) (t : tstate) (es : list event) : outcome :=
  match es with
  | [] => Fine t
  | e :: r => match sem_event fin t e with
              | Fine t' => sem_events fin t' r
              | Bad v => Bad v
              end
  end.

Definition nth_block (c : lcfg) (b : nat) : lblock := nth b (c_blocks c) (mkLB [] [] []).

(* the state in which the events of block b start: the entry block first receives the
   function arguments *)
Definition block_start (c : lcfg) (b : nat) (t : tstate) : tstate :=
  if Nat.eqb b (c_entry c) then sem_fill t (flat_map leaves (lb_in (nth_block c b))) else t.

(* run block b, then the blocks of [rest] in turn; of the last block only the first k events *)
Fixpoint run_path (c : lcfg) (t : tstate) (b : nat) (rest : list nat) (k : nat) : outcome :=
  match rest with
  | [] => sem_events (c_inputs c) (block_start c b t) (firstn k (lb_events (nth_block c b)))
  | n :: r =>
      match sem_events (c_inputs c) (block_start c b t) (lb_events (nth_block c b)) with
      | Fine t' => run_path c t' n r k
      | Bad v => Bad v
      end
  end.

(* b -> rest is a walk along successor edges *)
Fixpoint is_walk (c : lcfg) (b : nat) (rest : list nat) : Prop :=
  match rest with
  | [] => True
  | n :: r => In n (lb_succ (nth_block c b)) /\ is_walk c n r
  end.

Definition borrowed_ids (c : lcfg) : list nat := map l_id (borrowed_leaves (c_inputs c)).

Definition final_ok (K : nat -> kind) (c : lcfg) (t : tstate) : Prop :=
  forall x, K x <> KCopy ->
    (In x (borrowed_ids c) -> t x = true) /\
    (t x = true -> K x = KLinear -> In x (borrowed_ids c)).

(** every occurrence of a leaf id carries the same kind (a variable is not re-bound at a
    different linearity kind) *)
Definition event_place (e : event) : list leaf :=
  match e with
  | EUse p _ | EAssign p | EShadow p | EReassign p => leaves (p_tree p)
  | EFail _ => []
  end.
Definition block_leaves (b : lblock) : list leaf :=
  flat_map leaves (lb_in b) ++ flat_map event_place (lb_events b).
Definition all_leaves (c : lcfg) : list leaf :=
  flat_map block_leaves (c_blocks c) ++ borrowed_leaves (c_inputs c).
Definition uniform (K : nat -> kind) (c : lcfg) : Prop :=
  forall l, In l (all_leaves c) -> l_kind l = K (l_id l).

(** shape of a CFG made by the builder: the exit block is empty and final, the entry block is
    not a jump target *)
Definition wf_shape (c : lcfg) : Prop :=
  lb_events (nth_block c (c_exit c)) = [] /\ lb_succ (nth_block c (c_exit c)) = [] /\
  c_entry c <> c_exit c /\
  (forall b, In (c_entry c) (lb_succ (nth_block c b)) -> False).

(** H_exit: every block can reach the exit along real edges *)
Inductive reaches_exit (c : lcfg) : nat -> Prop :=
| re_exit : reaches_exit c (c_exit c)
| re_step b n : In n (lb_succ (nth_block c b)) -> reaches_exit c n -> reaches_exit c b.
