(** C06 — Linearity: qubits are used exactly once on every path.

    Model: [Linearity.v] (linearity_checker.py on the core fragment, with the place-level
    liveness of C09).  Specification: [Token.v] (token discipline along paths).
    [K] gives the kind of every leaf place; [uniform K c] says a leaf id is not re-bound at a
    different kind (the proved fragment; the executable model and the tie also cover
    re-binding); [wf_shape c] is the shape of builder-made CFGs (empty final exit block,
    entry not a jump target).  Both are evaluated on every CFG the harness sees
    ([Hyps.uniformb], [Hyps.wf_shapeb]). *)
From Coq Require Import List Bool Arith.
From V.C09 Require Import Analysis.
From V.C06 Require Import Linearity Token TokenG Hyps ProofsBlock ProofsFlow ProofsSound ProofsComplete ProofsHyps ProofsFlatten.
From V.C06 Require Import ProofsBlockG ProofsSoundG ProofsNoCrash ProofsCompleteG.
Import ListNotations.

(** Soundness, unconditional on reachability of the exit, for the code with and without
    fix-1 ([fx]), for every work-list schedule of the liveness analysis: if the checker
    accepts then, starting from no tokens and receiving the arguments in the entry block,
    (1) no path prefix from the entry uses an empty place, overwrites a full linear place,
        uses a borrowed parameter other than by borrowing, assigns one, or drops an unnamed
        linear value;
    (2) every complete path entry -> exit ends with every linear leaf consumed or returned,
        except the leaves of the borrowed parameters, which are all handed back full. *)
Theorem lin_sound : forall fx c sched K, uniform K c -> wf_shape c ->
  check_cfg fx c sched = Accept ->
  (forall rest k, is_walk c (c_entry c) rest ->
     exists t, run_path c empty_tokens (c_entry c) rest k = Fine t) /\
  (forall rest k t, is_walk c (c_entry c) rest -> last rest (c_entry c) = c_exit c ->
     run_path c empty_tokens (c_entry c) rest k = Fine t -> final_ok K c t).
Proof.
  intros fx c sched K HK HW HA.
  destruct (accept_inv fx c sched HA) as [ss0 [ss [H1 [H2 [H3 [H4 [H5 H6]]]]]]].
  split.
  - intros rest k Hw.
    eapply path_safe with (ss0 := ss0) (ss := ss) (fx := fx); eauto. apply Jb_entry.
  - intros rest k t Hw Hl Hr.
    eapply path_final with (ss0 := ss0) (ss := ss) (fx := fx) (b := c_entry c); eauto. apply Jb_entry.
Qed.
Print Assumptions lin_sound.

(** the same for the entry point the harness uses (checked AST of every block) *)
Theorem lin_sound_ast : forall fx bs entry exit_ reach fin sched K,
  let c := mkLC (map flatten_block bs) entry exit_ reach fin in
  uniform K c -> wf_shape c -> check_ast fx bs entry exit_ reach fin sched = Accept ->
  (forall rest k, is_walk c entry rest -> exists t, run_path c empty_tokens entry rest k = Fine t) /\
  (forall rest k t, is_walk c entry rest -> last rest entry = exit_ ->
     run_path c empty_tokens entry rest k = Fine t -> final_ok K c t).
Proof. intros fx bs entry exit_ reach fin sched K c HK HW HA. exact (lin_sound fx c sched K HK HW HA). Qed.
Print Assumptions lin_sound_ast.

(** Exported to C01: when the checker accepts, the linear leaves live into the successors of
    a block coincide (so every successor receives the same linear places). *)
Theorem live_rows_agree : forall fx c sched K, uniform K c -> wf_shape c ->
  check_cfg fx c sched = Accept ->
  exists ss, length ss = length (c_blocks c) /\
    forall b n m x, b < length (c_blocks c) ->
      In n (lb_succ (nth_block c b)) -> In m (lb_succ (nth_block c b)) -> K x = KLinear ->
      In x (getv (live_of c ss sched) n) -> In x (getv (live_of c ss sched) m).
Proof.
  intros fx c sched K HK HW HA.
  destruct (accept_inv fx c sched HA) as [ss0 [ss [H1 [H2 [H3 [H4 [H5 H6]]]]]]].
  exists ss. split.
  - eapply len1; eauto.
  - intros b n m x. eapply succ_rows_agree with (ss0 := ss0) (fx := fx); eauto.
Qed.
Print Assumptions live_rows_agree.

(** the hypotheses are decidable, and satisfiable on a non-trivial instance: a borrowed
    parameter, a struct with two linear fields, a loop that borrows them, consumption after
    the loop *)
Theorem hyps_decidable : forall c, uniformb c = true -> wf_shapeb c = true ->
  uniform (K_of (all_leaves c)) c /\ wf_shape c.
Proof. intros c A B. split; [apply uniformb_sound | apply wf_shapeb_sound]; assumption. Qed.
Print Assumptions hyps_decidable.

Example ex_accepted : check_cfg true ex_cfg [] = Accept /\ uniformb ex_cfg = true /\ wf_shapeb ex_cfg = true.
Proof. vm_compute. auto. Qed.

Example ex_path_ok :
  exists t, run_path ex_cfg empty_tokens 0 [2; 3; 2; 3; 2; 4; 1] 0 = Fine t /\
            t 0 = true /\ t 3 = false /\ t 4 = false.
Proof. eexists. split; [vm_compute; reflexivity|]. vm_compute. auto. Qed.

(* forgetting `discard(s.b)`: rejected, and indeed the path through block 4 leaks s.b *)
Example ex_leak_rejected :
  check_cfg true ex_leak [] = RejUnused 2 [4] /\
  exists t, run_path ex_leak empty_tokens 0 [2; 4; 1] 0 = Fine t /\ t 4 = true.
Proof. split; [vm_compute; reflexivity|]. eexists. split; [vm_compute; reflexivity|]. vm_compute. reflexivity. Qed.

(** The unused-place loop of 0.21.6 as released ([fx = false]) rejects f1
    (`if c: pass; measure(q); q = 1; return 2`) although q is consumed before it is re-bound;
    with fix-1 it is accepted.  (Replayed on the real code by the corpus.) *)
Theorem released_rejects_rebinding_refuted :
  check_cfg false f1_cfg [] = RejUnused 4 [0] /\ check_cfg true f1_cfg [] = Accept /\
  exists t, run_path f1_cfg empty_tokens 0 [3; 4; 1] 0 = Fine t /\ t 0 = false.
Proof. split; [vm_compute; reflexivity|]. split; [vm_compute; reflexivity|].
  eexists. split; [vm_compute; reflexivity|]. vm_compute. reflexivity. Qed.
Print Assumptions released_rejects_rebinding_refuted.

(** Completeness of the code with fix-1 ([fx = true]) on the core fragment, under
    H_exit ([all_reach]: every block is reachable from the entry and reaches the exit along
    real edges; [c_exit_reachable] is the flag check_cfg_linearity reads): if no path violates
    the token discipline or the ownership rules -- no prefix from the entry is [Bad], and every
    complete path ends in a good exit state -- then the checker accepts, unless it crashes
    (a place in no scope: an ill-typed checked CFG, which the front end never produces).
    [events_wf]: every assignment event is followed by the visit_Assign test of its target and a
    place is handed back only after it was borrowed in the same block (the shape of
    [flat_map ev_stmt], evaluated by the harness on every CFG as [events_wfb]);
    [io_ok]: a leaf flagged as borrowed variable is a borrowed function input.
    Without H_exit the statement is false for the real checker and for the model
    (`q = qubit(); while True: pass` has no complete path and is rejected): see
    [complete_needs_h_exit]. *)
Theorem lin_complete : forall c sched K, uniform K c -> wf_shape c -> io_ok c -> events_wf c ->
  c_exit_reachable c = true -> all_reach c -> ~ violated K c ->
  check_cfg true c sched = Accept \/ crashed (check_cfg true c sched).
Proof. exact lin_complete_lemma. Qed.
Print Assumptions lin_complete.

(** for the entry point the harness uses, the structure of the event lists is a theorem, not a
    hypothesis: it is the shape of what BBLinearityChecker's traversal ([ev_stmt]) emits *)
Theorem lin_complete_ast : forall bs entry exit_ reach fin sched K,
  let c := mkLC (map flatten_block bs) entry exit_ reach fin in
  uniform K c -> wf_shape c -> io_ok c -> reach = true -> all_reach c -> ~ violated K c ->
  check_ast true bs entry exit_ reach fin sched = Accept \/
  crashed (check_ast true bs entry exit_ reach fin sched).
Proof.
  intros bs entry exit_ reach fin sched K c HK HW HI HR HA HV.
  apply (lin_complete_lemma c sched K HK HW HI (flatten_events_wf bs entry exit_ reach fin) HR HA HV).
Qed.
Print Assumptions lin_complete_ast.

(* the hypotheses of [lin_complete] are satisfiable (same instance as for soundness) *)
Example ex_complete_hyps : io_ok ex_cfg /\ events_wf ex_cfg /\ c_exit_reachable ex_cfg = true /\ all_reach ex_cfg.
Proof.
  split; [apply io_okb_sound; vm_compute; reflexivity|].
  split; [apply events_wfb_sound; vm_compute; reflexivity|].
  split; [reflexivity|].
  intros b Hb. change (length (c_blocks ex_cfg)) with 5 in Hb.
  assert (R4 : reaches_exit ex_cfg 4) by (apply re_step with (n := 1); [simpl; auto | apply (re_exit ex_cfg)]).
  assert (R2 : reaches_exit ex_cfg 2) by (apply re_step with (n := 4); [simpl; auto | exact R4]).
  destruct b as [|[|[|[|[|b]]]]]; try (exfalso; apply (Nat.lt_irrefl 5); eapply Nat.le_lt_trans; [|exact Hb]; repeat apply le_n_S; apply Nat.le_0_l).
  - split; [exists []; simpl; auto | apply re_step with (n := 2); [simpl; auto | exact R2]].
  - split; [exists [2; 4; 1]; simpl; auto 10 | apply (re_exit ex_cfg)].
  - split; [exists [2]; simpl; auto | exact R2].
  - split; [exists [2; 3]; simpl; auto 10 | apply re_step with (n := 2); [simpl; auto | exact R2]].
  - split; [exists [2; 4]; simpl; auto 10 | exact R4].
Qed.

(* the rejected variant violates the discipline, as completeness says it must: the complete
   path 0 -> 2 -> 4 -> 1 ends with the linear leaf s.b (id 4) still full *)
Example ex_leak_violates : violated (K_of (all_leaves ex_leak)) ex_leak.
Proof.
  right. exists [2; 4; 1], 0. eexists. split; [simpl; auto 10|]. split; [reflexivity|].
  split; [vm_compute; reflexivity|].
  intros F. destruct (F 4) as [_ G]; [vm_compute; discriminate|].
  assert (In 4 (borrowed_ids ex_leak)) by (apply G; vm_compute; reflexivity).
  vm_compute in H. destruct H as [H | []]. discriminate.
Qed.

(** the boundary: without H_exit completeness fails.  `def f() -> None: q = qubit(); while True: pass`
    (ids: q = 0; blocks 0 entry -> 2, 1 exit (unreachable), 2 loop -> 2): no path prefix
    violates anything and there is no complete path, yet the checker rejects q as leaked. *)
Definition wt_cfg : lcfg :=
  mkLC (map flatten_block
     [mkAB [] [SAssign [var 0 KLinear] (XCall [] [])] [2]; mkAB [] [] []; mkAB [PLeaf (lf 0 KLinear)] [] [2]])
     0 1 false [].
Theorem complete_needs_h_exit :
  check_cfg true wt_cfg [] = RejUnused 0 [0] /\ ~ reaches_exit wt_cfg 0 /\
  (forall rest k, is_walk wt_cfg 0 rest -> exists t, run_path wt_cfg empty_tokens 0 rest k = Fine t /\
                                                   last rest 0 <> 1).
Proof.
  split; [vm_compute; reflexivity|]. split.
  - assert (G : forall b, reaches_exit wt_cfg b -> b = 1).
    { intros b H. induction H as [|b n Hn Hr IH]; [reflexivity|]. subst n.
      destruct b as [|[|[|b]]]; [ | reflexivity | | ].
      - simpl in Hn. destruct Hn as [Hn | []]. discriminate.
      - simpl in Hn. destruct Hn as [Hn | []]. discriminate.
      - unfold nth_block in Hn. simpl in Hn. destruct b; destruct Hn. }
    intros H. apply G in H. discriminate.
  - assert (G : forall rest k, is_walk wt_cfg 2 rest ->
               exists t, run_path wt_cfg (upd empty_tokens 0 true) 2 rest k = Fine t /\ last rest 2 <> 1).
    { induction rest as [|n r IH]; intros k Hw.
      - eexists. split; [destruct k; reflexivity | discriminate].
      - destruct Hw as [Hn Hw]. simpl in Hn. destruct Hn as [Hn | []]. subst n.
        destruct (IH k Hw) as [t [A B]]. exists t. split; [exact A|]. rewrite last_cons_default. exact B. }
    intros rest k Hw. destruct rest as [|n r].
    + destruct k as [|[|[|k]]]; eexists; (split; [reflexivity | discriminate]).
    + destruct Hw as [Hn Hw]. simpl in Hn. destruct Hn as [Hn | []]. subst n.
      destruct (G r k Hw) as [t [A B]]. exists t. split; [exact A|]. rewrite last_cons_default. exact B.
Qed.
Print Assumptions complete_needs_h_exit.

(** * Re-binding a name at another kind (round 2)

    [lin_sound_rebind]: soundness WITHOUT [uniform].  The token state of [TokenG] records per leaf
    id the kind of the value currently held; an assignment at any kind overwrites what is held
    (a linear token: violation), so `q: qubit ... q = 1` is part of the proved fragment -- the
    code paths of fix-1 (515fe2c, the unused-place loop and shadowed input places) and fix-2
    (e387929) are inside it.  [uniform] is replaced by the typing invariants of the checked CFG,
    all decidable and evaluated on every dumped CFG: [typed] (a used leaf is bound, at the kind
    the use says), [edges_ok] (rows of successors are bound at the same kind when the
    predecessor ends), [exit_row_ok]. *)
Theorem lin_sound_rebind : forall fx c sched, wf_shape c -> typed c -> edges_ok c -> exit_row_ok c ->
  check_cfg fx c sched = Accept ->
  (forall rest k, is_walk c (c_entry c) rest ->
     exists t, grun_path c g_empty (c_entry c) rest k = GFine t) /\
  (forall rest k t, is_walk c (c_entry c) rest -> last rest (c_entry c) = c_exit c ->
     grun_path c g_empty (c_entry c) rest k = GFine t -> gfinal_ok c t).
Proof.
  intros fx c sched HW HT HE HX HA.
  destruct (accept_inv fx c sched HA) as [ss0 [ss [H1 [H2 [H3 [H4 [H5 H6]]]]]]].
  split.
  - intros rest k Hw.
    eapply gpath_safe with (ss0 := ss0) (ss := ss) (fx := fx); eauto. apply GJb_entry.
  - intros rest k t Hw Hl Hr.
    eapply gpath_final with (ss0 := ss0) (ss := ss) (fx := fx) (b := c_entry c); eauto. apply GJb_entry.
Qed.
Print Assumptions lin_sound_rebind.

(** A well-typed checked CFG never crashes the checker (goal: "Accept or crashed" -> "Accept"). *)
Theorem checker_never_crashes : forall fx c sched, wf_shape c -> typed c -> edges_ok c -> exit_row_ok c ->
  wf_idx c -> c_exit_reachable c = true -> ~ crashed (check_cfg fx c sched).
Proof. exact no_crash. Qed.
Print Assumptions checker_never_crashes.

Theorem lin_complete_strict : forall c sched K, uniform K c -> wf_shape c -> io_ok c -> events_wf c ->
  typed c -> edges_ok c -> exit_row_ok c -> wf_idx c ->
  c_exit_reachable c = true -> all_reach c -> ~ violated K c ->
  check_cfg true c sched = Accept.
Proof.
  intros c sched K HK HW HIO HEV HT HE HX HI HER HR HV.
  destruct (lin_complete_lemma c sched K HK HW HIO HEV HER HR HV) as [H | H]; [exact H|].
  exfalso. exact (no_crash true c sched HW HT HE HX HI HER H).
Qed.
Print Assumptions lin_complete_strict.

Theorem typing_decidable : forall c, typedb c = true -> edges_okb c = true -> exit_row_okb c = true ->
  wf_idxb c = true -> typed c /\ edges_ok c /\ exit_row_ok c /\ wf_idx c.
Proof.
  intros c A B C D. split; [apply typedb_sound; exact A|]. split; [apply edges_okb_sound; exact B|].
  split; [apply exit_row_okb_sound; exact C | apply wf_idxb_sound; exact D].
Qed.
Print Assumptions typing_decidable.

(* the two programs of the fixes are non-uniform, satisfy the hypotheses of [lin_sound_rebind],
   and are accepted; the variant that re-binds a qubit that was never consumed is rejected and
   indeed overwrites a linear token *)
Example rebind_programs_covered :
  (uniformb f1_cfg = false /\ wf_shapeb f1_cfg = true /\ typedb f1_cfg = true /\ edges_okb f1_cfg = true /\
   exit_row_okb f1_cfg = true /\ check_cfg true f1_cfg [] = Accept) /\
  (uniformb g1_cfg = false /\ wf_shapeb g1_cfg = true /\ typedb g1_cfg = true /\ edges_okb g1_cfg = true /\
   exit_row_okb g1_cfg = true /\ check_cfg true g1_cfg [] = Accept) /\
  (check_cfg true f1bad_cfg [] = RejUnused 0 [0] /\
   grun_path f1bad_cfg g_empty 0 [3; 4; 1] 0 = GBad (VOverwrite 0)).
Proof. vm_compute. repeat split. Qed.

(** Completeness WITHOUT [uniform], for the code with fix-1: under H_exit, if no path violates the
    [TokenG] discipline (no [GBad] prefix, every complete path ends in [gfinal_ok]) then the
    checker accepts -- also when names are re-bound at other kinds.  This is the statement the
    two repaired defects violated. *)
Theorem lin_complete_rebind : forall c sched, wf_shape c -> typed c -> edges_ok c -> exit_row_ok c ->
  wf_idx c -> io_ok c -> events_wf c -> c_exit_reachable c = true -> all_reach c -> ~ gviolated c ->
  check_cfg true c sched = Accept.
Proof. exact lin_complete_rebind_lemma. Qed.
Print Assumptions lin_complete_rebind.

Theorem lin_complete_rebind_ast : forall bs entry exit_ reach fin sched,
  let c := mkLC (map flatten_block bs) entry exit_ reach fin in
  wf_shape c -> typed c -> edges_ok c -> exit_row_ok c -> wf_idx c -> io_ok c -> reach = true ->
  all_reach c -> ~ gviolated c -> check_ast true bs entry exit_ reach fin sched = Accept.
Proof.
  intros bs entry exit_ reach fin sched c HW HT HE HX HI HIO HR HA HV.
  apply (lin_complete_rebind_lemma c sched HW HT HE HX HI HIO (flatten_events_wf bs entry exit_ reach fin) HR HA HV).
Qed.
Print Assumptions lin_complete_rebind_ast.

(** soundness and completeness together: on well-typed builder-shaped CFGs satisfying H_exit the
    repaired checker accepts exactly the CFGs no path of which violates the discipline *)
Theorem lin_exact_rebind : forall c sched, wf_shape c -> typed c -> edges_ok c -> exit_row_ok c ->
  wf_idx c -> io_ok c -> events_wf c -> c_exit_reachable c = true -> all_reach c ->
  (check_cfg true c sched = Accept <-> ~ gviolated c).
Proof.
  intros c sched HW HT HE HX HI HIO HEV HER HR. split.
  - intros HA. destruct (lin_sound_rebind true c sched HW HT HE HX HA) as [S1 S2].
    intros HG. unfold gviolated, gbad_walk, gbad_final in HG.
    destruct HG as [[rest [k [v [Hw Hb]]]] | [rest [k [t [Hw [Hl [Hf Hn]]]]]]].
    + destruct (S1 rest k Hw) as [t Ht]. congruence.
    + apply Hn. eapply S2; eauto.
  - apply lin_complete_rebind_lemma; auto.
Qed.
Print Assumptions lin_exact_rebind.

(** The released checker (without fix-1) is incomplete on exactly such a program: f1
    (`if c: pass; measure(q); q = 1; return 2`) is well typed, no path violates the discipline
    (by [lin_sound_rebind] applied to the repaired checker), and [fx = false] rejects it. *)
Theorem released_incomplete_refuted :
  typed f1_cfg /\ edges_ok f1_cfg /\ exit_row_ok f1_cfg /\ wf_shape f1_cfg /\
  ~ gviolated f1_cfg /\ check_cfg false f1_cfg [] = RejUnused 4 [0].
Proof.
  assert (HT : typed f1_cfg) by (apply typedb_sound; vm_compute; reflexivity).
  assert (HE : edges_ok f1_cfg) by (apply edges_okb_sound; vm_compute; reflexivity).
  assert (HX : exit_row_ok f1_cfg) by (apply exit_row_okb_sound; vm_compute; reflexivity).
  assert (HW : wf_shape f1_cfg) by (apply wf_shapeb_sound; vm_compute; reflexivity).
  split; [exact HT|]. split; [exact HE|]. split; [exact HX|]. split; [exact HW|]. split; [|vm_compute; reflexivity].
  assert (HA : check_cfg true f1_cfg [] = Accept) by (vm_compute; reflexivity).
  destruct (lin_sound_rebind true f1_cfg [] HW HT HE HX HA) as [S1 S2].
  intros HG. unfold gviolated, gbad_walk, gbad_final in HG.
  destruct HG as [[rest [k [v [Hw Hb]]]] | [rest [k [t [Hw [Hl [Hf Hn]]]]]]].
  - destruct (S1 rest k Hw) as [t Ht]. congruence.
  - apply Hn. eapply S2; eauto.
Qed.
Print Assumptions released_incomplete_refuted.
