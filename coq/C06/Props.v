(** C06 — Linearity: qubits are used exactly once on every path.

    Model: [Linearity.v] (linearity_checker.py on the core fragment, with the place-level
    liveness of C09).  Specification: [Token.v] (token discipline along paths).
    [K] gives the kind of every leaf place; [uniform K c] says a leaf id is not re-bound at a
    different kind (the proved fragment; the executable model and the tie also cover
    re-binding); [wf_shape c] is the shape of builder-made CFGs (empty final exit block,
    entry not a jump target).  Both are evaluated on every CFG the harness sees
    ([Hyps.uniformb], [Hyps.wf_shapeb]). *)
From Coq Require Import List Bool Arith.
From V.C09 Require Import Analysis.
From V.C06 Require Import Linearity Token Hyps ProofsBlock ProofsFlow ProofsSound ProofsHyps.
Import ListNotations.

(** Soundness, unconditional on reachability of the exit, for the code with and without
    fix-1 ([fx]), for every work-list schedule of the liveness analysis: if the checker
    accepts then, starting from no tokens and receiving the arguments in the entry block,
    (1) no path prefix from the entry uses an empty place, overwrites a full linear place,
        uses a borrowed parameter other than by borrowing, assigns one, or drops an unnamed
        linear value;
    (2) every complete path entry -> exit ends with every linear leaf consumed or returned,
        except the leaves of the borrowed parameters, which are all handed back full. *)
Theorem lin_sound : forall fx c sched K, uniform K c -> wf_shape c ->
  check_cfg fx c sched = Accept ->
  (forall rest k, is_walk c (c_entry c) rest ->
     exists t, run_path c empty_tokens (c_entry c) rest k = Fine t) /\
  (forall rest k t, is_walk c (c_entry c) rest -> last rest (c_entry c) = c_exit c ->
     run_path c empty_tokens (c_entry c) rest k = Fine t -> final_ok K c t).
Proof.
  intros fx c sched K HK HW HA.
  destruct (accept_inv fx c sched HA) as [ss0 [ss [H1 [H2 [H3 [H4 [H5 H6]]]]]]].
  split.
  - intros rest k Hw.
    eapply path_safe with (ss0 := ss0) (ss := ss) (fx := fx); eauto. apply Jb_entry.
  - intros rest k t Hw Hl Hr.
    eapply path_final with (ss0 := ss0) (ss := ss) (fx := fx) (b := c_entry c); eauto. apply Jb_entry.
Qed.
Print Assumptions lin_sound.

(** the same for the entry point the harness uses (checked AST of every block) *)
Theorem lin_sound_ast : forall fx bs entry exit_ reach fin sched K,
  let c := mkLC (map flatten_block bs) entry exit_ reach fin in
  uniform K c -> wf_shape c -> check_ast fx bs entry exit_ reach fin sched = Accept ->
  (forall rest k, is_walk c entry rest -> exists t, run_path c empty_tokens entry rest k = Fine t) /\
  (forall rest k t, is_walk c entry rest -> last rest entry = exit_ ->
     run_path c empty_tokens entry rest k = Fine t -> final_ok K c t).
Proof. intros fx bs entry exit_ reach fin sched K c HK HW HA. exact (lin_sound fx c sched K HK HW HA). Qed.
Print Assumptions lin_sound_ast.

(** Exported to C01: when the checker accepts, the linear leaves live into the successors of
    a block coincide (so every successor receives the same linear places). *)
Theorem live_rows_agree : forall fx c sched K, uniform K c -> wf_shape c ->
  check_cfg fx c sched = Accept ->
  exists ss, length ss = length (c_blocks c) /\
    forall b n m x, b < length (c_blocks c) ->
      In n (lb_succ (nth_block c b)) -> In m (lb_succ (nth_block c b)) -> K x = KLinear ->
      In x (getv (live_of c ss sched) n) -> In x (getv (live_of c ss sched) m).
Proof.
  intros fx c sched K HK HW HA.
  destruct (accept_inv fx c sched HA) as [ss0 [ss [H1 [H2 [H3 [H4 [H5 H6]]]]]]].
  exists ss. split.
  - eapply len1; eauto.
  - intros b n m x. eapply succ_rows_agree with (ss0 := ss0) (fx := fx); eauto.
Qed.
Print Assumptions live_rows_agree.

(** the hypotheses are decidable, and satisfiable on a non-trivial instance: a borrowed
    parameter, a struct with two linear fields, a loop that borrows them, consumption after
    the loop *)
Theorem hyps_decidable : forall c, uniformb c = true -> wf_shapeb c = true ->
  uniform (K_of (all_leaves c)) c /\ wf_shape c.
Proof. intros c A B. split; [apply uniformb_sound | apply wf_shapeb_sound]; assumption. Qed.
Print Assumptions hyps_decidable.

Example ex_accepted : check_cfg true ex_cfg [] = Accept /\ uniformb ex_cfg = true /\ wf_shapeb ex_cfg = true.
Proof. vm_compute. auto. Qed.

Example ex_path_ok :
  exists t, run_path ex_cfg empty_tokens 0 [2; 3; 2; 3; 2; 4; 1] 0 = Fine t /\
            t 0 = true /\ t 3 = false /\ t 4 = false.
Proof. eexists. split; [vm_compute; reflexivity|]. vm_compute. auto. Qed.

(* forgetting `discard(s.b)`: rejected, and indeed the path through block 4 leaks s.b *)
Example ex_leak_rejected :
  check_cfg true ex_leak [] = RejUnused 2 [4] /\
  exists t, run_path ex_leak empty_tokens 0 [2; 4; 1] 0 = Fine t /\ t 4 = true.
Proof. split; [vm_compute; reflexivity|]. eexists. split; [vm_compute; reflexivity|]. vm_compute. reflexivity. Qed.

(** The unused-place loop of 0.21.6 as released ([fx = false]) rejects f1
    (`if c: pass; measure(q); q = 1; return 2`) although q is consumed before it is re-bound;
    with fix-1 it is accepted.  (Replayed on the real code by the corpus.) *)
Theorem released_rejects_rebinding_refuted :
  check_cfg false f1_cfg [] = RejUnused 4 [0] /\ check_cfg true f1_cfg [] = Accept /\
  exists t, run_path f1_cfg empty_tokens 0 [3; 4; 1] 0 = Fine t /\ t 0 = false.
Proof. split; [vm_compute; reflexivity|]. split; [vm_compute; reflexivity|].
  eexists. split; [vm_compute; reflexivity|]. vm_compute. reflexivity. Qed.
Print Assumptions released_rejects_rebinding_refuted.
